(* C07 — model of crypto.ComputeRoot (crypto/merkletree.go) and of the part of
   BlockChain.CheckBlockSanity (blockchain/blockvalidator.go) that binds the
   transaction list to the header: first-and-only coinbase, no duplicate
   transaction id, merkle root equality.

   The hash type and the parent function H2 (ComputeParent: SHA-256d of the
   64-byte concatenation) are Section variables: every definition and theorem
   holds for an arbitrary hash.  No proofs in this file. *)
From Coq Require Import List Bool Arith.
Import ListNotations.

Section Merkle.
  Variable hash : Type.
  Variable hash_eq_dec : forall a b : hash, {a = b} + {a <> b}.
  Variable H2 : hash -> hash -> hash.

  (* levelUp: pair up neighbours; an odd last node is paired with itself. *)
  Fixpoint level (l : list hash) : list hash :=
    match l with
    | a :: b :: r => H2 a b :: level r
    | [a] => [H2 a a]
    | [] => []
    end.

  (* ComputeRoot: error on the empty list, the single hash itself for length 1,
     otherwise levelUp until one node is left (NewMerkleTree's loop
     [for len(nodes) > 1]).  Fuel [length l] always suffices. *)
  Fixpoint root_fuel (fuel : nat) (l : list hash) {struct fuel} : option hash :=
    match l with
    | [] => None
    | [a] => Some a
    | _ =>
      match fuel with
      | O => None
      | S f => root_fuel f (level l)
      end
    end.

  Definition merkle_root (l : list hash) : option hash := root_fuel (length l) l.

  (* A transaction as CheckBlockSanity sees it here: its id (tx.Hash()) and
     whether it is a coinbase (tx.IsCoinBaseTx()). *)
  Definition tx : Type := (hash * bool)%type.
  Definition tx_id (t : tx) : hash := fst t.
  Definition tx_cb (t : tx) : bool := snd t.

  Definition hash_eqb (a b : hash) : bool := if hash_eq_dec a b then true else false.

  Fixpoint mem (x : hash) (l : list hash) : bool :=
    match l with [] => false | y :: r => hash_eqb x y || mem x r end.

  (* the [existingTxIDs] loop: true iff some id occurs twice *)
  Fixpoint has_dup (seen : list hash) (l : list hash) : bool :=
    match l with
    | [] => false
    | x :: r => mem x seen || has_dup (x :: seen) r
    end.

  Inductive verdict :=
  | Accept
  | RejNoTx            (* "block does not contain any transactions" *)
  | RejFirstNotCoinbase
  | RejSecondCoinbase
  | RejDuplicateTx
  | RejMerkleRoot.

  (* The checks in the order CheckBlockSanity performs them. *)
  Definition check_block_sanity_core (hdr_root : hash) (txs : list tx) : verdict :=
    match txs with
    | [] => RejNoTx
    | t0 :: rest =>
      if negb (tx_cb t0) then RejFirstNotCoinbase
      else if existsb tx_cb rest then RejSecondCoinbase
      else if has_dup [] (map tx_id txs) then RejDuplicateTx
      else match merkle_root (map tx_id txs) with
           | None => RejMerkleRoot
           | Some r => if hash_eqb hdr_root r then Accept else RejMerkleRoot
           end
    end.

  Definition accepted (hdr_root : hash) (txs : list tx) : Prop :=
    check_block_sanity_core hdr_root txs = Accept.

  (* ---- the vocabulary of the theorems ---- *)

  (* an explicit collision of the parent function *)
  Definition collision : Prop :=
    exists a b c d, (a, b) <> (c, d) /\ H2 a b = H2 c d.

  (* a transaction id of [l] that is also the hash of an interior node
     (the 64-byte leaf / interior-node confusion) *)
  Definition leaf_is_node (l : list hash) : Prop :=
    exists x a b, In x l /\ x = H2 a b.

  Definition anomaly (l l' : list tx) : Prop :=
    collision \/ leaf_is_node (map tx_id l) \/ leaf_is_node (map tx_id l').

  (* single mutations of a transaction list *)
  Inductive single_mutation : list tx -> list tx -> Prop :=
  | mut_change l1 t t' l2 : t <> t' ->
      single_mutation (l1 ++ t :: l2) (l1 ++ t' :: l2)
  | mut_remove l1 t l2 :
      single_mutation (l1 ++ t :: l2) (l1 ++ l2)
  | mut_swap l1 t l2 u l3 :      (* exchange two positions *)
      single_mutation (l1 ++ t :: l2 ++ u :: l3) (l1 ++ u :: l2 ++ t :: l3)
  | mut_duplicate l1 l2 t :      (* insert a copy of a transaction of the block anywhere *)
      In t (l1 ++ l2) ->
      single_mutation (l1 ++ l2) (l1 ++ t :: l2)
  | mut_insert l1 l2 t :         (* insert any transaction anywhere *)
      single_mutation (l1 ++ l2) (l1 ++ t :: l2).
End Merkle.

