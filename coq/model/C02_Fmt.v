(* C02/C04 — wire-format DSL and its interpreter.

   A descriptor [fmt] says how one Go [Deserialize] method walks its input:
   which fixed-width integers, raw arrays, canonical varints, length-prefixed
   byte strings and count-prefixed lists it reads, in which order, which
   branches it takes on previously read discriminants (transaction type,
   payload version, proposal type, ...) and — for every count-prefixed list —
   how the Go code allocates the slice:

     NoPre   append in a loop                        (for i < n { x = append(x, e) })
     PreLen  make([]T, n) before the loop            (count-sized allocation)
     PreCap  make([]T, 0, n) before the loop         (count-sized allocation)

   [decode] is the interpreter: it returns the Go outcome (value / error /
   panic) together with an allocation meter (bytes requested from the
   allocator as a function of the input, Go's constants included in the
   per-element sizes [esz] given by the descriptor).  [encode] is the matching
   serializer, [wt] says when a value is one the serializer accepts.

   No proofs here (see proof/C02_Safe.v, proof/C04_Roundtrip.v). *)
From Coq Require Import NArith List Bool.
From ELA Require Import lib.GoSem lib.Bytes lib.VarInt.
Import ListNotations.
Local Open Scope N_scope.

Inductive cnt := CVar | CW (w : nat).          (* how a count is encoded: varint or w-byte LE *)
Inductive pre := NoPre | PreLen | PreCap.      (* how the Go loop allocates *)
Inductive boolk := BNZ | BEq1.                 (* byte -> bool: b != 0   |   b == 1 *)

Inductive fmt :=
| FUnit                                        (* reads nothing *)
| FFail                                        (* always returns an error *)
| FU (w : nat)                                 (* w-byte little-endian unsigned *)
| FBool (k : boolk)
| FFix (n : nat)                               (* n raw bytes (Uint256, Uint168, [16]byte ...) *)
| FVarUint                                     (* canonical varint *)
| FDropVarUint                                 (* a varint the decoder reads and discards and the
                                                  serializer never writes (Voting, version >= 2) *)
| FVarBytes (max : N)                          (* ReadVarBytes(r, max, _) / ReadVarString *)
| FTimeMs                                      (* int64 ns timestamp; "ts % 1e6 > 0" is an error; stored
                                                  truncated to milliseconds (dpos msg.Version) *)
| FTailU8List                                  (* optional tail of msg.FilterLoad: nothing left -> empty list;
                                                  else a varint count and up to count bytes, the loop
                                                  ending silently at EOF *)
| FSwallowHead (onfail : bytes) (body : fmt)   (* body starts with a varint count; if reading that count
                                                  fails the decoder returns nil (dpos ConsensusStatus);
                                                  [onfail] is what the object then serializes to *)
| FSkipOpt                                     (* r.Read(make([]byte,1)) with the result ignored *)
| FSeq (a b : fmt)
| FCounted (c : cnt) (asint : bool) (bound : option N) (p : pre) (esz : N) (e : fmt)
     (* count; [asint]: the loop is "for i := 0; i < int(count)" (a count
        >= 2^63 gives zero iterations); [bound]: "if count > b { return err }";
        [esz]: bytes of Go memory per element (slice slot + pointed-to object) *)
| FTag (w : nat) (nz : bool) (body : fmt)      (* read a w-byte discriminant (nz: normalised to 0/1 as a Go bool), push it, decode body *)
| FCase (i : nat) (n : N) (a b : fmt)          (* if the i-th enclosing discriminant == n then a else b *)
| FCaseGe (i : nat) (n : N) (a b : fmt).       (* if the i-th enclosing discriminant >= n then a else b *)

Inductive value :=
| VUnit
| VN (n : N)
| VB (b : bytes)
| VPair (a b : value)
| VL (l : list value)
| VTag (t : N) (v : value).

Definition ctx := list N.
Definition sel (i : nat) (c : ctx) : N := nth i c 0.

Definition str_max : N := 16777216.            (* common.MaxVarStringLength *)
Definition FVarString : fmt := FVarBytes str_max.

(* ------------------------------------------------------------------ decode *)

Definition dres := mres (value * bytes).

Definition cnt_bytes (c : cnt) : nat := match c with CVar => 1 | CW w => w end.
Definition cnt_cost (c : cnt) : N := match c with CVar => 9 | CW w => N.of_nat w end.

Definition read_cnt (c : cnt) (bs : bytes) : option (N * bytes) :=
  match c with
  | CVar => varint_dec bs
  | CW w => match take w bs with Some (h, t) => Some (le_val h, t) | None => None end
  end.

Definition iter_cost (p : pre) (esz : N) : N :=
  match p with NoPre => 8 * esz | _ => 0 end.

(* the element loop: k remaining iterations; fuel bounds the recursion (each
   iteration of a well-formed descriptor consumes at least one byte, so
   S (length input) is never exhausted) *)
Fixpoint loop (de : bytes -> dres) (ic : N) (fuel : nat) (k : N) (bs : bytes)
  : mres (list value * bytes) :=
  if k =? 0 then (Ok ([], bs), 0) else
  match fuel with
  | O => (Err, 0)
  | S fuel' =>
    match de bs with
    | (Ok (v, rest), m) =>
      match loop de ic fuel' (k - 1) rest with
      | (Ok (vs, rest'), m') => (Ok (v :: vs, rest'), m + ic + m')
      | (Err, m') => (Err, m + ic + m')
      | (Panic, m') => (Panic, m + ic + m')
      end
    | (Err, m) => (Err, m)
    | (Panic, m) => (Panic, m)
    end
  end.

(* dtime.Int64ToTime followed by UnixNano on the 64-bit pattern v *)
Definition ms_norm (v : N) : option N :=
  if v <? 9223372036854775808 then (if 0 <? v mod 1000000 then None else Some v)
  else Some ((v + (18446744073709551616 - v) mod 1000000) mod 18446744073709551616).

Definition tagv (nz : bool) (h : bytes) : N :=
  if nz then (if le_val h =? 0 then 0 else 1) else le_val h.

Fixpoint decode (f : fmt) (c : ctx) (bs : bytes) : dres :=
  match f with
  | FUnit => (Ok (VUnit, bs), 0)
  | FFail => (Err, 0)
  | FU w =>
    match take w bs with
    | Some (h, t) => (Ok (VN (le_val h), t), N.of_nat w)
    | None => (Err, N.of_nat w)
    end
  | FBool k =>
    match bs with
    | b :: t => (Ok (VN (match k with BNZ => if b =? 0 then 0 else 1
                                  | BEq1 => if b =? 1 then 1 else 0 end), t), 1)
    | [] => (Err, 1)
    end
  | FFix n =>
    match take n bs with
    | Some (h, t) => (Ok (VB h, t), N.of_nat n)
    | None => (Err, N.of_nat n)
    end
  | FVarUint =>
    match varint_dec bs with
    | Some (v, t) => (Ok (VN v, t), 9)
    | None => (Err, 9)
    end
  | FDropVarUint =>
    match varint_dec bs with
    | Some (_, t) => (Ok (VUnit, t), 9)
    | None => (Err, 9)
    end
  | FVarBytes max =>
    match varint_dec bs with
    | Some (n, t) =>
      if max <? n then (Err, 9)
      else match take_N n t with        (* b := make([]byte, n); io.ReadFull(r, b) *)
           | Some (h, t') => (Ok (VB h, t'), 33 + n)
           | None => (Err, 33 + n)
           end
    | None => (Err, 9)
    end
  | FTimeMs =>
    match take 8 bs with
    | Some (h, t) => match ms_norm (le_val h) with
                     | Some v => (Ok (VN v, t), 8)
                     | None => (Err, 8)
                     end
    | None => (Err, 8)
    end
  | FTailU8List =>
    match bs with
    | [] => (Ok (VL [], []), 0)
    | _ => match varint_dec bs with
           | Some (n, t) => let (h, t') := take_upto t n in
                            (Ok (VL (map VN h), t'), 9 + 8 * N.of_nat (length h))
           | None =>
             (* a lone discriminant: io.ReadFull of the value reads nothing and
                returns io.EOF, which the decoder treats as "no tail" *)
             if (match bs with [d] => 253 <=? d | _ => false end)
             then (Ok (VL [], []), 9) else (Err, 9)
           end
    end
  | FSwallowHead _ body =>
    match varint_dec bs with
    | None => (Ok (VTag 0 VUnit, skipn (varint_fail_consumed bs) bs), 0)
    | Some _ =>
      match decode body c bs with
      | (Ok (v, rest), m) => (Ok (VTag 1 v, rest), m)
      | (Err, m) => (Err, m)
      | (Panic, m) => (Panic, m)
      end
    end
  | FSkipOpt =>
    match bs with
    | _ :: t => (Ok (VUnit, t), 0)
    | [] => (Ok (VUnit, []), 0)
    end
  | FSeq a b =>
    match decode a c bs with
    | (Ok (va, rest), ma) =>
      match decode b c rest with
      | (Ok (vb, rest'), mb) => (Ok (VPair va vb, rest'), ma + mb)
      | (Err, mb) => (Err, ma + mb)
      | (Panic, mb) => (Panic, ma + mb)
      end
    | (Err, ma) => (Err, ma)
    | (Panic, ma) => (Panic, ma)
    end
  | FCounted ck asint bound p esz e =>
    match read_cnt ck bs with
    | None => (Err, cnt_cost ck)
    | Some (n, rest) =>
      if (match bound with Some b => b <? n | None => false end) then (Err, cnt_cost ck)
      else if (match p with NoPre => false | _ => negb (makeslice_ok n esz) end)
      then (Panic, cnt_cost ck)                   (* panic: makeslice: len/cap out of range *)
      else
        let pc := match p with NoPre => 0 | _ => n * esz end in
        let iters := if asint && (max_int <? n) then 0 else n in
        match loop (decode e c) (iter_cost p esz) (S (length rest)) iters rest with
        | (Ok (vs, rest'), m) => (Ok (VL vs, rest'), cnt_cost ck + pc + m)
        | (Err, m) => (Err, cnt_cost ck + pc + m)
        | (Panic, m) => (Panic, cnt_cost ck + pc + m)
        end
    end
  | FTag w nz body =>
    match take w bs with
    | Some (h, t) =>
      match decode body (tagv nz h :: c) t with
      | (Ok (v, rest), m) => (Ok (VTag (tagv nz h) v, rest), N.of_nat w + m)
      | (Err, m) => (Err, N.of_nat w + m)
      | (Panic, m) => (Panic, N.of_nat w + m)
      end
    | None => (Err, N.of_nat w)
    end
  | FCase i n a b => if sel i c =? n then decode a c bs else decode b c bs
  | FCaseGe i n a b => if n <=? sel i c then decode a c bs else decode b c bs
  end.

(* ------------------------------------------------------------------ encode *)

Definition write_cnt (c : cnt) (n : N) : bytes :=
  match c with CVar => varint_enc n | CW w => le_enc w n end.

Fixpoint encode (f : fmt) (c : ctx) (v : value) : bytes :=
  match f, v with
  | FU w, VN n => le_enc w n
  | FBool _, VN n => [n]
  | FFix _, VB b => b
  | FVarUint, VN n => varint_enc n
  | FVarBytes _, VB b => varint_enc (N.of_nat (length b)) ++ b
  | FTimeMs, VN n => le_enc 8 n
  | FTailU8List, VL vs => varint_enc (N.of_nat (length vs)) ++ map (fun v => match v with VN n => n | _ => 0 end) vs
  | FSwallowHead onfail body, VTag t v' => if t =? 0 then onfail else encode body c v'
  | FSkipOpt, _ => [1]
  | FSeq a b, VPair va vb => encode a c va ++ encode b c vb
  | FCounted ck _ _ _ _ e, VL vs =>
      write_cnt ck (N.of_nat (length vs)) ++ flat_map (encode e c) vs
  | FTag w _ body, VTag t v' => le_enc w t ++ encode body (t :: c) v'
  | FCase i n a b, _ => if sel i c =? n then encode a c v else encode b c v
  | FCaseGe i n a b, _ => if n <=? sel i c then encode a c v else encode b c v
  | _, _ => []
  end.

(* well-typed values: exactly those [encode] turns into bytes that [decode]
   reads back (proof/C04_Roundtrip.v) *)
Definition cnt_lim (c : cnt) : N := match c with CVar => 18446744073709551616 | CW w => pow256 w end.

Fixpoint wt (f : fmt) (c : ctx) (v : value) : bool :=
  match f, v with
  | FUnit, VUnit => true
  | FU w, VN n => n <? pow256 w
  | FBool _, VN n => n <? 2
  | FFix k, VB b => Nat.eqb (length b) k
  | FVarUint, VN n => n <? 18446744073709551616
  | FVarBytes max, VB b => (N.of_nat (length b) <=? max) && (N.of_nat (length b) <? 18446744073709551616)
  | FSkipOpt, VUnit => true
  | FTimeMs, VN n => (n <? 18446744073709551616) && match ms_norm n with Some m => m =? n | None => false end
  | FTailU8List, VL vs => (N.of_nat (length vs) <? 18446744073709551616) &&
                          forallb (fun v => match v with VN n => n <? 256 | _ => false end) vs
  | FSwallowHead _ body, VTag t v' => (t =? 1) && wt body c v'
  | FSeq a b, VPair va vb => wt a c va && wt b c vb
  | FCounted ck asint bound p esz e, VL vs =>
      let n := N.of_nat (length vs) in
      (n <? cnt_lim ck)
      && (match bound with Some b => n <=? b | None => true end)
      && (if asint then n <=? max_int else true)
      && (match p with NoPre => true | _ => makeslice_ok n esz end)
      && forallb (wt e c) vs
  | FTag w nz body, VTag t v' => (t <? (if nz then N.min 2 (pow256 w) else pow256 w)) && wt body (t :: c) v'
  | FCase i n a b, _ => if sel i c =? n then wt a c v else wt b c v
  | FCaseGe i n a b, _ => if n <=? sel i c then wt a c v else wt b c v
  | _, _ => false
  end.

(* ------------------------------------------------------- static analysis *)

Definition big : N := 4294967296.

(* least number of bytes a successful decode consumes *)
Fixpoint minsz (f : fmt) : N :=
  match f with
  | FUnit | FSkipOpt | FTailU8List | FSwallowHead _ _ => 0
  | FTimeMs => 8
  | FFail => big
  | FU w => N.of_nat w
  | FBool _ => 1
  | FFix n => N.of_nat n
  | FVarUint | FDropVarUint | FVarBytes _ => 1
  | FSeq a b => minsz a + minsz b
  | FCounted ck _ _ _ _ _ => N.of_nat (cnt_bytes ck)
  | FTag w _ body => N.of_nat w + minsz body
  | FCase _ _ a b | FCaseGe _ _ a b => N.min (minsz a) (minsz b)
  end.

(* allocation discipline: every loop element consumes at least one byte, and
   every count-sized allocation is guarded by a constant bound small enough
   for makeslice *)
(* the descriptor begins by reading a varint count *)
Fixpoint starts_varint (f : fmt) : bool :=
  match f with
  | FCounted CVar _ _ _ _ _ => true
  | FSeq a _ => starts_varint a
  | _ => false
  end.

Fixpoint wf_alloc (f : fmt) : bool :=
  match f with
  | FSeq a b | FCase _ _ a b | FCaseGe _ _ a b => wf_alloc a && wf_alloc b
  | FTag _ _ body => wf_alloc body
  | FSwallowHead _ body => wf_alloc body && starts_varint body
  | FCounted ck _ bound p esz e =>
      (1 <=? N.of_nat (cnt_bytes ck)) && (1 <=? minsz e) && wf_alloc e &&
      match p with
      | NoPre => true
      | _ => match bound with Some b => makeslice_ok b esz | None => false end
      end
  | _ => true
  end.

(* meter <= kf f * consumed on success; <= kf f * |input| + cf f on failure.
   A list element costs its own decode plus the slice slot / appended copy / pointed-to
   object (esz, 8*esz for append growth), spread over the >= minsz e bytes it consumes. *)
Fixpoint kf (f : fmt) : N :=
  match f with
  | FUnit | FFail | FSkipOpt => 0
  | FU _ | FBool _ | FFix _ | FTimeMs => 1
  | FTailU8List => 9
  | FSwallowHead _ body => kf body
  | FVarUint | FDropVarUint => 9
  | FVarBytes _ => 33
  | FSeq a b | FCase _ _ a b | FCaseGe _ _ a b => N.max (kf a) (kf b)
  | FCounted _ _ _ _ esz e => 11 + esz / minsz e + (8 * esz) / minsz e + kf e
  | FTag _ _ body => N.max 1 (kf body)
  end.

Fixpoint cf (f : fmt) : N :=
  match f with
  | FUnit | FFail | FSkipOpt => 0
  | FU w => N.of_nat w
  | FBool _ => 1
  | FFix n => N.of_nat n
  | FVarUint | FDropVarUint | FTailU8List => 9
  | FTimeMs => 8
  | FSwallowHead _ body => cf body
  | FVarBytes max => 33 + max
  | FSeq a b | FCase _ _ a b | FCaseGe _ _ a b => N.max (cf a) (cf b)
  | FCounted ck _ bound p esz e =>
      cnt_cost ck + cf e + match p, bound with
                 | NoPre, _ => 0
                 | _, Some b => b * esz
                 | _, None => 0
                 end
  | FTag w _ body => N.of_nat w + cf body
  end.

(* descriptors whose serializer writes everything the decoder reads *)
Fixpoint nodrop (f : fmt) : bool :=
  match f with
  | FDropVarUint | FSwallowHead _ _ => false
  | FSeq a b | FCase _ _ a b | FCaseGe _ _ a b => nodrop a && nodrop b
  | FCounted _ _ _ _ _ e => nodrop e
  | FTag _ _ body => nodrop body
  | _ => true
  end.

(* helpers for writing descriptors *)
Fixpoint fseq (l : list fmt) : fmt :=
  match l with
  | [] => FUnit
  | [a] => a
  | a :: r => FSeq a (fseq r)
  end.

Definition U8 := FU 1.
Definition U16 := FU 2.
Definition U32 := FU 4.
Definition U64 := FU 8.
Definition H256 := FFix 32.
Definition H168 := FFix 21.
(* append loop over a varint count *)
Definition list_var (esz : N) (e : fmt) : fmt := FCounted CVar false None NoPre esz e.
