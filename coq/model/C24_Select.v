(* C24 — model of the random-candidate choice and of the producer orderings of
   dpos/state/arbitrators.go (getCandidateIndexAtRandom after the fix,
   getSortedProducers, getRandomDposV2Producers).  Executable, no proofs.

   Go's generator (math/rand rngSource) is not re-implemented: a draw is an
   oracle [draw seed n] = first Intn(n) of a fresh source seeded with seed, and
   [stream seed ns] = the successive Intn values for the bounds ns.  The
   correspondence cases carry the oracle's values, computed by the harness
   with an independent rand.New(rand.NewSource(seed)). *)
From Coq Require Import ZArith List Bool.
Import ListNotations.
Local Open Scope Z_scope.

(* Readi64: little-endian two's-complement int64 of 8 bytes *)
Definition le64 (bs : list Z) : Z :=
  let u := fold_right (fun b acc => b + 256 * acc) 0 bs in
  if u <? 2 ^ 63 then u else u - 2 ^ 64.

Inductive outcome := Idx (i : Z) | ErrNoBlock | ErrNotEnough.

(* number of candidates the index is drawn among *)
Definition cand_n (voted unclaimed normal cands : Z) : option Z :=
  let count := voted - unclaimed - (normal - 1) in
  if count <? 1 then None else Some (Z.min count (cands + 1)).

(* hash8 = bytes 24..31 of the hash of block height-1 (None: block not found) *)
Definition select (draw : Z -> Z -> Z) (hash8 : option (list Z)) (voted unclaimed normal cands : Z) : outcome :=
  match hash8 with
  | None => ErrNoBlock
  | Some bs =>
    match cand_n voted unclaimed normal cands with
    | None => ErrNotEnough
    | Some n => Idx (draw (le64 bs) n)
    end
  end.

(* ---- a world with a process-global source, to state schedule independence.
   [G] is the state of the global source, [others] what other goroutines do to
   it between the moment the selection obtains its seed and the moment it
   draws. *)
Inductive other_op := OSeed (s : Z) | OIntn (n : Z).

Section World.
  Variable G : Type.
  Variable g_seed : Z -> G -> G.
  Variable g_intn : Z -> G -> Z * G.
  Variable draw : Z -> Z -> Z.          (* local source: New(NewSource s).Intn n *)

  Definition run_other (o : other_op) (g : G) : G :=
    match o with OSeed s => g_seed s g | OIntn n => snd (g_intn n g) end.
  Definition run_others (os : list other_op) (g : G) : G := fold_left (fun g o => run_other o g) os g.

  (* the code as repaired: a local source; the global source is only touched by the others *)
  Definition select_local (between : list other_op) (g : G) hash8 voted unclaimed normal cands : outcome * G :=
    (select draw hash8 voted unclaimed normal cands, run_others between g).

  (* the code as it was: rand.Seed(seed) ... rand.Intn(n) on the global source *)
  Definition select_global (between : list other_op) (g : G) (hash8 : option (list Z)) voted unclaimed normal cands : outcome * G :=
    match hash8 with
    | None => (ErrNoBlock, g)
    | Some bs =>
      let g1 := g_seed (le64 bs) g in
      match cand_n voted unclaimed normal cands with
      | None => (ErrNotEnough, g1)
      | Some n => let g2 := run_others between g1 in
                  let '(i, g3) := g_intn n g2 in (Idx i, g3)
      end
    end.
End World.

(* ---- producer ordering: votes descending, node public key ascending *)
Definition prod := (Z * Z)%type.    (* votes, node public key (equal-length keys as numbers) *)
Definition before (a b : prod) : bool :=
  if fst a =? fst b then snd a <? snd b else fst b <? fst a.

Fixpoint insert (x : prod) (l : list prod) : list prod :=
  match l with
  | [] => [x]
  | y :: r => if before y x then y :: insert x r else x :: y :: r
  end.
Definition sort_producers (l : list prod) : list prod := fold_right insert [] l.
(* GetVotedProducers keeps the producers that have votes; getSortedProducers sorts them *)
Definition sorted_voted (l : list prod) : list prod :=
  sort_producers (filter (fun p => 0 <? fst p) l).

(* ---- getRandomDposV2Producers: keys = sorted CRC keys ++ voted keys after
   the unclaimed ones; when more than [count] keys, [count] of them are drawn
   without replacement with the successive values [draws]. *)
Fixpoint remove_nth {A} (n : nat) (l : list A) : list A :=
  match l, n with
  | [], _ => []
  | _ :: r, O => r
  | x :: r, S k => x :: remove_nth k r
  end.

Fixpoint pick (draws : list Z) (keys : list Z) : list Z * list Z :=
  match draws with
  | [] => ([], keys)
  | d :: ds =>
    let k := nth (Z.to_nat d) keys 0 in
    let '(sel, rest) := pick ds (remove_nth (Z.to_nat d) keys) in
    (k :: sel, rest)
  end.

Definition random_v2 (draws : list Z) (keys : list Z) (count : Z) : list Z :=
  if count <? Z.of_nat (length keys)
  then let '(sel, rest) := pick (firstn (Z.to_nat count) draws) keys in sel ++ rest
  else keys.

(* the bounds with which the local source is asked: len, len-1, ... *)
Fixpoint bounds (len : Z) (k : nat) : list Z :=
  match k with O => [] | S k' => len :: bounds (len - 1) k' end.

(* ---- GetTotalDPoSV2VoteRights: a float64 running sum over two nested Go maps
   (stake address -> refer key -> vote).  Each addend is float64(Fixed64(..)),
   an integer; [round] is float64 rounding of the exact sum of two integers
   (binary64 represents every integer of magnitude <= 2^53 exactly). *)
Section Rights.
  Variable round : Z -> Z.
  Definition fadd (a x : Z) : Z := round (a + x).
  Definition inner_total (l : list Z) : Z := fold_left fadd l 0.
  Definition vote_rights_from (a : Z) (stakes : list (list Z)) : Z :=
    fold_left (fun acc l => fadd acc (inner_total l)) stakes a.
  Definition vote_rights (stakes : list (list Z)) : Z := vote_rights_from 0 stakes.
End Rights.

Definition zsum (l : list Z) : Z := fold_right Z.add 0 l.
Definition abs_sum (l : list Z) : Z := fold_right (fun x a => Z.abs x + a) 0 l.
