(* C23 model: the key-frame codecs of dpos/state/keyframe.go, dpos/state/state.go
   (Producer), cr/state/keyframe.go (KeyFrame, CRMember) and the payload
   structs they embed, written with the combinators of lib/C23_codec.v.
   Executable, no proofs here.

   Each definition lists the fields in WIRE order (the order of the calls in
   Serialize), which differs from the declaration order of the Go struct in
   several places.  Values are nested pairs in that order; Go maps are
   strictly key-sorted association lists (keys compared as byte strings, i.e.
   bytes.Compare, uint64 keys numerically); map[K]struct{} is a map to unit.
   Fixed64 (int64) travels as its 64 two's-complement bits, an N below 2^64.

   The model mirrors the code after the repair
     "fix: key-frame Deserialize stores the withdrawable-transaction entries
      it reads"
   (before it, deserializeWithdrawableTransactionsMap decoded the entries of
   WithdrawableTxInfo / VotesWithdrawableTxInfo and dropped them). *)
From Coq Require Import List NArith Bool.
From ELA Require Import lib.Bytes lib.VarInt lib.C23_codec.
Import ListNotations.
Local Open Scope N_scope.

Definition u8 := c_uint 1.
Definition u16 := c_uint 2.
Definition u32 := c_uint 4.
Definition u64 := c_uint 8.
Definition h168 := c_fixed 21.   (* common.Uint168 *)
Definition h256 := c_fixed 32.   (* common.Uint256 *)

Definition smap {V} (cv : codec V) := c_map ord_bytes c_string cv.   (* map[string]V *)
Definition sset := c_set ord_bytes c_string.                          (* map[string]struct{} *)
Definition m168 {V} (cv : codec V) := c_map ord_bytes h168 cv.       (* map[Uint168]V *)
Definition m256 {V} (cv : codec V) := c_map ord_bytes h256 cv.       (* map[Uint256]V *)
Definition set168 := c_set ord_bytes h168.
Definition set256 := c_set ord_bytes h256.

Definition max_code : N := 34003.   (* crypto.MaxMultiSignCodeLength *)

(* payload.VotesWithLockTime: Candidate, Votes, LockTime *)
Definition votes_lock := c_varbytes max_code ** u64 ** u32.

(* payload.DetailedVoteInfo: StakeProgramHash, TransactionHash, BlockHeight,
   PayloadVersion, VoteType, Info *)
Definition detailed_vote := h168 ** h256 ** u32 ** u8 ** u8 ** c_list votes_lock.

(* payload.ProducerInfo at ProducerInfoDposV2Version: OwnerKey, NodePublicKey,
   NickName, Url, Location, NetAddress, StakeUntil, Signature *)
Definition producer_info :=
  c_varbytes max_code ** c_varbytes max_code ** c_string ** c_string ** u64 ** c_string ** u32 **
  c_varbytes 64.

(* dpos/state.Producer: info, state, identity, registerHeight, cancelHeight,
   inactiveSince, activateRequestHeight, illegalHeight, penalty, votes,
   dposV2Votes, detailedDPoSV2Votes, expiredNFTVotes, depositAmount,
   totalAmount, depositHash, selected, randomCandidateInactiveCount,
   inactiveCountingHeight, lastUpdateInactiveHeight, inactiveCount,
   inactiveCountV2, workedInRound *)
Definition producer :=
  producer_info ** u8 ** u8 ** u32 ** u32 ** u32 ** u32 ** u32 ** u64 ** u64 ** u64 **
  m168 (m256 detailed_vote) ** m168 detailed_vote ** u64 ** u64 ** h168 **
  c_bool ** u32 ** u32 ** u32 ** u32 ** u32 ** c_bool.

Definition nft_info := h256 ** h256 ** h256.        (* ReferKey, GenesisBlockHash, CreateNFTTxHash *)
Definition output_info := h168 ** u64.               (* Recipient, Amount *)

(* dpos/state.RewardData: TotalVotesInRound, OwnerVotesInRound *)
Definition reward_data := u64 ** m168 u64.

(* dpos/state.StateKeyFrame, all 45 fields in wire order *)
Definition dpos_state_key_frame :=
  smap c_string **            (* NodeOwnerKeys *)
  smap c_string **            (* CurrentCRNodeOwnerKeys *)
  smap c_string **            (* NextCRNodeOwnerKeys *)
  smap producer **            (* PendingProducers *)
  smap producer **            (* ActivityProducers *)
  smap producer **            (* InactiveProducers *)
  smap producer **            (* CanceledProducers *)
  smap producer **            (* IllegalProducers *)
  smap producer **            (* PendingCanceledProducers *)
  smap producer **            (* DposV2EffectedProducers *)
  sset **                     (* Votes *)
  m256 nft_info **            (* NFTIDInfoHashMap *)
  m168 u64 **                 (* DposV2VoteRights *)
  m168 (c_list votes_lock) ** (* UsedDposVotes *)
  m168 u64 **                 (* UsedDposV2Votes *)
  smap u64 **                 (* DepositOutputs *)
  smap u64 **                 (* DPoSV2RewardInfo *)
  smap u64 **                 (* DposV2RewardClaimingInfo *)
  smap u64 **                 (* DposV2RewardClaimedInfo *)
  m256 output_info **         (* WithdrawableTxInfo *)
  m256 h168 **                (* ClaimingRewardAddr *)
  m256 output_info **         (* VotesWithdrawableTxInfo *)
  sset **                     (* Nicknames *)
  set256 **                   (* SpecialTxHashes *)
  sset **                     (* PreBlockArbiters *)
  set168 **                   (* ProducerDepositMap *)
  sset **                     (* EmergencyInactiveArbiters *)
  c_string **                 (* LastRandomCandidateOwner *)
  u32 ** u32 ** u32 ** u32 ** (* VersionStartHeight VersionEndHeight LastRandomCandidateHeight DPOSWorkHeight *)
  u8 ** u32 **                (* ConsensusAlgorithm LastBlockTimestamp *)
  c_bool ** c_bool ** c_bool ** c_bool ** (* NeedRevertToDPOSTX NeedNextTurnDPOSInfo NoProducers NoClaimDPOSNode *)
  u32 ** u32 ** u32 ** u32.   (* RevertToPOWBlockHeight LastIrreversibleHeight DPOSStartHeight DPoSV2ActiveHeight *)

(* payload.CRInfo as written by SerializeUnsigned at CRInfoDIDVersion: Code,
   CID, DID, NickName, Url, Location (Signature is not part of the key frame) *)
Definition cr_info_unsigned := c_varbytes max_code ** h168 ** h168 ** c_string ** c_string ** u64.

(* cr/state.CRMember: Info, ImpeachmentVotes, DepositHash, MemberState,
   DPOSPublicKey, InactiveSince, ActivateRequestHeight, PenaltyBlockCount,
   InactiveCount, InactiveCountingHeight, InactiveCountV2, WorkedInRound *)
Definition cr_member :=
  cr_info_unsigned ** u64 ** h168 ** u8 ** c_varbytes 33 **
  u32 ** u32 ** u32 ** u32 ** u32 ** u32 ** c_bool.

Definition members := m168 cr_member.

(* payload.ProposalResult: ProposalHash, ProposalType (uint16), Result *)
Definition proposal_result := h256 ** u16 ** c_bool.

(* cr/state.KeyFrame, all 22 fields in wire order *)
Definition cr_key_frame :=
  members **                           (* Members *)
  members **                           (* NextMembers *)
  sset **                              (* ClaimedDPoSKeys *)
  sset **                              (* NextClaimedDPoSKeys *)
  c_map ord_N c_varuint members **     (* HistoryMembers, uint64 key as a varint *)
  c_list proposal_result **            (* PartProposalResults *)
  sset **                              (* CurrentSignedWithdrawFromSideChainKeys *)
  u32 ** u32 **                        (* LastCommitteeHeight LastVotingStartHeight *)
  c_bool ** c_bool ** c_bool **        (* InElectionPeriod NeedAppropriation NeedRecordProposalResult *)
  u64 ** u64 ** u64 ** u64 **          (* CRCFoundationBalance CRCCommitteeBalance CRCCommitteeUsedAmount CRCCurrentStageAmount *)
  u64 ** u64 ** u64 ** u64 **          (* DestroyedAmount CirculationAmount AppropriationAmount CommitteeUsedAmount *)
  u32 ** u32.                          (* CRAssetsAddressUTXOCount CurrentWithdrawFromSideChainIndex *)

(* cr/state.Candidate: Info (unsigned), State, Votes, RegisterHeight,
   CancelHeight, DepositHash *)
Definition cr_candidate := cr_info_unsigned ** u8 ** u64 ** u32 ** u32 ** h168.

Definition candidates := m168 cr_candidate.

(* cr/state.DepositInfo: DepositAmount, Penalty, TotalAmount *)
Definition deposit_info := u64 ** u64 ** u64.

(* cr/state.StateKeyFrame, all 14 fields in wire order *)
Definition cr_state_key_frame :=
  smap h168 **                           (* CodeCIDMap *)
  m168 h168 **                           (* DepositHashCIDMap *)
  candidates **                          (* Candidates *)
  c_map ord_N c_varuint candidates **    (* HistoryCandidates, uint64 key as a varint *)
  m168 deposit_info **                   (* DepositInfo *)
  c_varuint **                           (* CurrentSession *)
  sset ** sset **                        (* Nicknames Votes *)
  smap u64 ** smap u64 ** smap u64 **    (* DepositOutputs CRCFoundationOutputs CRCCommitteeOutputs *)
  m168 (c_list votes_lock) **            (* UsedCRVotes *)
  m168 (c_list votes_lock) **            (* UsedCRImpeachmentVotes *)
  m168 (c_list votes_lock).              (* UsedCRCProposalVotes *)

(* Restart: the state a node continues from after loading a checkpoint. *)
Definition restore {S} (c : codec S) (wire : bytes) : option S :=
  match dec c wire with Some (s, []) => Some s | _ => None end.

Definition run {S B} (step : S -> B -> S) (s : S) (blocks : list B) : S := fold_left step blocks s.
