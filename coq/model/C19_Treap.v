(* C19 — executable model of database/internal/treap (mutable.go, immutable.go,
   treapiter.go).  Priorities are an explicit input of [put] (the Go code draws
   them from math/rand); the same functional tree models both the pointer-
   mutating Mutable treap and the path-copying Immutable treap.  No proofs
   here. *)
From Coq Require Import ZArith List Bool.
From ELA Require Import lib.OMap.
Import ListNotations.
Local Open Scope Z_scope.

Inductive tree :=
| Leaf
| Node (l : tree) (k : key) (v : val) (p : Z) (r : tree).

Definition is_node (t : tree) : bool := match t with Leaf => false | Node _ _ _ _ _ => true end.

Definition zlen {A} (l : list A) : Z := Z.of_nat (length l).
Definition u64 (x : Z) : Z := x mod 18446744073709551616.
(* common.go nodeSize: nodeFieldsSize = 72 *)
Definition node_size (k : key) (v : val) : Z := 72 + (zlen k + zlen v).

(* Mutable.get / Immutable.get *)
Fixpoint tget (t : tree) (k : key) : option val :=
  match t with
  | Leaf => None
  | Node l k' v _ r =>
    match kcmp k k' with
    | Lt => tget l k
    | Gt => tget r k
    | Eq => Some v
    end
  end.

(* Put, branch "the key already exists, so update its value" *)
Fixpoint tupd (t : tree) (k : key) (v : val) : tree :=
  match t with
  | Leaf => Leaf
  | Node l k' v' p r =>
    match kcmp k k' with
    | Lt => Node (tupd l k v) k' v' p r
    | Gt => Node l k' v' p (tupd r k v)
    | Eq => Node l k' v p r
    end
  end.

(* Put of a new key with priority p: link as a leaf, then rotate up while the
   node's priority is smaller than its parent's.  The boolean is true while
   the new node is the root of the result and the Go loop has not hit
   [break]. *)
Fixpoint tins (t : tree) (k : key) (v : val) (p : Z) : tree * bool :=
  match t with
  | Leaf => (Node Leaf k v p Leaf, true)
  | Node l k' v' p' r =>
    match kcmp k k' with
    | Lt =>
      match tins l k v p with
      | (Node a nk nv np b, true) =>
        if np >=? p' then (Node (Node a nk nv np b) k' v' p' r, false)
        else (Node a nk nv np (Node b k' v' p' r), true)       (* right rotation *)
      | (l', _) => (Node l' k' v' p' r, false)
      end
    | Gt =>
      match tins r k v p with
      | (Node a nk nv np b, true) =>
        if np >=? p' then (Node l k' v' p' (Node a nk nv np b), false)
        else (Node (Node l k' v' p' a) nk nv np b, true)       (* left rotation *)
      | (r', _) => (Node l k' v' p' r', false)
      end
    | Eq => (Node l k' v p' r, false)
    end
  end.

(* Delete: the node is rotated down until it is a leaf, each time lifting the
   child selected by [pick_left] (the Go code lifts the one with the LARGER
   priority value, left on ties, although Put keeps a min-heap); what remains in its place is the merge of its two subtrees. *)
Definition pick_left (lp rp : Z) : bool := lp >=? rp.

Fixpoint tmerge (l : tree) : tree -> tree :=
  match l with
  | Leaf => fun r => r
  | Node ll lk lv lp lr =>
    fix merge_r (r : tree) : tree :=
      match r with
      | Leaf => l
      | Node rl rk rv rp rr =>
        if pick_left lp rp then Node ll lk lv lp (tmerge lr r)
        else Node (merge_r rl) rk rv rp rr
      end
  end.

Fixpoint tdel (t : tree) (k : key) : tree :=
  match t with
  | Leaf => Leaf
  | Node l k' v' p r =>
    match kcmp k k' with
    | Lt => Node (tdel l k) k' v' p r
    | Gt => Node l k' v' p (tdel r k)
    | Eq => tmerge l r
    end
  end.

Record treap := { root : tree; count : Z; size : Z }.

Definition empty : treap := {| root := Leaf; count := 0; size := 0 |}.

Definition put (t : treap) (k : key) (v : val) (p : Z) : treap :=
  match tget (root t) k with
  | Some old =>
    {| root := tupd (root t) k v; count := count t;
       size := u64 (u64 (size t - zlen old) + zlen v) |}
  | None =>
    match root t with
    | Leaf => {| root := Node Leaf k v p Leaf; count := 1; size := u64 (node_size k v) |}
    | _ => {| root := fst (tins (root t) k v p); count := count t + 1;
              size := u64 (size t + node_size k v) |}
    end
  end.

Definition delete (t : treap) (k : key) : treap :=
  match tget (root t) k with
  | None => t
  | Some old =>
    match root t with
    | Node Leaf _ _ _ Leaf => empty
    | _ => {| root := tdel (root t) k; count := count t - 1;
              size := u64 (size t - node_size k old) |}
    end
  end.

Definition get (t : treap) (k : key) : option val := tget (root t) k.
Definition has (t : treap) (k : key) : bool := match get t k with Some _ => true | None => false end.

(* in-order contents: the abstraction function (ForEach) *)
Fixpoint elements (t : tree) : omap val :=
  match t with
  | Leaf => []
  | Node l k v _ r => elements l ++ (k, v) :: elements r
  end.
Definition abs (t : treap) : omap val := elements (root t).

(* pre-order dump with shape bits (hook VerifDump) *)
Fixpoint preorder (t : tree) : list (key * val * Z * bool * bool) :=
  match t with
  | Leaf => []
  | Node l k v p r => (k, v, p, is_node l, is_node r) :: preorder l ++ preorder r
  end.

(* ------------------------------------------------------------- iterator *)

Record iter := {
  i_root : tree;           (* root the iterator walks *)
  i_node : tree;           (* current node (Leaf = nil) *)
  i_parents : list tree;   (* parent stack, top first *)
  i_new : bool;
  i_seek : option key;     (* seekKey left by ForceReseek *)
  i_start : option key;
  i_limit : option key;
  i_mut : bool             (* created from a Mutable treap (iter.t != nil) *)
}.

Definition new_iter (t : tree) (start limit : option key) (mut : bool) : iter :=
  {| i_root := t; i_node := Leaf; i_parents := []; i_new := true; i_seek := None;
     i_start := start; i_limit := limit; i_mut := mut |}.

Definition node_key (t : tree) : key := match t with Leaf => [] | Node _ k _ _ _ => k end.
Definition node_kv (t : tree) : option (key * val) :=
  match t with Leaf => None | Node _ k v _ _ => Some (k, v) end.
Definition left_of (t : tree) : tree := match t with Leaf => Leaf | Node l _ _ _ _ => l end.
Definition right_of (t : tree) : tree := match t with Leaf => Leaf | Node _ _ _ _ r => r end.

(* Go compares node pointers; within one tree a node is identified by its key *)
Definition same_node (a b : tree) : bool :=
  match a, b with
  | Node _ ka _ _ _, Node _ kb _ _ _ => keqb ka kb
  | _, _ => false
  end.

Definition with_pos (it : iter) (n : tree) (ps : list tree) : iter :=
  {| i_root := i_root it; i_node := n; i_parents := ps; i_new := i_new it; i_seek := i_seek it;
     i_start := i_start it; i_limit := i_limit it; i_mut := i_mut it |}.
Definition with_new (it : iter) (b : bool) : iter :=
  {| i_root := i_root it; i_node := i_node it; i_parents := i_parents it; i_new := b; i_seek := i_seek it;
     i_start := i_start it; i_limit := i_limit it; i_mut := i_mut it |}.
Definition with_seek (it : iter) (s : option key) : iter :=
  {| i_root := i_root it; i_node := i_node it; i_parents := i_parents it; i_new := i_new it; i_seek := s;
     i_start := i_start it; i_limit := i_limit it; i_mut := i_mut it |}.
Definition with_root (it : iter) (t : tree) : iter :=
  {| i_root := t; i_node := i_node it; i_parents := i_parents it; i_new := i_new it; i_seek := i_seek it;
     i_start := i_start it; i_limit := i_limit it; i_mut := i_mut it |}.

Definition limit_iterator (it : iter) : iter * bool :=
  match i_node it with
  | Leaf => (it, false)
  | Node _ k _ _ _ =>
    if match i_start it with Some s => kltb k s | None => false end
    then (with_pos it Leaf (i_parents it), false)
    else if match i_limit it with Some l => negb (kltb k l) | None => false end
    then (with_pos it Leaf (i_parents it), false)
    else (it, true)
  end.

(* the descent loop of Iterator.seek; [sel]/[seld] are iter.node and
   selectedNodeDepth *)
Fixpoint seek_loop (t : tree) (k : key) (exact greater : bool)
         (ps : list tree) (sel : tree) (seld : nat) : tree * list tree :=
  match t with
  | Leaf => (sel, skipn (length ps - seld) ps)
  | Node l k' _ _ r =>
    match kcmp k k' with
    | Lt => if greater then seek_loop l k exact greater (t :: ps) t (length ps)
            else seek_loop l k exact greater (t :: ps) sel seld
    | Gt => if greater then seek_loop r k exact greater (t :: ps) sel seld
            else seek_loop r k exact greater (t :: ps) t (length ps)
    | Eq => if exact then (t, ps)
            else if greater then seek_loop r k exact greater (t :: ps) sel seld
                 else seek_loop l k exact greater (t :: ps) sel seld
    end
  end.

Definition seek (it : iter) (k : key) (exact greater : bool) : iter * bool :=
  let '(n, ps) := seek_loop (i_root it) k exact greater [] Leaf 0 in
  limit_iterator (with_pos it n ps).

Fixpoint leftmost (t : tree) (ps : list tree) : option (tree * list tree) :=
  match t with
  | Leaf => None
  | Node Leaf _ _ _ _ => Some (t, ps)
  | Node l _ _ _ _ => leftmost l (t :: ps)
  end.
Fixpoint rightmost (t : tree) (ps : list tree) : option (tree * list tree) :=
  match t with
  | Leaf => None
  | Node _ _ _ _ Leaf => Some (t, ps)
  | Node _ _ _ _ r => rightmost r (t :: ps)
  end.

Definition first (it0 : iter) : iter * bool :=
  let it := with_seek (with_new it0 false) None in
  match i_start it with
  | Some s => seek it s true true
  | None =>
    match leftmost (i_root it) [] with
    | Some (n, ps) => limit_iterator (with_pos it n ps)
    | None => (with_pos it Leaf [], false)
    end
  end.

Definition last (it0 : iter) : iter * bool :=
  let it := with_seek (with_new it0 false) None in
  match i_limit it with
  | Some l => seek it l false false
  | None =>
    match rightmost (i_root it) [] with
    | Some (n, ps) => limit_iterator (with_pos it n ps)
    | None => (with_pos it Leaf [], false)
    end
  end.

(* climb while the current node is the [right] (resp. left) child of the parent *)
Fixpoint climb (right : bool) (n : tree) (ps : list tree) : tree * list tree :=
  match ps with
  | [] => (Leaf, [])
  | p :: ps' =>
    if same_node (if right then right_of p else left_of p) n then climb right p ps'
    else (p, ps')
  end.

Definition next (it : iter) : iter * bool :=
  if i_new it then first it else
  match i_node it with
  | Leaf => (it, false)
  | Node _ _ _ _ r =>
    match i_seek it with
    | Some sk => seek (with_seek it None) sk false true
    | None =>
      match r with
      | Leaf => let '(n, ps) := climb true (i_node it) (i_parents it) in
                limit_iterator (with_pos it n ps)
      | _ => match leftmost r (i_node it :: i_parents it) with
             | Some (n, ps) => limit_iterator (with_pos it n ps)
             | None => (it, false)
             end
      end
    end
  end.

Definition prev (it : iter) : iter * bool :=
  if i_new it then last it else
  match i_node it with
  | Leaf => (it, false)
  | Node l _ _ _ _ =>
    match i_seek it with
    | Some sk => seek (with_seek it None) sk false false
    | None =>
      match l with
      | Leaf => let '(n, ps) := climb false (i_node it) (i_parents it) in
                limit_iterator (with_pos it n ps)
      | _ => match rightmost l (i_node it :: i_parents it) with
             | Some (n, ps) => limit_iterator (with_pos it n ps)
             | None => (it, false)
             end
      end
    end
  end.

Definition seek_ge (it : iter) (k : key) : iter * bool :=
  seek (with_seek (with_new it false) None) k true true.

(* ForceReseek: only for iterators of a Mutable treap; [t] is its current root *)
Definition force_reseek (it : iter) (t : tree) : iter :=
  if i_mut it then
    with_seek (with_root it t) (match i_node it with Leaf => None | Node _ k _ _ _ => Some k end)
  else it.

Definition valid (it : iter) : bool := is_node (i_node it).
Definition current (it : iter) : option (key * val) := node_kv (i_node it).

(* a whole forward walk: Next until it reports exhaustion *)
Fixpoint collect_next (fuel : nat) (it : iter) : list (key * val) :=
  match fuel with
  | O => []
  | S f => let '(it', b) := next it in
           if b then match current it' with Some e => e :: collect_next f it' | None => [] end
           else []
  end.


(* a whole backward walk: Prev until it reports exhaustion *)
Fixpoint collect_prev (fuel : nat) (it : iter) : list (key * val) :=
  match fuel with
  | O => []
  | S f => let '(it', b) := prev it in
           if b then match current it' with Some e => e :: collect_prev f it' | None => [] end
           else []
  end.

(* ------------------------------------------------------------- histories *)

Inductive mop := MPut (k : key) (v : val) (p : Z) | MDel (k : key).

Definition apply_op (t : treap) (o : mop) : treap :=
  match o with MPut k v p => put t k v p | MDel k => delete t k end.
Definition run_ops (ops : list mop) (t : treap) : treap := fold_left apply_op ops t.

(* the same history on the abstract ordered map (priorities are irrelevant) *)
Definition spec_op (m : omap val) (o : mop) : omap val :=
  match o with MPut k v _ => OMap.put m k v | MDel k => OMap.del m k end.
Definition spec_ops (ops : list mop) (m : omap val) : omap val := fold_left spec_op ops m.
