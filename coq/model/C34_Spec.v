(* C34 — the unique resources named by the property (hand-written from the
   property text), against the slot table regenerated from the source
   (gen/C34_slots.v).  No proofs. *)
From Coq Require Import ZArith NArith Bool List String.
From ELA Require Import model.C34_Pool gen.C34_slots.
Import ListNotations.
Local Open Scope string_scope.

Definition ty (name : string) : N :=
  match find (fun e => String.eqb (fst e) name) txtypes with Some e => snd e | None => 999%N end.

(* Unique resources named by the property, the slot that must index them and
   the transaction types that claim them (hand-written from the property). *)
Definition required : list requirement := [
  ("outpoint", name_inputs, map snd txtypes);
  ("producer owner key", "DPoSOwnerPublicKey", [ty "RegisterProducer"; ty "UpdateProducer"; ty "CancelProducer"; ty "RegisterCR"]);
  ("producer node key", "DPoSNodePublicKey", [ty "RegisterProducer"; ty "UpdateProducer"; ty "ActivateProducer"; ty "RegisterCR"; ty "CRCouncilMemberClaimNode"]);
  ("producer owner/node key cross use", "DPoSOwnerNodePublicKeys", [ty "RegisterProducer"; ty "UpdateProducer"]);
  ("producer nickname", "DPoSNickname", [ty "RegisterProducer"; ty "UpdateProducer"]);
  ("CR CID", "CrDID", [ty "RegisterCR"; ty "UpdateCR"; ty "UnregisterCR"]);
  ("CR nickname", "CrNickname", [ty "RegisterCR"; ty "UpdateCR"]);
  ("deposit program code", "ProgramCode", [ty "ReturnDepositCoin"; ty "ReturnCRDepositCoin"]);
  ("proposal draft hash", "CRCProposalDraftHash", [ty "CRCProposal"]);
  ("proposal hash (withdraw)", "CRCProposalHash", [ty "CRCProposalWithdraw"]);
  ("proposal hash (tracking)", "CRCProposalTrackingHash", [ty "CRCProposalTracking"]);
  ("proposal review key", "CRCProposalReviewKey", [ty "CRCProposalReview"]);
  ("CRC appropriation", "CRCAppropriationKey", [ty "CRCAppropriation"]);
  ("council member claimed node key", "CRCouncilMemberNodePublicKey", [ty "CRCouncilMemberClaimNode"]);
  ("council member DID", "CRCouncilMemberDID", [ty "CRCouncilMemberClaimNode"]);
  ("side-chain tx hash", "SidechainTxHashes", [ty "WithdrawFromSideChain"]);
  ("side-chain return-deposit tx hash", "SidechainReturnDepositTxHashes", [ty "ReturnSideChainDepositCoin"]);
  ("special tx hash", "SpecialTxHash", [ty "IllegalProposalEvidence"; ty "IllegalVoteEvidence"; ty "IllegalBlockEvidence"; ty "IllegalSidechainEvidence"; ty "InactiveArbitrators"; ty "NextTurnDPOSInfo"])
].
