(* C34 — the unique resources named by the property (hand-written from the
   property text), against the slot table regenerated from the source
   (gen/C34_slots.v).  No proofs. *)
From Coq Require Import ZArith NArith Bool List String.
From ELA Require Import model.C34_Pool gen.C34_slots.
Import ListNotations.
Local Open Scope string_scope.

Definition ty (name : string) : N :=
  match find (fun e => String.eqb (fst e) name) txtypes with Some e => snd e | None => 999%N end.

(* Unique resources named by the property, the slot that must index them and
   the (transaction type, payload versions) that claim them (hand-written from
   the property).  The slot table only knows tx types; the payload versions
   are what the harness sweep must exercise for each row (a key function that
   yields no key for one version is reported there): see harness/cmd/c34
   [required] / sweep.go, which mirrors this table. *)
Definition requirement_v := (string * string * list (N * list N))%type.

Definition v0 (t : N) : N * list N := (t, [0%N]).

Definition required_v : list requirement_v := [
  ("outpoint", name_inputs, map v0 (map snd txtypes));
  ("producer owner key", "DPoSOwnerPublicKey", [v0 (ty "RegisterProducer"); v0 (ty "UpdateProducer"); v0 (ty "CancelProducer"); (ty "RegisterCR", [0; 1; 2]%N)]);
  ("producer node key", "DPoSNodePublicKey", [v0 (ty "RegisterProducer"); v0 (ty "UpdateProducer"); v0 (ty "ActivateProducer"); (ty "RegisterCR", [0; 1; 2]%N); v0 (ty "CRCouncilMemberClaimNode")]);
  ("producer owner/node key cross use", "DPoSOwnerNodePublicKeys", [v0 (ty "RegisterProducer"); v0 (ty "UpdateProducer")]);
  ("producer nickname", "DPoSNickname", [v0 (ty "RegisterProducer"); v0 (ty "UpdateProducer")]);
  ("CR CID", "CrDID", [(ty "RegisterCR", [0; 1; 2]%N); (ty "UpdateCR", [0; 1]%N); v0 (ty "UnregisterCR")]);
  ("CR nickname", "CrNickname", [(ty "RegisterCR", [0; 1; 2]%N); (ty "UpdateCR", [0; 1]%N)]);
  ("deposit program code", "ProgramCode", [v0 (ty "ReturnDepositCoin"); v0 (ty "ReturnCRDepositCoin")]);
  ("proposal draft hash", "CRCProposalDraftHash", [v0 (ty "CRCProposal")]);
  ("proposal hash (withdraw)", "CRCProposalHash", [v0 (ty "CRCProposalWithdraw")]);
  ("proposal hash (tracking)", "CRCProposalTrackingHash", [v0 (ty "CRCProposalTracking")]);
  ("proposal review key", "CRCProposalReviewKey", [v0 (ty "CRCProposalReview")]);
  ("CRC appropriation", "CRCAppropriationKey", [v0 (ty "CRCAppropriation")]);
  ("council member claimed node key", "CRCouncilMemberNodePublicKey", [v0 (ty "CRCouncilMemberClaimNode")]);
  ("council member DID", "CRCouncilMemberDID", [v0 (ty "CRCouncilMemberClaimNode")]);
  ("side-chain tx hash", "SidechainTxHashes", [(ty "WithdrawFromSideChain", [0; 1; 2]%N)]);
  ("side-chain return-deposit tx hash", "SidechainReturnDepositTxHashes", [v0 (ty "ReturnSideChainDepositCoin")]);
  ("special tx hash", "SpecialTxHash", [v0 (ty "IllegalProposalEvidence"); v0 (ty "IllegalVoteEvidence"); v0 (ty "IllegalBlockEvidence"); v0 (ty "IllegalSidechainEvidence"); v0 (ty "InactiveArbitrators"); v0 (ty "NextTurnDPOSInfo")]);
  ("stake address", "ExchangeVotes", [v0 (ty "ExchangeVotes"); v0 (ty "Voting"); (ty "ReturnVotes", [0; 1]%N); (ty "CreateNFT", [0; 1]%N)]);
  ("DPoS v2 reward claim", "DposV2ClaimReward", [(ty "DposV2ClaimReward", [0; 1]%N)]);
  ("NFT id", "createnft", [(ty "CreateNFT", [0; 1]%N)])
].

(* the part of the specification the slot table can answer: resource, slot, tx types *)
Definition required : list requirement :=
  map (fun r => (fst (fst r), snd (fst r), map fst (snd r))) required_v.
