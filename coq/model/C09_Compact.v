(* C09 model: mirrors blockchain/difficulty.go (CompactToBig, BigToCompact,
   CalcNextRequiredDifficulty), blockchain/blockvalidator.go (CheckProofOfWork)
   and blockchain/blockchain.go (CalcWork).  Executable, no proofs here.
   big.Int is Z; uint32 wrap-around is written explicitly.  Masks with
   2^k-1 are written as [mod 2^k], single-bit tests as [(x / 2^k) mod 2],
   shifts as multiplication/division by powers of two, and [a | b] with
   disjoint bits as [a + b] (the operands are disjoint for every input: the
   mantissa is below 2^23 after normalisation); the correspondence run
   compares the result with the Go code on every generated input. *)
From Coq Require Import ZArith Bool List.
Import ListNotations.
Local Open Scope Z_scope.

Definition u32 (x : Z) : Z := x mod 2^32.

(* len(n.Bytes()) for the absolute value *)
Definition bytelen (n : Z) : Z :=
  if n =? 0 then 0 else Z.log2 (Z.abs n) / 8 + 1.

Definition mant_of (c : Z) : Z := c mod 2^23.                 (* c & 0x007fffff *)
Definition neg_of (c : Z) : bool := (c / 2^23) mod 2 =? 1.    (* c & 0x00800000 != 0 *)
Definition exp_of (c : Z) : Z := c / 2^24.                    (* c >> 24 *)

Definition compact_to_big (c : Z) : Z :=
  let mant := mant_of c in
  let e := exp_of c in
  let bn := if e <=? 3 then mant / 2 ^ (8 * (3 - e))
            else mant * 2 ^ (8 * (e - 3)) in
  if neg_of c then - bn else bn.

Definition big_to_compact (n : Z) : Z :=
  if n =? 0 then 0 else
  let a := Z.abs n in
  let e := bytelen n in
  (* uint32(n.Bits()[0]) : low 32 bits of the low word *)
  let mant0 := if e <=? 3 then u32 (u32 a * 2 ^ (8 * (3 - e)))
               else u32 (Z.abs (n / 2 ^ (8 * (e - 3)))) in
  (* tn.Rsh on a negative big.Int is an arithmetic (floor) shift; Bits() is the magnitude *)
  let mant := if (mant0 / 2^23) mod 2 =? 1 then mant0 / 2^8 else mant0 in
  let e' := if (mant0 / 2^23) mod 2 =? 1 then e + 1 else e in
  let c := u32 (e' * 2^24) + mant in
  if n <? 0 then c + 2^23 else c.

(* CheckProofOfWork: bits, the parent-chain hash as a number, the limit *)
Definition check_pow (bits hashnum limit : Z) : bool :=
  let target := compact_to_big bits in
  (0 <? target) && (target <=? limit) && (hashnum <=? target).

Definition clamp (lo hi x : Z) : Z :=
  if x <? lo then lo else if hi <? x then hi else x.

(* the arithmetic of CalcNextRequiredDifficulty at a retarget height:
   prev_ts, first_ts are uint32 header timestamps *)
Definition retarget_raw (old_bits prev_ts first_ts timespan factor limit : Z) : Z :=
  let actual := u32 (prev_ts - first_ts) in
  let adjusted := clamp (timespan / factor) (timespan * factor) actual in
  let nt := compact_to_big old_bits * adjusted / timespan in
  if limit <? nt then limit else nt.

Definition retarget (old_bits prev_ts first_ts timespan factor limit : Z) : Z :=
  big_to_compact (retarget_raw old_bits prev_ts first_ts timespan factor limit).

Definition calc_work (bits : Z) : Z :=
  let d := compact_to_big bits in
  if d <=? 0 then 0 else 2^256 / (d + 1).

(* canonical compact encodings (structural): zero, or a mantissa of at least
   0x8000 (its top byte is used, or moving it one byte up would set the sign
   bit) that loses no byte to a small exponent. *)
Definition canonical (c : Z) : bool :=
  (c =? 0) ||
  ((32768 <=? mant_of c) &&
   (if exp_of c <=? 2 then mant_of c mod 2 ^ (8 * (3 - exp_of c)) =? 0 else true)).
