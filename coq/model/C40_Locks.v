(* C40 — lock discipline of dpos/state.State, cr/state.Committee and
   mempool.TxPool: one reader/writer lock per object, method summaries
   produced by the translator (harness/cmd/c40/translate.go), an interleaving
   semantics of the lock, and the executable checker.  No proofs here.

   What a summary is.  The translator cuts every exported method into parts,
   one per lock mode its body runs under:
     - the part executed while the object's lock is held exclusively (MW),
     - the part executed while it is held shared (MR),
     - the part executed with the lock not held (MNone): bodies of methods
       that never lock, code after an early unlock, and the "escape" part:
       reads a caller performs through a pointer/map the method returned
       after releasing the lock.
   Each part lists the abstract locations it reads or writes.  A location is
   a (struct type, field) pair of the package ("Producer.votes",
   "StateKeyFrame.ActivityProducers"): every object of that type is
   collapsed, so no alias analysis is needed and a conflict on a location
   over-approximates a conflict on a memory cell. *)
From Coq Require Import List Bool NArith Arith.
Import ListNotations.

Inductive mode := MNone | MR | MW.

Record access := { a_loc : N; a_write : bool }.

Record summary := { s_id : N; s_mode : mode; s_acc : list access }.

(* ---------------------------------------------------------------- the lock *)

Record lock := { readers : nat; writer : bool }.

Definition can_acquire (l : lock) (m : mode) : bool :=
  match m with
  | MNone => true
  | MR => negb (writer l)
  | MW => negb (writer l) && Nat.eqb (readers l) 0
  end.

Definition acquire (l : lock) (m : mode) : lock :=
  match m with
  | MNone => l
  | MR => {| readers := S (readers l); writer := writer l |}
  | MW => {| readers := readers l; writer := true |}
  end.

Definition release (l : lock) (m : mode) : lock :=
  match m with
  | MNone => l
  | MR => {| readers := pred (readers l); writer := writer l |}
  | MW => {| readers := readers l; writer := false |}
  end.

(* ---------------------------------------------------------------- threads *)

(* A thread is idle (None) or inside one summary part, holding the lock in
   that part's mode. *)
Definition thread := option summary.

Record state := { lk : lock; thr : list thread }.

Definition init (n : nat) : state :=
  {| lk := {| readers := 0; writer := false |}; thr := repeat None n |}.

Fixpoint upd {A} (l : list A) (i : nat) (x : A) : list A :=
  match l, i with
  | [], _ => []
  | _ :: t, O => x :: t
  | h :: t, S j => h :: upd t j x
  end.

(* One step of the system: an idle thread enters a part (acquiring the lock
   in the part's mode, possible only when the lock admits it), or a thread
   leaves its part (releasing).  The accesses of a part happen while the
   thread is inside it; they do not change this abstract state. *)
Inductive step (ss : list summary) : state -> state -> Prop :=
| step_enter : forall st i s,
    nth_error (thr st) i = Some None -> In s ss ->
    can_acquire (lk st) (s_mode s) = true ->
    step ss st {| lk := acquire (lk st) (s_mode s); thr := upd (thr st) i (Some s) |}
| step_leave : forall st i s,
    nth_error (thr st) i = Some (Some s) ->
    step ss st {| lk := release (lk st) (s_mode s); thr := upd (thr st) i None |}.

Inductive reachable (ss : list summary) (n : nat) : state -> Prop :=
| reach_init : reachable ss n (init n)
| reach_step : forall st st', reachable ss n st -> step ss st st' -> reachable ss n st'.

(* Two accesses conflict: same location, at least one write. *)
Definition conflict (a b : access) : bool :=
  N.eqb (a_loc a) (a_loc b) && (a_write a || a_write b).

(* A race: two distinct threads are simultaneously inside parts that contain
   conflicting accesses. *)
Definition race (st : state) : Prop :=
  exists i j s1 s2 a1 a2,
    i <> j /\ nth_error (thr st) i = Some (Some s1) /\ nth_error (thr st) j = Some (Some s2) /\
    In a1 (s_acc s1) /\ In a2 (s_acc s2) /\ conflict a1 a2 = true.

(* ---------------------------------------------------------------- checker *)

(* the lock keeps two parts apart iff one holds it exclusively and the other
   holds it at all *)
Definition excl (m1 m2 : mode) : bool :=
  match m1, m2 with
  | MW, MR | MW, MW | MR, MW => true
  | _, _ => false
  end.

Definition conflicts (s1 s2 : summary) : bool :=
  existsb (fun a => existsb (conflict a) (s_acc s2)) (s_acc s1).

Definition pair_ok (s1 s2 : summary) : bool :=
  excl (s_mode s1) (s_mode s2) || negb (conflicts s1 s2).

Definition lockset_ok (ss : list summary) : bool :=
  forallb (fun s1 => forallb (pair_ok s1) ss) ss.

(* Witnesses, for reporting: (part, part, location) of every unprotected
   conflicting pair, each unordered pair once. *)
Definition first_conflict (s1 s2 : summary) : option N :=
  match find (fun a => existsb (conflict a) (s_acc s2)) (s_acc s1) with
  | Some a => Some (a_loc a)
  | None => None
  end.

Definition violations (ss : list summary) : list (N * N * N) :=
  flat_map (fun s1 =>
    flat_map (fun s2 =>
      if N.leb (s_id s1) (s_id s2) && negb (excl (s_mode s1) (s_mode s2)) then
        match first_conflict s1 s2 with
        | Some l => [(s_id s1, s_id s2, l)]
        | None => []
        end
      else []) ss) ss.

(* Restriction used for the partial theorem: drop the parts whose id is in an
   explicit exclusion list (the recorded findings). *)
Definition without (excluded : list N) (ss : list summary) : list summary :=
  filter (fun s => negb (existsb (N.eqb (s_id s)) excluded)) ss.
