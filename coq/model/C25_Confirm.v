(* C25 model: acceptance of a DPoS block confirmation.

   Mirrors blockchain/confirmvalidator.go:
     ConfirmSanityCheck  (ProposalSanityCheck, per vote: Accept, ProposalHash,
                          VoteSanityCheck)                      -> confirm_sanity
     ConfirmContextCheck (distinct accepting signers > majority,
                          ProposalContextCheck, VoteContextCheck) -> confirm_context
   and dpos/state/arbitrators.go:
     (Arbiters).GetArbitersMajorityCount = int(float64(n) * 2 / 3) -> majority
     (Arbiters).getArbitrators (NodePublicKey, IsNormal)           -> arbiter

   Public keys are numbers (the harness maps key bytes injectively to Z, so
   equality of numbers = equality of key bytes = equality of the hex strings
   used as map keys).  Hashes and signatures are numbers too (ids).
   Signature verification is an oracle: [pverify sponsor proposal_hash sig]
   for proposals, [vverify signer proposal_hash accept sig] for votes (a vote
   signs exactly (ProposalHash, Signer, Accept)).  DecodePoint failures count
   as a failed verification.  No proofs in this file. *)
From Coq Require Import ZArith List Bool Floats Uint63.
Import ListNotations.
Local Open Scope Z_scope.

Record arbiter := { a_key : Z; a_normal : bool }.
Record vote := { v_hash : Z; v_signer : Z; v_accept : bool; v_sig : Z }.
Record proposal := { p_sponsor : Z; p_hash : Z; p_sig : Z }.
Record confirm := { c_prop : proposal; c_votes : list vote }.

(* ---- int(float64(n) * 2 / 3) on IEEE binary64 (Coq primitive floats) *)
Definition float_trunc (f : float) : Z :=
  match Prim2SF f with
  | S754_finite s m e =>
      let v := if 0 <=? e then Zpos m * 2 ^ e else Zpos m / 2 ^ (- e) in
      if s then - v else v
  | _ => 0
  end.

Definition fl (z : Z) : float := PrimFloat.of_uint63 (Uint63.of_Z z).

Definition majority (n : Z) : Z :=
  float_trunc (PrimFloat.div (PrimFloat.mul (fl n) (fl 2)) (fl 3)).

(* len(CurrentArbitrators), or the configured total when that is empty *)
Definition arbiters_count (arbs : list arbiter) (fallback : Z) : Z :=
  match arbs with [] => fallback | _ => Z.of_nat (length arbs) end.

Definition is_arbiter (arbs : list arbiter) (k : Z) : bool :=
  existsb (fun a => a_normal a && (a_key a =? k)) arbs.

(* keys of the map "signers": accepting votes only, each key once *)
Definition distinct_signers (vs : list vote) : list Z :=
  nodup Z.eq_dec (map v_signer (filter v_accept vs)).

Section Checks.
  Variable pverify : Z -> Z -> Z -> bool.
  Variable vverify : Z -> Z -> bool -> Z -> bool.

  Definition proposal_sanity (p : proposal) : bool :=
    pverify (p_sponsor p) (p_hash p) (p_sig p).

  Definition vote_ok (p : proposal) (v : vote) : bool :=
    v_accept v && (v_hash v =? p_hash p) &&
    vverify (v_signer v) (v_hash v) (v_accept v) (v_sig v).

  Definition confirm_sanity (c : confirm) : bool :=
    proposal_sanity (c_prop c) && forallb (vote_ok (c_prop c)) (c_votes c).

  Definition confirm_context (arbs : list arbiter) (fallback : Z) (c : confirm) : bool :=
    (majority (arbiters_count arbs fallback) <? Z.of_nat (length (distinct_signers (c_votes c)))) &&
    is_arbiter arbs (p_sponsor (c_prop c)) &&
    forallb (fun v => is_arbiter arbs (v_signer v)) (c_votes c).

  Definition confirm_check (arbs : list arbiter) (fallback : Z) (c : confirm) : bool :=
    confirm_sanity c && confirm_context arbs fallback c.
End Checks.

(* ---- oracle tables used by the correspondence cases *)
Definition ptable := list (Z * Z * Z).            (* valid (sponsor, hash, sig) *)
Definition vtable := list (Z * Z * bool * Z).     (* valid (signer, hash, accept, sig) *)

Definition pverify_tbl (t : ptable) (k h s : Z) : bool :=
  existsb (fun e => match e with (k', h', s') => (k =? k') && (h =? h') && (s =? s') end) t.
Definition vverify_tbl (t : vtable) (k h : Z) (a : bool) (s : Z) : bool :=
  existsb (fun e => match e with (k', h', a', s') =>
                      (k =? k') && (h =? h') && Bool.eqb a a' && (s =? s') end) t.

(* binary splitting over [lo, lo + 2^k): used to sweep the finite domain of
   [majority] without large unary numbers *)
Fixpoint all_range (k : nat) (lo : Z) (f : Z -> bool) : bool :=
  match k with
  | O => f lo
  | S k' => all_range k' lo f && all_range k' (lo + 2 ^ Z.of_nat k') f
  end.
