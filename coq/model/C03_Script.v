(* C03 model, part 1: script classification (core/contract/common.go:
   IsStandard, IsSchnorr, IsMultiSig, GetCodeType; common.BytesToInt16) and
   the merged-mining proof check (auxpow/auxpow.go: GetMerkleRoot,
   GetExpectedIndex, AuxPow.Check).  Executable, no proofs here.

   Every Go index / slice expression is an explicit [idx] / [slice] (bounds
   checked, [Panic] outside), [%] is [gomod].  Bytes are [Z] in 0..255, a
   byte string is [list Z]; int16 and uint32 wrap-around is explicit.  The
   model follows the code after the `fix:` commits (bounds checks in the tail
   of IsMultiSig; in AuxPow.Check the empty-TxIn, size/nonce-field and
   merkleHeight >= 32 rejections; GetExpectedIndex returning -1). *)
From Coq Require Import ZArith List Bool.
From ELA Require Import lib.C03_GoSem.
Import ListNotations.
Local Open Scope Z_scope.

Definition u32 (x : Z) : Z := x mod 2^32.
Definition i16 (x : Z) : Z := (x + 32768) mod 65536 - 32768.

(* ---------------------------------------------------------------- contract *)

Definition is_standard (code : list Z) : res bool :=
  if negb (len code =? 35) then Ok false else
  c0 <- idx code 0 ;;
  if negb (c0 =? 33) then Ok false else
  c34 <- idx code 34 ;;
  Ok (c34 =? 172).

Definition is_schnorr (code : list Z) : res bool :=
  if negb (len code =? 35) then Ok false else
  c0 <- idx code 0 ;;
  if negb (c0 =? 81) then Ok false else
  c1 <- idx code 1 ;;
  Ok (c1 + 2 =? len code).

(* common.BytesToInt16: big-endian int16 of the first two bytes; binary.Read
   fails on a shorter buffer and the result stays 0 *)
Definition bytes_to_int16 (b : list Z) : Z :=
  match b with
  | h :: l :: _ => i16 (h * 256 + l)
  | _ => 0
  end.

(* for code[i] == 33 { i += 34; if len(code) <= i { return false }; n++ } ;
   None = returned false *)
Fixpoint ms_loop (fuel : nat) (code : list Z) (i n : Z) : res (option (Z * Z)) :=
  match fuel with
  | O => Ok None
  | S f =>
    c <- idx code i ;;
    if c =? 33 then
      let i' := i + 34 in
      if len code <=? i' then Ok None else ms_loop f code i' (i16 (n + 1))
    else Ok (Some (i, n))
  end.

Definition is_multisig (code : list Z) : res bool :=
  if len code <? 37 then Ok false else
  c0 <- idx code 0 ;;
  if 96 <? c0 then Ok false else
  if (c0 <? 81) && negb (c0 =? 1) && negb (c0 =? 2) then Ok false else
  mi <- (if c0 =? 1 then c1 <- idx code 1 ;; Ok (c1, 2)
         else if c0 =? 2 then s <- slice_from code 1 ;; Ok (bytes_to_int16 s, 3)
         else Ok (c0 - 80, 1)) ;;
  let '(m, i) := mi in
  if (m <? 1) || (1024 <? m) then Ok false else
  r <- ms_loop (S (length code)) code i 0 ;;
  match r with
  | None => Ok false
  | Some (i, n) =>
    if (n <? m) || (1024 <? n) then Ok false else
    ci <- idx code i ;;
    ti <- (if ci =? 1 then
             let i := i + 1 in
             if len code <=? i then Ok None else
             c <- idx code i ;;
             if negb (n =? c) then Ok None else Ok (Some (i + 1))
           else if ci =? 2 then
             let i := i + 1 in
             s <- slice_from code i ;;
             if negb (n =? bytes_to_int16 s) then Ok None else Ok (Some (i + 2))
           else
             if negb (n =? ci - 80) then Ok None else Ok (Some (i + 1))) ;;
    match ti with
    | None => Ok false
    | Some i =>
      if len code <=? i then Ok false else
      c <- idx code i ;;
      if negb (c =? 174) then Ok false else
      Ok (len code =? i + 1)
    end
  end.

(* Signature 0, MultiSig 1, Custom 2, Schnorr 3 *)
Definition get_code_type (code : list Z) : res Z :=
  s <- is_standard code ;;
  if s then Ok 0 else
  m <- is_multisig code ;;
  if m then Ok 1 else
  c <- is_schnorr code ;;
  if c then Ok 3 else Ok 2.

(* ---------------------------------------------------------------- auxpow *)

(* 1 << uint32(h) in uint32 arithmetic (0 once the count reaches 32) *)
Definition shl32 (h : Z) : Z := if u32 h <? 32 then u32 (2 ^ u32 h) else 0.

Definition expected_index (nonce chainID h : Z) : res Z :=
  let r := u32 (u32 nonce * 1103515245 + 12345) in
  let r := u32 (r + u32 chainID) in
  let r := u32 (r * 1103515245 + 12345) in
  if (h <? 0) || (32 <=? h) then Ok (-1) else
  gomod r (shl32 h).

(* hashes are the big-endian value of their 32 bytes; [H l r] is the hash of
   the 64-byte concatenation (an oracle: any function) *)
Fixpoint merkle_fold (H : Z -> Z -> Z) (hash : Z) (branch : list Z) (index : Z) : Z :=
  match branch with
  | [] => hash
  | it :: rest =>
    merkle_fold H (if Z.odd index then H it hash else H hash it) rest (Z.shiftr index 1)
  end.

Definition merkle_root (H : Z -> Z -> Z) (hash : Z) (branch : list Z) (index : Z) : Z :=
  if index =? -1 then 0 else merkle_fold H hash branch index.

(* hex.EncodeToString as a list of nibbles *)
Definition hex (s : list Z) : list Z := flat_map (fun b => [b / 16; b mod 16]) s.

(* hex of the byte-reversed hash *)
Definition root_rev_hex (v : Z) : list Z :=
  flat_map (fun k => let b := (v / 256 ^ Z.of_nat k) mod 256 in [b / 16; b mod 16]) (seq 0 32).

Definition mm_header : list Z := [15; 10; 11; 14; 6; 13; 6; 13]. (* fabe6d6d *)

Fixpoint prefix_eqb (p s : list Z) : bool :=
  match p, s with
  | [], _ => true
  | x :: p', y :: s' => (x =? y) && prefix_eqb p' s'
  | _ :: _, [] => false
  end.

(* strings.Index *)
Fixpoint index_from (p s : list Z) (k : Z) : Z :=
  if prefix_eqb p s then k else
  match s with
  | [] => -1
  | _ :: s' => index_from p s' (k + 1)
  end.
Definition index_of (p s : list Z) : Z := index_from p s 0.

Definition le32 (l : list Z) : Z :=
  match l with
  | [a; b; c; d] => a + 256 * b + 65536 * c + 16777216 * d
  | _ => 0
  end.

(* AuxPow.Check.  cbhash = ParCoinbaseTx.Hash(), auxhash = the byte-reversed
   block hash, txin = the signature scripts of ParCoinbaseTx.TxIn *)
Definition auxpow_check (H : Z -> Z -> Z)
    (cbhash : Z) (cbbranch : list Z) (parindex hdrroot : Z)
    (auxhash : Z) (auxbranch : list Z) (auxindex : Z)
    (txin : list (list Z)) (chainID : Z) : res bool :=
  if negb (merkle_root H cbhash cbbranch parindex =? hdrroot) then Ok false else
  let auxroot := merkle_root H auxhash auxbranch auxindex in
  if len txin =? 0 then Ok false else
  script <- idx txin 0 ;;
  let hx := hex script in
  let hi := index_of mm_header hx in
  let ri := index_of (root_rev_hex auxroot) hx in
  if (hi =? -1) || (ri =? -1) then Ok false else
  rest <- slice_from hx (hi + 2) ;;
  if negb (index_of mm_header rest =? -1) then Ok false else
  if negb (hi + 8 =? ri) then Ok false else
  let ri := ri + 64 in
  if len hx - ri <? 8 then Ok false else
  if len script <? ri / 2 + 8 then Ok false else
  sz <- slice script (ri / 2) (ri / 2 + 4) ;;
  let h := len auxbranch in
  if 32 <=? h then Ok false else
  if negb (le32 sz =? shl32 h) then Ok false else
  nn <- slice script (ri / 2 + 4) (ri / 2 + 8) ;;
  e <- expected_index (le32 nn) chainID h ;;
  Ok (auxindex =? e).
