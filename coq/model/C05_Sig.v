(* C05 model: signature checking of a transaction.

   Mirrors blockchain/validation.go (RunPrograms, GetTxProgramHashes,
   CheckStandardSignature, checkSchnorrSignatures, checkCrossChainSignatures,
   SortPrograms), crypto/crypto.go (CheckMultiSigSignatures,
   VerifyMultisigSignatures), crypto/common.go (ParseMultisigScript,
   ParseCrossChainScript, parsePublicKeys), core/contract/common.go
   (IsStandard, IsSchnorr, IsMultiSig), common/common.go
   (SortProgramHashByCodeHash) and checkTransactionSignature of
   core/transaction/transactionchecker.go.  Executable, no proofs here.

   Bytes are Z in 0..255, byte strings are lists.  The cryptographic
   primitives are Section variables (oracles):
     codehash       code -> 20 bytes       common.ToCodeHash (RIPEMD160 . SHA256)
     point_ok       key33 -> bool          crypto.DecodePoint succeeds
     verify_ecdsa   key33 data sig64       crypto.Verify (DecodePoint key) data sig = nil
     verify_schnorr key33 data sig64       crypto.SchnorrVerify key (Sha256D data) sig
     keyhash        key34 -> bytes         sha256.Sum256 (the "already verified" set key)
   Outcome is [bool]: true = RunPrograms returned nil.  An error and a Go
   run-time panic (index out of range on malformed codes / short parameters,
   property C03's subject) are both "not accepted" = false.

   [strict] selects the repaired code (true) or the code before the repair
   commit "fix: RunPrograms rejects programs of unknown code shape" (false):
   before the repair a Standard/Deposit program whose code is none of
   Schnorr / standard / multisig shape fell through with no signature check. *)
From Coq Require Import ZArith Bool List.
Import ListNotations.
Local Open Scope Z_scope.

Definition bytes := list Z.

Definition len {A} (l : list A) : Z := Z.of_nat (length l).

Fixpoint beq (a b : bytes) : bool :=
  match a, b with
  | [], [] => true
  | x :: a', y :: b' => (x =? y) && beq a' b'
  | _, _ => false
  end.

(* code[i] for a Z index; None = Go index-out-of-range panic *)
Definition nthz (l : bytes) (i : Z) : option Z :=
  if i <? 0 then None else nth_error l (Z.to_nat i).

Definition byte_at (l : bytes) (i : nat) : Z := nth i l 0.

(* ---------------------------------------------------------------- shapes *)

(* contract.IsStandard: len 35, code[0]=33, code[34]=CHECKSIG(0xac) *)
Definition is_standard (c : bytes) : bool :=
  (len c =? 35) && (byte_at c 0 =? 33) && (byte_at c 34 =? 172).

(* contract.IsSchnorr: len 35, code[0]=PUSH1(0x51), code[1]+2 = len *)
Definition is_schnorr (c : bytes) : bool :=
  (len c =? 35) && (byte_at c 0 =? 81) && (byte_at c 1 + 2 =? 35).

Inductive tri := TTrue | TFalse | TPanic.

(* common.BytesToInt16 (big endian, 0 when fewer than two bytes remain) *)
Definition int16be (c : bytes) (i : Z) : Z :=
  match nthz c i, nthz c (i + 1) with
  | Some a, Some b => let v := a * 256 + b in if v <? 32768 then v else v - 65536
  | _, _ => 0
  end.

(* the loop [for code[i] == 33 { i += 34; if len(code) <= i {return false}; n++ }];
   None = returned false inside the loop *)
Fixpoint skip_keys (fuel : nat) (c : bytes) (i n : Z) : option (Z * Z) :=
  match fuel with
  | O => None
  | S f =>
    match nthz c i with
    | Some v =>
      if v =? 33 then
        (if len c <=? i + 34 then None else skip_keys f c (i + 34) (n + 1))
      else Some (i, n)
    | None => None
    end
  end.

(* contract.IsMultiSig, including its out-of-range reads (TPanic) *)
Definition is_multisig (c : bytes) : tri :=
  if len c <? 37 then TFalse else
  let c0 := byte_at c 0 in
  if c0 >? 96 then TFalse else
  if (c0 <? 81) && negb (c0 =? 1) && negb (c0 =? 2) then TFalse else
  let '(m, i) := if c0 =? 1 then (byte_at c 1, 2)
                 else if c0 =? 2 then (int16be c 1, 3)
                 else (c0 - 80, 1) in
  if (m <? 1) || (m >? 1024) then TFalse else
  match skip_keys (length c) c i 0 with
  | None => TFalse
  | Some (i, n) =>
    if (n <? m) || (n >? 1024) then TFalse else
    match nthz c i with
    | None => TPanic
    | Some ci =>
      let after : tri + Z :=
        if ci =? 1 then
          match nthz c (i + 1) with
          | None => inl TPanic
          | Some v => if n =? v then inr (i + 2) else inl TFalse
          end
        else if ci =? 2 then
          (if n =? int16be c (i + 1) then inr (i + 3) else inl TFalse)
        else if n =? ci - 80 then inr (i + 1) else inl TFalse in
      match after with
      | inl r => r
      | inr j =>
        match nthz c j with
        | None => TPanic
        | Some v => if v =? 174 then (if len c =? j + 1 then TTrue else TFalse) else TFalse
        end
      end
    end
  end.

(* ---------------------------------------------------------------- scripts *)

Fixpoint chunks (fuel k : nat) (l : bytes) : list bytes :=
  match fuel with
  | O => []
  | S f => match l with
           | [] => []
           | _ => firstn k l :: chunks f k (skipn k l)
           end
  end.

(* crypto.ParseMultisigScript (last = 0xae) / ParseCrossChainScript (0xaf) *)
Definition parse_keys (last : Z) (c : bytes) : option (list bytes) :=
  if (len c <? 71) || negb (byte_at c (length c - 1) =? last) then None else
  let body := firstn (length c - 3) (tl c) in
  if negb (len body mod 34 =? 0) then None else
  Some (chunks (length body) 34 body).

Section Oracles.
  Variable codehash : bytes -> bytes.
  Variable point_ok : bytes -> bool.
  Variable verify_ecdsa : bytes -> bytes -> bytes -> bool.
  Variable verify_schnorr : bytes -> bytes -> bytes -> bool.
  Variable keyhash : bytes -> bytes.

  Definition mem (x : bytes) (l : list bytes) : bool := existsb (beq x) l.

  (* inner loop of VerifyMultisigSignatures for one signature:
     None = return error; Some v = continue with verified set v *)
  Fixpoint match_sig (data sign : bytes) (keys : list bytes) (verified : list bytes)
    : option (list bytes) :=
    match keys with
    | [] => Some verified
    | k :: ks =>
      if negb (point_ok (tl k)) then None else
      if verify_ecdsa (tl k) data sign then
        (if mem (keyhash k) verified then None else Some (keyhash k :: verified))
      else match_sig data sign ks verified
    end.

  Fixpoint sig_loop (data : bytes) (sigs : list bytes) (keys : list bytes) (verified : list bytes)
    : option (list bytes) :=
    match sigs with
    | [] => Some verified
    | s :: ss =>
      match match_sig data (tl s) keys verified with
      | None => None
      | Some v => sig_loop data ss keys v
      end
    end.

  (* crypto.VerifyMultisigSignatures(m, n, publicKeys, signatures, data) *)
  Definition verify_multisig (m n : Z) (keys : list bytes) (sigs data : bytes) : bool :=
    if negb (len keys =? n) then false else
    if negb (len sigs mod 65 =? 0) then false else
    if len sigs / 65 <? m then false else
    if len sigs / 65 >? n then false else
    match sig_loop data (chunks (length sigs) 65 sigs) keys [] with
    | None => false
    | Some v => negb (len v <? m)
    end.

  (* crypto.CheckMultiSigSignatures (check_m = true, last = 0xae) and
     blockchain.checkCrossChainSignatures (check_m = false, last = 0xaf) *)
  Definition check_multisig (check_m : bool) (last : Z) (code param data : bytes) : bool :=
    match nthz code (len code - 2), nthz code 0 with
    | Some cn, Some c0 =>
      let n := cn - 81 + 1 in
      let m := c0 - 81 + 1 in
      if check_m && ((m <? 1) || (m >? n)) then false else
      match parse_keys last code with
      | None => false
      | Some keys => verify_multisig m n keys param data
      end
    | _, _ => false   (* index out of range *)
    end.

  (* blockchain.CheckStandardSignature *)
  Definition check_standard (code param data : bytes) : bool :=
    if negb (len param =? 65) then false else
    if len code <? 2 then false else      (* code[1:len-1] slice bounds *)
    let key := firstn (length code - 2) (tl code) in
    if negb (point_ok key) then false else
    verify_ecdsa key data (tl param).

  (* blockchain.checkSchnorrSignatures (code has Schnorr shape: 35 bytes) *)
  Definition check_schnorr (code param data : bytes) : bool :=
    if len param <? 64 then false else    (* Parameter[:64] slice bounds *)
    verify_schnorr (skipn 2 code) data (firstn 64 param).

  Definition prefix_of (h : bytes) : Z := byte_at h 0.

  (* one iteration of the loop of RunPrograms *)
  Definition check_one (strict : bool) (data h code param : bytes) : bool :=
    let p := prefix_of h in
    if p =? 75 then                                   (* PrefixCrossChain *)
      (if is_schnorr code then check_schnorr code param data
       else check_multisig false 175 code param data)
    else if negb (beq (tl h) (codehash code)) then false
    else if (p =? 33) || (p =? 31) then               (* PrefixStandard, PrefixDeposit *)
      (if is_schnorr code then check_schnorr code param data
       else if is_standard code then check_standard code param data
       else match is_multisig code with
            | TTrue => check_multisig true 174 code param data
            | TFalse => negb strict
            | TPanic => false
            end)
    else if p =? 18 then                              (* PrefixMultiSig *)
      check_multisig true 174 code param data
    else false.

  Fixpoint run_loop (strict : bool) (data : bytes) (hashes : list bytes) (progs : list (bytes * bytes)) : bool :=
    match hashes, progs with
    | [], [] => true
    | h :: hs, (c, p) :: ps => check_one strict data h c p && run_loop strict data hs ps
    | _, _ => false
    end.

  (* blockchain.RunPrograms *)
  Definition run_programs (strict : bool) (data : bytes) (hashes : list bytes) (progs : list (bytes * bytes)) : bool :=
    (length hashes =? length progs)%nat && run_loop strict data hashes progs.

  (* ------------------------------------------------------------ tx level *)

  (* Uint160.Compare: most significant byte is the last one *)
  Fixpoint cmp_lex (a b : bytes) : comparison :=
    match a, b with
    | [], [] => Eq
    | [], _ => Lt
    | _, [] => Gt
    | x :: a', y :: b' => match x ?= y with Eq => cmp_lex a' b' | c => c end
    end.
  Definition hash_lt (a b : bytes) : bool :=
    match cmp_lex (rev a) (rev b) with Lt => true | _ => false end.

  (* Go's insertion sort (sort.Sort / sort.Slice on at most 12 elements):
     an element moves left while strictly less than its predecessor. *)
  Section Sort.
    Context {A : Type} (key : A -> bytes).
    Fixpoint insert_sorted (x : A) (l : list A) : list A :=
      match l with
      | [] => [x]
      | y :: l' => if hash_lt (key x) (key y) then x :: l else y :: insert_sorted x l'
      end.
    Definition sort_by (l : list A) : list A := fold_left (fun acc x => insert_sorted x acc) l [].
  End Sort.

  Fixpoint dedup (l : list bytes) : list bytes :=
    match l with
    | [] => []
    | x :: l' => if mem x l' then dedup l' else x :: dedup l'
    end.

  (* blockchain.GetTxProgramHashes: referenced outputs' program hashes plus
     the data of attributes with usage Script (0x20), which must be 21 bytes;
     duplicates removed (Go: map iteration order, i.e. unordered). *)
  Fixpoint script_attrs (attrs : list (Z * bytes)) : option (list bytes) :=
    match attrs with
    | [] => Some []
    | (u, d) :: r =>
      match script_attrs r with
      | None => None
      | Some l => if u =? 32 then (if len d =? 21 then Some (d :: l) else None) else Some l
      end
    end.

  Definition get_tx_program_hashes (refs : list bytes) (attrs : list (Z * bytes)) : option (list bytes) :=
    match script_attrs attrs with
    | None => None
    | Some l => Some (dedup (refs ++ l))
    end.

  (* checkTransactionSignature for an ordinary (non-exempt) transaction type *)
  Definition check_tx_signature (strict : bool) (data : bytes) (refs : list bytes) (attrs : list (Z * bytes))
             (progs : list (bytes * bytes)) : bool :=
    match get_tx_program_hashes refs attrs with
    | None => false
    | Some hs =>
      run_programs strict data
        (sort_by (fun h => tl h) hs)
        (sort_by (fun cp => codehash (fst cp)) progs)
    end.
End Oracles.

(* ---------------------------------------------------------------- exemptions *)

(* checkTransactionSignature returns nil before looking at any program for
   some (transaction type, payload version) pairs.  The table of exempt pairs
   is not written here: it is regenerated on every run from the code under
   test (coq/gen/C05_exempt.v: every type x every payload version 0..255 is
   probed through the real function; rows are (type, lo, hi) version ranges),
   together with two facts per exempt type:
     no_inputs        CheckTransactionInput rejects a transaction with an input
     restricts_inputs SpecialContextCheck of the type contains a loop over
                      t.references that tests ProgramHash and returns an error
                      (source fact, go/ast over core/transaction).            *)
Definition exempt (rows : list (Z * Z * Z)) (ty v : Z) : bool :=
  existsb (fun r => let '(t, lo, hi) := r in (t =? ty) && (lo <=? v) && (v <=? hi)) rows.

Inductive reason := NoInputs | InputsRestricted | KnownUnrestricted.

(* Why an exemption does not contradict the property.  Everything not listed
   must go through RunPrograms.
   0x14 NextTurnDPOSInfo               spends nothing (inputs forbidden)
   0x2b CRAssetsRectify                inputs must be the CR assets address
   0x2a CRCProposalRealWithdraw        inputs must be the CR expenses address
                                       (since fix 73ccc639)
   0x29 CRCProposalWithdraw, version 0 inputs must be the CR expenses address
                                       (version 1 and every other version is
                                       signed like an ordinary transaction)
   0x61 DposV2ClaimRewardRealWithdraw, 0x65 VotesRealWithdraw
                                       inputs are NOT restricted by their
                                       SpecialContextCheck: recorded as known
                                       findings, listed here so that nothing
                                       else can hide behind them.            *)
Definition allowed_reason (ty v : Z) : option reason :=
  if ty =? 20 then Some NoInputs
  else if ty =? 43 then Some InputsRestricted
  else if ty =? 42 then Some InputsRestricted
  else if (ty =? 41) && (v =? 0) then Some InputsRestricted
  else if (ty =? 97) || (ty =? 101) then Some KnownUnrestricted
  else None.

Fixpoint fact_of (facts : list (Z * bool * bool)) (ty : Z) : bool * bool :=
  match facts with
  | [] => (false, false)
  | (t, a, b) :: r => if t =? ty then (a, b) else fact_of r ty
  end.

Definition justified (facts : list (Z * bool * bool)) (ty v : Z) : bool :=
  match allowed_reason ty v with
  | Some NoInputs => fst (fact_of facts ty)
  | Some InputsRestricted => snd (fact_of facts ty)
  | Some KnownUnrestricted => true
  | None => false
  end.

Definition all_exemptions_justified (rows : list (Z * Z * Z)) (facts : list (Z * bool * bool)) : bool :=
  forallb (fun ty => forallb (fun v => implb (exempt rows ty v) (justified facts ty v))
                             (map Z.of_nat (seq 0 256)))
          (map Z.of_nat (seq 0 256)).

Section Typed.
  Variable codehash : bytes -> bytes.
  Variable point_ok : bytes -> bool.
  Variable verify_ecdsa : bytes -> bytes -> bytes -> bool.
  Variable verify_schnorr : bytes -> bytes -> bytes -> bool.
  Variable keyhash : bytes -> bytes.

  (* checkTransactionSignature for any transaction type *)
  Definition check_tx_signature_typed (rows : list (Z * Z * Z)) (ty v : Z) (data : bytes)
             (refs : list bytes) (attrs : list (Z * bytes)) (progs : list (bytes * bytes)) : bool :=
    if exempt rows ty v then true
    else check_tx_signature codehash point_ok verify_ecdsa verify_schnorr keyhash true data refs attrs progs.
End Typed.
