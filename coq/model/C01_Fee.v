(* C01 model: the amount checks a non-coinbase transaction passes through.
   Mirrors, as the code is after commit "fix: reject transactions whose
   input/output amounts overflow Fixed64 in the fee check":
     core/transaction/crcproposalwithdraw.go   getTransactionFee  (exact big.Int
                                               difference, error when not int64)
     core/transaction/transactionchecker.go    DefaultChecker.CheckTransactionOutput
                                               (and the copies in transferasset-,
                                               withdrawfromsidechain-, returnsidechain-
                                               depositcoin-, transfercrosschainasset-
                                               transaction.go), checkOutputProgramHash,
                                               DefaultChecker.CheckTransactionFee
     core/transaction/activateproducertransaction.go  CheckTransactionOutput / CheckTransactionFee
     the "no output" overrides (illegal*, inactivearbitrators, nextturndposinfo,
     reverttopow, reverttodpos, updateversion, recordsponsor, nftdestroy)
     blockchain/blockvalidator.go              GetTxFeeMap / GetTxFee (still wrapping
                                               int64 sums) and the totalTxFee loop of
                                               checkTxsContext
   and, for the record of the repaired defect, the legacy wrapping
   getTransactionFee.  Fixed64 is int64: Z with explicit two's-complement wrap.
   Executable, no proofs here. *)
From Coq Require Import ZArith Bool List.
Import ListNotations.
Local Open Scope Z_scope.

Definition i64_min : Z := -9223372036854775808.
Definition i64_max : Z := 9223372036854775807.
Definition in_i64 (z : Z) : bool := (i64_min <=? z) && (z <=? i64_max).

(* Go's int64 result of an arithmetic operation whose exact value is z *)
Definition wrap64 (z : Z) : Z :=
  (z + 9223372036854775808) mod 18446744073709551616 - 9223372036854775808.

Definition exact_sum (l : list Z) : Z := fold_right Z.add 0 l.

(* var s Fixed64; for _, v := range l { s += v } *)
Definition wsum (l : list Z) : Z := fold_left (fun a v => wrap64 (a + v)) l 0.

(* getTransactionFee before the repair: inputValue - outputValue on wrapping sums *)
Definition legacy_fee (refs outs : list Z) : Z := wrap64 (wsum refs - wsum outs).

(* getTransactionFee after the repair: exact difference, error if not an int64 *)
Definition tx_fee (refs outs : list Z) : option Z :=
  let d := exact_sum refs - exact_sum outs in
  if in_i64 d then Some d else None.

(* ---- outputs ---- *)

(* what CheckTransactionOutput looks at in one output: amount, whether the
   asset id is the ELA asset, first byte of the program hash, whether the hash
   is one of the always-allowed ones (all-zero, CR assets, CRC expenses), the
   output type (0 = OTNone) *)
Record outp := O { o_val : Z; o_asset : bool; o_pfx : Z; o_spec : bool; o_type : Z }.

(* the shape of CheckTransactionOutput used by the transaction type *)
Inductive kind :=
| KStd        (* per-output loop: default checker and the four copies *)
| KNone       (* "no cost transactions should have no output" *)
| KActivate.  (* ActivateProducer: no outputs up to NFTStartHeight, optional checked outputs after *)

Record params := P { p_height : Z;      (* block height *)
                     p_cah : Z;         (* config.DefaultParams.CheckAddressHeight *)
                     p_nft : Z;         (* DPoSConfiguration.NFTStartHeight *)
                     p_ver9 : bool;     (* tx.Version() >= TxVersion09 *)
                     p_minfee : Z }.    (* Config.MinTransactionFee *)

Definition prefix_ok (p : Z) : bool :=
  (p =? 33) || (p =? 18) || (p =? 75) || (p =? 31) || (p =? 63).

(* checkOutputProgramHash (the base58 round trip never fails for 21 bytes) *)
Definition hash_ok (pr : params) (o : outp) : bool :=
  if p_cah pr <=? p_height pr then o_spec o || prefix_ok (o_pfx o) else true.

Definition std_output_ok (pr : params) (o : outp) : bool :=
  o_asset o && (0 <=? o_val o) && hash_ok pr o &&
  (if p_ver9 pr then o_type o =? 0 else true).

Definition check_outputs (k : kind) (pr : params) (outs : list outp) : bool :=
  let n := Z.of_nat (length outs) in
  match k with
  | KStd => (n <=? 65535) && (1 <=? n) && forallb (std_output_ok pr) outs
  | KNone => n =? 0
  | KActivate =>
      (* up to NFTStartHeight: no outputs; after it outputs are optional and, if
         present, go through DefaultChecker.CheckTransactionOutput (repair 8c6b2cdf) *)
      if p_height pr <=? p_nft pr then n =? 0
      else (n =? 0) || ((n <=? 65535) && (1 <=? n) && forallb (std_output_ok pr) outs)
  end.

(* CheckTransactionFee: Some fee = accepted (and the fee recorded by SetFee) *)
Definition check_fee (k : kind) (pr : params) (refs outs : list Z) : option Z :=
  match tx_fee refs outs with
  | None => None
  | Some f =>
    match k with
    | KActivate => if f =? 0 then Some f else None
    | _ => if f <? p_minfee pr then None else Some f
    end
  end.

Definition is_some {A} (o : option A) : bool := match o with Some _ => true | None => false end.

(* The amount checks as the node composes them: SanityCheck runs
   CheckTransactionOutput (checkAssetPrecision is vacuous: precision 8), then
   ContextCheck runs SpecialContextCheck - whose verdict [special_end] ("stop
   here, accepted") depends on chain state and is a parameter - and, unless it
   ended, CheckTransactionFee. *)
Definition accept (k : kind) (pr : params) (special_end : bool)
                  (outs : list outp) (refs : list Z) : bool :=
  check_outputs k pr outs &&
  (special_end || is_some (check_fee k pr refs (map o_val outs))).

(* the same composition on the legacy arithmetic (kept to state what was wrong) *)
Definition legacy_accept (pr : params) (outs : list outp) (refs : list Z) : bool :=
  check_outputs KStd pr outs &&
  negb (legacy_fee refs (map o_val outs) <? p_minfee pr).

(* ---- block side: GetTxFeeMap / GetTxFee for the ELA asset ---- *)

(* amounts tagged with "asset id is ELA" *)
Definition ela_vals (l : list (Z * bool)) : list Z :=
  map fst (filter snd l).

Definition tx_fee_map_ela (refs outs : list (Z * bool)) : Z :=
  let i := ela_vals refs in let o := ela_vals outs in
  match o, i with
  | [], [] => 0                            (* key absent: feeMap[assetId] = 0 *)
  | [], _ => wsum i                        (* feeMap[in] += inputValue *)
  | _, [] => wrap64 (0 - wsum o)           (* feeMap[out] -= outputValue *)
  | _, _ => wrap64 (wsum i - wsum o)
  end.

(* totalTxFee += GetTxFee(...) over the block's transactions *)
Definition block_fee (fees : list Z) : Z := wsum fees.

(* ---- transaction types that end validation in SpecialContextCheck (no fee
   check) and may carry outputs ---- *)

(* SideChainPOWTransaction.CheckTransactionOutput for the new form (no inputs;
   IsNewSideChainPowTx): exactly one output, of value 0 and type OTNone.  (With
   inputs the per-output loop KStd and the fee check apply.) *)
Definition sidepow_new_outputs_ok (outs : list outp) : bool :=
  match outs with
  | [o] => (o_val o =? 0) && (o_type o =? 0)
  | _ => false
  end.

(* CRCAppropriationTransaction.CheckTransactionOutput: exactly two outputs, the
   first to the CR expenses address [h0], the second to the CR assets address
   [h1], then the per-output loop *)
Definition approp_outputs_ok (pr : params) (h0 h1 : bool) (outs : list outp) : bool :=
  (Z.of_nat (length outs) =? 2) && h0 && h1 && forallb (std_output_ok pr) outs.

(* amount part of CRCAppropriationTransaction.SpecialContextCheck: an
   appropriation is due, every reference is owned by the CR assets address
   (tag), wrapping input total = wrapping output total, first output = the
   committee's AppropriationAmount *)
Definition approp_special_ok (needed : bool) (refs : list (Z * bool)) (outs : list Z) (amount : Z) : bool :=
  needed && forallb snd refs && (wsum (map fst refs) =? wsum outs) &&
  match outs with
  | o0 :: _ => amount =? o0
  | [] => false
  end.

Definition accept_approp (pr : params) (h0 h1 needed : bool) (amount : Z)
                         (outs : list outp) (refs : list (Z * bool)) : bool :=
  approp_outputs_ok pr h0 h1 outs && approp_special_ok needed refs (map o_val outs) amount.

(* ---- from inputs to references ---- *)

(* an input: the outpoint it names (an id; [invalid_op] stands for the
   all-zero txid with index 65535) and its Sequence field *)
Record inp := I { i_op : Z; i_seq : Z }.
Definition invalid_op : Z := -1.

Definition memz (x : Z) (l : list Z) : bool := existsb (Z.eqb x) l.

(* the duplicate loop of DefaultChecker.CheckTransactionInput: the set is keyed
   by input.ReferKey(), i.e. by the outpoint only *)
Fixpoint nodup_ops (seen : list Z) (ins : list inp) : bool :=
  match ins with
  | [] => true
  | i :: r => negb (memz (i_op i) seen) && nodup_ops (i_op i :: seen) r
  end.

(* DefaultChecker.CheckTransactionInput (also ActivateProducer's above
   NFTStartHeight when it has inputs, SideChainPow's with inputs) *)
Definition check_inputs (ins : list inp) : bool :=
  (1 <=? Z.of_nat (length ins)) &&
  forallb (fun i => negb (i_op i =? invalid_op)) ins &&
  nodup_ops [] ins.

(* UTXOCache.GetTxReference: one map entry per input, carrying the value of the
   output its outpoint names in the unspent set [utxo] *)
Definition references (utxo : Z -> Z) (ins : list inp) : list Z :=
  map (fun i => utxo (i_op i)) ins.

(* the outpoints a transaction spends: each one once, however often it is named *)
Fixpoint dedup_from (seen : list Z) (l : list Z) : list Z :=
  match l with
  | [] => []
  | x :: r => if memz x seen then dedup_from seen r else x :: dedup_from (x :: seen) r
  end.
Definition spent_outpoints (ins : list inp) : list Z := dedup_from [] (map i_op ins).
Definition spent_total (utxo : Z -> Z) (ins : list inp) : Z :=
  exact_sum (map utxo (spent_outpoints ins)).

(* the composition with the input check in front *)
Definition accept_tx (k : kind) (pr : params) (utxo : Z -> Z) (ins : list inp) (outs : list outp) : bool :=
  check_inputs ins && accept k pr false outs (references utxo ins).
