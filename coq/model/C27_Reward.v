(* C27 model: distribution of the accumulated DPoS reward among arbiters and
   candidates.

   Mirrors (as they are: float64 arithmetic, int64 wrap-around, map "+=" versus
   "=" , the uncounted abnormal-CR loop, panics)
     dpos/state/arbitrators.go  Arbiters.distributeDPOSReward,
                                distributeWithNormalArbitratorsV1 / V2 / V3
     dpos/state/heightversion.go distributeWithNormalArbitratorsV0

   Program hashes are opaque integers (the harness numbers them).  An arbiter
   is described by the attributes the code inspects.  Go maps are association
   lists sorted by key.  The two float sub-expressions (per-arbiter block
   confirm reward, per-vote share) enter the loops as Section variables so
   that the theorems can be stated for any such functions; [distribute]
   instantiates them with Go's expressions on primitive floats.
   No proofs in this file. *)
From Coq Require Import ZArith Bool List Floats.
From ELA Require Import lib.GoFloat.
Import ListNotations.
Local Open Scope Z_scope.

Record arb := {
  a_owner : Z;            (* GetOwnerProgramHash() *)
  a_in_map : bool;        (* owner hash is a key of CurrentCRCArbitersMap *)
  a_crc : bool;           (* the member is a *crcArbiter (GetType() = CRC) *)
  a_elected : bool;       (* crMember.MemberState = MemberElected *)
  a_nodpk : bool;         (* len(crMember.DPOSPublicKey) = 0 *)
  a_pkhash : option Z;    (* GetOwnerKeyStandardProgramHash(GetOwnerPublicKey()), None = error *)
  a_prodhash : option Z   (* program hash of getProducerKey(node key) (V3), None = the code panics *)
}.

Record st := {
  s_arbs : list arb;          (* CurrentArbitrators *)
  s_cands : list Z;           (* owner program hashes of CurrentCandidates *)
  s_votes : list (Z * Z);     (* CurrentReward.OwnerVotesInRound *)
  s_total : Z;                (* CurrentReward.TotalVotesInRound *)
  s_crc_count : Z;            (* len(ChainParams.DPoSConfiguration.CRCArbiters) *)
  s_normal_count : Z;         (* ChainParams.DPoSConfiguration.NormalArbitratorsCount *)
  s_pow : bool;               (* ConsensusAlgorithm = POW *)
  s_destroy : Z;              (* DestroyELAProgramHash *)
  s_crc_hash : Z;             (* CRConfiguration.CRCProgramHash *)
  s_h_v1 : Z;                 (* CRConfiguration.CRCommitteeStartHeight *)
  s_h_v2 : Z;                 (* CRConfiguration.CRClaimDPOSNodeStartHeight *)
  s_h_v3 : Z                  (* CRConfiguration.ChangeCommitteeNewCRHeight *)
}.

Definition u32 (z : Z) : Z := z mod 4294967296.

(* ------------------------------------------------------------------ maps *)

Fixpoint lookup0 (k : Z) (m : list (Z * Z)) : Z :=
  match m with
  | [] => 0
  | (k', v) :: m' => if k =? k' then v else lookup0 k m'
  end.

(* m[k] = f(m[k]) with Go's zero value for a missing key; keeps the list sorted *)
Fixpoint upd (f : Z -> Z) (k : Z) (m : list (Z * Z)) : list (Z * Z) :=
  match m with
  | [] => [(k, f 0)]
  | (k', v) :: m' =>
      if k =? k' then (k, f v) :: m'
      else if k <? k' then (k, f 0) :: m
      else (k', v) :: upd f k m'
  end.

Definition madd (k x : Z) (m : list (Z * Z)) := upd (fun v => add64 v x) k m.   (* m[k] += x *)
Definition mset (k x : Z) (m : list (Z * Z)) := upd (fun _ => x) k m.           (* m[k]  = x *)

(* ------------------------------------------------------------------ loops *)

Inductive version := V0 | V1 | V2 | V3.

Inductive pay := PPanic | PPay (hash r : Z) (assign : bool).

Inductive inner := IErr | IPanic | IOk (m : list (Z * Z)) (real : Z).

Section Core.
  Variable ibcr : Z.              (* individualBlockConfirmReward *)
  Variable share : Z -> Z.        (* votes |-> Fixed64(math.Floor(float64(votes) * rewardPerVote)) *)
  Variable s : st.

  Definition vshare (k : Z) : Z := share (lookup0 k (s_votes s)).

  Definition crc_dest (a : arb) : Z :=
    match a_pkhash a with Some h => h | None => s_destroy s end.

  Definition pay_of (v : version) (a : arb) : pay :=
    match v with
    | V0 =>
        if a_in_map a then PPay (s_crc_hash s) ibcr false
        else PPay (a_owner a) (add64 ibcr (vshare (a_owner a))) true
    | V1 =>
        if a_in_map a then
          PPay (if negb (a_crc a) || negb (a_elected a) then s_destroy s else crc_dest a) ibcr false
        else PPay (a_owner a) (add64 ibcr (vshare (a_owner a))) false
    | V2 =>
        if a_in_map a then
          PPay (if negb (a_crc a) || negb (a_elected a) || a_nodpk a then s_destroy s else crc_dest a) ibcr false
        else PPay (a_owner a) (add64 ibcr (vshare (a_owner a))) false
    | V3 =>
        if a_crc a then
          if negb (a_elected a) then PPay (s_destroy s) ibcr false
          else if a_nodpk a then
            match a_prodhash a with
            | None => PPanic
            | Some ph => PPay ph (add64 ibcr (vshare ph)) false
            end
          else PPay (crc_dest a) ibcr false
        else PPay (a_owner a) (add64 ibcr (vshare (a_owner a))) false
    end.

  Fixpoint run_arbs (v : version) (l : list arb) (m : list (Z * Z)) (real : Z) : option (list (Z * Z) * Z) :=
    match l with
    | [] => Some (m, real)
    | a :: l' =>
        match pay_of v a with
        | PPanic => None
        | PPay k r asg => run_arbs v l' (if asg then mset k r m else madd k r m) (add64 real r)
        end
    end.

  Fixpoint run_cands (l : list Z) (m : list (Z * Z)) (real : Z) : list (Z * Z) * Z :=
    match l with
    | [] => (m, real)
    | c :: l' => let r := vshare c in run_cands l' (mset c r m) (add64 real r)
    end.

  (* for i := len(CurrentArbitrators); i < arbitersCount; i++ { m[destroy] += ibcr } *)
  Fixpoint run_extra (n : nat) (m : list (Z * Z)) : list (Z * Z) :=
    match n with
    | O => m
    | S n' => run_extra n' (madd (s_destroy s) ibcr m)
    end.

  Definition n_arbs : Z := Z.of_nat (length (s_arbs s)).
  Definition arbiters_count : Z := s_crc_count s + s_normal_count s.
  Definition n_extra (v : version) : nat :=
    match v with V2 | V3 => Z.to_nat (arbiters_count - n_arbs) | _ => O end.

  Definition loops (v : version) (m0 : list (Z * Z)) : inner :=
    match run_arbs v (s_arbs s) m0 0 with
    | None => IPanic
    | Some (m1, real1) =>
        let '(m2, real2) := run_cands (s_cands s) m1 real1 in
        IOk (run_extra (n_extra v) m2) real2
    end.

  Definition dist_version (v : version) (reward : Z) : inner :=
    match v with
    | V0 =>
        if n_arbs =? 0 then IErr
        else if s_crc_count s =? n_arbs then IOk [(s_crc_hash s, reward)] reward
        else loops V0 [(s_crc_hash s, 0)]
    | V1 =>
        if n_arbs =? 0 then IErr
        else if s_crc_count s =? n_arbs then IOk [(s_crc_hash s, reward)] reward
        else loops V1 []
    | V2 =>
        if (n_arbs =? 0) || (s_crc_count s =? n_arbs) then IOk [(s_destroy s, reward)] reward
        else loops V2 []
    | V3 =>
        if s_pow s || (n_arbs =? 0) || (s_crc_count s =? n_arbs) then IOk [(s_destroy s, reward)] reward
        else loops V3 []
    end.
End Core.

(* ------------------------------------------------------------------ float sub-expressions *)

(* Fixed64(math.Floor(float64(reward)*0.25 / float64(count))) *)
Definition go_ibcr (reward count : Z) : Z :=
  to_int64 (floor (div (mul (of_int64 reward) c025) (of_int64 count))).

(* rewardPerVote := dposRewardPerVote(float64(reward) - float64(reward)*0.25, totalVotesInRound)
   = 0 when totalVotesInRound <= 0 (fix of the zero-vote round), else the quotient *)
Definition go_rpv (reward total : Z) : float :=
  if total <=? 0 then PrimFloat.zero
  else div (sub (of_int64 reward) (mul (of_int64 reward) c025)) (of_int64 total).

(* the expression before the fix, kept for the witness in props/C27.v *)
Definition go_rpv_unguarded (reward total : Z) : float :=
  div (sub (of_int64 reward) (mul (of_int64 reward) c025)) (of_int64 total).

(* Fixed64(math.Floor(float64(votes) * rewardPerVote)) *)
Definition go_share (reward total votes : Z) : Z :=
  to_int64 (floor (mul (of_int64 votes) (go_rpv reward total))).

(* ------------------------------------------------------------------ entry point *)

Definition version_of (s : st) (h : Z) : version :=
  let n2 := u32 (2 * u32 (Z.of_nat (length (s_arbs s)))) in
  if u32 (s_h_v3 s + n2) <=? h then V3
  else if u32 (s_h_v2 s + n2) <=? h then V2
  else if u32 (s_h_v1 s + n2) <=? h then V1
  else V0.

Definition count_of (s : st) (v : version) : Z :=
  match v with V0 | V1 => n_arbs s | V2 | V3 => arbiters_count s end.

Inductive result := RErr | RPanic | ROk (m : list (Z * Z)) (change : Z).

(* the final guard of distributeDPOSReward, for any inner result *)
Definition guard (reward : Z) (i : inner) : result :=
  match i with
  | IErr => RErr
  | IPanic => RPanic
  | IOk m real =>
      let change := sub64 reward real in
      if change <? 0 then RErr else ROk m change
  end.

Definition distribute_v (s : st) (v : version) (reward : Z) : result :=
  guard reward (dist_version (go_ibcr reward (count_of s v)) (go_share reward (s_total s)) s v reward).

(* distributeDPOSReward(height, reward) *)
Definition distribute (s : st) (h reward : Z) : result :=
  distribute_v s (version_of s h) reward.
