(* C02/C04 — descriptors of the Go decoders of /repo, one per Deserialize
   method family (after the fix: commits bounding wire-supplied counts).
   Element sizes [esz] are the Go memory per element (slice slot plus the
   object a pointer element points to), rounded up.
   The numeric ids are shared with harness/cmd/c02 and harness/cmd/c04. *)
From Coq Require Import NArith List Bool.
From ELA Require Import lib.GoSem lib.Bytes lib.VarInt model.C02_Fmt.
Import ListNotations.
Local Open Scope N_scope.

(* ---- common leaves (crypto/*.go, common/serialize.go, elanet/pact) *)
Definition pk33 := FVarBytes 33.            (* crypto.NegativeBigLength / COMPRESSEDLEN *)
Definition sig64 := FVarBytes 64.           (* crypto.SignatureLength *)
Definition code_max := FVarBytes 34003.     (* crypto.MaxMultiSignCodeLength *)
Definition sigscript := FVarBytes 64001.    (* crypto.MaxSignatureScriptLength *)
Definition str := FVarString.
Definition data1m := FVarBytes 1048576.     (* payload.MaxPayloadDataSize, MaxProposalDataSize, MaxOpinionDataSize *)
Definition blockctx := FVarBytes 8000000.   (* pact.MaxBlockContextSize *)
Definition blockhdr := FVarBytes 1000000.   (* pact.MaxBlockHeaderSize *)
Definition BoolNZ := FBool BNZ.
Definition int_list (esz : N) (e : fmt) := FCounted CVar true None NoPre esz e.  (* for i := 0; i < int(count) *)

(* ---- DPoS proposal / vote / confirm (core/types/payload) *)
Definition proposal_fmt := fseq [pk33; H256; U32; sig64].
Definition vote_fmt := fseq [H256; pk33; FBool BEq1; sig64].
Definition confirm_fmt := FSeq proposal_fmt (FCounted (CW 8) false None NoPre 96 vote_fmt).
(* the decoder before the fix: p.Votes = make([]DPOSProposalVote, signCount) *)
Definition confirm_unfixed := FSeq proposal_fmt (FCounted (CW 8) false None PreLen 96 vote_fmt).

(* ---- transaction payloads; [vi] = position of the payload version among the
   enclosing discriminants *)
Definition asset_fmt := fseq [str; str; U8; U8; U8].
Definition propev_fmt := fseq [proposal_fmt; blockctx; U32].
Definition voteev_fmt := FSeq vote_fmt propev_fmt.
Definition keys_fmt := list_var 24 pk33.
Definition evidence_others := fseq [blockhdr; keys_fmt].
Definition vwl_fmt := fseq [code_max; U64; U32].                    (* VotesWithLockTime *)
Definition votescontent_fmt := FSeq U8 (list_var 40 vwl_fmt).
Definition renewal_fmt := FSeq H256 vwl_fmt.
Definition detailedvote_fmt := fseq [H168; H256; U32; U8; U8; list_var 40 vwl_fmt].
Definition budget_fmt := fseq [U8; U8; U64].
Definition upgradeinfo_fmt := fseq [U32; str; str; H256; BoolNZ].
Definition sidechaininfo_fmt := fseq [str; U32; H256; U64; U32; str].

Definition crcproposal_fmt (vi : nat) : fmt :=
  let V := S vi in
  let draft := FCaseGe V 1 data1m FUnit in
  let hd := [str; pk33; H256] in
  let tail := [sig64; H168; sig64] in
  let tail2 := [sig64; sig64; H168; sig64] in
  let normal := fseq (hd ++ [draft; int_list 16 budget_fmt; H168] ++ tail) in
  let upgrade := fseq (hd ++ [upgradeinfo_fmt] ++ tail) in
  FTag 2 false
   (FCase 0 1025 (fseq (hd ++ [draft; H256; H168; pk33] ++ tail2))          (* ChangeProposalOwner 0x0401 *)
   (FCase 0 1026 (fseq (hd ++ [draft; H256] ++ tail))                        (* CloseProposal 0x0402 *)
   (FCase 0 1024 (fseq (hd ++ [draft; pk33; H168] ++ tail2))                 (* SecretaryGeneral 0x0400 *)
   (FCase 0 512 upgrade (FCase 0 513 upgrade (FCase 0 514 upgrade            (* *UpgradeCode 0x0200..0x0202 *)
   (FCase 0 1040 (fseq (hd ++ [draft; sidechaininfo_fmt] ++ tail))           (* RegisterSideChain 0x0410 *)
   (FCase 0 1280 (fseq (hd ++ [draft; int_list 16 str] ++ tail))             (* ReserveCustomID 0x0500 *)
   (FCase 0 1281 (fseq (hd ++ [draft; int_list 16 str; H168] ++ tail))       (* ReceiveCustomID 0x0501 *)
   (FCase 0 1282 (fseq (hd ++ [draft; U64; U32] ++ tail))                    (* ChangeCustomIDFee 0x0502 *)
    normal)))))))))).

Definition payload_fmt (ty : N) (vi : nat) : fmt :=
  let veq n a b := FCase vi n a b in
  let vge n a b := FCaseGe vi n a b in
  match ty with
  | 0 => data1m                                                          (* CoinBase *)
  | 1 => fseq [asset_fmt; U64; H168]                                     (* RegisterAsset *)
  | 2 => FUnit                                                           (* TransferAsset *)
  | 3 => fseq [str; data1m]                                              (* Record *)
  | 5 => fseq [H256; H256; U32; data1m]                                  (* SideChainPow *)
  | 7 => veq 0 (fseq [U32; str; list_var 32 H256])                       (* WithdrawFromSideChain *)
          (veq 2 (list_var 1 U8) FUnit)
  | 8 => vge 1 FUnit (list_var 32 (fseq [str; FVarUint; U64]))           (* TransferCrossChainAsset *)
  | 9 | 11 => fseq [code_max; code_max; str; str; U64; str;              (* Register/UpdateProducer: ProducerInfo *)
                    vge 1 U32 FUnit; vge 2 FUnit sig64]
  | 10 => fseq [code_max; vge 1 FUnit sig64]                             (* CancelProducer: ProcessProducer *)
  | 12 | 36 => FUnit                                                     (* ReturnDepositCoin, ReturnCRDepositCoin *)
  | 13 => fseq [pk33; sig64]                                             (* ActivateProducer *)
  | 14 => FSeq propev_fmt propev_fmt                                     (* IllegalProposalEvidence *)
  | 15 => FSeq voteev_fmt voteev_fmt                                     (* IllegalVoteEvidence *)
  | 16 => fseq [U32; U32; blockctx; blockctx; evidence_others; evidence_others]  (* IllegalBlockEvidence *)
  | 17 => fseq [U8; U32; pk33; H256; H256; str; list_var 24 sig64]       (* IllegalSidechainEvidence *)
  | 18 => fseq [pk33; U32; list_var 24 pk33]                             (* InactiveArbitrators *)
  | 19 => fseq [U32; U32]                                                (* UpdateVersion *)
  | 20 => fseq [U32; keys_fmt; keys_fmt; vge 1 keys_fmt FUnit]           (* NextTurnDPOSInfo *)
  | 21 => list_var 40 (fseq [H256; U16; BoolNZ])                         (* ProposalResult *)
  | 33 | 35 =>                                                           (* RegisterCR, UpdateCR: CRInfo *)
      let legacy a := veq 2 FUnit (veq 3 FUnit a) in
      fseq [legacy code_max; H168; vge 1 H168 FUnit; str; str; U64; legacy sigscript]
  | 34 => fseq [H168; veq 1 FUnit (veq 2 FUnit sigscript)]               (* UnregisterCR *)
  | 37 => crcproposal_fmt vi                                             (* CRCProposal *)
  | 38 => fseq [H256; U8; H256; vge 1 data1m FUnit; H168; sigscript]     (* CRCProposalReview *)
  | 39 => fseq [H256; H256; vge 1 (FVarBytes 819200) FUnit; U8;          (* CRCProposalTracking *)
                FVarBytes 35; FVarBytes 35; sig64; sig64; U8; H256;
                vge 1 (FVarBytes 204800) FUnit; sig64]
  | 40 | 43 => FUnit                                                     (* CRCAppropriation, CRAssetsRectify *)
  | 41 => fseq [H256; pk33; veq 1 (FSeq H168 U64) FUnit; sigscript]      (* CRCProposalWithdraw *)
  | 42 => list_var 32 H256                                               (* CRCProposalRealWithdraw *)
  | 49 => fseq [pk33; H168; sigscript]                                   (* CRCouncilMemberClaimNode *)
  | 65 => fseq [U8; U32]                                                 (* RevertToPOW *)
  | 66 => fseq [U32; U32]                                                (* RevertToDPOS *)
  | 81 => veq 1 (list_var 1 U8) FUnit                                    (* ReturnSideChainDepositCoin *)
  | 96 | 100 => fseq [H168; veq 0 code_max FUnit; U64; veq 0 sigscript FUnit]  (* DposV2ClaimReward, ReturnVotes *)
  | 97 => list_var 32 H256                                               (* DposV2ClaimRewardRealWithdraw *)
  | 98 => FUnit                                                          (* ExchangeVotes *)
  | 99 => veq 0 (list_var 32 votescontent_fmt)                           (* Voting *)
          (veq 1 (list_var 72 renewal_fmt) FUnit)
  | 101 => list_var 64 (fseq [H256; H168; U64])                          (* VotesRealWithdraw *)
  | 102 => FVarBytes 33                                                  (* RecordSponsor *)
  | 113 => fseq [H256; str; H256; vge 1 (fseq [U32; U32; U64; U64; code_max]) FUnit]  (* CreateNFT *)
  | 114 => fseq [list_var 32 H256; list_var 21 H168; H256]               (* NFTDestroyFromSideChain *)
  | _ => FFail
  end.

(* transaction.GetTransaction / interfaces.GetPayload accept exactly these *)
Definition tx_types : list N :=
  [0; 1; 2; 3; 5; 7; 8; 9; 10; 11; 12; 13; 14; 15; 16; 17; 18; 19; 20; 21;
   33; 34; 35; 36; 37; 38; 39; 40; 41; 42; 43; 49; 65; 66; 81;
   96; 97; 98; 99; 100; 101; 102; 113; 114].

(* ---- transaction envelope (core/transaction/transaction.go, common.go) *)
Definition attr_usages : list N := [0; 32; 129; 144; 145; 146].
Definition attr_fmt :=
  FTag 1 false (fold_right (fun u acc => FCase 0 u (FVarBytes str_max) acc) FFail attr_usages).
Definition input_fmt := fseq [H256; U16; U32].
Definition program_fmt := FSeq (FVarBytes 20000) (FVarBytes 10000).   (* Parameter, Code *)

Definition candvotes_fmt := FSeq code_max (FCaseGe 0 1 U64 FUnit).
Definition voteoutput_fmt := FTag 1 false (list_var 32 (FSeq U8 (list_var 32 candvotes_fmt))).
Definition outpayload_fmt (ot : N) : fmt :=
  match ot with
  | 0 => FUnit                                              (* DefaultOutput *)
  | 1 | 6 => voteoutput_fmt                                 (* OTVote, OTDposV2Vote *)
  | 2 => fseq [U8; code_max; FVarBytes 256; sig64]          (* Mapping *)
  | 3 => fseq [U8; str; U64; FVarBytes 1024]                (* CrossChain *)
  | 4 => fseq [U8; str; H256; FVarBytes 1024]               (* Withdraw *)
  | 5 => fseq [U8; str; H256]                               (* ReturnSideChainDeposit *)
  | 7 => fseq [U8; H168]                                    (* Stake *)
  | _ => FFail
  end.
Definition out_types : list N := [0; 1; 2; 3; 4; 5; 6; 7].
Definition output_head := [H256; U64; U32; H168].
Definition output_fmt (v9 : bool) : fmt :=
  if v9 then fseq (output_head ++
       [FTag 1 false (fold_right (fun t acc => FCase 0 t (outpayload_fmt t) acc) FFail out_types)])
  else fseq output_head.

Definition tx_rest (v9 : bool) : fmt :=
  fseq [list_var 40 attr_fmt; list_var 48 input_fmt; list_var 144 (output_fmt v9); U32].
(* payload version byte, payload, attributes, inputs, outputs, lock time *)
Definition tx_body (v9 : bool) (ty : N) : fmt := FTag 1 false (FSeq (payload_fmt ty 0) (tx_rest v9)).
Definition type_switch (k : N -> fmt) : fmt :=
  fold_right (fun ty acc => FCase 0 ty (k ty) acc) FFail tx_types.
(* first byte >= 9: it is the version and a type byte follows; otherwise it is
   the type of a version-0 transaction *)
Definition txu_fmt : fmt :=
  FTag 1 false (FCaseGe 0 9 (FTag 1 false (type_switch (tx_body true))) (type_switch (tx_body false))).
Definition programs_fmt : fmt := list_var 56 program_fmt.
Definition tx_fmt : fmt := FSeq txu_fmt programs_fmt.

(* ---- header, auxpow, block *)
Definition btcin_fmt := fseq [H256; U32; FVarBytes 10000; U32].
Definition btcout_fmt := FSeq U64 (FVarBytes 10000).
Definition btctx_fmt := fseq [U32; list_var 80 btcin_fmt; list_var 40 btcout_fmt; U32].
Definition btcheader_fmt := fseq [U32; H256; H256; U32; U32; U32].
Definition auxpow_fmt := fseq [btctx_fmt; H256; list_var 32 H256; U32; list_var 32 H256; U32; btcheader_fmt].
Definition header_noaux := [U32; H256; H256; U32; U32; U32; U32].
Definition header_fmt := fseq (header_noaux ++ [auxpow_fmt; FSkipOpt]).
Definition block_fmt := FSeq header_fmt (FCounted (CW 4) false None NoPre 1400 tx_fmt).
Definition dposblock_fmt := FSeq block_fmt (FTag 1 true (FCase 0 0 FUnit confirm_fmt)).

(* ---- p2p messages (p2p/msg, elanet/bloom, dpos/p2p/msg) *)
Definition inv_fmt := FCounted (CW 4) false (Some 50000) PreLen 44 (FSeq U32 H256).
Definition getblocks_fmt := FSeq (FCounted (CW 4) false (Some 500) PreLen 40 H256) H256.
Definition netaddr_fmt := fseq [U64; U64; FFix 16; U16].
Definition addr_fmt := FCounted (CW 8) false (Some 1000) PreLen 96 netaddr_fmt.
Definition merkleblock_fmt :=
  fseq [header_fmt; U32; FCounted (CW 4) false (Some 10000) PreLen 40 H256; FVarBytes 1250].
Definition merkleproof_fmt :=
  fseq [H256; U32; U32; FCounted (CW 4) false (Some 10000) PreLen 40 H256; FVarBytes 1250].
Definition version_fmt :=
  FTag 4 false (fseq [U64; U32; U16; U64; U64; BoolNZ; FCaseGe 0 80000 str FUnit]).
Definition reject_fmt := fseq [str; U8; str; H256].
Definition filteradd_fmt := FVarBytes 520.
Definition txfilterload_fmt := FSeq U8 (FVarBytes 50000).
Definition daddr_fmt := fseq [FFix 33; U64; FFix 33; FVarBytes 256; sig64].
Definition ping_fmt := U64.
Definition responseblocks_fmt := list_var 1800 dposblock_fmt.
Definition resetview_fmt := FSeq pk33 sig64.
Definition respinactive_fmt := fseq [H256; pk33; sig64].
Definition dposaddr_fmt := FSeq str U16.
Definition dposgetblocks_fmt := FSeq U32 U32.
(* msg.FilterLoad: filter, hash function count (<= MaxFilterLoadHashFuncs = 50), tweak, flags, optional tx types *)
Definition filterload_fmt :=
  FSeq (FVarBytes 36000) (FTag 4 false (FCaseGe 0 51 FFail (fseq [U32; U8; FTailU8List]))).
(* dpos msg.ConsensusStatus: a failure to read the first count is swallowed (return nil) *)
Definition consensusstatus_fmt :=
  fseq [U32; U32; U64;
        FSwallowHead [0; 0; 0; 0]
          (fseq [list_var 96 vote_fmt; list_var 96 vote_fmt; list_var 104 proposal_fmt; list_var 96 vote_fmt])].
(* dpos msg.Version under the two values of the process-global payload version *)
Definition dposversion_v1_fmt := fseq [FFix 33; FFix 16; FFix 16; U16; FTimeMs].
Definition dposversion_v2_fmt := fseq [U32; FFix 33; FFix 16; FFix 16; U16; FTimeMs; str].

(* ---- small decoders used by storage / checkpoints *)
Definition dposheader_fmt := FSeq header_fmt (FTag 1 true (FCase 0 0 FUnit confirm_fmt)).   (* types.DPOSHeader *)
Definition outpoint_fmt := FSeq H256 U16.
Definition utxo_fmt := fseq [H256; U16; U64].
Definition outputinfo_fmt := FSeq H168 U64.
Definition nftinfo_fmt := fseq [H256; H256; H256].
Definition crcproposalinfo_fmt :=
  fseq [U16; str; pk33; H256; int_list 16 budget_fmt; H168; H256; int_list 16 str; int_list 16 str; H168;
        U64; U32; H168; pk33; pk33; H168; H168; sidechaininfo_fmt; H256].

(* ---- registry: id -> descriptor (ids shared with the Go harness) *)
Definition fmt_of (id : N) : fmt :=
  match id with
  | 1 => tx_fmt | 2 => block_fmt | 3 => header_fmt | 4 => auxpow_fmt | 5 => btctx_fmt
  | 6 => dposblock_fmt | 7 => confirm_fmt | 8 => proposal_fmt | 9 => vote_fmt
  | 10 => block_fmt (* Block.DeserializeTxLoc *)
  | 11 => txu_fmt   (* GetTransactionByBytes + DeserializeUnsigned *)
  | 12 => dposheader_fmt
  | 23 => H168 | 24 => U64 | 25 => FFix 20     (* common.Uint168, Fixed64, Uint160 *)
  | 36 => outpoint_fmt | 37 => utxo_fmt | 38 => outputinfo_fmt
  | 39 => crcproposalinfo_fmt | 40 => nftinfo_fmt
  | 317 => FUnit                               (* msg.empty (verack, getaddr, mempool, filterclear) *)
  | 20 => FVarUint            (* common.ReadVarUint / WriteVarUint directly *)
  | 21 => FVarBytes 33        (* common.ReadVarBytes(r, 33, _) / WriteVarBytes directly *)
  | 22 => FVarString          (* common.ReadVarString / WriteVarString directly *)
  | 30 => output_fmt true | 31 => output_fmt false
  | 32 => attr_fmt | 33 => input_fmt | 34 => program_fmt
  | 35 => detailedvote_fmt
  | 300 => inv_fmt | 301 => getblocks_fmt | 302 => addr_fmt | 303 => merkleblock_fmt
  | 304 => version_fmt | 305 => reject_fmt | 307 => filteradd_fmt | 308 => txfilterload_fmt
  | 309 => daddr_fmt | 310 => ping_fmt | 311 => merkleproof_fmt | 312 => netaddr_fmt
  | 401 => responseblocks_fmt | 402 => resetview_fmt | 403 => respinactive_fmt
  | 404 => dposaddr_fmt | 405 => dposgetblocks_fmt
  | 313 | 314 => inv_fmt                       (* msg.GetData, msg.NotFound embed Inv *)
  | 315 | 410 => ping_fmt                      (* msg.Pong, dpos Ping/Pong *)
  | 406 | 408 => H256                          (* dpos Inventory, RequestProposal *)
  | 407 => U32                                 (* dpos RequestConsensus *)
  | 409 => str                                 (* dpos Daddr *)
  | 411 => reject_fmt                          (* dpos Reject *)
  | 412 => respinactive_fmt                    (* dpos ResponseRevertToDPOS *)
  | 413 => FFix 64                             (* dpos VerAck *)
  | 414 => payload_fmt 14 0                    (* dpos IllegalProposals (payload version 0) *)
  | 415 => payload_fmt 15 0                    (* dpos IllegalVotes *)
  | 416 => payload_fmt 17 0                    (* dpos SidechainIllegalData *)
  | 417 => proposal_fmt | 418 => vote_fmt      (* dpos Proposal, Vote *)
  | 306 => filterload_fmt                      (* msg.FilterLoad *)
  | 400 | 421 => consensusstatus_fmt           (* dpos ConsensusStatus, ResponseConsensus *)
  | 419 => dposversion_v1_fmt | 420 => dposversion_v2_fmt
  | _ =>
    if (100 <=? id) && (id <? 250) then payload_fmt (id - 100) 0      (* payload of tx type id-100; ctx = [version] *)
    else if (250 <=? id) && (id <? 260) then outpayload_fmt (id - 250)
    else FFail
  end.

Definition format_ids : list N :=
  [1; 2; 3; 4; 5; 6; 7; 8; 9; 10; 11; 12; 20; 21; 22; 23; 24; 25; 30; 31; 32; 33; 34; 35; 36; 37; 38; 39; 40; 317;
   300; 301; 302; 303; 304; 305; 307; 308; 309; 310; 311; 312; 313; 314; 315;
   306; 400; 401; 402; 403; 404; 405; 406; 407; 408; 409; 410; 411; 412; 413; 414; 415; 416; 417; 418; 419; 420; 421]
  ++ map (fun t => 100 + t) tx_types ++ map (fun t => 250 + t) out_types.

Definition all_formats : list fmt := map fmt_of format_ids.

(* largest per-byte factor and additive constant over the registry *)
Definition k_max : N := fold_right N.max 0 (map kf all_formats).
Definition c_max : N := fold_right N.max 0 (map cf all_formats).
