(* C39 model: mirrors elanet/bloom/murmurhash3.go (MurmurHash3) and
   elanet/bloom/filter.go (hash, matches, add, addOutPoint, matchTxAndUpdate)
   as of the repaired code (fix: empty filter matches everything / add is a
   no-op).  Executable, no proofs here.

   Bytes are N below 256, uint32 values are N with the wrap-around written
   explicitly ([u32]).  The filter functions are parameterised by the
   32-bit hash [mm : seed -> data -> uint32]; [murmur3] is the instance the
   correspondence run uses.

   Go panics: the only reachable one is the integer division by zero in
   hash() when [uint32(len(Filter)) << 3 = 0] although the filter has bytes
   (a multiple of 2^29 bytes; unreachable from the wire where the limit is
   36000) -- [panics].  Index-out-of-range cannot happen: the bit index is
   below [nbits <= 8 * len].  Before the repair [panics] also held for the
   empty filter with at least one hash function; the witness stays in the
   harness corpus. *)
From Coq Require Import NArith List Bool.
Import ListNotations.
Local Open Scope N_scope.

(* truncation to uint32: x & 0xffffffff *)
Definition u32 (x : N) : N := N.land x 4294967295.

(* ------------------------------------------------------------------ murmur3 *)

Definition rotl32 (x r : N) : N := N.lor (u32 (N.shiftl x r)) (N.shiftr x (32 - r)).
Definition mul32 (a b : N) : N := u32 (a * b).

Definition murmurC1 : N := 3432918353.  (* 0xcc9e2d51 *)
Definition murmurC2 : N := 461845907.   (* 0x1b873593 *)
Definition murmurN : N := 3864292196.   (* 0xe6546b64 *)

Definition mix_k (k : N) : N := mul32 (rotl32 (mul32 k murmurC1) 15) murmurC2.

Definition mix_h (h k : N) : N :=
  u32 (rotl32 (N.lxor h (mix_k k)) 13 * 5 + murmurN).

Definition le32 (b0 b1 b2 b3 : N) : N := b0 + 256 * b1 + 65536 * b2 + 16777216 * b3.

(* the 4-byte blocks; returns the running hash and the 0..3 tail bytes *)
Fixpoint murmur_body (h : N) (data : list N) : N * list N :=
  match data with
  | b0 :: b1 :: b2 :: b3 :: rest => murmur_body (mix_h h (le32 b0 b1 b2 b3)) rest
  | tail => (h, tail)
  end.

Definition murmur_tail (h : N) (tail : list N) : N :=
  match tail with
  | [a] => N.lxor h (mix_k a)
  | [a; b] => N.lxor h (mix_k (N.lxor (N.shiftl b 8) a))
  | [a; b; c] => N.lxor h (mix_k (N.lxor (N.lxor (N.shiftl c 16) (N.shiftl b 8)) a))
  | _ => h
  end.

Definition fmix (h : N) : N :=
  let h := N.lxor h (N.shiftr h 16) in
  let h := mul32 h 2246822507 in          (* 0x85ebca6b *)
  let h := N.lxor h (N.shiftr h 13) in
  let h := mul32 h 3266489909 in          (* 0xc2b2ae35 *)
  N.lxor h (N.shiftr h 16).

Definition murmur3 (seed : N) (data : list N) : N :=
  let '(h, tail) := murmur_body seed data in
  let h := murmur_tail h tail in
  fmix (N.lxor h (u32 (N.of_nat (length data)))).

(* ------------------------------------------------------------------ filter *)

Inductive outcome (A : Type) := Ok (a : A) | Panic.
Arguments Ok {A} a.
Arguments Panic {A}.

Section Filter.
Variable mm : N -> list N -> N.

(* msg.FilterLoad without Flags (never read by the filter code) *)
Record filter := mkFilter {
  fbytes : list N;
  hash_funcs : N;
  tweak : N;
  tx_types : list N }.

Definition with_bytes (f : filter) (bs : list N) : filter :=
  mkFilter bs (hash_funcs f) (tweak f) (tx_types f).

Definition blen (bs : list N) : N := N.of_nat (length bs).

(* uint32(len(bf.msg.Filter)) << 3 *)
Definition nbits (bs : list N) : N := (blen bs * 8) mod 4294967296.

Definition hash_seed (tw i : N) : N := u32 (i * 4221880213 + tw).  (* hashNum*0xfba4c795 + Tweak *)

(* hash() for a filter of [n = nbits bs] bits (the byte length never changes,
   the loops below compute it once): total here ([x mod 0 = x] in Coq); Go
   panics when [n = 0] *)
Definition hash_idx (n : N) (tw i : N) (data : list N) : N :=
  mm (hash_seed tw i) data mod n.

Definition test_bit (bs : list N) (idx : N) : bool :=
  match nth_error bs (N.to_nat (idx / 8)) with
  | Some b => N.testbit b (idx mod 8)
  | None => false
  end.

Fixpoint upd (bs : list N) (k : nat) (g : N -> N) : list N :=
  match bs, k with
  | [], _ => []
  | b :: r, O => g b :: r
  | b :: r, S k' => b :: upd r k' g
  end.

Definition set_bit (bs : list N) (idx : N) : list N :=
  upd bs (N.to_nat (idx / 8)) (fun b => N.lor b (N.shiftl 1 (idx mod 8))).

(* 0, 1, ..., hf-1 *)
Definition idxs (hf : N) : list N := map N.of_nat (seq 0 (N.to_nat hf)).

(* the loops of matches() / add() on a non-empty filter *)
Definition matches_bits (bs : list N) (hf tw : N) (data : list N) : bool :=
  let n := nbits bs in
  forallb (fun i => test_bit bs (hash_idx n tw i data)) (idxs hf).

Definition add_bits (bs : list N) (hf tw : N) (data : list N) : list N :=
  let n := nbits bs in
  fold_left (fun acc i => set_bit acc (hash_idx n tw i data)) (idxs hf) bs.

Definition is_empty (bs : list N) : bool := match bs with [] => true | _ => false end.

(* matches(): bf.msg != nil throughout the model *)
Definition matches (f : filter) (data : list N) : bool :=
  if is_empty (fbytes f) then true
  else matches_bits (fbytes f) (hash_funcs f) (tweak f) data.

(* add() *)
Definition add (f : filter) (data : list N) : filter :=
  if is_empty (fbytes f) then f
  else with_bytes f (add_bits (fbytes f) (hash_funcs f) (tweak f) data).

(* the Go code panics (integer divide by zero in hash) exactly when *)
Definition panics (f : filter) : bool :=
  negb (is_empty (fbytes f)) && (0 <? hash_funcs f) && (nbits (fbytes f) =? 0).

Definition matches_go (f : filter) (data : list N) : outcome bool :=
  if panics f then Panic else Ok (matches f data).
Definition add_go (f : filter) (data : list N) : outcome filter :=
  if panics f then Panic else Ok (add f data).

(* ------------------------------------------------------------------ transactions *)

(* what matchTxAndUpdate reads of a transaction: its hash (32 bytes, computed
   by the implementation: an oracle value here), its type, the program hashes
   of its outputs (21 bytes each) and the serialized previous outpoints of
   its inputs (34 bytes each) *)
Record tx := mkTx {
  tx_hash : list N;
  tx_type : N;
  tx_outs : list (list N);
  tx_ins : list (list N) }.

(* OutPoint.Bytes(): TxID then the uint16 index little-endian *)
Definition outpoint_bytes (h : list N) (i : N) : list N :=
  h ++ [i mod 256; (i / 256) mod 256].

Definition mem_N (x : N) (l : list N) : bool := existsb (N.eqb x) l.

Definition max_u32 : N := 4294967295.

(* the output loop of the ordinary mode: a matching output's outpoint is added *)
Fixpoint outs_loop (f : filter) (h : list N) (i : N) (outs : list (list N)) (matched : bool)
  : filter * bool :=
  match outs with
  | [] => (f, matched)
  | ph :: r =>
      if matches f ph
      then outs_loop (add f (outpoint_bytes h i)) h (i + 1) r true
      else outs_loop f h (i + 1) r matched
  end.

Definition match_tx_and_update (f : filter) (t : tx) : filter * bool :=
  let matched := matches f (tx_hash t) in
  if tweak f =? max_u32 then
    (* side chain SPV filter: transaction types, then outputs; never updated *)
    if negb (is_empty (tx_types f)) && mem_N (tx_type t) (tx_types f) then (f, true)
    else if negb (is_empty (fbytes f)) && existsb (matches f) (tx_outs t) then (f, true)
    else (f, false)
  else
    let '(f', m) := outs_loop f (tx_hash t) 0 (tx_outs t) matched in
    if m then (f', true)
    else (f', existsb (matches f') (tx_ins t)).

Definition match_tx_go (f : filter) (t : tx) : outcome (filter * bool) :=
  if panics f then Panic else Ok (match_tx_and_update f t).

End Filter.
