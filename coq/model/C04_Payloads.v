(* C04 — typed records for the most used payloads and output payloads, each with
   conversions to/from the DSL value of its descriptor (model/C02_Descr.v
   [payload_fmt] / [outpayload_fmt]).  Fields a payload version does not
   serialize are [option]s: [wt] of the descriptor decides which must be
   present.  No proofs here (proof/C04_Payloads.v). *)
From Coq Require Import NArith List Bool.
From ELA Require Import lib.GoSem lib.Bytes model.C02_Fmt model.C02_Descr model.C04_Codec.
Import ListNotations.
Local Open Scope N_scope.

Definition opt_v {A} (f : A -> value) (o : option A) : value :=
  match o with Some a => f a | None => VUnit end.

(* ---- payload.ProducerInfo (RegisterProducer 0x09, UpdateProducer 0x0b) *)
Record producer_info := mkProducerInfo {
  pi_owner : bytes; pi_node : bytes; pi_nick : bytes; pi_url : bytes; pi_location : N; pi_addr : bytes;
  pi_stake_until : option N;        (* payload version >= 1 *)
  pi_signature : option bytes       (* payload version < 2 *)
}.
Definition producer_info_v (p : producer_info) : value :=
  VPair (VB (pi_owner p)) (VPair (VB (pi_node p)) (VPair (VB (pi_nick p)) (VPair (VB (pi_url p))
    (VPair (VN (pi_location p)) (VPair (VB (pi_addr p))
      (VPair (opt_v VN (pi_stake_until p)) (opt_v VB (pi_signature p)))))))).
Definition optN_of (v : value) : option (option N) :=
  match v with VN n => Some (Some n) | VUnit => Some None | _ => None end.
Definition optB_of (v : value) : option (option bytes) :=
  match v with VB b => Some (Some b) | VUnit => Some None | _ => None end.
Definition producer_info_of (v : value) : option producer_info :=
  match v with
  | VPair (VB o) (VPair (VB n) (VPair (VB k) (VPair (VB u) (VPair (VN l) (VPair (VB a) (VPair s g)))))) =>
    match optN_of s, optB_of g with
    | Some s', Some g' => Some (mkProducerInfo o n k u l a s' g')
    | _, _ => None
    end
  | _ => None
  end.

(* ---- payload.CRInfo (RegisterCR 0x21, UpdateCR 0x23) *)
Record cr_info := mkCRInfo {
  cr_code : option bytes;           (* versions other than 2, 3 *)
  cr_cid : bytes;
  cr_did : option bytes;            (* version >= 1 *)
  cr_nick : bytes; cr_url : bytes; cr_location : N;
  cr_signature : option bytes       (* versions other than 2, 3 *)
}.
Definition cr_info_v (p : cr_info) : value :=
  VPair (opt_v VB (cr_code p)) (VPair (VB (cr_cid p)) (VPair (opt_v VB (cr_did p))
    (VPair (VB (cr_nick p)) (VPair (VB (cr_url p)) (VPair (VN (cr_location p)) (opt_v VB (cr_signature p))))))).
Definition cr_info_of (v : value) : option cr_info :=
  match v with
  | VPair c (VPair (VB i) (VPair d (VPair (VB k) (VPair (VB u) (VPair (VN l) g))))) =>
    match optB_of c, optB_of d, optB_of g with
    | Some c', Some d', Some g' => Some (mkCRInfo c' i d' k u l g')
    | _, _, _ => None
    end
  | _ => None
  end.

(* ---- payload.WithdrawFromSideChain (0x07): three shapes by payload version *)
Inductive withdraw :=
| WithdrawV0 (height : N) (genesis_address : bytes) (hashes : list bytes)
| WithdrawV2 (signers : list N)
| WithdrawEmpty.                    (* version 1 and unknown versions: nothing on the wire *)
Definition withdraw_v (w : withdraw) : value :=
  match w with
  | WithdrawV0 h a hs => VPair (VN h) (VPair (VB a) (VL (map VB hs)))
  | WithdrawV2 ss => VL (map VN ss)
  | WithdrawEmpty => VUnit
  end.
Definition vb_of (v : value) : option bytes := match v with VB b => Some b | _ => None end.
Definition vn_of (v : value) : option N := match v with VN n => Some n | _ => None end.
Definition withdraw_of (v : value) : option withdraw :=
  match v with
  | VPair (VN h) (VPair (VB a) (VL hs)) =>
    match traverse vb_of hs with Some l => Some (WithdrawV0 h a l) | None => None end
  | VL ss => match traverse vn_of ss with Some l => Some (WithdrawV2 l) | None => None end
  | VUnit => Some WithdrawEmpty
  | _ => None
  end.

(* ---- payload.TransferCrossChainAsset (0x08): version 0 lists, later versions empty *)
Definition cross_chain := option (list (bytes * N * N)).   (* address, output index, amount *)
Definition cross_item_v (i : bytes * N * N) : value :=
  match i with (a, ix, am) => VPair (VB a) (VPair (VN ix) (VN am)) end.
Definition cross_item_of (v : value) : option (bytes * N * N) :=
  match v with VPair (VB a) (VPair (VN ix) (VN am)) => Some (a, ix, am) | _ => None end.
Definition cross_chain_v (c : cross_chain) : value :=
  match c with Some l => VL (map cross_item_v l) | None => VUnit end.
Definition cross_chain_of (v : value) : option cross_chain :=
  match v with
  | VL l => match traverse cross_item_of l with Some l' => Some (Some l') | None => None end
  | VUnit => Some None
  | _ => None
  end.

(* ---- outputpayload.VoteOutput (OTVote, OTDposV2Vote) *)
Record vote_output := mkVoteOutput {
  vo_version : N;
  vo_contents : list (N * list (bytes * option N))   (* vote type, (candidate, votes if version >= 1) *)
}.
Definition cand_v (c : bytes * option N) : value := VPair (VB (fst c)) (opt_v VN (snd c)).
Definition cand_of (v : value) : option (bytes * option N) :=
  match v with
  | VPair (VB c) x => match optN_of x with Some o => Some (c, o) | None => None end
  | _ => None
  end.
Definition content_v (c : N * list (bytes * option N)) : value := VPair (VN (fst c)) (VL (map cand_v (snd c))).
Definition content_of (v : value) : option (N * list (bytes * option N)) :=
  match v with
  | VPair (VN t) (VL cs) => match traverse cand_of cs with Some l => Some (t, l) | None => None end
  | _ => None
  end.
Definition vote_output_v (o : vote_output) : value := VTag (vo_version o) (VL (map content_v (vo_contents o))).
Definition vote_output_of (v : value) : option vote_output :=
  match v with
  | VTag ver (VL cs) => match traverse content_of cs with Some l => Some (mkVoteOutput ver l) | None => None end
  | _ => None
  end.

(* ---- payload.Voting (0x63) *)
Definition vwl := (bytes * N * N)%type.                 (* candidate, votes, lock time *)
Inductive voting :=
| VotingV0 (contents : list (N * list vwl))             (* vote type, votes *)
| VotingRenewal (contents : list (bytes * vwl))         (* refer key, votes *)
| VotingEmpty.
Definition vwl_v (x : vwl) : value := match x with (c, v, l) => VPair (VB c) (VPair (VN v) (VN l)) end.
Definition vwl_of (v : value) : option vwl :=
  match v with VPair (VB c) (VPair (VN x) (VN l)) => Some (c, x, l) | _ => None end.
Definition vcontent_v (c : N * list vwl) : value := VPair (VN (fst c)) (VL (map vwl_v (snd c))).
Definition vcontent_of (v : value) : option (N * list vwl) :=
  match v with
  | VPair (VN t) (VL l) => match traverse vwl_of l with Some l' => Some (t, l') | None => None end
  | _ => None
  end.
Definition renewal_v (c : bytes * vwl) : value := VPair (VB (fst c)) (vwl_v (snd c)).
Definition renewal_of (v : value) : option (bytes * vwl) :=
  match v with
  | VPair (VB k) x => match vwl_of x with Some w => Some (k, w) | None => None end
  | _ => None
  end.
(* the two list shapes are told apart by the payload version, which the typed
   decoder receives *)
Definition voting_v (x : voting) : value :=
  match x with
  | VotingV0 cs => VL (map vcontent_v cs)
  | VotingRenewal cs => VL (map renewal_v cs)
  | VotingEmpty => VUnit
  end.
Definition voting_of (pv : N) (v : value) : option voting :=
  match v with
  | VL l => if pv =? 0 then match traverse vcontent_of l with Some l' => Some (VotingV0 l') | None => None end
            else match traverse renewal_of l with Some l' => Some (VotingRenewal l') | None => None end
  | VUnit => Some VotingEmpty
  | _ => None
  end.

(* ---- typed codecs: payload of transaction type [ty] under payload version [pv] *)
Definition enc_payload (ty pv : N) (v : value) : bytes := encode (payload_fmt ty 0) [pv] v.
Definition dec_payload {A} (ty pv : N) (of : value -> option A) (bs : bytes) : res (A * bytes) :=
  lift of (decode (payload_fmt ty 0) [pv] bs).
Definition wt_payload (ty pv : N) (v : value) : bool := wt (payload_fmt ty 0) [pv] v.
