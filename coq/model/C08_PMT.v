(* C08 — model of the SPV partial merkle tree code:
     elanet/bloom/mblock.go        CalcTreeWidth, CalcHash, TraverseAndBuild
     elanet/bloom/merkleblock.go   NewMerkleBlock (flag packing), CheckMerkleBlock
                                   (iterative stack machine), inDeadZone, treeDepth
     elanet/bloom/merklebranch.go  GetTxMerkleBranch (on honestly built merkle blocks)
     auxpow/auxpow.go              GetMerkleRoot
   plus a recursive reference parser (the textbook TraverseAndExtract) used to
   state soundness and completeness.

   The hash type and the parent function H2 are Section variables.  No proofs
   in this file. *)
From Coq Require Import List Bool Arith NArith.
Import ListNotations.

Section PMT.
  Variable hash : Type.
  Variable hash_eq_dec : forall a b : hash, {a = b} + {a <> b}.
  Variable H2 : hash -> hash -> hash.
  Variable h0 : hash.                     (* the zero value of common.Uint256 *)

  Definition heqb (a b : hash) : bool := if hash_eq_dec a b then true else false.

  (* ---------------------------------------------------------------- build *)
  Section Build.
    Variable txs : list hash.             (* AllHashes *)
    Variable mt : list bool.              (* MatchedBits *)
    Let n := length txs.                  (* NumTx *)

    (* CalcTreeWidth: (NumTx + (1 << height) - 1) >> height *)
    Definition width (h : nat) : nat := (n + 2 ^ h - 1) / 2 ^ h.

    (* the loop [for CalcTreeWidth(height) > 1 { height++ }] *)
    Fixpoint height_from (fuel h : nat) : nat :=
      match fuel with
      | O => h
      | S f => if width h <=? 1 then h else height_from f (S h)
      end.
    Definition tree_height : nat := height_from n 0.

    (* CalcHash *)
    Fixpoint calc_hash (h pos : nat) : hash :=
      match h with
      | O => nth pos txs h0
      | S h' =>
        let l := calc_hash h' (2 * pos) in
        let r := if 2 * pos + 1 <? width h' then calc_hash h' (2 * pos + 1) else l in
        H2 l r
      end.

    (* isParent: OR of MatchedBits[i] for pos<<h <= i < min((pos+1)<<h, NumTx) *)
    Definition covers (h pos : nat) : bool :=
      existsb (fun b => b) (firstn (2 ^ h) (skipn (pos * 2 ^ h) mt)).

    (* TraverseAndBuild: (Bits, FinalHashes) in depth-first order *)
    Fixpoint build (h pos : nat) : list bool * list hash :=
      match h with
      | O => ([covers 0 pos], [calc_hash 0 pos])
      | S h' =>
        if covers h pos then
          let '(b1, x1) := build h' (2 * pos) in
          if 2 * pos + 1 <? width h' then
            let '(b2, x2) := build h' (2 * pos + 1) in
            (true :: b1 ++ b2, x1 ++ x2)
          else (true :: b1, x1)
        else ([false], [calc_hash h pos])
      end.

    (* the matched transaction ids in block order *)
    Fixpoint matched (ts : list hash) (ms : list bool) : list hash :=
      match ts, ms with
      | t :: ts', b :: ms' => if b then t :: matched ts' ms' else matched ts' ms'
      | _, _ => []
      end.

    (* GetTxMerkleBranch on the merkle block built for a pattern that matches
       transaction [i]: at each height the sibling of the node above [i], or the
       node itself when it is the unpaired last node of its row; the branch
       index has bit [h] set when that hash goes on the left. *)
    Fixpoint branch (levels h i : nat) : list hash * N :=
      match levels with
      | O => ([], 0%N)
      | S l' =>
        let k := Nat.div2 i in
        let '(rest, idx) := branch l' (S h) k in
        if Nat.even i then
          if i + 1 <? width h
          then (calc_hash h (i + 1) :: rest, N.double idx)
          else (calc_hash h i :: rest, N.succ_double idx)   (* dead zone: itself, "on the left" *)
        else (calc_hash h (i - 1) :: rest, N.succ_double idx)
      end.
  End Build.

  (* auxpow.GetMerkleRoot for index <> -1 *)
  Fixpoint eval_branch (x : hash) (br : list hash) (index : N) : hash :=
    match br with
    | [] => x
    | it :: r => eval_branch (if N.odd index then H2 it x else H2 x it) r (N.div2 index)
    end.

  (* ---------------------------------------------------------------- flags *)
  (* NewMerkleBlock: Flags[i/8] |= Bits[i] << (i%8), (len(Bits)+7)/8 bytes *)
  Fixpoint byte_of_bits (bs : list bool) (w : N) : N :=
    match bs with
    | [] => 0%N
    | b :: r => ((if b then w else 0) + byte_of_bits r (2 * w))%N
    end.

  Fixpoint pack (fuel : nat) (bs : list bool) : list N :=
    match fuel, bs with
    | S f, _ :: _ => byte_of_bits (firstn 8 bs) 1 :: pack f (skipn 8 bs)
    | _, _ => []
    end.
  Definition pack_flags (bs : list bool) : list N := pack (length bs) bs.

  Definition bits_of_byte (x : N) : list bool :=
    [N.testbit x 0; N.testbit x 1; N.testbit x 2; N.testbit x 3;
     N.testbit x 4; N.testbit x 5; N.testbit x 6; N.testbit x 7].
  Definition unpack_flags (fl : list N) : list bool := flat_map bits_of_byte fl.

  (* ---------------------------------------------------------------- recursive parser *)
  Section Parse.
    Variable n : nat.                     (* m.Transactions *)
    Definition pwidth (h : nat) : nat := (n + 2 ^ h - 1) / 2 ^ h.

    (* returns (hash of the node, matched ids below it, unread bits, unread hashes) *)
    Fixpoint parse (h pos : nat) (bits : list bool) (hs : list hash)
      : option (hash * list hash * list bool * list hash) :=
      match bits with
      | [] => None
      | b :: bits1 =>
        match h with
        | O =>
          match hs with
          | [] => None
          | x :: hs1 => Some (x, if b then [x] else [], bits1, hs1)
          end
        | S h' =>
          if b then
            match parse h' (2 * pos) bits1 hs with
            | None => None
            | Some (l, ml, bits2, hs2) =>
              if 2 * pos + 1 <? pwidth h' then
                match parse h' (2 * pos + 1) bits2 hs2 with
                | None => None
                | Some (r, mr, bits3, hs3) =>
                  if heqb l r then None         (* MakeMerkleParent: "DUP HASH CRASH" *)
                  else Some (H2 l r, ml ++ mr, bits3, hs3)
                end
              else Some (H2 l l, ml, bits2, hs2)
            end
          else
            match hs with
            | [] => None
            | x :: hs1 => Some (x, [], bits1, hs1)
            end
        end
      end.

    Fixpoint pheight_from (fuel h : nat) : nat :=
      match fuel with
      | O => h
      | S f => if pwidth h <=? 1 then h else pheight_from f (S h)
      end.
    Definition pheight : nat := pheight_from n 0.

    (* the reference verifier: parse from the top and compare with the header root *)
    Definition parse_top (root : hash) (flags : list N) (hs : list hash) : option (list hash) :=
      if (n =? 0) || (length flags =? 0) then None
      else match parse pheight 0 (unpack_flags flags) hs with
           | Some (r, ms, _, _) => if heqb r root then Some ms else None
           | None => None
           end.
  End Parse.

  (* ---------------------------------------------------------------- CheckMerkleBlock *)
  (* Positions use the code's numbering: the bottom row is 0 .. msb-1, the row
     above starts at msb, the next at msb + msb/2, ...; the root is 2*msb - 2. *)
  Local Open Scope N_scope.

  (* treeDepth / nextPowerOfTwo (for 1 <= n <= 2^31; the Go loop does not
     terminate above that, which is why CheckMerkleBlock now bounds the count by
     pact.MaxTxPerBlock first, see notes) *)
  Fixpoint depth_from (fuel : nat) (e n : N) : N :=
    match fuel with
    | O => e
    | S f => if N.shiftl 1 e <? n then depth_from f (e + 1) n else e
    end.
  Definition tree_depth (n : N) : N := depth_from 33 0 n.
  Definition next_pow2 (n : N) : N := N.shiftl 1 (tree_depth n).

  Fixpoint dead_loop (fuel : nat) (pos h last msb : N) : N :=
    match fuel with
    | O => last
    | S f => if h <=? pos
             then dead_loop f pos (N.lor (N.shiftr h 1) msb) (N.lor (N.shiftr last 1) msb) msb
             else last
    end.

  Definition in_dead_zone (pos size : N) : bool :=
    let msb := next_pow2 size in
    if N.shiftl msb 1 - 2 <? pos then true
    else dead_loop 40 pos msb (size - 1) msb <? pos.

  Inductive outcome :=
  | OkMatches (ms : list hash)
  | Reject               (* any returned error *)
  | GoPanic              (* index out of range on the stack *)
  | OutOfFuel.

  Definition node : Type := (N * option hash)%type.   (* merkleNode{p, h} *)

  (* MakeMerkleParent *)
  Definition make_parent (l r : option hash) : option hash :=
    match l, r with
    | Some a, Some b => if heqb a b then None else Some (H2 a b)
    | Some a, None => Some (H2 a a)
    | None, _ => None
    end.

  (* The stack is kept with its tip first.  [r] accumulates matches in reverse. *)
  Fixpoint check_iter (fuel : nat) (n msb : N) (root : hash)
           (s : list node) (r : list hash) (pos : N)
           (bits : list bool) (hs : list hash) : outcome :=
    match fuel with
    | O => OutOfFuel
    | S f =>
      match s with
      | [(_, Some x)] => if heqb x root then OkMatches (rev r) else Reject
      | _ =>
        if in_dead_zone pos n then
          match s with
          | (_, th) :: (pp, _) :: s' =>
            match make_parent th None with
            | None => Reject
            | Some x => check_iter f n msb root ((pp, Some x) :: s') r (N.lor pp 1) bits hs
            end
          | [(_, None)] => Reject     (* MakeMerkleParent fails before s[tip-1] is touched *)
          | _ => GoPanic              (* empty stack: s[-1] *)
          end
        else
          let combine :=
            match s with
            | (_, Some a) :: (_, Some b) :: (pp, _) :: s' => Some (b, a, pp, s')
            | _ => None
            end in
          match combine with
          | Some (b, a, pp, s') =>
            match make_parent (Some b) (Some a) with
            | None => Reject
            | Some x => check_iter f n msb root ((pp, Some x) :: s') r (N.lor pp 1) bits hs
            end
          | None =>
            match hs, bits with
            | [], _ => Reject
            | _, [] => Reject
            | x :: hs1, b :: bits1 =>
              if negb (N.land pos msb =? 0) then
                if negb b then
                  let pos' := if N.odd pos then N.lor (N.shiftr pos 1) msb else N.lor pos 1 in
                  check_iter f n msb root ((pos, Some x) :: s) r pos' bits1 hs1
                else
                  check_iter f n msb root ((pos, None) :: s) r (N.shiftl (N.lxor pos msb) 1) bits1 hs
              else
                if n <=? pos then Reject
                else
                  let r' := if b then x :: r else r in
                  let pos' := if N.odd pos then pos else N.lor pos 1 in
                  check_iter f n msb root ((pos, Some x) :: s) r' pos' bits1 hs1
            end
          end
      end
    end.

  (* pact.MaxTxPerBlock (default value) *)
  Definition max_tx_per_block : N := 10000.

  (* CheckMerkleBlock; [n] is m.Transactions *)
  Definition check_merkle_block (n : N) (root : hash) (flags : list N) (hs : list hash) : outcome :=
    if (n =? 0) || (N.of_nat (length flags) =? 0) then Reject
    else if max_tx_per_block <? n then Reject     (* "Too many transactions in merkleblock" *)
    else
      let msb := next_pow2 n in
      check_iter (16 * length flags + 8) n msb root
                 [] [] (N.shiftl msb 1 - 2) (unpack_flags flags) hs.
End PMT.
