(* C11 model: block subsidy schedule, coinbase validation, coinbase construction.

   Mirrors (as they are, wrap-around and panics included)
     common/config/config.go      Configuration.GetBlockReward / newRewardPerBlock
     blockchain/blockvalidator.go BlockChain.GetBlockDPOSReward,
                                  BlockChain.checkCoinbaseTransactionContext,
                                  CheckCoinbaseArbitratorsReward
     pow/service.go               Service.AssignCoinbaseTxRewards / distributeDPOSReward

   Amounts are Fixed64 = int64 (Z with explicit wrap64), heights are uint32,
   program hashes are opaque integers (the harness numbers them), Go maps are
   association lists with distinct keys.  No proofs in this file. *)
From Coq Require Import ZArith Bool List Floats.
From ELA Require Import lib.GoFloat.
Import ListNotations.
Local Open Scope Z_scope.

(* ------------------------------------------------------------------ schedule *)

Record cfg := {
  new_h : Z;        (* NewELAIssuanceHeight   (uint32) *)
  halv_h : Z;       (* HalvingRewardHeight    (uint32) *)
  halv_int : Z;     (* HalvingRewardInterval  (uint32) *)
  old_reward : Z    (* PowConfiguration.RewardPerBlock (Fixed64) *)
}.

Definition max_u32 : Z := 4294967295.
Definition u32 (z : Z) : Z := z mod 4294967296.

(* newInflationPerYear = 2000*10000*100000000*4/100 ; 365*24*60*60/120 *)
Definition new_inflation_per_year : Z := 80000000000000.
Definition blocks_per_year : Z := 262800.

Definition base_reward_f : float :=
  div (of_int64 new_inflation_per_year) (of_int64 blocks_per_year).

(* Fixed64(float64(newInflationPerYear) / float64(generatedBlocksPerYear) / math.Pow(2, float64(k))) *)
Definition reward_of_k (k : Z) : Z := to_int64 (div base_reward_f (pow2 k)).

(* factor := uint32(1); if height >= H { factor = 2 + (height-H)/I }   (uint32 arithmetic) *)
Definition factor (c : cfg) (h : Z) : Z :=
  if h <? halv_h c then 1 else u32 (2 + u32 (h - halv_h c) / halv_int c).

(* None: Go panics with "integer divide by zero" (HalvingRewardInterval = 0) *)
Definition block_reward (c : cfg) (h : Z) : option Z :=
  if h <? new_h c then Some (old_reward c)
  else if (halv_h c <=? h) && (halv_int c =? 0) then None
  else Some (reward_of_k (u32 (factor c h - 1))).

(* ------------------------------------------------------------------ shares *)

(* Fixed64(math.Ceil(float64(t) * c)) *)
Definition ceil_share (c : float) (t : Z) : Z := to_int64 (ceil (mul (of_int64 t) c)).
Definition ceil30 := ceil_share c030.
Definition ceil35 := ceil_share c035.
(* Fixed64(float64(t) * c)  -- truncation, used before PublicDPOSHeight *)
Definition trunc_share (c : float) (t : Z) : Z := to_int64 (mul (of_int64 t) c).

(* GetBlockDPOSReward: Ceil(float64(sum of cached tx.Fee() + subsidy) * 0.35) *)
Definition block_dpos_reward (c : cfg) (h : Z) (cached_fees : Z) : option Z :=
  match block_reward c h with
  | Some r => Some (ceil35 (add64 cached_fees r))
  | None => None
  end.

(* ------------------------------------------------------------------ coinbase check *)

Record output := { o_val : Z; o_addr : Z }.

Inductive verdict := Accept | Reject | Panic.

Record env := {
  e_cfg : cfg;
  e_active : Z;          (* Arbitrators.GetDPoSV2ActiveHeight(), MaxUint32 = not active *)
  e_public_dpos : Z;     (* chainParams.PublicDPOSHeight *)
  e_pow : bool;          (* consensus algorithm is POW / arbiters.IsInPOWMode() *)
  e_destroy : Z;         (* DestroyELAProgramHash *)
  e_cr_assets : Z;       (* CRConfiguration.CRAssetsProgramHash *)
  e_dpos_acc : Z;        (* DPoSConfiguration.DPoSV2RewardAccumulateProgramHash *)
  e_foundation : Z;      (* blockchain.FoundationAddress *)
  e_final_change : Z;    (* Arbitrators.GetFinalRoundChange() *)
  e_round : list (Z * Z) (* Arbitrators.GetArbitersRoundReward(): hash -> amount *)
}.

Definition v2_regime (e : env) (h : Z) : bool :=
  negb (e_active e =? max_u32) && (e_active e + 1 <? h).

Fixpoint lookup (k : Z) (m : list (Z * Z)) : option Z :=
  match m with
  | [] => None
  | (k', v) :: m' => if k =? k' then Some v else lookup k m'
  end.

Fixpoint sum_vals (os : list output) : Z :=
  match os with
  | [] => 0
  | o :: os' => add64 (o_val o) (sum_vals os')
  end.

(* Go adds left to right; wrap-around addition is associative and commutative
   modulo 2^64, so the fold direction does not matter for the result. *)

Fixpoint round_outputs_ok (m : list (Z * Z)) (os : list output) : bool :=
  match os with
  | [] => true
  | o :: os' =>
      match lookup (o_addr o) m with
      | None => false
      | Some a => (a =? o_val o) && round_outputs_ok m os'
      end
  end.

Definition check_v2 (e : env) (outs : list output) (total dpos_reward : Z) : verdict :=
  let cr := ceil30 total in
  let dp := ceil35 total in
  let miner := sub64 (sub64 total cr) dp in
  match outs with
  | [] => Panic                      (* Outputs()[0]: index out of range *)
  | o0 :: rest0 =>
      if negb (o_val o0 =? cr) then Reject      (* decided before Outputs()[1] is read *)
      else match rest0 with
      | [] => Panic                  (* Outputs()[1]: index out of range *)
      | o1 :: rest =>
          if negb (o_val o1 =? miner) then Reject
          else match rest with
               | [o2] =>
                   if negb (o_val o2 =? dpos_reward) then Reject
                   else if e_pow e then
                     if negb (o_addr o2 =? e_destroy e) then Reject
                     else if negb (o_addr o0 =? e_destroy e) then Reject else Accept
                   else
                     if negb (o_addr o0 =? e_cr_assets e) then Reject
                     else if negb (o_addr o2 =? e_dpos_acc e) then Reject else Accept
               | _ => Reject
               end
      end
  end.

Definition check_h2 (e : env) (outs : list output) (total : Z) : verdict :=
  let dp := ceil35 total in
  match outs with
  | o0 :: o1 :: rest =>
      if negb (add64 (sub64 total dp) (e_final_change e) =? add64 (o_val o0) (o_val o1)) then Reject
      else if negb (Z.of_nat (length (e_round e)) =? Z.of_nat (length rest)) then Reject
      else if round_outputs_ok (e_round e) rest then Accept else Reject
  | _ => Panic
  end.

Definition check_old (outs : list output) (fee reward : Z) : verdict :=
  if sub64 (sum_vals outs) fee =? reward then Accept else Reject.

(* checkCoinbaseTransactionContext(blockHeight, coinbase, totalTxFee, dposReward) *)
Definition coinbase_check (e : env) (h : Z) (outs : list output) (fee dpos_reward : Z) : verdict :=
  match block_reward (e_cfg e) h with
  | None => Panic
  | Some r =>
      if v2_regime e h then check_v2 e outs (add64 fee r) dpos_reward
      else if e_public_dpos e <=? h then check_h2 e outs (add64 fee r)
      else check_old outs fee r
  end.

(* ------------------------------------------------------------------ coinbase construction *)

Definition set_val (o : output) (v : Z) : output := {| o_val := v; o_addr := o_addr o |}.
Definition set_addr (o : output) (a : Z) : output := {| o_val := o_val o; o_addr := a |}.

(* AssignCoinbaseTxRewards(block, totalReward); outs = outputs of block.Transactions[0]
   on entry; None = index-out-of-range panic.  In the H2 regime the round
   rewards are appended in Go's map iteration order; the list order of
   [e_round] stands for it (the correspondence sorts before comparing). *)
Definition assign_coinbase (e : env) (h : Z) (outs : list output) (total : Z) : option (list output) :=
  if v2_regime e h then
    match outs with
    | o0 :: o1 :: rest =>
        let cr := ceil30 total in
        let dp := ceil35 total in
        let miner := sub64 (sub64 total cr) dp in
        let o0' := set_val o0 cr in
        let o0'' := if e_pow e then set_addr o0' (e_destroy e) else o0' in
        let dpaddr := if e_pow e then e_destroy e else e_dpos_acc e in
        Some (o0'' :: set_val o1 miner :: rest ++
              (if 0 <? dp then [{| o_val := dp; o_addr := dpaddr |}] else []))
    | _ => None
    end
  else if e_public_dpos e <=? h then
    let cr := ceil30 total in
    let dp := ceil35 total in
    let miner := sub64 (sub64 total cr) dp in
    let has := negb (Nat.eqb (length (e_round e)) 0) in
    let miner' := if has then add64 miner (e_final_change e) else miner in
    let extra := if has then map (fun kv => {| o_val := snd kv; o_addr := fst kv |}) (e_round e) else [] in
    (* the round-reward outputs are appended before Outputs()[0] and [1] are written *)
    match outs ++ extra with
    | o0 :: o1 :: rest =>
        let o0' := set_val o0 cr in
        let o0'' := if e_pow e then set_addr o0' (e_destroy e) else o0' in
        Some (o0'' :: set_val o1 miner' :: rest)
    | _ => None
    end
  else
    match outs with
    | o0 :: o1 :: rest =>
        let cr := trunc_share c030 total in
        let miner := trunc_share c035 total in
        let dp := sub64 (sub64 total cr) miner in
        Some (set_val o0 cr :: set_val o1 miner :: rest ++ [{| o_val := dp; o_addr := e_foundation e |}])
    | _ => None
    end.
