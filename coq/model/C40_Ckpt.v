(* C40 — hand-off discipline of the checkpoint manager (core/checkpoint).
   Two goroutines: the block path (mutates the live registered checkpoints
   while blocks are processed) and the file goroutine (fileChannels.messageLoop
   and everything it calls).  A message on a channel carries a checkpoint value
   of provenance Snap (result of Snapshot(), private to the receiver) or Live
   (a registered checkpoint the block path keeps writing).  The translated
   table has one row per channel: (id, some call site hands over a Live value,
   number of state-method calls — Snapshot/Serialize/Deserialize/On* — the file
   goroutine performs on the carried value).  No proofs here. *)
From Coq Require Import List Bool NArith.
Import ListNotations.
Local Open Scope N_scope.

Inductive prov := Live | Snap.

Definition row := (N * bool * N)%type.
Definition r_id (r : row) : N := fst (fst r).
Definition r_live (r : row) : bool := snd (fst r).
Definition r_state_calls (r : row) : N := snd r.

(* messages that can be in flight according to the call sites *)
Definition msgs (t : list row) : list (row * prov) :=
  flat_map (fun r => (r, Snap) :: (if r_live r then [(r, Live)] else [])) t.

(* the file goroutine reads state of a live checkpoint off the block path:
   a race with the processing of the next block *)
Definition off_path_live_read (t : list row) : Prop :=
  exists m, In m (msgs t) /\ snd m = Live /\ 0 < r_state_calls (fst m).

Definition ckpt_ok (t : list row) : bool :=
  forallb (fun r => negb (r_live r) || (r_state_calls r =? 0)) t.
