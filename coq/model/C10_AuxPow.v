(* C10 model: mirrors auxpow/auxpow.go (AuxPow.Check, GetMerkleRoot,
   GetExpectedIndex) as of the repaired code (C03's bounds checks: empty TxIn,
   8 bytes after the root, merkle height < 32).  Executable, no proofs here.

   Bytes are N below 256, hashes are 32-byte lists, the hex string of the
   script is the list of its nibbles (two per byte, high first) and
   strings.Index is [index_of] on nibble lists.  The merkle step hash
   [Hh] (common.Hash = SHA-256d of the 64-byte concatenation) is a parameter.
   The parent coinbase transaction enters through its hash [cb_hash]
   (BtcTx.Hash(), computed by the implementation) and the signature script of
   its first input. *)
From Coq Require Import ZArith NArith List Bool.
Import ListNotations.
Local Open Scope Z_scope.

Fixpoint list_eqb (a b : list N) : bool :=
  match a, b with
  | [], [] => true
  | x :: a', y :: b' => (x =? y)%N && list_eqb a' b'
  | _, _ => false
  end.

(* hex.EncodeToString as nibbles *)
Fixpoint hexs (bs : list N) : list N :=
  match bs with
  | [] => []
  | b :: r => (b / 16)%N :: (b mod 16)%N :: hexs r
  end.

Fixpoint is_prefix (p s : list N) : bool :=
  match p, s with
  | [], _ => true
  | x :: p', y :: s' => (x =? y)%N && is_prefix p' s'
  | _ :: _, [] => false
  end.

(* strings.Index(s, sub) for a non-empty sub; None = -1 *)
Fixpoint index_from (sub s : list N) (i : Z) : option Z :=
  match s with
  | [] => None
  | _ :: r => if is_prefix sub s then Some i else index_from sub r (i + 1)
  end.
Definition index_of (sub s : list N) : option Z := index_from sub s 0.

Definition zlen {A} (l : list A) : Z := Z.of_nat (length l).
Definition slice (l : list N) (lo n : Z) : list N := firstn (Z.to_nat n) (skipn (Z.to_nat lo) l).

(* binary.LittleEndian.Uint32 of 4 bytes *)
Definition le32 (b : list N) : Z :=
  match b with
  | [b0; b1; b2; b3] => Z.of_N b0 + 256 * Z.of_N b1 + 65536 * Z.of_N b2 + 16777216 * Z.of_N b3
  | _ => 0
  end.

Definition u32 (x : Z) : Z := x mod 4294967296.

Definition marker : list N := [250; 190; 109; 109]%N.   (* 0xfa 0xbe 'm' 'm' *)
Definition zero_hash : list N := repeat 0%N 32.

(* GetExpectedIndex(nonce, chainID, h); int results, -1 when 1<<h overflows uint32 *)
Definition expected_index (nonce chain_id h : Z) : Z :=
  let rand := u32 (nonce * 1103515245 + 12345) in
  let rand := u32 (rand + u32 chain_id) in
  let rand := u32 (rand * 1103515245 + 12345) in
  if (h <? 0) || (32 <=? h) then -1 else rand mod 2 ^ h.

Record auxpow := mkAuxPow {
  aux_branch : list (list N);   (* AuxMerkleBranch *)
  aux_index : Z;                (* AuxMerkleIndex (int) *)
  cb_hash : list N;             (* ParCoinbaseTx.Hash() *)
  has_txin : bool;              (* len(ParCoinbaseTx.TxIn) > 0 *)
  script : list N;              (* ParCoinbaseTx.TxIn[0].SignatureScript *)
  par_branch : list (list N);   (* ParCoinBaseMerkle *)
  par_index : Z;                (* ParMerkleIndex *)
  par_root : list N }.          (* ParBlockHeader.MerkleRoot *)

Section AuxPow.
Variable Hh : list N -> list N.   (* common.Hash: SHA-256d *)

Fixpoint merkle_fold (h : list N) (br : list (list N)) (idx : Z) : list N :=
  match br with
  | [] => h
  | it :: r => merkle_fold (if Z.odd idx then Hh (it ++ h) else Hh (h ++ it)) r (Z.div2 idx)
  end.

(* GetMerkleRoot *)
Definition get_merkle_root (h : list N) (br : list (list N)) (idx : Z) : list N :=
  if idx =? -1 then zero_hash else merkle_fold h br idx.

(* AuxPow.Check(hashAuxBlock, chainID) *)
Definition check (ap : auxpow) (hblock : list N) (chain_id : Z) : bool :=
  if negb (list_eqb (get_merkle_root (cb_hash ap) (par_branch ap) (par_index ap)) (par_root ap)) then false else
  let aux_root := get_merkle_root (rev hblock) (aux_branch ap) (aux_index ap) in
  if negb (has_txin ap) then false else
  let s := hexs (script ap) in
  let root_hex := hexs (rev aux_root) in
  let marker_hex := hexs marker in
  match index_of marker_hex s, index_of root_hex s with
  | Some hi, Some ri =>
      match index_of marker_hex (skipn (Z.to_nat (hi + 2)) s) with
      | Some _ => false
      | None =>
          if negb (hi + zlen marker_hex =? ri) then false else
          let r2 := ri + zlen root_hex in
          if zlen s - r2 <? 8 then false else
          if zlen (script ap) <? r2 / 2 + 8 then false else
          let size := le32 (slice (script ap) (r2 / 2) 4) in
          let mh := zlen (aux_branch ap) in
          if 32 <=? mh then false else
          if negb (size =? 2 ^ mh) then false else
          let nonce := le32 (slice (script ap) (r2 / 2 + 4) 4) in
          aux_index ap =? expected_index nonce chain_id mh
      end
  | _, _ => false
  end.

End AuxPow.
