(* C36 — model of the JSON-RPC access decision
   (servers/httpjsonrpc/server.go: Handle, clientAllowed, checkAuth; the same
   code as utils/http/jsonrpc/server.go: ServeHTTP) and of the service-level
   gate (servers/interfaces.go: checkRPCServiceLevel), plus the hand-written
   specification table [required].  Executable, no proofs.

   net.SplitHostPort, net.ParseIP / IsLoopback / String, base64 and SHA-256
   are oracles (Section variables); the correspondence cases carry their
   values for the inputs of the case. *)
From Coq Require Import List Bool String NArith PArith MSetPositive.
From ELA Require Import lib.Graph.
Import ListNotations.
Local Open Scope string_scope.

Section Access.
  (* host part of RemoteAddr, None when SplitHostPort fails *)
  Variable split_host : string -> option string.
  (* ParseIP: None when it fails, otherwise (IsLoopback, String()) *)
  Variable parse_ip : string -> option (bool * string).
  (* "Basic " ++ base64(user ++ ":" ++ pass) *)
  Variable basic_auth : string -> string -> string.
  (* SHA-256 (the handler compares digests) *)
  Variable H : string -> string.

  Definition client_allowed (remote : string) (whitelist : list string) : bool :=
    match split_host remote with
    | None => false
    | Some host =>
      match parse_ip host with
      | None => false
      | Some (loopback, ipstr) =>
        if loopback then true
        else existsb (fun c => String.eqb c "0.0.0.0" || String.eqb c ipstr) whitelist
      end
    end.

  (* auth_headers: the values of the Authorization header, in order *)
  Definition check_auth (user pass : string) (auth_headers : list string) : bool :=
    if String.eqb user pass && Nat.eqb (String.length user) 0 then true
    else match auth_headers with
         | [] => false
         | h :: _ => String.eqb (H h) (H (basic_auth user pass))
         end.

  Inductive status := Forbidden403 | NotAllowed405 | Unsupported415 | Unauthorized401 | Dispatched.

  Definition handle (remote : string) (whitelist : list string) (user pass : string)
             (is_post ctype_ok : bool) (auth_headers : list string) : status :=
    if negb (client_allowed remote whitelist) then Forbidden403
    else if negb is_post then NotAllowed405
    else if negb ctype_ok then Unsupported415
    else if negb (check_auth user pass auth_headers) then Unauthorized401
    else Dispatched.
End Access.

(* ---- service levels: Configuration 0 < Mining 1 < Transaction 2 < Wallet 3 < QueryOnly 4.
   checkRPCServiceLevel(level) refuses iff level < configured. *)
Definition gate_runs (gate configured : N) : bool := negb (N.ltb gate configured).

(* hand-written specification: the class of every privileged method *)
Definition required : list (string * N) := [
  ("setloglevel", 0%N); ("togglemining", 0%N);
  ("createauxblock", 1%N); ("submitauxblock", 1%N); ("discretemining", 1%N);
  ("sendrawtransaction", 2%N); ("submitsidechainillegaldata", 2%N); ("estimatesmartfee", 2%N);
  ("getamountbyinputs", 3%N); ("getutxosbyamount", 3%N); ("listunspent", 3%N);
  ("createrawtransaction", 3%N); ("decoderawtransaction", 3%N); ("signrawtransactionwithkey", 3%N)
].

Fixpoint lookup (m : string) (t : list (string * N)) : option N :=
  match t with
  | [] => None
  | (k, v) :: r => if String.eqb k m then Some v else lookup m r
  end.

Definition gate_le (g : option N) (l : N) : bool :=
  match g with Some g' => N.leb g' l | None => false end.

Definition handler := (string * positive * option N)%type.

(* every registered method named in [required] has a leading gate at least as strict *)
Definition required_gated_b (hs : list handler) : bool :=
  forallb (fun h => match h with (m, _, g) =>
    match lookup m required with Some l => gate_le g l | None => true end end) hs.

(* every method of the specification is registered (a rename fails closed) *)
Definition required_registered_b (hs : list handler) : bool :=
  forallb (fun r => existsb (fun h => match h with (m, _, _) => String.eqb m (fst r) end) hs) required.

(* every registered method whose handler reaches a privileged sink within
   servers/ has a leading gate at least as strict as the sink's class *)
Definition sinks_gated_b (g : graph) (sinks : list (positive * N)) (hs : list handler) : bool :=
  forallb (fun h => match h with (_, n, gt) =>
    match reach_set g [n] with
    | None => false
    | Some R => forallb (fun s => if PositiveSet.mem (fst s) R then gate_le gt (snd s) else true) sinks
    end end) hs.
