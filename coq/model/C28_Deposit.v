(* C28 — reduced model of the deposit / vote-right bookkeeping of /repo:

     core/transaction/returndepositcointransaction.go    SpecialContextCheck
     core/transaction/returncrdepositcointransaction.go  SpecialContextCheck
     core/transaction/voting.go        SpecialContextCheck (payload.VoteVersion, DposV2 content:
                                       checkDPoSV2Content) — other vote kinds are not modelled
     core/transaction/returnvotes.go   SpecialContextCheck (the vote-right comparison)
     dpos/state/state.go               Producer.AvailableAmount, processDeposit/addProducerAssert,
                                       returnDeposit, processStake, processVotingContent (DposV2),
                                       processReturnVotes, the `UsedDposV2Votes -= votes` of
                                       cleanExpiredDposV2Votes
     cr/state/state.go                 getAvailableDepositAmount, processDeposit, returnDeposit

   Reduced state: one deposit account (producer, or CR candidate/member) =
   (total, locked deposit, penalty); one stake address = (vote rights, DPoS v2
   votes in use).  common.Fixed64 is int64: every + and - wraps (two's
   complement), made explicit by [add64]/[sub64].  Penalties and the release of
   the locked deposit (cancellation, v1->v2 switch) are abstract operations
   (they are caused by consensus events, not by the four transactions).
   No proofs in this file. *)
From Coq Require Import ZArith List Bool.
Import ListNotations.
Local Open Scope Z_scope.

Definition wrap64 (x : Z) : Z := (x + 9223372036854775808) mod 18446744073709551616 - 9223372036854775808.
Definition add64 (a b : Z) : Z := wrap64 (a + b).
Definition sub64 (a b : Z) : Z := wrap64 (a - b).
Definition sum64 (l : list Z) : Z := fold_left add64 l 0.

(* ---------------------------------------------------------------- deposits *)

Record acct := { tot : Z; lock : Z; pen : Z }.

(* Producer.AvailableAmount / getAvailableDepositAmount *)
Definition avail (a : acct) : Z := sub64 (sub64 (tot a) (lock a)) (pen a).

(* ReturnDepositCoin / ReturnCRDepositCoin SpecialContextCheck.
   [one_addr]: all referenced outputs come from one program hash;
   [refs]: values of the referenced outputs; [change]: values of the outputs
   paying back to that program hash; [outs]: the other outputs;
   [signers]: per program, the producer (candidate/member) it resolves to. *)
Definition return_check (one_addr : bool) (refs change outs : list Z)
           (signers : list (option acct)) : bool :=
  one_addr &&
  forallb (fun s => match s with Some _ => true | None => false end) signers &&
  (let available := sum64 (map (fun s => match s with Some a => avail a | None => 0 end) signers) in
   negb ((available <? sub64 (sum64 refs) (sum64 change)) || (available <=? sum64 outs))).

Inductive dop :=
| DDeposit (a : Z)                          (* an output of value a to the deposit address *)
| DPenalty (x : Z)                          (* penalty += x *)
| DUnlock (d : Z)                           (* locked deposit -= d *)
| DReturn (refs change outs : list Z).      (* a return transaction signed by this account alone *)

(* processDeposit (change outputs) and returnDeposit (inputs, by the values
   recorded in DepositOutputs) of an accepted return; a refused one does not
   reach the state *)
Definition dstep (a : acct) (o : dop) : acct :=
  match o with
  | DDeposit x => {| tot := add64 (tot a) x; lock := lock a; pen := pen a |}
  | DPenalty x => {| tot := tot a; lock := lock a; pen := add64 (pen a) x |}
  | DUnlock d => {| tot := tot a; lock := sub64 (lock a) d; pen := pen a |}
  | DReturn refs change outs =>
      if return_check true refs change outs [Some a]
      then {| tot := sub64 (fold_left add64 change (tot a)) (sum64 refs); lock := lock a; pen := pen a |}
      else a
  end.

Definition drun (a : acct) (ops : list dop) : acct := fold_left dstep ops a.

(* ---------------------------------------------------------------- vote rights *)

Record stake := { rights : Z; used2 : Z }.

(* checkDPoSV2Content, the vote-right part (candidate and lock-time conditions
   are the flag [wellformed]); [vr] = rights - used.  [guarded] = the running
   total is compared before every addition (true in /repo after the repair;
   false = the code as found: one comparison of the wrapped sum) *)
Fixpoint votes_fit (guarded : bool) (vr : Z) (total : Z) (vs : list Z) : bool :=
  match vs with
  | [] => negb (vr <? total)
  | v :: r =>
      if guarded && ((vr <? v) || (sub64 vr v <? total)) then false
      else votes_fit guarded vr (add64 total v) r
  end.

(* Voting SpecialContextCheck for one DposV2 content; Voting.Validate (sanity)
   has rejected non-positive votes, here checked as in the context check *)
Definition vote_check (guarded : bool) (present wellformed : bool) (s : stake) (vs : list Z) : bool :=
  present && forallb (fun v => 0 <? v) vs && wellformed &&
  votes_fit guarded (sub64 (rights s) (used2 s)) 0 vs.

(* ReturnVotes SpecialContextCheck, the comparison: [others] are the vote rights
   in use by the other kinds that apply at the height (DPoS v1 maximum, CR sum,
   impeachment sum, proposal maximum) *)
Definition retvotes_check (fee : Z) (s : stake) (others : list Z) (value : Z) : bool :=
  negb (value <=? fee) &&
  forallb (fun u => negb (sub64 (rights s) u <? value)) (used2 s :: others).

Inductive vop :=
| VStake (a : Z)                           (* processStake: rights += a *)
| VVote (vs : list Z)                      (* Voting with one DposV2 content (well formed, address known) *)
| VExpire (v : Z)                          (* cleanExpiredDposV2Votes: used -= v *)
| VReturn (others : list Z) (value : Z).   (* ReturnVotes *)

Definition vstep (guarded : bool) (fee : Z) (s : stake) (o : vop) : stake :=
  match o with
  | VStake a => {| rights := add64 (rights s) a; used2 := used2 s |}
  | VVote vs =>
      if vote_check guarded true true s vs
      then {| rights := rights s; used2 := add64 (used2 s) (sum64 vs) |} else s
  | VExpire v => {| rights := rights s; used2 := sub64 (used2 s) v |}
  | VReturn others value =>
      if retvotes_check fee s others value
      then {| rights := sub64 (rights s) value; used2 := used2 s |} else s
  end.

Definition vrun (guarded : bool) (fee : Z) (s : stake) (ops : list vop) : stake :=
  fold_left (vstep guarded fee) ops s.

(* ---------------------------------------------------------------- votes with lock times, block by block

   dpos/state/state.go: processTransactions (transactions of the block, then the
   expiry sweep over Producer.detailedDPoSV2Votes, everything committed at the
   end), processVotingContent (DposV2), processRenewalVotingContent (the
   LastRenewalDPoSV2Votes marker is written at once, the replacement of the vote
   at commit), cleanExpiredDposV2Votes (a vote whose LockTime is below the block
   height expires unless it was renewed in this very block).
   One stake address, at most one of its transactions per block (the mempool
   keeps one per stake address); a vote is (id, amount, lock time). *)

Record lvote := { v_id : N; v_amt : Z; v_lock : Z }.
Record vstate := { vs_rights : Z; vs_used : Z; vs_votes : list lvote }.

Inductive btx :=
| BStake (a : Z)
| BVote (id : N) (amt : Z) (lock : Z)      (* one DposV2 vote *)
| BRenew (id : N) (newlock : Z)            (* RenewalVoteVersion for the vote id *)
| BReturn (others : list Z) (value : Z).

Definition stake_of (s : vstate) : stake := {| rights := vs_rights s; used2 := vs_used s |}.

(* the transaction of the block; returns the id renewed in this block, if any *)
Definition apply_btx (fee h : Z) (s : vstate) (t : btx) : vstate * option N :=
  match t with
  | BStake a => ({| vs_rights := add64 (vs_rights s) a; vs_used := vs_used s; vs_votes := vs_votes s |}, None)
  | BVote id amt lock =>
      if vote_check true true (h <? lock) (stake_of s) [amt]
      then ({| vs_rights := vs_rights s; vs_used := add64 (vs_used s) amt;
               vs_votes := {| v_id := id; v_amt := amt; v_lock := lock |} :: vs_votes s |}, None)
      else (s, None)
  | BRenew id nl =>
      if existsb (fun v => N.eqb (v_id v) id && (v_lock v <? nl)) (vs_votes s)
      then ({| vs_rights := vs_rights s; vs_used := vs_used s;
               vs_votes := map (fun v => if N.eqb (v_id v) id
                                         then {| v_id := v_id v; v_amt := v_amt v; v_lock := nl |} else v)
                               (vs_votes s) |}, Some id)
      else (s, None)
  | BReturn others value =>
      if retvotes_check fee (stake_of s) others value
      then ({| vs_rights := sub64 (vs_rights s) value; vs_used := vs_used s; vs_votes := vs_votes s |}, None)
      else (s, None)
  end.

(* Does the sweep of block h remove v?  The sweep runs before the commit, i.e. it
   sees a renewed vote with its old lock time and does not see a vote cast in
   this block; since the renewed vote is skipped through the marker whatever its
   lock time, and a vote cast in block h has lock > h, the same votes are
   selected when the test is applied to the votes as they are after the
   transaction, which is how it is written here. *)
Definition expires (h : Z) (marker : option N) (v : lvote) : bool :=
  (v_lock v <? h) && negb (match marker with Some m => N.eqb (v_id v) m | None => false end).

Definition sweep (h : Z) (marker : option N) (s : vstate) : vstate :=
  {| vs_rights := vs_rights s;
     vs_used := fold_left (fun u v => sub64 u (v_amt v)) (filter (expires h marker) (vs_votes s)) (vs_used s);
     vs_votes := filter (fun v => negb (expires h marker v)) (vs_votes s) |}.

Definition bstep (fee : Z) (s : vstate) (b : Z * option btx) : vstate :=
  let h := fst b in
  match snd b with
  | None => sweep h None s
  | Some t => let r := apply_btx fee h s t in sweep h (snd r) (fst r)
  end.

Definition brun (fee : Z) (s : vstate) (bs : list (Z * option btx)) : vstate := fold_left (bstep fee) bs s.

Definition locked_sum (l : list lvote) : Z := fold_right (fun v a => v_amt v + a) 0 l.
