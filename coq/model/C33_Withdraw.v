(* C33 — model of the WithdrawFromSideChain validation of /repo:

     core/transaction/transactionchecker.go   checkTransactionCrossChainUTXO (the part that
                                              concerns WithdrawFromSideChain transactions)
     core/transaction/withdrawfromsidechaintransaction.go
        SpecialContextCheck, checkWithdrawFromSideChainTransactionV0/V1/V2,
        checkCrossChainArbitrators, checkSchnorrWithdrawFromSidechain,
        GetSaveProcessor / GetRollbackProcessor (Tx3 bucket)
     crypto/common.go                         ParseCrossChainScriptV1
     core/contract/common.go                  IsSchnorr
     blockchain/chainstoreffldb.go            IsTx3Exist
     blockchain/blockvalidator.go             CheckDuplicateTx (WithdrawFromSideChain arm)
     mempool/conflictfunc.go                  hashArraySidechainTransactionHashes

   Bytes are [Z] in 0..255, heights are uint32 values as [Z], side-chain
   transaction hashes are abstract identifiers [N] (only compared for equality).
   All error returns are one outcome [Reject]; [Panic] is what the harness reports
   when the Go code panics (the model never returns it).  The aggregation of the
   signers' public keys into a Schnorr redeem script (elliptic-curve addition,
   DecodePoint, CreateSchnorrRedeemScript) is the Section variable [agg].
   No proofs in this file. *)
From Coq Require Import ZArith List Bool.
Import ListNotations.
Local Open Scope Z_scope.

Inductive outcome := Accept | Reject | Panic.

Definition outcome_eqb (a b : outcome) : bool :=
  match a, b with Accept, Accept | Reject, Reject | Panic, Panic => true | _, _ => false end.

Definition bytes := list Z.

Fixpoint bytes_eqb (a b : bytes) : bool :=
  match a, b with
  | [], [] => true
  | x :: a', y :: b' => (x =? y) && bytes_eqb a' b'
  | _, _ => false
  end.

Definition zlen {A} (l : list A) : Z := Z.of_nat (length l).

(* state.ArbiterInfo *)
Record arbiter := { a_key : bytes; a_normal : bool }.

(* the parameters the checks read from config.Configuration and the block height *)
Record cfg := {
  height : Z;               (* TransactionParameters.BlockHeight *)
  schnorr_start : Z;        (* SchnorrStartHeight *)
  cr_claim_start : Z;       (* CRConfiguration.CRClaimDPOSNodeStartHeight *)
  dpos_cc_height : Z;       (* DPoSConfiguration.DPOSNodeCrossChainHeight *)
  freeze_height : Z;        (* CrossChainUTXOFreezeHeight *)
  restriction_height : Z;   (* CrossChainUTXORestrictionHeight *)
  normal_arbiters_count : Z;(* DPoSConfiguration.NormalArbitratorsCount (int) *)
  cr_agreement_count : Z;   (* CRConfiguration.CRAgreementCount (uint32) *)
  member_count : Z          (* CRConfiguration.MemberCount (uint32) *)
}.

(* what blockchain.DefaultLedger answers *)
Record env := {
  arbs : list arbiter;      (* Arbitrators.GetArbitrators() *)
  crc_arbs : list arbiter;  (* Arbitrators.GetCRCArbiters() *)
  cc_arbs : list arbiter;   (* Arbitrators.GetCrossChainArbiters() *)
  cc_count : Z;             (* GetCrossChainArbitersCount() *)
  cc_majority : Z;          (* GetCrossChainArbitersMajorityCount() *)
  tx3 : list N              (* keys of the Tx3 bucket: IsSidechainTxHashDuplicate h <-> In h tx3 *)
}.

Record tx := {
  pver : Z;                         (* PayloadVersion() *)
  payload_hashes : list N;          (* payload.SideChainTransactionHashes *)
  out_hashes : list (option N);     (* outputs of type OTWithdrawFromSideChain in order:
                                       Some h = *outputpayload.Withdraw carrying h, None = other payload type *)
  ref_prefixes : list Z;            (* ProgramHash[0] of every referenced (spent) output *)
  programs : list bytes;            (* Programs()[i].Code *)
  signers : list Z                  (* payload.Signers (uint8) *)
}.

Definition PrefixCrossChain := 75.   (* 0x4B *)
Definition OP_CROSSCHAIN := 175.     (* 0xAF *)
Definition PUSH1 := 81.              (* 0x51 *)

Fixpoint somes {A} (l : list (option A)) : list A :=
  match l with [] => [] | Some x :: r => x :: somes r | None :: r => somes r end.

Definition memN (h : N) (l : list N) : bool := existsb (N.eqb h) l.
Definition memZ (h : Z) (l : list Z) : bool := existsb (Z.eqb h) l.

(* ---------------------------------------------------------------- policy *)

(* checkTransactionCrossChainUTXO for a WithdrawFromSideChain transaction *)
Definition has_cc (refs : list Z) : bool := existsb (Z.eqb PrefixCrossChain) refs.

Definition known_pver (v : Z) : bool := (v =? 0) || (v =? 1) || (v =? 2).

Definition policy (c : cfg) (t : tx) : bool :=
  if (height c <? freeze_height c) || negb (has_cc (ref_prefixes t)) then true
  else if height c <? restriction_height c then false
  else known_pver (pver t).

(* ---------------------------------------------------------------- V0 / V1 *)

Fixpoint chunks (fuel : nat) (k : nat) (l : bytes) : list bytes :=
  match fuel with
  | O => []
  | S f => match l with [] => [] | _ => firstn k l :: chunks f k (skipn k l) end
  end.

(* crypto.ParseCrossChainScriptV1: (public-key scripts of 34 bytes, m, n) *)
Definition parse_script (code : bytes) : option (list bytes * Z * Z) :=
  if (zlen code <? 71) || negb (last code 0 =? OP_CROSSCHAIN) then None
  else
    let m := nth 0 code 0 - PUSH1 + 1 in
    let n := nth (length code - 2) code 0 - PUSH1 + 1 in
    let body := firstn (length code - 3) (tl code) in
    if zlen body mod 34 =? 0 then Some (chunks (length body) 34 body, m, n) else None.

Definition normal_keys (l : list arbiter) : list bytes := map a_key (filter a_normal l).
Definition count_normal (l : list arbiter) : Z := zlen (filter a_normal l).

(* number of distinct keys = size of the map keyed by the hex string of the key *)
Fixpoint dedup (l : list bytes) : list bytes :=
  match l with
  | [] => []
  | x :: r => if existsb (bytes_eqb x) r then dedup r else x :: dedup r
  end.

Definition distinct_count (l : list bytes) : Z := zlen (dedup l).

(* checkCrossChainArbitrators *)
Definition check_arbitrators (cc : list arbiter) (pks : list bytes) : bool :=
  let nk := normal_keys cc in
  forallb (fun k => existsb (fun pk => bytes_eqb k (tl pk)) pks) nk
  && (zlen nk =? zlen pks) && (zlen nk =? distinct_count nk).

Definition u32 (x : Z) : Z := x mod 4294967296.

Definition new_rule (c : cfg) : bool := dpos_cc_height c <=? height c.

Definition min_count (c : cfg) : Z :=
  if new_rule c then u32 (u32 (normal_arbiters_count c) + 1) else cr_agreement_count c.

Definition sel_arbs (c : cfg) (e : env) : list arbiter :=
  if new_rule c then arbs e else crc_arbs e.

(* body of the per-program loop of V1, and of V0 from CRClaimDPOSNodeStartHeight on *)
Definition prog_ok_new (c : cfg) (e : env) (code : bytes) : bool :=
  match parse_script code with
  | None => false
  | Some (pks, m, n) =>
      (n =? count_normal (sel_arbs c e)) && negb (m <? min_count c)
      && check_arbitrators (cc_arbs e) pks
  end.

(* V0 below CRClaimDPOSNodeStartHeight *)
Definition prog_ok_old (e : env) (code : bytes) : bool :=
  match parse_script code with
  | None => false
  | Some (pks, m, n) =>
      negb ((m <? 1) || (n <? m) || negb (n =? cc_count e) || (m <=? cc_majority e))
      && check_arbitrators (cc_arbs e) pks
  end.

Definition refs_ok (t : tx) : bool := forallb (Z.eqb PrefixCrossChain) (ref_prefixes t).

Definition check_v0 (c : cfg) (e : env) (t : tx) : outcome :=
  if existsb (fun h => memN h (tx3 e)) (payload_hashes t) then Reject
  else if negb (refs_ok t) then Reject
  else if forallb (fun code => if cr_claim_start c <=? height c then prog_ok_new c e code
                               else prog_ok_old e code) (programs t)
       then Accept else Reject.

(* the loop over the outputs of V1 (and, after the repair, of V2): a payload of
   the wrong type or a recorded hash rejects *)
Definition outs_fresh (e : env) (t : tx) : bool :=
  forallb (fun o => match o with None => false | Some h => negb (memN h (tx3 e)) end) (out_hashes t).

Definition check_v1 (c : cfg) (e : env) (t : tx) : outcome :=
  if negb (outs_fresh e t) then Reject
  else if negb (refs_ok t) then Reject
  else if forallb (prog_ok_new c e) (programs t) then Accept else Reject.

(* ---------------------------------------------------------------- V2 *)

Definition v2_threshold (c : cfg) : Z :=
  if height c <=? cr_claim_start c then member_count c * 2 / 3 + 1
  else if height c <? dpos_cc_height c then member_count c * 2 / 3
  else member_count c * 2 / 3 + 1.

Inductive collected := CKeys (ks : list bytes) | CReject.

(* the loop over pld.Signers of checkSchnorrWithdrawFromSidechain: the range
   check is unconditional (since /repo 85063368; before, an out-of-range index
   below the restriction height was an index-out-of-range panic), distinctness
   is checked when [validate] *)
Fixpoint collect (validate : bool) (cc : list arbiter) (seen : list Z) (ss : list Z)
         (acc : list bytes) : collected :=
  match ss with
  | [] => CKeys (rev acc)
  | i :: r =>
      if zlen cc <=? i then CReject
      else if validate && memZ i seen then CReject
      else collect validate cc (if validate then i :: seen else seen) r
                   (a_key (nth (Z.to_nat i) cc {| a_key := []; a_normal := false |}) :: acc)
  end.

(* contract.IsSchnorr *)
Definition is_schnorr (code : bytes) : bool :=
  (zlen code =? 35) && (nth 0 code 0 =? PUSH1) && (nth 1 code 0 + 2 =? 35).

Section Schnorr.
  (* redeem script of the sum of the given public keys; None when DecodePoint or
     CreateSchnorrRedeemScript fail *)
  Variable agg : list bytes -> option bytes.

  Definition validate_indexes (c : cfg) : bool := restriction_height c <=? height c.

  (* [lookup] = the V2 path performs the duplicate lookup over its outputs like
     V1 (true in /repo after the repair; false is the code as found) *)
  Definition check_v2 (lookup : bool) (c : cfg) (e : env) (t : tx) : outcome :=
    if lookup && negb (outs_fresh e t) then Reject
    else if zlen (signers t) <? v2_threshold c then Reject
    else if negb (refs_ok t) then Reject
    else match collect (validate_indexes c) (cc_arbs e) [] (signers t) [] with
         | CReject => Reject
         | CKeys ks =>
             match agg ks with
             | None => Reject
             | Some script =>
                 if forallb (fun code => is_schnorr code && bytes_eqb code script) (programs t)
                 then Accept else Reject
             end
         end.

  (* WithdrawFromSideChainTransaction.SpecialContextCheck *)
  Definition special_check (lookup : bool) (c : cfg) (e : env) (t : tx) : outcome :=
    if (schnorr_start c <? height c) && negb (pver t =? 2) then Reject
    else if pver t =? 0 then check_v0 c e t
    else if pver t =? 1 then check_v1 c e t
    else if pver t =? 2 then check_v2 lookup c e t
    else Accept.

  (* the two steps of DefaultChecker.ContextCheck that decide about a withdrawal *)
  Definition withdraw_check_gen (lookup : bool) (c : cfg) (e : env) (t : tx) : outcome :=
    if policy c t then special_check lookup c e t else Reject.

  (* the code of /repo now *)
  Definition withdraw_check := withdraw_check_gen true.
End Schnorr.

(* ---------------------------------------------------------------- Tx3 persistence *)

(* the side-chain hashes GetSaveProcessor writes into the Tx3 bucket *)
Definition recorded_hashes (t : tx) : list N :=
  if pver t =? 0 then payload_hashes t
  else if (pver t =? 1) || (pver t =? 2) then somes (out_hashes t)
  else [].

Definition save (s : list N) (t : tx) : list N := recorded_hashes t ++ s.

Definition remove_all (hs : list N) (s : list N) : list N :=
  filter (fun h => negb (memN h hs)) s.

(* GetRollbackProcessor; [v2rb] = payload version 2 has a rollback processor
   (false in the code as found; a repair for C13 may add it) *)
Definition rollback (v2rb : bool) (s : list N) (t : tx) : list N :=
  if pver t =? 0 then remove_all (payload_hashes t) s
  else if (pver t =? 1) || ((pver t =? 2) && v2rb) then remove_all (somes (out_hashes t)) s
  else s.

(* blockchain.CheckDuplicateTx restricted to WithdrawFromSideChain transactions:
   no payload hash twice in the block *)
Fixpoint nodupN (seen : list N) (l : list N) : bool :=
  match l with [] => true | h :: r => negb (memN h seen) && nodupN (h :: seen) r end.

Definition block_dup_ok (txs : list tx) : bool :=
  nodupN [] (flat_map payload_hashes txs).

(* mempool: hashArraySidechainTransactionHashes *)
Definition mempool_keys (t : tx) : list N :=
  if pver t =? 0 then payload_hashes t
  else if (pver t =? 1) || (pver t =? 2) then somes (out_hashes t)   (* V2 since /repo f6815107; payload hashes before *)
  else payload_hashes t.

(* ---------------------------------------------------------------- histories *)

(* A history connects blocks (lists of withdrawals, each validated against the
   store as it is before the block, as checkTxsContext does) and disconnects the
   most recent one. *)
Inductive event := Connect (txs : list tx) | Disconnect.

Record chain := { store : list N; blocks : list (list tx) }.

Definition with_store (e : env) (s : list N) : env :=
  {| arbs := arbs e; crc_arbs := crc_arbs e; cc_arbs := cc_arbs e;
     cc_count := cc_count e; cc_majority := cc_majority e; tx3 := s |}.

Section History.
  Variable agg : list bytes -> option bytes.
  Variable v2rb : bool.
  (* configuration and arbiter set may change from block to block *)
  Variable cfg_at : nat -> cfg.
  Variable env_at : nat -> env.

  Definition block_ok (k : nat) (s : list N) (txs : list tx) : bool :=
    block_dup_ok txs &&
    forallb (fun t => outcome_eqb (withdraw_check agg (cfg_at k) (with_store (env_at k) s) t) Accept) txs.

  Definition step (k : nat) (ch : chain) (ev : event) : chain :=
    match ev with
    | Connect txs =>
        if block_ok k (store ch) txs
        then {| store := fold_left save txs (store ch); blocks := txs :: blocks ch |}
        else ch
    | Disconnect =>
        match blocks ch with
        | [] => ch
        | b :: r => {| store := fold_left (rollback v2rb) b (store ch); blocks := r |}
        end
    end.

  Fixpoint run (k : nat) (ch : chain) (evs : list event) : chain :=
    match evs with [] => ch | ev :: r => run (S k) (step k ch ev) r end.

  (* the side-chain hashes withdrawn on the active chain *)
  Definition active (ch : chain) : list N :=
    flat_map recorded_hashes (concat (blocks ch)).
End History.
