(* C02 — which descriptor covers which Go decoder method, and which Go functions
   may contain a make() with a non-constant size.  The tables of what exists in
   the source (coq/gen/C02_decoders.v) are regenerated from /repo on every run
   by harness/cmd/c02/static.go; the theorems of proof/C02_Cover.v compare
   them with the tables below.  Names are "package|Type.Method".
   (harness/cmd/c02/static.go parses the rows of [cover] to name decoders that
   have no entry: keep one row per line.) *)
From Coq Require Import NArith List Bool String.
From ELA Require Import lib.GoSem lib.Bytes model.C02_Fmt model.C02_Descr.
Import ListNotations.
Local Open Scope string_scope.
Local Open Scope N_scope.

Inductive target :=
| Id (n : N)     (* covered by descriptor fmt_of n (its own descriptor, or the one of the decoder it is a part of) *)
| Out.           (* out of scope, justified below *)

(* Out of scope:
   crypto|PublicKey.Deserialize  account/wallet key files only (two ReadVarBytes(33)); not reachable from the
                                 network or from block storage
   p2p|Header.Deserialize        takes the fixed 24-byte header slice, not a reader: message framing is C35 *)
Definition cover : list (string * target) := [
  ("auxpow|AuxPow.Deserialize", Id 4);
  ("auxpow|BtcHeader.Deserialize", Id 4);
  ("auxpow|BtcTx.Deserialize", Id 5);
  ("common|Fixed64.Deserialize", Id 24);
  ("common|Uint160.Deserialize", Id 25);
  ("common|Uint168.Deserialize", Id 23);
  ("common|Uint256.Deserialize", Id 406);
  ("core/contract/program|Program.Deserialize", Id 34);
  ("core/transaction|BaseTransaction.Deserialize", Id 1);
  ("core/transaction|BaseTransaction.DeserializeUnsigned", Id 1);
  ("core/types|Block.Deserialize", Id 2);
  ("core/types|Block.DeserializeTxLoc", Id 2);
  ("core/types|DPOSHeader.Deserialize", Id 12);
  ("core/types|DposBlock.Deserialize", Id 6);
  ("core/types/common|Attribute.Deserialize", Id 32);
  ("core/types/common|Header.Deserialize", Id 3);
  ("core/types/common|Header.DeserializeNoAux", Id 3);
  ("core/types/common|Input.Deserialize", Id 33);
  ("core/types/common|OutPoint.Deserialize", Id 36);
  ("core/types/common|Output.Deserialize", Id 30);
  ("core/types/common|OutputInfo.Deserialize", Id 38);
  ("core/types/common|UTXO.Deserialize", Id 37);
  ("core/types/outputpayload|CandidateVotes.Deserialize", Id 251);
  ("core/types/outputpayload|CrossChainOutput.Deserialize", Id 253);
  ("core/types/outputpayload|DefaultOutput.Deserialize", Id 250);
  ("core/types/outputpayload|ExchangeVotesOutput.Deserialize", Id 257);
  ("core/types/outputpayload|Mapping.Deserialize", Id 252);
  ("core/types/outputpayload|ReturnSideChainDeposit.Deserialize", Id 255);
  ("core/types/outputpayload|VoteContent.Deserialize", Id 251);
  ("core/types/outputpayload|VoteOutput.Deserialize", Id 251);
  ("core/types/outputpayload|Withdraw.Deserialize", Id 254);
  ("core/types/payload|ActivateProducer.Deserialize", Id 113);
  ("core/types/payload|ActivateProducer.DeserializeUnsigned", Id 113);
  ("core/types/payload|Asset.Deserialize", Id 101);
  ("core/types/payload|BlockEvidence.Deserialize", Id 116);
  ("core/types/payload|BlockEvidence.DeserializeOthers", Id 116);
  ("core/types/payload|BlockEvidence.DeserializeUnsigned", Id 116);
  ("core/types/payload|Budget.Deserialize", Id 137);
  ("core/types/payload|CRAssetsRectify.Deserialize", Id 143);
  ("core/types/payload|CRCAppropriation.Deserialize", Id 140);
  ("core/types/payload|CRCProposal.Deserialize", Id 137);
  ("core/types/payload|CRCProposal.DeserializeChangeProposalOwner", Id 137);
  ("core/types/payload|CRCProposal.DeserializeChangeSecretaryGeneral", Id 137);
  ("core/types/payload|CRCProposal.DeserializeCloseProposal", Id 137);
  ("core/types/payload|CRCProposal.DeserializeNormalOrELIP", Id 137);
  ("core/types/payload|CRCProposal.DeserializeRegisterSideChain", Id 137);
  ("core/types/payload|CRCProposal.DeserializeUnSigned", Id 137);
  ("core/types/payload|CRCProposal.DeserializeUnSignedChangeCustomIDFee", Id 137);
  ("core/types/payload|CRCProposal.DeserializeUnSignedChangeProposalOwner", Id 137);
  ("core/types/payload|CRCProposal.DeserializeUnSignedChangeSecretaryGeneral", Id 137);
  ("core/types/payload|CRCProposal.DeserializeUnSignedCloseProposal", Id 137);
  ("core/types/payload|CRCProposal.DeserializeUnSignedNormalOrELIP", Id 137);
  ("core/types/payload|CRCProposal.DeserializeUnSignedReceivedCustomID", Id 137);
  ("core/types/payload|CRCProposal.DeserializeUnSignedReservedCustomID", Id 137);
  ("core/types/payload|CRCProposal.DeserializeUnsignedRegisterSideChain", Id 137);
  ("core/types/payload|CRCProposal.DeserializeUnsignedUpgradeCode", Id 137);
  ("core/types/payload|CRCProposal.DeserializeUpgradeCode", Id 137);
  ("core/types/payload|CRCProposalInfo.Deserialize", Id 39);
  ("core/types/payload|CRCProposalRealWithdraw.Deserialize", Id 142);
  ("core/types/payload|CRCProposalReview.Deserialize", Id 138);
  ("core/types/payload|CRCProposalReview.DeserializeUnsigned", Id 138);
  ("core/types/payload|CRCProposalTracking.Deserialize", Id 139);
  ("core/types/payload|CRCProposalTracking.DeserializeUnSigned", Id 139);
  ("core/types/payload|CRCProposalWithdraw.Deserialize", Id 141);
  ("core/types/payload|CRCProposalWithdraw.DeserializeUnsigned", Id 141);
  ("core/types/payload|CRCouncilMemberClaimNode.Deserialize", Id 149);
  ("core/types/payload|CRCouncilMemberClaimNode.DeserializeUnsigned", Id 149);
  ("core/types/payload|CRInfo.Deserialize", Id 133);
  ("core/types/payload|CRInfo.DeserializeUnsigned", Id 133);
  ("core/types/payload|CoinBase.Deserialize", Id 100);
  ("core/types/payload|Confirm.Deserialize", Id 7);
  ("core/types/payload|CreateNFT.Deserialize", Id 213);
  ("core/types/payload|CreateNFT.DeserializeUnsigned", Id 213);
  ("core/types/payload|CustomIDFeeRateInfo.Deserialize", Id 137);
  ("core/types/payload|DPOSIllegalBlocks.Deserialize", Id 116);
  ("core/types/payload|DPOSIllegalBlocks.DeserializeUnsigned", Id 116);
  ("core/types/payload|DPOSIllegalProposals.Deserialize", Id 114);
  ("core/types/payload|DPOSIllegalVotes.Deserialize", Id 115);
  ("core/types/payload|DPOSProposal.Deserialize", Id 8);
  ("core/types/payload|DPOSProposal.DeserializeUnSigned", Id 8);
  ("core/types/payload|DPOSProposalVote.Deserialize", Id 9);
  ("core/types/payload|DPOSProposalVote.DeserializeUnsigned", Id 9);
  ("core/types/payload|DPoSV2ClaimReward.Deserialize", Id 196);
  ("core/types/payload|DPoSV2ClaimReward.DeserializeUnsigned", Id 196);
  ("core/types/payload|DetailedVoteInfo.Deserialize", Id 35);
  ("core/types/payload|DposV2ClaimRewardRealWithdraw.Deserialize", Id 197);
  ("core/types/payload|ExchangeVotes.Deserialize", Id 198);
  ("core/types/payload|InactiveArbitrators.Deserialize", Id 118);
  ("core/types/payload|InactiveArbitrators.DeserializeUnsigned", Id 118);
  ("core/types/payload|NFTDestroyFromSideChain.Deserialize", Id 214);
  ("core/types/payload|NFTInfo.Deserialize", Id 40);
  ("core/types/payload|NextTurnDPOSInfo.Deserialize", Id 120);
  ("core/types/payload|NextTurnDPOSInfo.DeserializeUnsigned", Id 120);
  ("core/types/payload|ProcessProducer.Deserialize", Id 110);
  ("core/types/payload|ProcessProducer.DeserializeUnsigned", Id 110);
  ("core/types/payload|ProducerInfo.Deserialize", Id 109);
  ("core/types/payload|ProducerInfo.DeserializeUnsigned", Id 109);
  ("core/types/payload|ProposalEvidence.Deserialize", Id 114);
  ("core/types/payload|ProposalResult.Deserialize", Id 121);
  ("core/types/payload|Record.Deserialize", Id 103);
  ("core/types/payload|RecordProposalResult.Deserialize", Id 121);
  ("core/types/payload|RecordProposalResult.DeserializeUnsigned", Id 121);
  ("core/types/payload|RecordSponsor.Deserialize", Id 202);
  ("core/types/payload|RegisterAsset.Deserialize", Id 101);
  ("core/types/payload|RenewalVotesContent.Deserialize", Id 199);
  ("core/types/payload|ReturnDepositCoin.Deserialize", Id 112);
  ("core/types/payload|ReturnSideChainDepositCoin.Deserialize", Id 181);
  ("core/types/payload|ReturnVotes.Deserialize", Id 200);
  ("core/types/payload|ReturnVotes.DeserializeUnsigned", Id 200);
  ("core/types/payload|RevertToDPOS.Deserialize", Id 166);
  ("core/types/payload|RevertToDPOS.DeserializeUnsigned", Id 166);
  ("core/types/payload|RevertToPOW.Deserialize", Id 165);
  ("core/types/payload|SideChainInfo.Deserialize", Id 137);
  ("core/types/payload|SideChainPow.Deserialize", Id 105);
  ("core/types/payload|SidechainIllegalData.Deserialize", Id 117);
  ("core/types/payload|SidechainIllegalData.DeserializeUnsigned", Id 117);
  ("core/types/payload|SidechainIllegalEvidence.Deserialize", Id 117);
  ("core/types/payload|TransferAsset.Deserialize", Id 102);
  ("core/types/payload|TransferCrossChainAsset.Deserialize", Id 108);
  ("core/types/payload|UnregisterCR.Deserialize", Id 134);
  ("core/types/payload|UnregisterCR.DeserializeUnsigned", Id 134);
  ("core/types/payload|UpdateVersion.Deserialize", Id 119);
  ("core/types/payload|UpgradeCodeInfo.Deserialize", Id 137);
  ("core/types/payload|VoteEvidence.Deserialize", Id 115);
  ("core/types/payload|VotesContent.Deserialize", Id 199);
  ("core/types/payload|VotesRealWidhdraw.Deserialize", Id 201);
  ("core/types/payload|VotesRealWithdrawPayload.Deserialize", Id 201);
  ("core/types/payload|VotesWithLockTime.Deserialize", Id 199);
  ("core/types/payload|Voting.Deserialize", Id 199);
  ("core/types/payload|WithdrawFromSideChain.Deserialize", Id 107);
  ("crypto|PublicKey.Deserialize", Out);
  ("dpos/p2p/msg|Addr.Deserialize", Id 404);
  ("dpos/p2p/msg|ConsensusStatus.Deserialize", Id 400);
  ("dpos/p2p/msg|Daddr.Deserialize", Id 409);
  ("dpos/p2p/msg|GetBlocks.Deserialize", Id 405);
  ("dpos/p2p/msg|IllegalProposals.Deserialize", Id 414);
  ("dpos/p2p/msg|IllegalVotes.Deserialize", Id 415);
  ("dpos/p2p/msg|Inventory.Deserialize", Id 406);
  ("dpos/p2p/msg|Ping.Deserialize", Id 410);
  ("dpos/p2p/msg|Proposal.Deserialize", Id 417);
  ("dpos/p2p/msg|Reject.Deserialize", Id 411);
  ("dpos/p2p/msg|RequestConsensus.Deserialize", Id 407);
  ("dpos/p2p/msg|RequestProposal.Deserialize", Id 408);
  ("dpos/p2p/msg|ResetView.Deserialize", Id 402);
  ("dpos/p2p/msg|ResetView.DeserializeUnSigned", Id 402);
  ("dpos/p2p/msg|ResponseBlocks.Deserialize", Id 401);
  ("dpos/p2p/msg|ResponseConsensus.Deserialize", Id 421);
  ("dpos/p2p/msg|ResponseInactiveArbitrators.Deserialize", Id 403);
  ("dpos/p2p/msg|ResponseInactiveArbitrators.DeserializeUnsigned", Id 403);
  ("dpos/p2p/msg|ResponseRevertToDPOS.Deserialize", Id 412);
  ("dpos/p2p/msg|ResponseRevertToDPOS.DeserializeUnsigned", Id 412);
  ("dpos/p2p/msg|SidechainIllegalData.Deserialize", Id 416);
  ("dpos/p2p/msg|VerAck.Deserialize", Id 413);
  ("dpos/p2p/msg|Version.Deserialize", Id 420);
  ("dpos/p2p/msg|Vote.Deserialize", Id 418);
  ("elanet/bloom|MerkleProof.Deserialize", Id 311);
  ("p2p|Header.Deserialize", Out);
  ("p2p|NetAddress.Deserialize", Id 312);
  ("p2p/msg|Addr.Deserialize", Id 302);
  ("p2p/msg|DAddr.Deserialize", Id 309);
  ("p2p/msg|FilterAdd.Deserialize", Id 307);
  ("p2p/msg|FilterLoad.Deserialize", Id 306);
  ("p2p/msg|GetBlocks.Deserialize", Id 301);
  ("p2p/msg|Inv.Deserialize", Id 300);
  ("p2p/msg|InvVect.Deserialize", Id 300);
  ("p2p/msg|MerkleBlock.Deserialize", Id 303);
  ("p2p/msg|Ping.Deserialize", Id 310);
  ("p2p/msg|Reject.Deserialize", Id 305);
  ("p2p/msg|TxFilterLoad.Deserialize", Id 308);
  ("p2p/msg|Version.Deserialize", Id 304);
  ("p2p/msg|empty.Deserialize", Id 317)
].

Fixpoint lookup (k : string) (l : list (string * target)) : option target :=
  match l with
  | [] => None
  | (k', t) :: r => if String.eqb k k' then Some t else lookup k r
  end.

Definition covered (d : string) : bool :=
  match lookup d cover with
  | Some (Id n) => existsb (N.eqb n) format_ids
  | Some Out => true
  | None => false
  end.

Definition out_of_scope : list string :=
  flat_map (fun p => match snd p with Out => [fst p] | _ => [] end) cover.

(* number of count-sized pre-allocations (PreLen / PreCap lists) in a descriptor *)
Fixpoint count_pre (f : fmt) : N :=
  match f with
  | FSeq a b | FCase _ _ a b | FCaseGe _ _ a b => count_pre a + count_pre b
  | FTag _ _ b | FSwallowHead _ b => count_pre b
  | FCounted _ _ _ p _ e => (match p with NoPre => 0 | _ => 1 end) + count_pre e
  | _ => 0
  end.

(* the byte buffers of common/serialize.go: sized by a length that is checked
   against the field maximum (FVarBytes max) or by the constant 1 (ReadBytes) *)
Definition buffer_sites : list (string * N) :=
  [("common|ReadVarBytes", 1); ("common|ReadVarString", 1); ("common|ReadBytes", 1)].

(* a Go decoder allocates the element array and the pointer slice: two makes
   per pre-allocated list of its descriptor *)
Definition site_ok (s : string * N) : bool :=
  let (fn, k) := s in
  if existsb (fun b => String.eqb fn (fst b) && (k =? snd b)) buffer_sites then true
  else match lookup fn cover with
       | Some (Id n) => existsb (N.eqb n) format_ids && (k =? 2 * count_pre (fmt_of n)) && wf_alloc (fmt_of n)
       | _ => false
       end.
