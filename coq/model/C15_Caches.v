(* C15 model: the four caches in front of persistent data, each as a small
   state machine over an abstract backing store.  Executable, no proofs here.

   Mirrors, as the code is:
   - blockchain/utxocache.go        UTXOCache: container/list [Inputs] + map
       [Reference] (eviction of the oldest reference: the loop in
       InsertReference removes exactly ONE element, because list.Remove clears
       e.next and e.Next() is then nil), map [TxCache] with arbitrary-victim
       eviction (Go map iteration; the victims are an input of the step),
       getTransaction / GetTxReference / CleanCache / CleanTxCache.
   - blockchain/indexers/txcache.go TxCache: setTxn / deleteTxn / trim (the
       [extra--] loop, the uint32 addition TxCacheVolume+TrimmingInterval), as
       driven by UnspentIndex.ConnectBlock / DisconnectBlock / FetchTx.
   - blockchain/chainstoreffldb.go  GetBlock: slice of two hashes + map of
       decoded blocks (pointers: a caller that modifies the returned block
       modifies the cache entry - op [BPush]).
   - p2p/message.go                 WriteMessage: two slices + map of maps keyed
       by block hash and HaveConfirm.  [send_fixed = false] is the code before
       the repair (inner entry deleted, outer entry kept for ever),
       [send_fixed = true] the repaired code (outer entry deleted when its
       inner map becomes empty).

   Keys and values are small numbers assigned by the harness (transaction
   ids, block hashes, output values, serialisation ids). *)
From Coq Require Import NArith ZArith List Bool.
Import ListNotations.
Local Open Scope N_scope.

(* ------------------------------------------------------------ Go maps *)
Section AMap.
  Context {K V : Type} (keq : K -> K -> bool).

  Fixpoint aget (m : list (K * V)) (k : K) : option V :=
    match m with
    | [] => None
    | (k', v) :: r => if keq k k' then Some v else aget r k
    end.

  Fixpoint adel (m : list (K * V)) (k : K) : list (K * V) :=
    match m with
    | [] => []
    | (k', v) :: r => if keq k k' then adel r k else (k', v) :: adel r k
    end.

  (* m[k] = v : the entry moves to the end (order is not observable in Go;
     chosen so that [map fst Reference = Inputs] holds literally) *)
  Definition aset (m : list (K * V)) (k : K) (v : V) : list (K * V) :=
    adel m k ++ [(k, v)].

  Definition ahas (m : list (K * V)) (k : K) : bool :=
    match aget m k with Some _ => true | None => false end.
End AMap.

Definition len {A} (l : list A) : N := N.of_nat (length l).

(* s[lo:hi] for 0 <= lo <= hi (Go would panic when hi > cap; callers below use
   it on slices of capacity [hi]) *)
Definition slice {A} (l : list A) (lo hi : N) : list A :=
  firstn (N.to_nat (hi - lo)) (skipn (N.to_nat lo) l).

(* ------------------------------------------------------------ 1. UTXOCache *)
Definition input := (N * N * N)%type.          (* Previous.TxID, Previous.Index, Sequence *)
Definition in_txid (i : input) : N := fst (fst i).
Definition in_idx (i : input) : N := snd (fst i).
Definition ieqb (a b : input) : bool :=
  (in_txid a =? in_txid b) && (in_idx a =? in_idx b) && (snd a =? snd b).

Definition tx := list N.                        (* the outputs of a transaction *)
Definition txstore := list (N * tx).            (* IUTXOCacheStore: txid -> tx *)

Record ustate := mkU {
  u_inputs : list input;                        (* Inputs    (container/list, oldest first) *)
  u_ref : list (input * N);                     (* Reference *)
  u_txc : list (N * tx)                         (* TxCache   *)
}.
Definition uempty := mkU [] [] [].

Inductive ures :=
| RRefs (outs : list N)       (* GetTxReference: the outputs in input order *)
| RTx (outs : tx)             (* GetTransaction *)
| RNotFound                   (* "transaction not found" *)
| ROOR                        (* "refIdx out of range" *)
| RUnit
| RBadSchedule.               (* the victim list given is not a possible map iteration *)

(* insertTransaction: while len(TxCache) > Max delete some key, then insert *)
Fixpoint evict_tx (max : N) (m : list (N * tx)) (ch : list N) : option (list (N * tx) * list N) :=
  if len m <=? max then Some (m, ch) else
  match ch with
  | [] => None
  | v :: ch' => if ahas N.eqb m v then evict_tx max (adel N.eqb m v) ch' else None
  end.

Definition insert_tx (max : N) (m : list (N * tx)) (t : N) (x : tx) (ch : list N) :=
  match evict_tx max m ch with
  | Some (m', ch') => Some (aset N.eqb m' t x, ch')
  | None => None
  end.

Inductive gt_res := GTx (x : tx) (c : list (N * tx)) (ch : list N) | GMiss | GBad.

(* getTransaction *)
Definition get_tx (max : N) (db : txstore) (c : list (N * tx)) (t : N) (ch : list N) : gt_res :=
  match aget N.eqb c t with
  | Some x => GTx x c ch
  | None =>
    match aget N.eqb db t with
    | None => GMiss
    | Some x => match insert_tx max c t x ch with
                | Some (c', ch') => GTx x c' ch'
                | None => GBad
                end
    end
  end.

(* InsertReference *)
Definition insert_ref (max : N) (s : ustate) (i : input) (o : N) : ustate :=
  let '(ins, ref) :=
    if max <=? len (u_inputs s) then
      match u_inputs s with
      | [] => (u_inputs s, u_ref s)
      | e :: r => (r, adel ieqb (u_ref s) e)
      end
    else (u_inputs s, u_ref s) in
  mkU (ins ++ [i]) (aset ieqb ref i o) (u_txc s).

(* GetTxReference: inputs in order; state changes made before a failing input
   persist *)
Fixpoint get_refs (max : N) (db : txstore) (s : ustate) (ins : list input) (ch : list N)
                  (acc : list N) : ustate * list N * ures :=
  match ins with
  | [] => (s, ch, RRefs (rev acc))
  | i :: r =>
    match aget ieqb (u_ref s) i with
    | Some o => get_refs max db s r ch (o :: acc)
    | None =>
      match get_tx max db (u_txc s) (in_txid i) ch with
      | GMiss => (s, ch, RNotFound)
      | GBad => (s, ch, RBadSchedule)
      | GTx x c' ch' =>
        let s1 := mkU (u_inputs s) (u_ref s) c' in
        match nth_error x (N.to_nat (in_idx i)) with
        | None => (s1, ch', ROOR)
        | Some o => get_refs max db (insert_ref max s1 i o) r ch' (o :: acc)
        end
      end
    end
  end.

Inductive uop :=
| UGetRef (ins : list input) (ch : list N)
| UGetTx (t : N) (ch : list N)
| UClean                      (* CleanCache *)
| UCleanTx                    (* CleanTxCache *)
| UStoreAdd (t : N) (x : tx)  (* a block containing t is connected *)
| UStoreDel (t : N).          (* a block containing t is rolled back *)

Definition ustep (max : N) (st : txstore * ustate) (op : uop) : (txstore * ustate) * ures :=
  let '(db, s) := st in
  match op with
  | UGetRef ins ch =>
    let '(s', ch', r) := get_refs max db s ins ch [] in
    match ch' with
    | [] => ((db, s'), r)
    | _ :: _ => ((db, s'), RBadSchedule)        (* more victims reported than the code evicts *)
    end
  | UGetTx t ch =>
    match get_tx max db (u_txc s) t ch with
    | GTx x c' [] => ((db, mkU (u_inputs s) (u_ref s) c'), RTx x)
    | GTx _ _ (_ :: _) => (st, RBadSchedule)
    | GMiss => (st, RNotFound)
    | GBad => (st, RBadSchedule)
    end
  | UClean => ((db, uempty), RUnit)
  | UCleanTx => ((db, mkU (u_inputs s) (u_ref s) []), RUnit)
  | UStoreAdd t x => ((aset N.eqb db t x, s), RUnit)
  | UStoreDel t => ((adel N.eqb db t, s), RUnit)
  end.

(* the uncached lookups: what the store alone answers *)
Fixpoint spec_refs (db : txstore) (ins : list input) (acc : list N) : ures :=
  match ins with
  | [] => RRefs (rev acc)
  | i :: r =>
    match aget N.eqb db (in_txid i) with
    | None => RNotFound
    | Some x => match nth_error x (N.to_nat (in_idx i)) with
                | None => ROOR
                | Some o => spec_refs db r (o :: acc)
                end
    end
  end.

Definition uspec (db : txstore) (op : uop) : txstore * ures :=
  match op with
  | UGetRef ins _ => (db, spec_refs db ins [])
  | UGetTx t _ => (db, match aget N.eqb db t with Some x => RTx x | None => RNotFound end)
  | UClean | UCleanTx => (db, RUnit)
  | UStoreAdd t x => (aset N.eqb db t x, RUnit)
  | UStoreDel t => (adel N.eqb db t, RUnit)
  end.

Fixpoint urun (max : N) (st : txstore * ustate) (ops : list uop) : list (ures * ustate) :=
  match ops with
  | [] => []
  | op :: r => let '(st', res) := ustep max st op in (res, snd st') :: urun max st' r
  end.

Fixpoint uspec_run (db : txstore) (ops : list uop) : list ures :=
  match ops with
  | [] => []
  | op :: r => let '(db', res) := uspec db op in res :: uspec_run db' r
  end.

(* The discipline the store's owner must follow for the cache to be
   transparent: a transaction id is added only when absent (ids are content
   hashes), and no lookup happens between a removal and the next CleanCache.
   [dirty] = a removal happened since the last CleanCache. *)
Fixpoint udisc (db : txstore) (dirty : bool) (ops : list uop) : bool :=
  match ops with
  | [] => true
  | UGetRef _ _ :: r | UGetTx _ _ :: r => negb dirty && udisc db dirty r
  | UClean :: r => udisc db false r
  | UCleanTx :: r => udisc db dirty r
  | UStoreAdd t x :: r => negb (ahas N.eqb db t) && udisc (aset N.eqb db t x) dirty r
  | UStoreDel t :: r => udisc (adel N.eqb db t) true r
  end.

(* The cache-relevant skeleton of BlockChain.reorganizeChain together with the
   handler of ETBlockDisconnected (elanet/netsync: MaybeAcceptTransaction ->
   CheckTransactionContext -> GetTxReference for the transactions of the block
   just disconnected).  A detached block = the ids it removes from the store
   and the lookups its disconnect event triggers.
   [reorg_asis]: CleanCache once, before the first disconnect (the code before
   the repair).  [reorg_fixed]: CleanCache after every RollbackBlock, before
   the event is delivered. *)
Definition dblock := (list N * list uop)%type.
Definition reorg_asis (detach : list dblock) : list uop :=
  UClean :: flat_map (fun b => map UStoreDel (fst b) ++ snd b) detach.
Definition reorg_fixed (detach : list dblock) : list uop :=
  UClean :: flat_map (fun b => map UStoreDel (fst b) ++ UClean :: snd b) detach.
Definition is_lookup (op : uop) : bool :=
  match op with UGetRef _ _ | UGetTx _ _ => true | _ => false end.

(* ------------------------------------------------------------ 2. TxCache *)
Definition u32 (x : N) : N := x mod 4294967296.

Record tparams := mkT { t_volume : N; t_interval : N; t_memfirst : bool }.

Fixpoint trim_loop (m : list (N * N)) (extra : Z) (ch : list N) : option (list (N * N) * list N) :=
  match m with
  | [] => Some (m, ch)                          (* range over an empty map *)
  | _ :: _ =>
    match ch with
    | [] => None
    | v :: ch' =>
      if ahas N.eqb m v then
        let m' := adel N.eqb m v in
        let extra' := (extra - 1)%Z in
        if (extra' <? 0)%Z then Some (m', ch') else trim_loop m' extra' ch'
      else None
    end
  end.

Definition trim (p : tparams) (m : list (N * N)) (ch : list N) : option (list (N * N) * list N) :=
  if t_memfirst p then Some (m, ch) else
  let trigger := u32 (t_volume p + t_interval p) in           (* uint32 addition *)
  if trigger <? len m then trim_loop m (Z.of_N (len m) - Z.of_N (t_volume p))%Z ch
  else Some (m, ch).

Definition set_txn (p : tparams) (m : list (N * N)) (h t : N) (cacheable : bool) :=
  if t_memfirst p then m else if cacheable then aset N.eqb m t h else m.
Definition delete_txn (p : tparams) (m : list (N * N)) (t : N) :=
  if t_memfirst p then m else adel N.eqb m t.

Inductive top :=
| TConnect (h : N) (txs : list (N * bool * bool)) (spent : list N) (ch : list N)
    (* UnspentIndex.ConnectBlock: txs = (id, RegisterAsset?, at most 100 inputs?);
       spent = ids whose outputs are all spent after this block *)
| TDisconnect (txs : list (N * bool * bool))
| TFetch (t : N)                                 (* UnspentIndex.FetchTx *)
| TSet (h t : N) (cacheable : bool)              (* setTxn / deleteTxn / trim called directly *)
| TSetRange (h lo n : N)                          (* setTxn for the ids lo .. lo+n-1 *)
| TDel (t : N)
| TTrim (ch : list N).

Inductive tres := TFound (h : N) | TMissing | TUnit | TBadSchedule.

Definition tstate := (list (N * N) * list (N * N))%type.   (* tx index (store), cache : id -> height *)

Definition tstep (p : tparams) (st : tstate) (op : top) : tstate * tres :=
  let '(db, c) := st in
  match op with
  | TConnect h txs spent ch =>
    match trim p c ch with
    | Some (c1, _) =>      (* victims listed beyond what trim takes are ids of [spent] (deleted below anyway) *)
      let c2 := fold_left (fun (c : list (N * N)) (e : N * bool * bool) => let '(t, reg, small) := e in if reg then c else set_txn p c h t small) txs c1 in
      let c3 := fold_left (delete_txn p) spent c2 in
      let db' := fold_left (fun (d : list (N * N)) (e : N * bool * bool) => aset N.eqb d (fst (fst e)) h) txs db in
      ((db', c3), TUnit)
    | _ => (st, TBadSchedule)
    end
  | TDisconnect txs =>
    let c' := fold_left (fun (c : list (N * N)) (e : N * bool * bool) => if snd (fst e) then c else delete_txn p c (fst (fst e))) txs c in
    let db' := fold_left (fun (d : list (N * N)) (e : N * bool * bool) => adel N.eqb d (fst (fst e))) txs db in
    ((db', c'), TUnit)
  | TFetch t =>
    match aget N.eqb c t with
    | Some h => (st, TFound h)
    | None => match aget N.eqb db t with Some h => (st, TFound h) | None => (st, TMissing) end
    end
  | TSet h t cb => ((db, set_txn p c h t cb), TUnit)
  | TSetRange h lo n =>
    ((db, fold_left (fun c t => set_txn p c h t true) (map (fun i => lo + N.of_nat i) (seq 0 (N.to_nat n))) c), TUnit)
  | TDel t => ((db, delete_txn p c t), TUnit)
  | TTrim ch => match trim p c ch with
                | Some (c', []) => ((db, c'), TUnit)
                | _ => (st, TBadSchedule)
                end
  end.

Definition tspec (db : list (N * N)) (op : top) : list (N * N) * tres :=
  match op with
  | TConnect h txs _ _ => (fold_left (fun (d : list (N * N)) (e : N * bool * bool) => aset N.eqb d (fst (fst e)) h) txs db, TUnit)
  | TDisconnect txs => (fold_left (fun (d : list (N * N)) (e : N * bool * bool) => adel N.eqb d (fst (fst e))) txs db, TUnit)
  | TFetch t => (db, match aget N.eqb db t with Some h => TFound h | None => TMissing end)
  | TSet _ _ _ | TSetRange _ _ _ | TDel _ | TTrim _ => (db, TUnit)
  end.

Fixpoint trun (p : tparams) (st : tstate) (ops : list top) : list (tres * list (N * N)) :=
  match ops with
  | [] => []
  | op :: r => let '(st', res) := tstep p st op in (res, snd st') :: trun p st' r
  end.

Fixpoint tspec_run (db : list (N * N)) (ops : list top) : list tres :=
  match ops with
  | [] => []
  | op :: r => let '(db', res) := tspec db op in res :: tspec_run db' r
  end.

(* chain operations only (ConnectBlock / DisconnectBlock / FetchTx); a connected
   transaction id is not in the index yet (duplicate transactions are rejected
   by validation); whether a transaction is a RegisterAsset one is a function
   [regf] of its id (ids are content hashes) *)
Fixpoint fresh_txs (regf : N -> bool) (d : list (N * N)) (h : N) (txs : list (N * bool * bool))
  : option (list (N * N)) :=
  match txs with
  | [] => Some d
  | e :: l =>
    if negb (ahas N.eqb d (fst (fst e))) && Bool.eqb (snd (fst e)) (regf (fst (fst e)))
    then fresh_txs regf (aset N.eqb d (fst (fst e)) h) h l else None
  end.

Fixpoint tdisc (regf : N -> bool) (db : list (N * N)) (ops : list top) : bool :=
  match ops with
  | [] => true
  | TConnect h txs _ _ :: r =>
    match fresh_txs regf db h txs with Some d => tdisc regf d r | None => false end
  | TDisconnect txs :: r =>
    forallb (fun e : N * bool * bool => Bool.eqb (snd (fst e)) (regf (fst (fst e)))) txs &&
    tdisc regf (fold_left (fun (d : list (N * N)) (e : N * bool * bool) => adel N.eqb d (fst (fst e))) txs db) r
  | TFetch _ :: r => tdisc regf db r
  | _ :: _ => false
  end.

Definition block_small (maxblock : N) (op : top) : bool :=
  match op with
  | TConnect _ txs _ _ => len txs <=? maxblock
  | TDisconnect _ | TFetch _ => true
  | _ => false
  end.

(* ------------------------------------------------------------ 3. GetBlock *)
(* a decoded DposBlock: (block content id, confirm id; 0 = no confirm) *)
Definition dblk := (N * N)%type.
Definition dblk_eqb (a b : dblk) : bool := (fst a =? fst b) && (snd a =? snd b).

Record bstate := mkB { b_order : list N; b_cache : list (N * dblk) }.
Definition bempty := mkB [] [].

Inductive bop :=
| BGet (h : N)                 (* ChainStoreFFLDB.GetBlock *)
| BStore (h : N) (v : dblk)    (* dbStoreBlock: a no-op when the block is present *)
| BPush (h : N).               (* elanet pushBlockMsg (getdata for an unconfirmed block):
                                  GetBlock, then send the block without its confirm.
                                  Before the repair it sets HaveConfirm=false, Confirm=nil
                                  on the *DposBlock GetBlock returned, i.e. on the cache
                                  entry; the repaired code sends a copy. *)
Inductive bres := BFound (v : dblk) | BMissing | BUnit.

Definition bsize : N := 2.     (* BlocksCacheSize *)

Definition bget (db : list (N * dblk)) (s : bstate) (h : N) : bstate * bres :=
  match aget N.eqb (b_cache s) h with
  | Some v => (s, BFound v)
  | None =>
    match aget N.eqb db h with
    | None => (s, BMissing)
    | Some v =>
      let '(ord, c) :=
        if bsize <=? len (b_order s) then
          match b_order s with
          | [] => (b_order s, b_cache s)
          | e :: _ => (slice (b_order s) 1 bsize, adel N.eqb (b_cache s) e)
          end
        else (b_order s, b_cache s) in
      (mkB (ord ++ [h]) (aset N.eqb c h v), BFound v)
    end
  end.

Definition bstrip (s : bstate) (h : N) : bstate :=
  match aget N.eqb (b_cache s) h with
  | Some v => mkB (b_order s) (aset N.eqb (b_cache s) h (fst v, 0))
  | None => s
  end.

Definition bstep (fixed : bool) (st : list (N * dblk) * bstate) (op : bop)
  : (list (N * dblk) * bstate) * bres :=
  let '(db, s) := st in
  match op with
  | BGet h => let '(s', r) := bget db s h in ((db, s'), r)
  | BStore h v => ((if ahas N.eqb db h then db else aset N.eqb db h v, s), BUnit)
  | BPush h =>
    let '(s', r) := bget db s h in
    ((db, if fixed then s' else bstrip s' h), BUnit)
  end.

Definition bspec (db : list (N * dblk)) (op : bop) : list (N * dblk) * bres :=
  match op with
  | BGet h => (db, match aget N.eqb db h with Some v => BFound v | None => BMissing end)
  | BStore h v => (if ahas N.eqb db h then db else aset N.eqb db h v, BUnit)
  | BPush _ => (db, BUnit)
  end.

Fixpoint brun (fixed : bool) (st : list (N * dblk) * bstate) (ops : list bop) : list (bres * bstate) :=
  match ops with
  | [] => []
  | op :: r => let '(st', res) := bstep fixed st op in (res, snd st') :: brun fixed st' r
  end.
Fixpoint bspec_run (db : list (N * dblk)) (ops : list bop) : list bres :=
  match ops with
  | [] => []
  | op :: r => let '(db', res) := bspec db op in res :: bspec_run db' r
  end.

(* ------------------------------------------------------------ 4. WriteMessage *)
Record sstate := mkS {
  s_hashes : list N;                           (* blockHashesCache   *)
  s_confirms : list bool;                      (* blockConfirmsCache *)
  s_outer : list (N * list (bool * N))         (* blocksCache        *)
}.
Definition sempty := mkS [] [] [].

Inductive sop :=
| SSend (h : N) (c : bool) (s : N)   (* a block message: hash, HaveConfirm, id of the bytes
                                        dposBlock.Serialize would produce now *)
| SOther (s : N).                    (* any other message *)

Definition ssize : N := 2.

Definition sevict (fixed : bool) (st : sstate) : sstate :=
  if ssize <=? len (s_hashes st) then
    match s_hashes st, s_confirms st with
    | h0 :: _, c0 :: _ =>
      let outer' :=
        match aget N.eqb (s_outer st) h0 with
        | None => s_outer st                                  (* delete on a nil map *)
        | Some inner =>
          let inner' := adel Bool.eqb inner c0 in
          if fixed && (len inner' =? 0) then adel N.eqb (s_outer st) h0
          else aset N.eqb (s_outer st) h0 inner'
        end in
      mkS (slice (s_hashes st) 1 ssize) (slice (s_confirms st) 1 ssize) outer'
    | _, _ => st
    end
  else st.

(* returns the id of the payload bytes written to the connection *)
Definition sstep (fixed : bool) (st : sstate) (op : sop) : sstate * N :=
  match op with
  | SOther s => (st, s)
  | SSend h c s =>
    match aget N.eqb (s_outer st) h with
    | Some inner =>
      match aget Bool.eqb inner c with
      | Some p => (st, p)                        (* served from the cache *)
      | None => (st, s)                          (* msg.Serialize; nothing is cached *)
      end
    | None =>
      let st1 := sevict fixed st in
      let inner := match aget N.eqb (s_outer st1) h with
                   | Some i => aset Bool.eqb i c s
                   | None => [(c, s)]
                   end in
      (mkS (s_hashes st1 ++ [h]) (s_confirms st1 ++ [c]) (aset N.eqb (s_outer st1) h inner), s)
    end
  end.

Fixpoint srun (fixed : bool) (st : sstate) (ops : list sop) : list (N * sstate) :=
  match ops with
  | [] => []
  | op :: r => let '(st', out) := sstep fixed st op in (out, st') :: srun fixed st' r
  end.

Fixpoint sfinal (fixed : bool) (st : sstate) (ops : list sop) : sstate :=
  match ops with
  | [] => st
  | op :: r => sfinal fixed (fst (sstep fixed st op)) r
  end.

Definition sop_out (op : sop) : N := match op with SSend _ _ s => s | SOther s => s end.

(* the serialisation of a block message is determined by (hash, HaveConfirm)
   throughout the history *)
Definition hceqb (a b : N * bool) : bool := (fst a =? fst b) && Bool.eqb (snd a) (snd b).
Fixpoint sconsistent (seen : list (N * bool * N)) (ops : list sop) : bool :=
  match ops with
  | [] => true
  | SOther _ :: r => sconsistent seen r
  | SSend h c s :: r =>
    match aget hceqb seen (h, c) with
    | Some s' => (s' =? s) && sconsistent seen r
    | None => sconsistent (((h, c), s) :: seen) r
    end
  end.

Definition payloads (st : sstate) : N :=
  fold_right (fun e acc => len (snd e) + acc) 0 (s_outer st).

(* which variants /repo currently contains *)
Definition send_fixed : bool := true.      (* p2p/message.go WriteMessage *)
Definition push_fixed : bool := true.      (* elanet/server.go pushBlockMsg *)
