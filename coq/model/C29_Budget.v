(* C29 model: the CR proposal budget state machine, block by block.

   Mirrors (as of the repaired tree, see notes/C29.md):
   - cr/state/proposalmanager.go: registerProposal, proposalReview,
     proposalTracking, proposalWithdraw, availableWithdrawalAmount,
     updateProposals / transferRegisteredState / transferCRAgreedState
     (Normal proposals, committee in its election period);
   - cr/state/committeeaction.go: processTransactions (every closure is built
     from the state BEFORE the block and executed at Commit, withdrawals
     first), Committee.proposalTracking (release of unused budget),
     processCRCAddressRelatedTx (CRCCommitteeUsedAmount += budgets),
     processVoteCRCProposal; Committee.updateProposals (release on cancel);
   - core/transaction: the state-dependent part of SpecialContextCheck of
     CRCProposal (checkNormalOrELIPProposal budget rules and limits, with the
     in-block/mempool proposalsUsedAmount), CRCProposalReview,
     CRCProposalTracking and CRCProposalWithdraw;
   - blockchain/blockvalidator.go: CheckDuplicateTx (one draft, one tracking,
     one withdrawal per proposal per block) and checkTxsContext (each
     transaction is checked against the state before the block).

   Signatures, owner keys, recipient, fee and draft-hash checks are outside the
   model (the harness always supplies valid ones).  Amounts are exact integers:
   the registration check rejects every budget list whose running sum leaves
   int64, so no accepted amount wraps.  Executable, no proofs here. *)
From Coq Require Import ZArith Bool List.
Import ListNotations.
Local Open Scope Z_scope.

(* ---- finite maps keyed by Z, kept sorted (canonical form) *)
Fixpoint mget {A} (k : Z) (m : list (Z * A)) : option A :=
  match m with
  | [] => None
  | (k', v) :: r => if k =? k' then Some v else mget k r
  end.
Definition mmem {A} (k : Z) (m : list (Z * A)) : bool :=
  match mget k m with Some _ => true | None => false end.
Fixpoint mset {A} (k : Z) (v : A) (m : list (Z * A)) : list (Z * A) :=
  match m with
  | [] => [(k, v)]
  | (k', v') :: r =>
      if k <? k' then (k, v) :: m
      else if k =? k' then (k, v) :: r
      else (k', v') :: mset k v r
  end.
Definition mmap {A B} (f : Z -> A -> B) (m : list (Z * A)) : list (Z * B) :=
  map (fun kv => (fst kv, f (fst kv) (snd kv))) m.
Definition msum (m : list (Z * Z)) : Z := fold_right (fun kv a => snd kv + a) 0 m.

(* ---- constants of the Go code *)
(* InstallmentType *)
Definition Imprest := 0. Definition NormalPayment := 1. Definition FinalPayment := 2.
(* ProposalStatus *)
Definition Registered := 0. Definition CRAgreed := 1. Definition VoterAgreed := 2.
Definition Finished := 3. Definition CRCanceled := 4. Definition VoterCanceled := 5.
Definition Terminated := 6. Definition Aborted := 7.
(* BudgetStatus *)
Definition Unfinished := 0. Definition Withdrawable := 1. Definition Withdrawn := 2.
Definition Rejected := 3. Definition Closed := 4.
(* CRCProposalTrackingType *)
Definition TCommon := 0. Definition TProgress := 1. Definition TRejected := 2.
Definition TTerminated := 3. Definition TChangeOwner := 4. Definition TFinalized := 5.
(* VoteResult *)
Definition Approve := 0.
Definition MaxBudgetsCount := 128.
Definition int64_max := 9223372036854775807.

Record budget := { b_type : Z; b_stage : Z; b_amt : Z }.

Record prop := {
  p_budgets : list budget;
  p_status : Z;
  p_wable : list (Z * Z);     (* WithdrawableBudgets *)
  p_wn : list (Z * Z);        (* WithdrawnBudgets *)
  p_bstat : list (Z * Z);     (* BudgetsStatus *)
  p_votes : list (Z * Z);     (* CRVotes: member -> VoteResult *)
  p_reject : Z;               (* VotersRejectAmount *)
  p_reg_h : Z;
  p_vote_h : Z;
  p_track : Z;
  p_final : bool;             (* FinalPaymentStatus *)
  p_term_h : Z
}.

(* one payment event: proposal, stages paid with their amounts *)
Record payment := { pay_pid : Z; pay_stages : list (Z * Z) }.

Record st := {
  props : list (Z * prop);
  used : Z;                   (* CRCCommitteeUsedAmount *)
  stage_amt : Z;              (* CRCCurrentStageAmount *)
  comm_used : Z;              (* CommitteeUsedAmount *)
  height : Z;
  paid : list payment         (* ghost: every accepted withdrawal *)
}.

Record cfg := {
  c_v1 : bool;                (* height >= CRCProposalWithdrawPayloadV1Height *)
  c_agree : Z;                (* CRAgreementCount *)
  c_p1 : Z;                   (* ProposalCRVotingPeriod *)
  c_p2 : Z;                   (* ProposalPublicVotingPeriod *)
  c_maxtrack : Z;             (* MaxProposalTrackingCount *)
  c_wfee : Z;                 (* RealWithdrawSingleFee *)
  c_members : Z               (* members 0 .. c_members-1 are elected *)
}.

Inductive tx :=
| TReg (pid : Z) (bs : list budget)
| TReview (pid member vote : Z)
| TVoteReject (pid amt : Z)
| TTrack (pid ttype stage : Z)
| TWithdraw (pid amt : Z).

Definition set_prop (S : st) (pid : Z) (p : prop) : st :=
  {| props := mset pid p (props S); used := used S; stage_amt := stage_amt S;
     comm_used := comm_used S; height := height S; paid := paid S |}.
Definition add_used (S : st) (d : Z) : st :=
  {| props := props S; used := used S + d; stage_amt := stage_amt S;
     comm_used := comm_used S; height := height S; paid := paid S |}.
Definition add_paid (S : st) (e : payment) : st :=
  {| props := props S; used := used S; stage_amt := stage_amt S;
     comm_used := comm_used S; height := height S; paid := paid S ++ [e] |}.
Definition set_height (S : st) (h : Z) : st :=
  {| props := props S; used := used S; stage_amt := stage_amt S;
     comm_used := comm_used S; height := h; paid := paid S |}.

Definition total (bs : list budget) : Z := fold_right (fun b a => b_amt b + a) 0 bs.

(* amount of the first budget satisfying f *)
Fixpoint first_budget (f : budget -> bool) (bs : list budget) : option budget :=
  match bs with
  | [] => None
  | b :: r => if f b then Some b else first_budget f r
  end.
(* stage of the LAST final-payment budget (the loop in
   checkCRCProposalFinalizedTracking keeps overwriting) *)
Definition final_stage (bs : list budget) : Z :=
  fold_left (fun a b => if b_type b =? FinalPayment then b_stage b else a) bs 0.

(* withdrawable and not yet withdrawn: what availableWithdrawalAmount sums and
   proposalWithdraw marks *)
Definition outstanding (p : prop) : list (Z * Z) :=
  filter (fun kv => negb (mmem (fst kv) (p_wn p))) (p_wable p).
Definition avail (p : prop) : Z := msum (outstanding p).

(* budgets not yet withdrawable, optionally skipping the final payment *)
Definition unused_of (p : prop) (skip_final : bool) : Z :=
  fold_right (fun b a =>
     if skip_final && (b_type b =? FinalPayment) then a
     else if mmem (b_stage b) (p_wable p) then a else b_amt b + a) 0 (p_budgets p).

(* ---- the registration check (checkNormalOrELIPProposal, Normal type) *)
Fixpoint insert_by_stage (b : budget) (l : list budget) : list budget :=
  match l with
  | [] => [b]
  | x :: r => if b_stage b <? b_stage x then b :: l else x :: insert_by_stage b r
  end.
Definition sort_by_stage (l : list budget) : list budget := fold_right insert_by_stage [] l.

(* the loop: known type, consecutive stages, non-negative amounts, running sum
   stays inside int64 (the repaired check); returns the sum *)
Fixpoint budgets_loop (bs : list budget) (stage acc : Z) : option Z :=
  match bs with
  | [] => Some acc
  | b :: r =>
      if negb ((b_type b =? Imprest) || (b_type b =? NormalPayment) || (b_type b =? FinalPayment)) then None
      else if negb (b_stage b =? stage) then None
      else if b_amt b <? 0 then None
      else if int64_max <? acc + b_amt b then None
      else budgets_loop r (stage + 1) (acc + b_amt b)
  end.
Definition count_type (t : Z) (bs : list budget) : Z :=
  Z.of_nat (length (filter (fun b => b_type b =? t) bs)).

Definition go_div (a b : Z) : Z := Z.quot a b.   (* Go integer division truncates *)

Definition check_budgets (S : st) (pu : Z) (bs0 : list budget) : bool :=
  if MaxBudgetsCount <? Z.of_nat (length bs0) then false else
  match sort_by_stage bs0 with
  | [] => false
  | (b0 :: _) as bs =>
      if (b_type b0 =? Imprest) && negb (b_stage b0 =? 0) then false
      else if negb (b_type b0 =? Imprest) && negb (b_stage b0 =? 1) then false
      else if negb (b_type (last bs b0) =? FinalPayment) then false
      else match budgets_loop bs (b_stage b0) 0 with
           | None => false
           | Some amount =>
               if 1 <? count_type Imprest bs then false
               else if negb (count_type FinalPayment bs =? 1) then false
               else if go_div ((stage_amt S - comm_used S) * 10) 100 <? amount then false
               else if stage_amt S - used S - pu <? amount then false
               else true
           end
  end.

(* ---- per-transaction check against the state before the block *)
Definition check_tx (C : cfg) (S0 : st) (pu : Z) (t : tx) : bool :=
  match t with
  | TReg pid bs => negb (mmem pid (props S0)) && check_budgets S0 pu bs
  | TReview pid m v =>
      match mget pid (props S0) with
      | None => false
      | Some p => (p_status p =? Registered) && (0 <=? v) && (v <=? 2) && (0 <=? m) && (m <? c_members C)
      end
  | TVoteReject _ _ => true
  | TTrack pid ty stage =>
      match mget pid (props S0) with
      | None => false
      | Some p =>
          if negb (p_status p =? VoterAgreed) then false
          else if c_maxtrack C <=? p_track p then false
          else
            let n := Z.of_nat (length (p_budgets p)) in
            let progress_ok :=
              (stage <? n) && negb (mmem stage (p_wable p)) &&
              forallb (fun b => negb ((b_stage b =? stage) &&
                         ((b_type b =? Imprest) || (b_type b =? FinalPayment)))) (p_budgets p) in
            if ty =? TCommon then stage =? 0
            else if ty =? TProgress then progress_ok
            else if ty =? TRejected then
              if c_v1 C then (stage <? n) && negb (mmem stage (p_wable p)) else progress_ok
            else if ty =? TTerminated then stage =? 0
            else if ty =? TFinalized then stage =? final_stage (p_budgets p)
            else false
      end
  | TWithdraw pid amt =>
      match mget pid (props S0) with
      | None => false
      | Some p =>
          ((p_status p =? VoterAgreed) || (p_status p =? Finished) ||
           (p_status p =? Aborted) || (p_status p =? Terminated)) &&
          negb (avail p =? 0) && (amt =? avail p) &&
          (if c_v1 C then c_wfee C <? amt else true)
      end
  end.

(* CheckDuplicateTx, proposal part: distinct proposals among the
   registrations, among the trackings and among the withdrawals of a block *)
Fixpoint nodupb (l : list Z) : bool :=
  match l with
  | [] => true
  | x :: r => negb (existsb (Z.eqb x) r) && nodupb r
  end.
Definition reg_pids (b : list tx) : list Z :=
  flat_map (fun t => match t with TReg p _ => [p] | _ => [] end) b.
Definition track_pids (b : list tx) : list Z :=
  flat_map (fun t => match t with TTrack p _ _ => [p] | _ => [] end) b.
Definition withdraw_pids (b : list tx) : list Z :=
  flat_map (fun t => match t with TWithdraw p _ => [p] | _ => [] end) b.
Definition dup_ok (b : list tx) : bool :=
  nodupb (reg_pids b) && nodupb (track_pids b) && nodupb (withdraw_pids b).

(* checkTxsContext: every transaction against the state before the block,
   proposalsUsedAmount accumulating over the registrations already seen *)
Fixpoint check_all (C : cfg) (S0 : st) (pu : Z) (b : list tx) : bool :=
  match b with
  | [] => true
  | t :: r =>
      check_tx C S0 pu t &&
      check_all C S0 (match t with TReg _ bs => pu + total bs | _ => pu end) r
  end.
Definition block_ok (C : cfg) (S0 : st) (b : list tx) : bool := dup_ok b && check_all C S0 0 b.

(* ---- effects: closure built from S0, executed on S *)
Definition new_prop (bs : list budget) (h : Z) : prop :=
  {| p_budgets := bs; p_status := Registered; p_wable := []; p_wn := [];
     p_bstat := fold_left (fun m b => mset (b_stage b)
                   (if b_type b =? Imprest then Withdrawable else Unfinished) m) bs [];
     p_votes := []; p_reject := 0; p_reg_h := h; p_vote_h := 0; p_track := 0;
     p_final := false; p_term_h := 0 |}.

Definition upd_prop (S : st) (pid : Z) (f : prop -> prop) : st :=
  match mget pid (props S) with
  | Some p => set_prop S pid (f p)
  | None => S
  end.

Definition close_open (m : list (Z * Z)) : list (Z * Z) :=
  mmap (fun _ v => if (v =? Unfinished) || (v =? Rejected) then Closed else v) m.
Definition close_all (m : list (Z * Z)) : list (Z * Z) := mmap (fun _ _ => Closed) m.

Definition with_status (p : prop) (s : Z) : prop :=
  {| p_budgets := p_budgets p; p_status := s; p_wable := p_wable p; p_wn := p_wn p;
     p_bstat := p_bstat p; p_votes := p_votes p; p_reject := p_reject p; p_reg_h := p_reg_h p;
     p_vote_h := p_vote_h p; p_track := p_track p; p_final := p_final p; p_term_h := p_term_h p |}.
Definition with_bstat (p : prop) (m : list (Z * Z)) : prop :=
  {| p_budgets := p_budgets p; p_status := p_status p; p_wable := p_wable p; p_wn := p_wn p;
     p_bstat := m; p_votes := p_votes p; p_reject := p_reject p; p_reg_h := p_reg_h p;
     p_vote_h := p_vote_h p; p_track := p_track p; p_final := p_final p; p_term_h := p_term_h p |}.
Definition with_wable (p : prop) (m : list (Z * Z)) : prop :=
  {| p_budgets := p_budgets p; p_status := p_status p; p_wable := m; p_wn := p_wn p;
     p_bstat := p_bstat p; p_votes := p_votes p; p_reject := p_reject p; p_reg_h := p_reg_h p;
     p_vote_h := p_vote_h p; p_track := p_track p; p_final := p_final p; p_term_h := p_term_h p |}.
Definition with_wn (p : prop) (m : list (Z * Z)) : prop :=
  {| p_budgets := p_budgets p; p_status := p_status p; p_wable := p_wable p; p_wn := m;
     p_bstat := p_bstat p; p_votes := p_votes p; p_reject := p_reject p; p_reg_h := p_reg_h p;
     p_vote_h := p_vote_h p; p_track := p_track p; p_final := p_final p; p_term_h := p_term_h p |}.
Definition with_votes (p : prop) (m : list (Z * Z)) : prop :=
  {| p_budgets := p_budgets p; p_status := p_status p; p_wable := p_wable p; p_wn := p_wn p;
     p_bstat := p_bstat p; p_votes := m; p_reject := p_reject p; p_reg_h := p_reg_h p;
     p_vote_h := p_vote_h p; p_track := p_track p; p_final := p_final p; p_term_h := p_term_h p |}.
Definition with_reject (p : prop) (r : Z) : prop :=
  {| p_budgets := p_budgets p; p_status := p_status p; p_wable := p_wable p; p_wn := p_wn p;
     p_bstat := p_bstat p; p_votes := p_votes p; p_reject := r; p_reg_h := p_reg_h p;
     p_vote_h := p_vote_h p; p_track := p_track p; p_final := p_final p; p_term_h := p_term_h p |}.
Definition with_vote_h (p : prop) (h : Z) : prop :=
  {| p_budgets := p_budgets p; p_status := p_status p; p_wable := p_wable p; p_wn := p_wn p;
     p_bstat := p_bstat p; p_votes := p_votes p; p_reject := p_reject p; p_reg_h := p_reg_h p;
     p_vote_h := h; p_track := p_track p; p_final := p_final p; p_term_h := p_term_h p |}.
Definition with_track (p : prop) (n : Z) : prop :=
  {| p_budgets := p_budgets p; p_status := p_status p; p_wable := p_wable p; p_wn := p_wn p;
     p_bstat := p_bstat p; p_votes := p_votes p; p_reject := p_reject p; p_reg_h := p_reg_h p;
     p_vote_h := p_vote_h p; p_track := n; p_final := p_final p; p_term_h := p_term_h p |}.
Definition with_final (p : prop) (f : bool) : prop :=
  {| p_budgets := p_budgets p; p_status := p_status p; p_wable := p_wable p; p_wn := p_wn p;
     p_bstat := p_bstat p; p_votes := p_votes p; p_reject := p_reject p; p_reg_h := p_reg_h p;
     p_vote_h := p_vote_h p; p_track := p_track p; p_final := f; p_term_h := p_term_h p |}.
Definition with_term_h (p : prop) (h : Z) : prop :=
  {| p_budgets := p_budgets p; p_status := p_status p; p_wable := p_wable p; p_wn := p_wn p;
     p_bstat := p_bstat p; p_votes := p_votes p; p_reject := p_reject p; p_reg_h := p_reg_h p;
     p_vote_h := p_vote_h p; p_track := p_track p; p_final := p_final p; p_term_h := h |}.

(* the execute closure of proposalTracking (state p at execution time) *)
Definition track_do (ty stage h : Z) (p : prop) : prop :=
  let p := with_track p (p_track p + 1) in
  if ty =? TProgress then
    let p := with_bstat p (mset stage Withdrawable (p_bstat p)) in
    let p := match first_budget (fun b => b_stage b =? stage) (p_budgets p) with
             | Some b => with_wable p (mset stage (b_amt b) (p_wable p))
             | None => p
             end in
    if Z.of_nat (length (p_wn p)) =? Z.of_nat (length (p_budgets p)) - 1 then with_final p true else p
  else if ty =? TRejected then
    if stage =? 0 then p
    else if mmem stage (p_bstat p) then with_bstat p (mset stage Rejected (p_bstat p)) else p
  else if ty =? TTerminated then
    let p := with_term_h p h in
    let p := with_status p Terminated in
    with_bstat p (close_open (p_bstat p))
  else if ty =? TFinalized then
    let p := with_status p Finished in
    let p := match first_budget (fun b => b_type b =? FinalPayment) (p_budgets p) with
             | Some b => with_wable p (mset (b_stage b) (b_amt b) (p_wable p))
             | None => p
             end in
    let p := with_bstat p (mset stage Withdrawable (p_bstat p)) in
    with_bstat p (close_open (p_bstat p))
  else p.

(* budget released by a tracking, computed on the state before the block *)
Definition track_unused (ty : Z) (p0 : prop) : Z :=
  if ty =? TTerminated then unused_of p0 false
  else if ty =? TFinalized then unused_of p0 true
  else 0.

Definition withdraw_do (w : list (Z * Z)) (p : prop) : prop :=
  let p := with_wn p (fold_left (fun m kv => mset (fst kv) (snd kv) m) w (p_wn p)) in
  with_bstat p (mmap (fun _ v => if v =? Withdrawable then Withdrawn else v) (p_bstat p)).

Definition apply_tx (S0 : st) (h : Z) (S : st) (t : tx) : st :=
  match t with
  | TReg pid bs => add_used (set_prop S pid (new_prop bs h)) (total bs)
  | TReview pid m v =>
      if mmem pid (props S0) then upd_prop S pid (fun p => with_votes p (mset m v (p_votes p))) else S
  | TVoteReject pid amt =>
      match mget pid (props S0) with
      | Some p0 => if p_status p0 =? CRAgreed
                   then upd_prop S pid (fun p => with_reject p (p_reject p + amt)) else S
      | None => S
      end
  | TTrack pid ty stage =>
      match mget pid (props S0) with
      | Some p0 =>
          if (ty =? TTerminated) && ((p_status p0 =? Terminated) || (p_status p0 =? Finished)) then S
          else add_used (upd_prop S pid (track_do ty stage h)) (- track_unused ty p0)
      | None => S
      end
  | TWithdraw pid _ =>
      match mget pid (props S0) with
      | Some p0 =>
          let w := outstanding p0 in
          add_paid (upd_prop S pid (withdraw_do w)) {| pay_pid := pid; pay_stages := w |}
      | None => S
      end
  end.

(* ---- updateProposals: one pass over the proposals of the state after the
   transactions, closures executed afterwards (they touch distinct proposals) *)
Definition approvals (p : prop) : Z :=
  Z.of_nat (length (filter (fun kv => snd kv =? Approve) (p_votes p))).

(* returns the new proposal and the budget released *)
Definition update_prop (C : cfg) (h thr : Z) (p : prop) : prop * Z :=
  if p_status p =? Registered then
    if p_reg_h p + c_p1 C <=? h then
      if c_agree C <=? approvals p then (with_vote_h (with_status p CRAgreed) h, 0)
      else (with_bstat (with_status p CRCanceled) (close_all (p_bstat p)), total (p_budgets p))
    else (p, 0)
  else if p_status p =? CRAgreed then
    if p_vote_h p + c_p2 C <=? h then
      if thr <=? p_reject p
      then (with_bstat (with_status p VoterCanceled) (close_all (p_bstat p)), total (p_budgets p))
      else let p := with_status p VoterAgreed in
           (match first_budget (fun b => b_type b =? Imprest) (p_budgets p) with
            | Some b => with_wable p (mset (b_stage b) (b_amt b) (p_wable p))
            | None => p
            end, 0)
    else (p, 0)
  else (p, 0).

Definition update_all (C : cfg) (h thr : Z) (S : st) : st :=
  let r := map (fun kp => (fst kp, update_prop C h thr (snd kp))) (props S) in
  {| props := map (fun x => (fst x, fst (snd x))) r;
     used := used S - fold_right (fun x a => snd (snd x) + a) 0 r;
     stage_amt := stage_amt S; comm_used := comm_used S; height := height S; paid := paid S |}.

(* SortTransactions as Go's insertion sort executes it on at most 12 elements
   with this comparator: withdrawals first, both groups in reverse order.  The
   theorems do not depend on it (they hold for every permutation). *)
Definition is_withdraw (t : tx) : bool := match t with TWithdraw _ _ => true | _ => false end.
Definition go_sort (b : list tx) : list tx :=
  rev (filter is_withdraw b) ++ rev (filter (fun t => negb (is_withdraw t)) b).

(* one block at height [height S + 1]; thr is the voter-reject threshold the
   node computes from the circulation (a float expression, supplied) *)
Definition apply_block (C : cfg) (sortf : list tx -> list tx) (S0 : st) (thr : Z) (b : list tx) : st :=
  let h := height S0 + 1 in
  let S1 := fold_left (apply_tx S0 h) (sortf b) S0 in
  set_height (update_all C h thr S1) h.

Definition step (C : cfg) (sortf : list tx -> list tx) (S : st) (blk : Z * list tx) : st :=
  if block_ok C S (snd blk) then apply_block C sortf S (fst blk) (snd blk) else S.

Definition run (C : cfg) (sortf : list tx -> list tx) (S : st) (bs : list (Z * list tx)) : st :=
  fold_left (step C sortf) bs S.

Definition init (stage used0 comm h0 : Z) : st :=
  {| props := []; used := used0; stage_amt := stage; comm_used := comm; height := h0; paid := [] |}.
