(* C18 model: the flat-file block store of database/ffldb (blockio.go:
   writeData, writeBlock, readBlock, readBlockRegion, handleRollback,
   scanBlockFiles, serialize/deserializeBlockLoc; reconcile.go:
   serialize/deserializeWriteRow, reconcileDB; db.go: fetchPendingRegion,
   FetchBlock, FetchBlockRegion, FetchBlockHeader, writePendingAndCommit).
   Executable, no proofs here.

   Files are byte lists; a directory is a list indexed by file number whose
   entries are [None] for a missing file.  uint32 arithmetic wraps explicitly
   ([u32]).  The record checksum (CRC-32C in Go, written big-endian) is a
   parameter [cksum]; the correspondence instantiates it with
   model/C18_Crc32c.v.  Offsets/lengths are [N]; a large N is never converted
   to nat (every take/drop first compares with the available length). *)
From Coq Require Import NArith List Bool.
Import ListNotations.
Local Open Scope N_scope.

Definition bytes := list N.

Inductive err := ENotFound | ERegion | EDriver | ECorrupt.
Inductive res (A : Type) : Type := Ok (a : A) | Err (e : err) | Panic.
Arguments Ok {A} a. Arguments Err {A} e. Arguments Panic {A}.

Definition u32 (x : N) : N := x mod 4294967296.

Definition len (b : bytes) : N := N.of_nat (length b).
Definition takeN (n : N) (b : bytes) : bytes :=
  if len b <=? n then b else firstn (N.to_nat n) b.
Definition dropN (n : N) (b : bytes) : bytes :=
  if len b <=? n then [] else skipn (N.to_nat n) b.
Definition zeros (n : N) : bytes := repeat 0 (N.to_nat n).

Fixpoint bytes_eqb (a b : bytes) : bool :=
  match a, b with
  | [], [] => true
  | x :: a', y :: b' => (x =? y) && bytes_eqb a' b'
  | _, _ => false
  end.

(* binary.LittleEndian.PutUint32 / Uint32 *)
Definition le32 (x : N) : bytes :=
  [x mod 256; (x / 256) mod 256; (x / 65536) mod 256; (x / 16777216) mod 256].
Definition de_le32 (b : bytes) : N :=
  match b with
  | [a; b; c; d] => a + 256 * b + 65536 * c + 16777216 * d
  | _ => 0
  end.

(* ---- block locations (blockio.go serializeBlockLoc / deserializeBlockLoc) *)
Record loc := mkloc { l_file : N; l_off : N; l_len : N }.
Definition ser_loc (l : loc) : bytes := le32 (l_file l) ++ le32 (l_off l) ++ le32 (l_len l).
Definition deser_loc (b : bytes) : loc :=
  mkloc (de_le32 (takeN 4 b)) (de_le32 (takeN 4 (dropN 4 b))) (de_le32 (takeN 4 (dropN 8 b))).

(* ---- directory of flat files *)
Definition files := list (option bytes).

Definition get_file (fs : files) (n : N) : option bytes :=
  if N.of_nat (length fs) <=? n then None else
  match nth_error fs (N.to_nat n) with Some (Some d) => Some d | _ => None end.

Fixpoint set_nth (fs : files) (n : nat) (v : option bytes) : files :=
  match n, fs with
  | O, [] => [v]
  | O, _ :: t => v :: t
  | S k, [] => None :: set_nth [] k v
  | S k, h :: t => h :: set_nth t k v
  end.
(* file numbers are small in every run (one per rollover) *)
Definition set_file (fs : files) (n : N) (d : bytes) : files := set_nth fs (N.to_nat n) (Some d).
(* a directory is kept without trailing missing entries *)
Fixpoint strip_rev (fs : files) : files :=
  match fs with None :: t => strip_rev t | _ => fs end.
Definition strip_none (fs : files) : files := rev (strip_rev (rev fs)).
Definition del_file (fs : files) (n : N) : files :=
  match get_file fs n with Some _ => strip_none (set_nth fs (N.to_nat n) None) | None => fs end.

(* os.File.WriteAt (a gap is filled with zeros), Truncate (extends with zeros) *)
Definition write_at (d : bytes) (off : N) (data : bytes) : bytes :=
  takeN off d ++ zeros (off - len d) ++ data ++ dropN (off + len data) d.
Definition truncate (d : bytes) (n : N) : bytes := takeN n d ++ zeros (n - len d).

(* scanBlockFiles + newBlockStore: the cursor derived from the files present:
   files 0,1,... up to the first missing one; (0,0) when file 0 is missing *)
Fixpoint scan (fs : files) (i : N) (last : N * N) : N * N :=
  match fs with
  | Some d :: t => scan t (i + 1) (i, u32 (len d))
  | _ => last
  end.
Definition scan_cursor (fs : files) : N * N := scan fs 0 (0, 0).

(* the block store: directory + write cursor *)
Record store := mkstore { s_files : files; s_file : N; s_off : N }.

Section Flat.
Variable max : N.                 (* blockStore.maxBlockFileSize *)
Variable net : N.                 (* blockStore.network *)
Variable cksum : bytes -> bytes.  (* crc32(Castagnoli) of the argument, big-endian, 4 bytes *)

(* the four pieces writeBlock hands to writeData, in order *)
Definition blen_of (raw : bytes) : N := u32 (len raw).
Definition pieces (raw : bytes) : list bytes :=
  let n := le32 net in
  let l := le32 (blen_of raw) in
  [n; l; raw; cksum (n ++ l ++ raw)].
Definition record (raw : bytes) : bytes := concat (pieces raw).

(* writeBlock, first part: roll over to the next file when the record would
   pass the maximum file size (or the uint32 offset would wrap) *)
Definition full_len (raw : bytes) : N := u32 (blen_of raw + 12).
Definition rollover_needed (off : N) (raw : bytes) : bool :=
  let final := u32 (off + full_len raw) in
  (final <? off) || (max <? final).
Definition roll (st : store) (raw : bytes) : store :=
  if rollover_needed (s_off st) raw
  then mkstore (s_files st) (u32 (s_file st + 1)) 0
  else st.

(* openWriteFile: O_RDWR|O_CREATE *)
Definition ensure_file (fs : files) (n : N) : files :=
  match get_file fs n with Some _ => fs | None => set_file fs n [] end.

(* writeData: one WriteAt at the cursor, cursor advanced by the bytes written *)
Definition write_data (st : store) (data : bytes) : store :=
  let d := match get_file (s_files st) (s_file st) with Some d => d | None => [] end in
  mkstore (set_file (s_files st) (s_file st) (write_at d (s_off st) data))
          (s_file st) (u32 (s_off st + len data)).

Definition write_block (st : store) (raw : bytes) : store * loc :=
  let st1 := roll st raw in
  let st2 := mkstore (ensure_file (s_files st1) (s_file st1)) (s_file st1) (s_off st1) in
  let st3 := fold_left write_data (pieces raw) st2 in
  (st3, mkloc (s_file st1) (s_off st1) (full_len raw)).

(* os.File.ReadAt of n bytes at off: fewer available => error (io.EOF) *)
Definition read_at (d : bytes) (off n : N) : option bytes :=
  let r := takeN n (dropN off d) in
  if len r <? n then None else Some r.

(* readBlock *)
Definition read_block (fs : files) (l : loc) : res bytes :=
  match get_file fs (l_file l) with
  | None => Err EDriver
  | Some d =>
    match read_at d (l_off l) (l_len l) with
    | None => Err EDriver
    | Some sd =>
      let n := l_len l in
      if n <? 4 then Panic                                   (* serializedData[n-4:] *)
      else if negb (bytes_eqb (dropN (n - 4) sd) (cksum (takeN (n - 4) sd))) then Err ECorrupt
      else if negb (de_le32 (takeN 4 sd) =? net) then Err EDriver
      else if n <? 12 then Panic                             (* serializedData[8:n-4] *)
      else Ok (takeN (n - 12) (dropN 8 sd))
    end
  end.

(* readBlockRegion *)
Definition read_region (fs : files) (l : loc) (off n : N) : res bytes :=
  match get_file fs (l_file l) with
  | None => Err EDriver
  | Some d =>
    match read_at d (u32 (l_off l + 8 + off)) n with
    | None => Err EDriver
    | Some r => Ok r
    end
  end.

(* FetchBlockRegion's bound check on a stored block (after the repair
   "fix: ffldb FetchBlockRegion(s) bound check ..."): offset+len wraps as
   uint32; the location length includes 12 bytes of framing *)
Definition region_ok (l : loc) (off n : N) : bool :=
  let e := u32 (off + n) in negb ((e <? off) || (l_len l <? e + 12)).
Definition fetch_region (fs : files) (l : loc) (off n : N) : res bytes :=
  if region_ok l off n then read_region fs l off n else Err ERegion.

(* fetchPendingRegion: a block of the open transaction, not yet written *)
Definition pending_region (raw : bytes) (off n : N) : res bytes :=
  let e := u32 (off + n) in
  if (e <? off) || (u32 (len raw) <? e) then Err ERegion
  else Ok (takeN (e - off) (dropN off raw)).

(* handleRollback to (file, off): delete newer files (stop at the first failed
   delete), create/open the target file, truncate it; the cursor is reset in
   every case *)
Fixpoint del_down (fs : files) (cur : N) (target : N) (fuel : nat) : files * bool :=
  match fuel with
  | O => (fs, true)
  | S k => if target <? cur
           then match get_file fs cur with
                | None => (fs, false)                       (* os.Remove fails *)
                | Some _ => del_down (del_file fs cur) (cur - 1) target k
                end
           else (fs, true)
  end.
Definition handle_rollback (st : store) (f o : N) : store :=
  if (s_file st =? f) && (s_off st =? o) then st else
  let '(fs1, ok) := del_down (s_files st) (s_file st) f (N.to_nat (s_file st - f)) in
  if ok then
    let fs2 := ensure_file fs1 f in
    let d := match get_file fs2 f with Some d => d | None => [] end in
    mkstore (set_file fs2 f (truncate d o)) f o
  else mkstore fs1 f o.

(* reconcileDB given the cursor stored in the metadata *)
Definition cursor_lt (a b : N * N) : bool :=
  (fst a <? fst b) || ((fst a =? fst b) && (snd a <? snd b)).
Definition reconcile (fs : files) (stored : N * N) : res store :=
  let c := scan_cursor fs in
  let st := mkstore fs (fst c) (snd c) in
  let st' := if cursor_lt stored c then handle_rollback st (fst stored) (snd stored) else st in
  if cursor_lt (s_file st', s_off st') stored then Err ECorrupt else Ok st'.

(* reconcile.go serializeWriteRow / deserializeWriteRow: the checksum is stored
   little-endian, i.e. the reverse of the big-endian [cksum] bytes *)
Definition ser_wrow (f o : N) : bytes :=
  let b := le32 f ++ le32 o in b ++ rev (cksum b).
Definition deser_wrow (row : bytes) : res (N * N) :=
  if len row <? 12 then Panic
  else if bytes_eqb (rev (cksum (takeN 8 row))) (takeN 4 (dropN 8 row))
       then Ok (de_le32 (takeN 4 row), de_le32 (takeN 4 (dropN 4 row)))
       else Err ECorrupt.

(* ---- the database as far as blocks are concerned: store + block index rows
   (by block number, in storage order) + the write-cursor row of the metadata *)
Record db := mkdb { d_st : store; d_rows : list bytes; d_wrow : bytes }.

Definition db0 : db := mkdb (mkstore [] 0 0) [] (ser_wrow 0 0).

(* writePendingAndCommit for a transaction that stored [blocks] *)
Definition commit_step (acc : store * list bytes) (raw : bytes) : store * list bytes :=
  let '(st, rows) := acc in
  let '(st', l) := write_block st raw in (st', rows ++ [ser_loc l]).
Definition db_commit (d : db) (blocks : list bytes) : db :=
  let '(st, rows) := fold_left commit_step blocks (d_st d, d_rows d) in
  mkdb st rows (ser_wrow (s_file st) (s_off st)).

Definition row_of (d : db) (i : N) : option bytes :=
  if N.of_nat (length (d_rows d)) <=? i then None else nth_error (d_rows d) (N.to_nat i).

(* FetchBlock / FetchBlockRegion / FetchBlockHeader of a stored block *)
Definition db_fetch (d : db) (i : N) : res bytes :=
  match row_of d i with
  | None => Err ENotFound
  | Some row => read_block (s_files (d_st d)) (deser_loc row)
  end.
Definition db_region (d : db) (i off n : N) : res bytes :=
  match row_of d i with
  | None => Err ENotFound
  | Some row => fetch_region (s_files (d_st d)) (deser_loc row) off n
  end.
Definition hdr_size : N := 84.   (* blockHdrNoAuxSize *)
Definition db_header (d : db) (i : N) : res bytes := db_region d i 0 hdr_size.

(* region read inside a write transaction holding [pending] (block numbers
   continue after the stored ones) *)
Definition tx_region (d : db) (pending : list bytes) (i off n : N) : res bytes :=
  let k := N.of_nat (length (d_rows d)) in
  if i <? k then db_region d i off n
  else if N.of_nat (length pending) <=? i - k then Err ENotFound
  else match nth_error pending (N.to_nat (i - k)) with
       | Some raw => pending_region raw off n
       | None => Err ENotFound
       end.

(* bulk reads.  FetchBlockRegions (and FetchBlockHeaders, which calls it): a
   first loop checks every request in order (pending block / index row / bounds:
   the first ErrBlockNotFound or ErrBlockRegionInvalid is returned), a second
   loop performs the file reads sorted by location (any failure there is
   ErrDriverSpecific); the results come back in request order, each being what
   the single-region read returns. *)
Definition is_early (e : err) : bool := match e with ENotFound | ERegion => true | _ => false end.
Fixpoint first_err (f : err -> bool) (rs : list (res bytes)) : option err :=
  match rs with
  | [] => None
  | Err e :: t => if f e then Some e else first_err f t
  | _ :: t => first_err f t
  end.
Fixpoint oks (rs : list (res bytes)) : list bytes :=
  match rs with [] => [] | Ok b :: t => b :: oks t | _ :: t => oks t end.
Definition has_panic (rs : list (res bytes)) : bool :=
  existsb (fun r => match r with Panic => true | _ => false end) rs.
Definition bulk (rs : list (res bytes)) : res (list bytes) :=
  match first_err is_early rs with
  | Some e => Err e
  | None => match first_err (fun _ => true) rs with
            | Some e => Err e
            | None => if has_panic rs then Panic else Ok (oks rs)
            end
  end.
Definition tx_regions (d : db) (pending : list bytes) (reqs : list (N * N * N)) : res (list bytes) :=
  bulk (map (fun q => tx_region d pending (fst (fst q)) (snd (fst q)) (snd q)) reqs).
Definition tx_headers (d : db) (pending : list bytes) (is : list N) : res (list bytes) :=
  tx_regions d pending (map (fun i => (i, 0, hdr_size)) is).
(* FetchBlocks: FetchBlock one after the other, the first failure is returned *)
Definition seq_all (rs : list (res bytes)) : res (list bytes) :=
  match first_err (fun _ => true) rs with
  | Some e => Err e
  | None => if has_panic rs then Panic else Ok (oks rs)
  end.

(* Close (files and metadata persist) followed by Open: scan + reconcileDB *)
Definition db_reopen (d : db) : res db :=
  match deser_wrow (d_wrow d) with
  | Ok c => match reconcile (s_files (d_st d)) c with
            | Ok st => Ok (mkdb st (d_rows d) (d_wrow d))
            | Err e => Err e
            | Panic => Panic
            end
  | Err e => Err e
  | Panic => Panic
  end.

(* histories: commits of block lists and reopen events *)
Inductive ev := ECommit (blocks : list bytes) | EReopen.
Fixpoint run (d : db) (h : list ev) : res db :=
  match h with
  | [] => Ok d
  | ECommit bs :: t => run (db_commit d bs) t
  | EReopen :: t => match db_reopen d with Ok d' => run d' t | Err e => Err e | Panic => Panic end
  end.
Fixpoint blocks_of (h : list ev) : list bytes :=
  match h with
  | [] => []
  | ECommit bs :: t => bs ++ blocks_of t
  | EReopen :: t => blocks_of t
  end.
End Flat.
