(* C23 model, second part: the checkpoint envelopes around the key frames of
   model/C23_KeyFrame.v - dpos/state CheckPoint with its ArbiterMember lists
   and maps, cr/state Checkpoint with ProposalKeyFrame / ProposalState, the
   mempool txPoolCheckpoint and the wallet CoinsCheckPoint - and the decoders
   seen as methods on a receiver that may already hold data.
   Executable, no proofs here.  Fields in WIRE order. *)
From Coq Require Import List NArith Bool.
From ELA Require Import lib.Bytes lib.VarInt lib.C23_codec lib.C23_codec2 model.C23_KeyFrame.
Import ListNotations.
Local Open Scope N_scope.

(* ---------------------------------------------------------------- dpos/state *)

Definition pubkey := c_varbytes 33.                           (* crypto.NegativeBigLength *)

Definition origin_arbiter := h168 ** pubkey.                  (* ownerHash, key *)
Definition dpos_arbiter := producer ** h168.                  (* producer, ownerHash *)
Definition crc_arbiter := cr_member ** pubkey ** h168 ** c_bool.   (* crMember, nodePk, ownerHash, isNormal *)

(* SerializeArbiterMember / ArbiterMemberFromReader: type byte Origin 0, DPoS 1,
   CRC 3; CROrigin 2 is read as a dposArbiter, whose GetType() is DPoS *)
Definition arbiter := c_tagged3 0 1 3 2 origin_arbiter dpos_arbiter crc_arbiter.
Definition arbiters := c_list arbiter.
Definition arbiter_map := m168 arbiter.

(* dpos/state.CheckPoint, all 23 serialized fields *)
Definition dpos_checkpoint :=
  u32 ** u32 **                         (* Height DutyIndex *)
  arbiters ** arbiters ** arbiters **   (* LastArbitrators CurrentArbitrators CurrentCandidates *)
  arbiters ** arbiters **               (* NextArbitrators NextCandidates *)
  reward_data ** reward_data **         (* CurrentReward NextReward *)
  smap (smap u64) **                    (* LastDPoSRewards *)
  arbiter_map ** arbiter_map ** arbiter_map **   (* CurrentCRCArbitersMap CurrentOnDutyCRCArbitersMap NextCRCArbitersMap *)
  arbiters **                           (* NextCRCArbiters *)
  u32 ** u64 ** u64 ** u32 **           (* CRCChangedHeight AccumulativeReward FinalRoundChange ClearingHeight *)
  m168 u64 **                           (* ArbitersRoundReward *)
  set256 **                             (* IllegalBlocksPayloadHashes *)
  c_bool **                             (* ForceChanged *)
  dpos_state_key_frame.                 (* StateKeyFrame *)

(* ---------------------------------------------------------------- cr/state *)

Definition budget := u8 ** u8 ** u64.                          (* Type Stage Amount *)
Definition side_chain_info := c_string ** u32 ** h256 ** u64 ** u32 ** c_string.
Definition strings := c_list c_string.

(* payload.CRCProposalInfo (19 fields, SideChainInfo embedded) *)
Definition crc_proposal_info :=
  u16 ** c_string ** pubkey ** h256 **          (* ProposalType CategoryData OwnerPublicKey DraftHash *)
  c_list budget ** h168 ** h256 **              (* Budgets Recipient TargetProposalHash *)
  strings ** strings **                         (* ReservedCustomIDList ReceivedCustomIDList *)
  h168 ** u64 ** u32 ** h168 **                 (* ReceiverDID RateOfCustomIDFee EIDEffectiveHeight NewRecipient *)
  pubkey ** pubkey ** h168 ** h168 **           (* NewOwnerPublicKey SecretaryGeneralPublicKey SecretaryGeneralDID CRCouncilMemberDID *)
  side_chain_info ** h256.                      (* SideChainInfo Hash *)

Definition u8map {V} (cv : codec V) := c_map ord_N u8 cv.      (* map[uint8]V *)

(* cr/state.ProposalState, 16 fields *)
Definition proposal_state :=
  crc_proposal_info ** u8 ** u8 ** u32 ** u32 ** u64 **   (* Proposal Status TxPayloadVer RegisterHeight VoteStartHeight VotersRejectAmount *)
  m168 u8 **                                              (* CRVotes *)
  u8map u64 ** u8map u64 ** u8map u8 **                   (* WithdrawnBudgets WithdrawableBudgets BudgetsStatus *)
  c_bool ** u8 ** u32 ** pubkey ** h168 ** h256.          (* FinalPaymentStatus TrackingCount TerminatedHeight ProposalOwner Recipient TxHash *)

(* cr/state.ProposalKeyFrame, 13 fields *)
Definition proposal_key_frame :=
  m256 proposal_state **                 (* Proposals *)
  m168 set256 **                         (* ProposalHashes *)
  c_map ord_N u64 (c_list h256) **       (* ProposalSession, uint64 key on 8 bytes *)
  m256 output_info **                    (* WithdrawableTxInfo *)
  c_string **                            (* SecretaryGeneralPublicKey *)
  strings **                             (* ReservedCustomIDLists *)
  sset **                                (* PendingReceivedCustomIDMap *)
  strings ** strings **                  (* ReceivedCustomIDLists RegisteredSideChainNames *)
  c_list u32 ** c_list h256 **           (* RegisteredMagicNumbers RegisteredGenesisHashes *)
  c_map ord_N u32 (m256 side_chain_info) **   (* RegisteredSideChainPayloadInfo *)
  c_bool.                                (* ReservedCustomID *)

(* cr/state.Checkpoint *)
Definition cr_checkpoint := u32 ** cr_key_frame ** cr_state_key_frame ** proposal_key_frame.

(* ---------------------------------------------------------------- mempool *)

Definition tx_item := h256 ** u64 ** u32.           (* Hash, FeeRate (the 64 bits of the float64), Size *)
Definition tx_fee_list := c_list tx_item ** u64.    (* list, totalSize *)

(* txPoolCheckpoint wire format, for any transaction codec [ctx] (transactions
   themselves are C04's subject): height, txnList, txFees *)
Definition txpool_checkpoint {T} (ctx : codec T) := u32 ** m256 ctx ** tx_fee_list.

(* what txPoolCheckpoint.Deserialize leaves IN THE CHECKPOINT OBJECT: the
   transactions read from the wire are handed to the live pool and never
   stored in txnList (recorded defect mempool:Snapshot:txnList) *)
Definition txpool_deserialize_go {T} (ctx : codec T) (wire : bytes) :=
  match dec (txpool_checkpoint ctx) wire with
  | Some ((h, (txs, fees)), t) => Some ((h, (@nil (bytes * T), fees)), t)
  | None => None
  end.

(* ---------------------------------------------------------------- wallet *)

Definition out_point := h256 ** u16.                 (* TxID Index *)
Definition ord_out_point := ord_pair ord_bytes ord_N.

(* common2.Output under a transaction version: Type and Payload exist on the
   wire only from TxVersion09; [pl t] is the codec of the output payload for
   output type t (getOutputPayload) *)
Definition output_ext {P} (pl : N -> codec P) (v : N) : codec (option (N * P)) :=
  if v <? 9 then c_none (N * P) else c_some (c_bind u8 pl).
Definition output {P} (pl : N -> codec P) (v : N) :=
  h256 ** u64 ** u32 ** h168 ** output_ext pl v.     (* AssetID Value OutputLock ProgramHash [Type Payload] *)

(* wallet.Coin: TxVersion, Output, Height *)
Definition coin {P} (pl : N -> codec P) := c_bind u8 (fun v => output pl v ** u32).

(* wallet.CoinOwnership (owner, op) and CoinLinkedItem (prev, next; a nil
   pointer is written as the zero OutPoint and read back as nil) *)
Definition ownership := c_string ** out_point.
Definition ord_ownership := ord_pair ord_bytes ord_out_point.
Definition linked_item := out_point ** out_point.

(* wallet.CoinsCheckPoint: height, coins, ownedCoins; counts are uint32 *)
Definition coins_map {P} (pl : N -> codec P) := c_mapn u32 ord_out_point out_point (coin pl).
Definition owned_coins := c_mapn u32 ord_ownership ownership linked_item.
Definition wallet_checkpoint {P} (pl : N -> codec P) := u32 ** coins_map pl ** owned_coins.

(* output payloads used by the correspondence run: DefaultOutput (type 0) *)
Definition default_payloads (t : N) : codec unit := if t =? 0 then c_unit else c_fail unit.

(* ---------------------------------------------------------------- receivers *)

(* dpos CheckPoint.Deserialize, cr Checkpoint.Deserialize and everything below
   them assign every field from a value built from the wire alone (fresh
   make(...) in each helper); by lib.C23_codec2.r_pair_assign the field-by-field
   receiver is the assigned struct *)
Definition r_dpos_checkpoint := r_assign dpos_checkpoint.
Definition r_cr_checkpoint :=
  r_pair (r_assign u32) (r_pair (r_assign cr_key_frame) (r_pair (r_assign cr_state_key_frame) (r_assign proposal_key_frame))).

(* the variant seeded as C23b: ProposalKeyFrame string lists read by a helper
   that appends to the list it is handed *)
Definition r_strings_appending := r_list_append c_string.

(* wallet CoinsCheckPoint.Deserialize stores into the receiver's existing maps
   ("ccp.coins[op] = coin", "oc[co] = cl") *)
Definition r_wallet_checkpoint {P} (pl : N -> codec P) :=
  r_pair (r_assign u32)
    (r_pair (r_map_merge u32 ord_out_point out_point (coin pl))
            (r_map_merge u32 ord_ownership ownership linked_item)).

(* Restart into a live node: Manager.Restore deserialises into the registered
   checkpoint (initialised from the live object), then OnInit ->
   Recover / recoverFromCheckPoints installs the checkpoint's frames as the
   live state. *)
Definition restore_live {S} (r : rcodec S) (live : S) (wire : bytes) : option S :=
  match deci r live wire with Some (s, []) => Some s | _ => None end.
