(* C04 — typed record for payload.CRCProposal (all proposal types) over the
   descriptor [crcproposal_fmt] of model/C02_Descr.v.  No proofs here. *)
From Coq Require Import NArith List Bool.
From ELA Require Import lib.GoSem lib.Bytes model.C02_Fmt model.C02_Descr model.C04_Codec model.C04_Payloads.
Import ListNotations.
Local Open Scope N_scope.

(* right-nested pairs, as [fseq] builds them *)
Fixpoint vseq (l : list value) : value :=
  match l with
  | [] => VUnit
  | [a] => a
  | a :: r => VPair a (vseq r)
  end.
(* split a value into exactly n components *)
Fixpoint vunseq (n : nat) (v : value) : option (list value) :=
  match n with
  | O => None
  | S O => Some [v]
  | S n' => match v with
            | VPair a b => match vunseq n' b with Some l => Some (a :: l) | None => None end
            | _ => None
            end
  end.

Inductive proposal_body :=
| PNormal (budgets : list (N * N * N)) (recipient : bytes)              (* type, stage, amount *)
| PChangeOwner (target new_recipient new_owner_key new_owner_signature : bytes)
| PClose (target : bytes)
| PSecretary (sg_key sg_did sg_signature : bytes)
| PUpgrade (working_height : N) (node_version download_url bin_hash : bytes) (force : N)
| PRegisterSideChain (name : bytes) (magic : N) (genesis : bytes) (rate height : N) (resource : bytes)
| PReserveID (ids : list bytes)
| PReceiveID (ids : list bytes) (receiver_did : bytes)
| PChangeFee (rate height : N).

Record proposal := mkProposal {
  p_type : N;
  p_category : bytes; p_owner : bytes; p_draft_hash : bytes;
  p_draft_data : option bytes;          (* payload version >= 1; never for the upgrade-code types *)
  p_body : proposal_body;
  p_signature : bytes; p_cr_did : bytes; p_cr_signature : bytes
}.

(* which body the decoder reads for a proposal type (CRCProposal.Deserialize / DeserializeUnSigned) *)
Definition kind_of_type (t : N) : N :=
  match t with
  | 1025 => 1 | 1026 => 2 | 1024 => 3 | 512 | 513 | 514 => 4 | 1040 => 5 | 1280 => 6 | 1281 => 7 | 1282 => 8
  | _ => 0
  end.
Definition kind_of_body (b : proposal_body) : N :=
  match b with
  | PNormal _ _ => 0 | PChangeOwner _ _ _ _ => 1 | PClose _ => 2 | PSecretary _ _ _ => 3
  | PUpgrade _ _ _ _ _ => 4 | PRegisterSideChain _ _ _ _ _ _ => 5 | PReserveID _ => 6
  | PReceiveID _ _ => 7 | PChangeFee _ _ => 8
  end.
Definition kind_ok (p : proposal) : bool :=
  (kind_of_type (p_type p) =? kind_of_body (p_body p)) &&
  match p_body p, p_draft_data p with PUpgrade _ _ _ _ _, Some _ => false | _, _ => true end.

Definition budget_v (b : N * N * N) : value := match b with (t, s, a) => vseq [VN t; VN s; VN a] end.
Definition budget_of (v : value) : option (N * N * N) :=
  match v with VPair (VN t) (VPair (VN s) (VN a)) => Some (t, s, a) | _ => None end.

Definition proposal_v (p : proposal) : value :=
  let hd := [VB (p_category p); VB (p_owner p); VB (p_draft_hash p)] in
  let dr := opt_v VB (p_draft_data p) in
  let tl := [VB (p_signature p); VB (p_cr_did p); VB (p_cr_signature p)] in
  VTag (p_type p)
    (vseq match p_body p with
          | PNormal bs r => hd ++ [dr; VL (map budget_v bs); VB r] ++ tl
          | PChangeOwner t r k s => hd ++ [dr; VB t; VB r; VB k; VB (p_signature p); VB s; VB (p_cr_did p); VB (p_cr_signature p)]
          | PClose t => hd ++ [dr; VB t] ++ tl
          | PSecretary k d s => hd ++ [dr; VB k; VB d; VB (p_signature p); VB s; VB (p_cr_did p); VB (p_cr_signature p)]
          | PUpgrade h v u b f => hd ++ [vseq [VN h; VB v; VB u; VB b; VN f]] ++ tl
          | PRegisterSideChain n m g r h s => hd ++ [dr; vseq [VB n; VN m; VB g; VN r; VN h; VB s]] ++ tl
          | PReserveID ids => hd ++ [dr; VL (map VB ids)] ++ tl
          | PReceiveID ids d => hd ++ [dr; VL (map VB ids); VB d] ++ tl
          | PChangeFee r h => hd ++ [dr; VN r; VN h] ++ tl
          end).

Definition proposal_of (v : value) : option proposal :=
  match v with
  | VTag t b =>
    match kind_of_type t with
    | 0 => match vunseq 9 b with
           | Some [VB c; VB o; VB h; d; VL bs; VB r; VB s; VB i; VB g] =>
             match optB_of d, traverse budget_of bs with
             | Some d', Some bs' => Some (mkProposal t c o h d' (PNormal bs' r) s i g)
             | _, _ => None
             end
           | _ => None
           end
    | 1 => match vunseq 11 b with
           | Some [VB c; VB o; VB h; d; VB tg; VB nr; VB nk; VB s; VB ns; VB i; VB g] =>
             match optB_of d with
             | Some d' => Some (mkProposal t c o h d' (PChangeOwner tg nr nk ns) s i g)
             | None => None
             end
           | _ => None
           end
    | 2 => match vunseq 8 b with
           | Some [VB c; VB o; VB h; d; VB tg; VB s; VB i; VB g] =>
             match optB_of d with
             | Some d' => Some (mkProposal t c o h d' (PClose tg) s i g)
             | None => None
             end
           | _ => None
           end
    | 3 => match vunseq 10 b with
           | Some [VB c; VB o; VB h; d; VB k; VB sd; VB s; VB ss; VB i; VB g] =>
             match optB_of d with
             | Some d' => Some (mkProposal t c o h d' (PSecretary k sd ss) s i g)
             | None => None
             end
           | _ => None
           end
    | 4 => match vunseq 7 b with
           | Some [VB c; VB o; VB h; VPair (VN wh) (VPair (VB nv) (VPair (VB u) (VPair (VB bh) (VN f)))); VB s; VB i; VB g] =>
             Some (mkProposal t c o h None (PUpgrade wh nv u bh f) s i g)
           | _ => None
           end
    | 5 => match vunseq 8 b with
           | Some [VB c; VB o; VB h; d; VPair (VB n) (VPair (VN m) (VPair (VB ge) (VPair (VN r) (VPair (VN ht) (VB rs))))); VB s; VB i; VB g] =>
             match optB_of d with
             | Some d' => Some (mkProposal t c o h d' (PRegisterSideChain n m ge r ht rs) s i g)
             | None => None
             end
           | _ => None
           end
    | 6 => match vunseq 8 b with
           | Some [VB c; VB o; VB h; d; VL ids; VB s; VB i; VB g] =>
             match optB_of d, traverse vb_of ids with
             | Some d', Some ids' => Some (mkProposal t c o h d' (PReserveID ids') s i g)
             | _, _ => None
             end
           | _ => None
           end
    | 7 => match vunseq 9 b with
           | Some [VB c; VB o; VB h; d; VL ids; VB rd; VB s; VB i; VB g] =>
             match optB_of d, traverse vb_of ids with
             | Some d', Some ids' => Some (mkProposal t c o h d' (PReceiveID ids' rd) s i g)
             | _, _ => None
             end
           | _ => None
           end
    | _ => match vunseq 9 b with
           | Some [VB c; VB o; VB h; d; VN r; VN ht; VB s; VB i; VB g] =>
             match optB_of d with
             | Some d' => Some (mkProposal t c o h d' (PChangeFee r ht) s i g)
             | None => None
             end
           | _ => None
           end
    end
  | _ => None
  end.
