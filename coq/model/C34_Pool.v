(* C34 — executable model of the transaction pool of /repo/mempool.

   Mirrors (as the code is):
     txfeeorderedlist.go  AddTx / compareAndInsert (sort.Search insertion) /
                          RemoveTx + locate / popBack / OverSize
     conflictslot.go      VerifyTx / AppendTx / RemoveTx (per slot maps)
     conflictmanager.go   VerifyTx / AppendTx / removeTx / GetTx / RemoveKey over
                          the slot table of newConflictManager (the table is an
                          argument: gen/C34_slots.v is regenerated from the source)
     txpool.go            appendToTxPool, doAddTransaction, doRemoveTransaction,
                          onPopBack, RemoveTransaction, cleanTransactions,
                          cleanSideChainPowTx, cleanCanceledProducerAndCR,
                          replaceDuplicateSideChainPowTx,
                          removeCRAppropriationConflictTransactions,
                          checkAndCleanAllTransactions

   Abstraction: a transaction is its hash (an [N]); its attributes come from a
   universe [U : N -> txinfo] (hash determines content).  Resource keys are
   small numbers chosen by the harness (it knows owner key / nickname / DID /
   proposal hash / side-chain hash of every transaction it builds).  Go maps
   are association lists; the order inside them is never observed (iteration
   order of txnList in checkAndCleanAllTransactions is an input of the op).
   The chain's sanity/context verdict is an input of the op.

   No proofs in this file. *)
From Coq Require Import ZArith NArith Bool List String.
Import ListNotations.
Local Open Scope Z_scope.

(* ------------------------------------------------------------------ table *)

(* one entry of newConflictManager: slot name, keyType (iota), tx types *)
Definition slot_desc := (string * N * list N)%type.
Definition slot_name (d : slot_desc) : string := fst (fst d).
Definition slot_types (d : slot_desc) : list N := snd d.

Definition all_type : N := 255.                 (* conflictslot.go: allType *)

(* tx type bytes used by the pool logic (cross-checked against the generated
   txtypes table by C34_type_constants) *)
Definition ty_coinbase : N := 0.
Definition ty_transfer : N := 2.
Definition ty_scpow : N := 5.
Definition ty_cancel_producer : N := 10.
Definition ty_update_producer : N := 11.
Definition ty_update_version : N := 19.
Definition ty_next_turn : N := 20.
Definition ty_unregister_cr : N := 34.
Definition ty_update_cr : N := 35.
Definition ty_proposal : N := 37.
Definition ty_appropriation : N := 40.
Definition ty_rectify : N := 43.
Definition ty_record_sponsor : N := 102.

Definition name_inputs : string := "TxInputsReferKeys".
Definition name_owner : string := "DPoSOwnerPublicKey".
Definition name_node : string := "DPoSNodePublicKey".
Definition name_crdid : string := "CrDID".

Fixpoint find_slot_from (name : string) (tbl : list slot_desc) (i : N) : option N :=
  match tbl with
  | [] => None
  | d :: r => if String.eqb (slot_name d) name then Some i
              else find_slot_from name r (N.succ i)
  end.
Definition find_slot (name : string) (tbl : list slot_desc) : option N :=
  find_slot_from name tbl 0%N.

(* conflictSlot.getKeyFromTx: the slot has a key function for this tx type,
   or one registered for allType *)
Definition applies (tbl : list slot_desc) (s : N) (ty : N) : bool :=
  match nth_error tbl (N.to_nat s) with
  | Some d => existsb (N.eqb ty) (slot_types d) || existsb (N.eqb all_type) (slot_types d)
  | None => false
  end.

(* ------------------------------------------------------------------ data *)

Record txinfo := mkTx {
  t_type : N;
  t_size : Z;                  (* tx.GetSize() *)
  t_fee : Z;                   (* tx.Fee() *)
  t_ins : list N;              (* outpoints spent (ids) *)
  t_outs : list N;             (* ids of the outpoints (hash, i) it creates *)
  t_keys : list (N * N);       (* (slot index, key id): resources other than inputs *)
  t_refok : bool;              (* UTXOCache.GetTxReference succeeds *)
  t_keyerr : option N;         (* first slot whose key function returns an error *)
  t_budget : Z;                (* sum of CRCProposal budgets (payload based) *)
  t_gen : N;                   (* SideChainPow: side chain genesis hash id *)
  t_signer : N;                (* SideChainPow: arbiter that signed it *)
  t_votes : list (N * N);      (* TransferAsset vote outputs: (0 delegate | 1 CRC, candidate id) *)
  t_subject : N                (* Cancel/UpdateProducer owner key id, Unregister/UpdateCR CID id *)
}.

Record item := mkItem { i_hash : N; i_fee : Z; i_size : Z }.   (* txItem *)

Definition skey := (N * N)%type.
Definition keq (a b : skey) : bool := (fst a =? fst b)%N && (snd a =? snd b)%N.

Record pool := mkPool {
  p_txs : list N;                 (* txnList (keys; values are U) *)
  p_fees : list item;             (* txFees.list *)
  p_total : Z;                    (* txFees.totalSize (uint64) *)
  p_max : Z;                      (* txFees.maxSize *)
  p_slots : list (skey * N);      (* all slot maps: (slot, key) -> holder *)
  p_used : Z                      (* proposalsUsedAmount (Fixed64) *)
}.

Inductive outcome := Ok | Reject | GoPanic.

Definition two64 : Z := 18446744073709551616.
Definition two63 : Z := 9223372036854775808.
Definition two32 : Z := 4294967296.
Definition u64 (z : Z) : Z := z mod two64.
Definition i64 (z : Z) : Z := (z + two63) mod two64 - two63.

Definition memN (h : N) (l : list N) : bool := existsb (N.eqb h) l.
Definition delN (h : N) (l : list N) : list N := filter (fun x => negb (x =? h)%N) l.

(* Go map operations on the slot maps *)
Definition slot_has (k : skey) (sm : list (skey * N)) : bool :=
  existsb (fun e => keq (fst e) k) sm.
Definition slot_get (k : skey) (sm : list (skey * N)) : option N :=
  match find (fun e => keq (fst e) k) sm with Some e => Some (snd e) | None => None end.
Definition slot_del (k : skey) (sm : list (skey * N)) : list (skey * N) :=
  filter (fun e => negb (keq (fst e) k)) sm.
Definition slot_set (k : skey) (h : N) (sm : list (skey * N)) : list (skey * N) :=
  (k, h) :: slot_del k sm.

(* sort.Search *)
Fixpoint bsearch (fuel : nat) (f : nat -> bool) (i j : nat) : nat :=
  match fuel with
  | O => i
  | S fu => if (i <? j)%nat then
              let h := Nat.div2 (i + j) in
              if f h then bsearch fu f i h else bsearch fu f (S h) j
            else i
  end.

Definition insert_at {A} (n : nat) (x : A) (l : list A) : list A := firstn n l ++ x :: skipn n l.
Definition remove_at {A} (n : nat) (l : list A) : list A := firstn n l ++ skipn (S n) l.

Section Pool.
  (* fee-rate order: [rlt (fee1,size1) (fee2,size2)] is Go's
     float64(fee1)/float64(size1) < float64(fee2)/float64(size2) *)
  Variable rlt : Z * Z -> Z * Z -> bool.
  Variable U : N -> txinfo.
  Variable tbl : list slot_desc.

  Definition rate_of (it : item) : Z * Z := (i_fee it, i_size it).
  Definition size32 (h : N) : Z := t_size (U h) mod two32.          (* uint32(tx.GetSize()) *)
  Definition item_of (h : N) : item := mkItem h (t_fee (U h)) (size32 h).

  Definition search (r : Z * Z) (l : list item) : nat :=
    bsearch (S (List.length l))
            (fun k => match nth_error l k with Some it => rlt (rate_of it) r | None => true end)
            0 (List.length l).

  (* compareAndInsert (without the totalSize update) *)
  Definition fee_insert (it : item) (l : list item) : list item :=
    insert_at (search (rate_of it) l) it l.

  (* locate: scan indices n-1 .. 0 *)
  Fixpoint locate_from (l : list item) (h : N) (n : nat) : option nat :=
    match n with
    | O => None
    | S m => match nth_error l m with
             | Some it => if (i_hash it =? h)%N then Some m else locate_from l h m
             | None => None
             end
    end.

  (* txFeeOrderedList.RemoveTx *)
  Definition fee_remove (h : N) (sz : Z) (r : Z * Z) (l : list item) (total : Z) : list item * Z :=
    let idx := search r l in
    let start := if (idx =? List.length l)%nat then List.length l else S idx in
    match locate_from l h start with
    | Some i => (remove_at i l, u64 (total - sz))
    | None => (l, total)
    end.

  (* ---------------------------------------------------------- slots *)

  Definition inputs_slot : option N := find_slot name_inputs tbl.

  Definition input_keys (h : N) : list skey :=
    match inputs_slot with
    | Some s => if applies tbl s (t_type (U h)) then map (fun o => (s, o)) (t_ins (U h)) else []
    | None => []
    end.

  (* the keys the slot table makes this transaction claim *)
  Definition keys_of (h : N) : list skey :=
    filter (fun sk => applies tbl (fst sk) (t_type (U h))) (t_keys (U h)) ++ input_keys h.

  (* first slot at which a key function fails for this tx *)
  Definition err_slot (h : N) : option N :=
    (* since repo commit 3df33612 the input-slot key function enumerates the
       transaction's own outpoints and cannot fail (before, it went through
       UTXOCache.GetTxReference and failed when [t_refok] was false) *)
    let e_in := match inputs_slot with
                | Some s => if applies tbl s (t_type (U h)) && false then Some s else None
                | None => None end in
    match t_keyerr (U h), e_in with
    | Some a, Some b => Some (N.min a b)
    | Some a, None => Some a
    | None, e => e
    end.

  (* conflictManager.VerifyTx *)
  Definition verify_tx (h : N) (sm : list (skey * N)) : bool :=
    match err_slot h with
    | Some _ => false
    | None => forallb (fun k => negb (slot_has k sm)) (keys_of h)
    end.

  (* conflictManager.AppendTx *)
  Definition append_keys (h : N) (sm : list (skey * N)) : list (skey * N) :=
    fold_left (fun m k => slot_set k h m) (keys_of h) sm.

  (* conflictManager.removeTx: stops at the first slot whose key function fails *)
  Definition removable_keys (h : N) : list skey :=
    match err_slot h with
    | Some c => filter (fun sk => (fst sk <? c)%N) (keys_of h)
    | None => keys_of h
    end.
  Definition remove_keys (h : N) (sm : list (skey * N)) : list (skey * N) :=
    fold_left (fun m k => slot_del k m) (removable_keys h) sm.

  (* ---------------------------------------------------------- pool *)

  Definition is_prop (h : N) : bool := (t_type (U h) =? ty_proposal)%N.

  (* doRemoveTransaction *)
  Definition do_remove (h : N) (p : pool) : pool :=
    if memN h (p_txs p) then
      let used' := if is_prop h then i64 (p_used p - t_budget (U h)) else p_used p in
      let '(fees', total') :=
        fee_remove h (t_size (U h)) (t_fee (U h), t_size (U h)) (p_fees p) (p_total p) in
      mkPool (delN h (p_txs p)) fees' total' (p_max p) (remove_keys h (p_slots p)) used'
    else p.

  (* onPopBack *)
  Definition on_pop_back (h : N) (p : pool) : pool :=
    if memN h (p_txs p) then
      match err_slot h with
      | Some _ => mkPool (p_txs p) (p_fees p) (p_total p) (p_max p) (remove_keys h (p_slots p)) (p_used p)
      | None => mkPool (delN h (p_txs p)) (p_fees p) (p_total p) (p_max p)
                       (remove_keys h (p_slots p)) (i64 (p_used p - t_budget (U h)))
      end
    else p.

  (* the eviction loop of AddTx *)
  Fixpoint evict (fuel : nat) (p : pool) : pool * outcome :=
    match fuel with
    | O => (p, GoPanic)
    | S fu =>
        match rev (p_fees p) with
        | [] => (p, GoPanic)                          (* popBack on an empty slice *)
        | it :: _ =>
            let p1 := mkPool (p_txs p) (removelast (p_fees p)) (u64 (p_total p - i_size it))
                             (p_max p) (p_slots p) (p_used p) in
            let p2 := on_pop_back (i_hash it) p1 in
            if p_total p2 >? p_max p2 then evict fu p2 else (p2, Ok)
        end
    end.

  Definition over_size (p : pool) (sz : Z) : bool := u64 (p_total p + sz) >? p_max p.

  (* doAddTransaction (txFees.AddTx, txnList, proposal amount) *)
  Definition do_add (h : N) (p : pool) : pool * outcome :=
    let sz := size32 h in
    if sz <=? 0 then (p, Reject) else
    let over := over_size p sz in
    let excluded := match rev (p_fees p) with
                    | last :: _ => over && rlt (t_fee (U h), sz) (rate_of last)
                    | [] => false end in
    if excluded then (p, Reject) else
    let p1 := mkPool (p_txs p) (fee_insert (item_of h) (p_fees p)) (u64 (p_total p + sz))
                     (p_max p) (p_slots p) (p_used p) in
    let '(p2, o) := if over then evict (S (List.length (p_fees p1))) p1 else (p1, Ok) in
    match o with
    | Ok => (mkPool (if memN h (p_txs p2) then p_txs p2 else p_txs p2 ++ [h]) (p_fees p2) (p_total p2)
                    (p_max p2) (p_slots p2)
                    (if is_prop h then i64 (p_used p2 + t_budget (U h)) else p_used p2), Ok)
    | _ => (p2, o)
    end.

  (* remove every held tx selected by [sel] (loops over txnList calling
     doRemoveTransaction / removeTransaction) *)
  Definition purge (sel : N -> bool) (p : pool) : pool :=
    fold_left (fun q h => if sel h then do_remove h q else q) (p_txs p) p.

  Definition is_scpow (h : N) : bool := (t_type (U h) =? ty_scpow)%N.

  (* the chain's verdict (sanity + context check) as the harness defines it:
     rejected ids, and a proposal budget ceiling against the amount passed in *)
  Definition ctx (rej : list N) (limit : Z) (h : N) (used : Z) : bool :=
    negb (memN h rej) && (used + t_budget (U h) <=? limit).

  (* appendToTxPool *)
  Definition append (h : N) (rej : list N) (limit : Z) (p : pool) : pool * outcome :=
    let ty := t_type (U h) in
    if (ty =? ty_record_sponsor)%N then (p, Reject) else
    let p := if (ty =? ty_appropriation)%N
             then purge (fun x => (t_type (U x) =? ty_rectify)%N) p else p in
    if memN h (p_txs p) then (p, Reject) else
    if (ty =? ty_coinbase)%N then (p, Reject) else
    if negb (ctx rej limit h (p_used p)) then (p, Reject) else
    let p := if is_scpow h
             then purge (fun x => is_scpow x && (t_gen (U x) =? t_gen (U h))%N) p else p in
    if negb (verify_tx h (p_slots p)) then (p, Reject) else
    if over_size p (t_size (U h)) then (p, Reject) else
    let p1 := mkPool (p_txs p) (p_fees p) (p_total p) (p_max p) (append_keys h (p_slots p)) (p_used p) in
    let '(p2, o) := do_add h p1 in
    match o with
    | Ok => (p2, Ok)
    | _ => (mkPool (p_txs p2) (p_fees p2) (p_total p2) (p_max p2) (remove_keys h (p_slots p2)) (p_used p2), o)
    end.

  (* TxPool.RemoveTransaction: drop the pool txs spending outputs of h *)
  Definition remove_api (h : N) (p : pool) : pool :=
    fold_left (fun q o =>
                 match inputs_slot with
                 | Some s => match slot_get (s, o) (p_slots q) with
                             | Some x => do_remove x q
                             | None => q end
                 | None => q end) (t_outs (U h)) p.

  Definition is_direct (b : N) : bool :=
    let ty := t_type (U b) in
    ((ty =? ty_scpow)%N && match t_ins (U b) with [] => true | _ => false end)
    || (ty =? ty_update_version)%N || (ty =? ty_next_turn)%N.

  (* one iteration of cleanTransactions *)
  Definition clean_block_tx (p : pool) (b : N) : pool :=
    if (t_type (U b) =? ty_coinbase)%N then p else
    if is_direct b then (if memN b (p_txs p) then do_remove b p else p) else
    if negb (t_refok (U b)) then p else
    let p1 := fold_left (fun q o =>
                 match inputs_slot with
                 | Some s => match slot_get (s, o) (p_slots q) with
                             | Some x => do_remove x q
                             | None => q end
                 | None => q end) (t_ins (U b)) p in
    mkPool (p_txs p1) (p_fees p1) (p_total p1) (p_max p1) (remove_keys b (p_slots p1)) (p_used p1).

  Definition del_named (name : string) (k : N) (sm : list (skey * N)) : list (skey * N) :=
    match find_slot name tbl with Some s => slot_del (s, k) sm | None => sm end.

  (* own raw key of x in the slot called [name] (upPayload.OwnerKey &c.) *)
  Definition own_keys (name : string) (x : N) : list N :=
    match find_slot name tbl with
    | Some s => map snd (filter (fun sk => (fst sk =? s)%N) (t_keys (U x)))
    | None => [] end.

  (* cleanVoteAndUpdateProducer / cleanVoteAndUpdateCR for one pool tx *)
  Definition clean_cancel_one (cr : bool) (k : N) (q : pool) (x : N) : pool :=
    let ty := t_type (U x) in
    if (ty =? ty_transfer)%N then
      (if existsb (fun v => keq v ((if cr then 1 else 0)%N, k)) (t_votes (U x)) then do_remove x q else q)
    else if (ty =? (if cr then ty_update_cr else ty_update_producer))%N && (t_subject (U x) =? k)%N then
      let q1 := do_remove x q in
      let names := if cr then [name_crdid] else [name_owner; name_node] in
      let sm := fold_left (fun m nm => fold_left (fun m' kk => del_named nm kk m') (own_keys nm x) m)
                          names (p_slots q1) in
      mkPool (p_txs q1) (p_fees q1) (p_total q1) (p_max q1) sm (p_used q1)
    else q.

  Definition clean_canceled (blk : list N) (p : pool) : pool :=
    fold_left (fun q b =>
                 let ty := t_type (U b) in
                 let q := if (ty =? ty_cancel_producer)%N
                          then fold_left (clean_cancel_one false (t_subject (U b))) (p_txs q) q else q in
                 if (ty =? ty_unregister_cr)%N
                 then fold_left (clean_cancel_one true (t_subject (U b))) (p_txs q) q else q) blk p.

  (* CleanSubmittedTransactions *)
  Definition clean_submitted (blk : list N) (onduty : N) (p : pool) : pool :=
    let p1 := fold_left clean_block_tx blk p in
    let p2 := purge (fun x => is_scpow x && negb (t_signer (U x) =? onduty)%N) p1 in
    clean_canceled blk p2.

  (* iteration order of txnList: the observed order first, anything not
     mentioned afterwards (every held tx is visited) *)
  Definition visit (order : list N) (p : pool) : list N :=
    filter (fun h => memN h (p_txs p)) order ++ filter (fun h => negb (memN h order)) (p_txs p).

  (* checkAndCleanAllTransactions *)
  Definition check_clean (order rej : list N) (limit : Z) (p : pool) : pool :=
    fst (fold_left (fun (st : pool * Z) h =>
                      let '(q, used) := st in
                      if ctx rej limit h used
                      then (q, if is_prop h then i64 (used + t_budget (U h)) else used)
                      else (do_remove h q, used))
                   (visit order p) (p, 0)).

  Inductive op :=
  | OAppend (h : N) (rej : list N) (limit : Z)
  | ORemoveApi (h : N)
  | OClean (blk : list N) (onduty : N)
  | OCheck (order rej : list N) (limit : Z)
  | OConnect (blk : list N) (onduty : N) (order rej : list N) (limit : Z).

  Definition step (p : pool) (o : op) : pool :=
    match o with
    | OAppend h rej limit => fst (append h rej limit p)
    | ORemoveApi h => remove_api h p
    | OClean blk d => clean_submitted blk d p
    | OCheck order rej limit => check_clean order rej limit p
    | OConnect blk d order rej limit => check_clean order rej limit (clean_submitted blk d p)
    end.

  Definition run (ops : list op) (p : pool) : pool := fold_left step ops p.

  Definition empty_pool (maxsz : Z) : pool := mkPool [] [] 0 maxsz [] 0.
End Pool.

(* the exact rational instance of the fee-rate order (sizes positive) *)
Definition rlt_exact (a b : Z * Z) : bool := fst a * snd b <? fst b * snd a.

(* ---------------------------------------------------------- slot coverage *)

(* a named unique resource of the property text: the slot that must index it
   and the tx types that claim it *)
Definition requirement := (string * string * list N)%type.

Definition slot_covers (tbl : list slot_desc) (r : requirement) : bool :=
  let '(_, sname, tys) := r in
  match find_slot sname tbl with
  | Some s => forallb (fun ty => applies tbl s ty) tys
  | None => false
  end.

Definition uncovered (tbl : list slot_desc) (reqs : list requirement) : list requirement :=
  filter (fun r => negb (slot_covers tbl r)) reqs.
