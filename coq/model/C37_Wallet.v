(* C37 model: what the wallet produces.

   (1) Programs built by account/client.go (SignStandardTransaction,
       SignMultiSignTransaction / SignMultiSignTransactionByM via
       crypto.AppendSignature) and by the Schnorr signing path
       (account.NewSchnorrAggregateAccount + crypto.AggregateSignatures, as used
       by cmd/script/api signSchnorrTx), over a signing oracle; they are fed to
       the C05 model of the node's check (model/C05_Sig.v).
   (2) common/uint168.go: Uint168.ToAddress / Uint168FromAddress
       (github.com/itchyny/base58-go BitcoinEncoding over the decimal rendering
       of the 25-byte big-endian number; 4-byte double-SHA256 checksum, the
       hash being a Section variable).
   (3) common/fixed64.go: Fixed64.String / StringToFixed64 (strconv.FormatUint,
       strings.Index, strconv.ParseInt base 10, 64 bits).
   Executable, no proofs.  Strings are lists of character codes (Z). *)
From Coq Require Import ZArith Bool List.
From ELA Require Import model.C05_Sig.
Import ListNotations.
Local Open Scope Z_scope.

(* ---------------------------------------------------------------- (1) wallet programs *)

(* contract.CreateStandardRedeemScript: PUSH33 key CHECKSIG *)
Definition std_code (key : bytes) : bytes := 33 :: key ++ [172].
(* contract.CreateSchnorrRedeemScript: PUSH1(0x51) PUSH33 key *)
Definition schnorr_code (key : bytes) : bytes := 81 :: 33 :: key.
(* contract.CreateMultiSigRedeemScript for 1 <= m <= n <= 16 (the wallet sorts
   the keys first; the order is irrelevant here) *)
Definition key_entry (key : bytes) : bytes := 33 :: key.
Definition multi_code (m : Z) (keys : list bytes) : bytes :=
  (80 + m) :: concat (map key_entry keys) ++ [80 + len keys; 174].

Section Wallet.
  Variable sign_ecdsa : bytes -> bytes -> bytes.     (* key, data -> 64-byte signature *)

  (* SignStandardTransaction: parameter = len(signature) || signature *)
  Definition sign_standard (key data : bytes) : bytes * bytes :=
    (std_code key, len (sign_ecdsa key data) :: sign_ecdsa key data).

  (* crypto.AppendSignature repeated for each signer, in the order given *)
  Definition sign_multi (m : Z) (keys signers : list bytes) (data : bytes) : bytes * bytes :=
    (multi_code m keys,
     concat (map (fun k => len (sign_ecdsa k data) :: sign_ecdsa k data) signers)).
End Wallet.

(* signSchnorrTx: code = redeem script of the aggregate key, parameter = the
   64-byte aggregated signature *)
Definition sign_schnorr (aggkey aggsig : bytes) : bytes * bytes := (schnorr_code aggkey, aggsig).

(* ---------------------------------------------------------------- (2) address codec *)

Definition alphabet : bytes :=
  [49;50;51;52;53;54;55;56;57;                                  (* 1-9 *)
   65;66;67;68;69;70;71;72;74;75;76;77;78;80;81;82;83;84;85;86;87;88;89;90;     (* A-Z without I, O *)
   97;98;99;100;101;102;103;104;105;106;107;109;110;111;112;113;114;115;116;117;118;119;120;121;122]. (* a-z without l *)

Definition alpha (i : Z) : Z := nth (Z.to_nat i) alphabet 0.

Fixpoint find_idx (c : Z) (l : bytes) (i : Z) : option Z :=
  match l with
  | [] => None
  | x :: l' => if x =? c then Some i else find_idx c l' (i + 1)
  end.
Definition b58_digit (c : Z) : option Z := find_idx c alphabet 0.

(* big-endian number of a byte string / minimal big-endian bytes of a number
   (big.Int.SetBytes / Bytes) *)
Definition be_value (l : bytes) : Z := fold_left (fun acc b => acc * 256 + b) l 0.

Fixpoint le_digits (base : Z) (fuel : nat) (n : Z) : list Z :=
  match fuel with
  | O => []
  | S f => if n =? 0 then [] else n mod base :: le_digits base f (n / base)
  end.
Definition be_bytes (n : Z) : bytes := rev (le_digits 256 64 n).

(* base58.BitcoinEncoding.Encode(decimal string of n) for a big.Int n >= 0:
   "1" for zero (one leading '0' character), else the base-58 digits *)
Definition b58_encode (n : Z) : bytes :=
  if n =? 0 then [49] else map alpha (rev (le_digits 58 64 n)).

(* the number part of base58 Decode; None = invalid character.  (The leading
   '0' characters Decode prepends vanish in big.Int.SetString.) *)
Definition b58_value (s : bytes) : option Z :=
  fold_left (fun acc c => match acc, b58_digit c with
                          | Some a, Some d => Some (a * 58 + d)
                          | _, _ => None
                          end) s (Some 0).

Inductive ares := AOk (h : bytes) | AErr | APanic.

Section Address.
  Variable hash : bytes -> bytes.          (* common.Sha256D *)

  Definition cks4 (u : bytes) : bytes := map (fun b => b mod 256) (firstn 4 (hash u ++ [0; 0; 0; 0])).

  (* Uint168.ToAddress *)
  Definition to_address (u : bytes) : bytes := b58_encode (be_value (u ++ cks4 u)).

  (* Uint168FromAddress.  [guarded] = true is the repaired code (a decoded
     number shorter than 21 bytes is an error); false is the code before the
     repair, where x.Bytes()[0:21] panics. *)
  Definition from_address (guarded : bool) (s : bytes) : ares :=
    if negb (len s =? 34) then AErr else
    match b58_value s with
    | None => AErr
    | Some n =>
      let bs := be_bytes n in
      if len bs <? 21 then (if guarded then AErr else APanic) else
      let ph := firstn 21 bs in
      if beq (to_address ph) s then AOk ph else AErr
    end.
End Address.

(* ---------------------------------------------------------------- (3) amount codec *)

(* strconv.FormatUint(n, 10) for 0 <= n < 2^64 *)
Fixpoint dec_rev (fuel : nat) (n : Z) : list Z :=
  match fuel with
  | O => []
  | S f => (48 + n mod 10) :: (if n / 10 =? 0 then [] else dec_rev f (n / 10))
  end.
Definition format_uint (n : Z) : bytes := rev (dec_rev 20 n).

(* Fixed64.String *)
Definition fixed64_string (f : Z) : bytes :=
  let value := if f <? 0 then (- f) mod 2 ^ 64 else f in   (* uint64(-f), uint64(f) *)
  let r := value mod 100000000 in
  (if f <? 0 then [45] else []) ++ format_uint (value / 100000000) ++
  (if r >? 0 then 46 :: repeat 48 (8 - length (format_uint r)) ++ format_uint r else []).

Definition is_digit (c : Z) : bool := (48 <=? c) && (c <=? 57).
Definition dec_value (s : bytes) : Z := fold_left (fun acc c => acc * 10 + (c - 48)) s 0.

(* strconv.ParseUint(s, 10, 64): None = error (syntax or range) *)
Definition parse_uint (s : bytes) : option Z :=
  match s with
  | [] => None
  | _ => if forallb is_digit s
         then (let v := dec_value s in if v <? 2 ^ 64 then Some v else None)
         else None
  end.

(* strconv.ParseInt(s, 10, 64) *)
Definition parse_int (s : bytes) : option Z :=
  match s with
  | [] => None
  | c :: r =>
    let neg := c =? 45 in
    let body := if (c =? 45) || (c =? 43) then r else s in
    match parse_uint body with
    | None => None
    | Some un =>
      if neg then (if un >? 2 ^ 63 then None else Some (- un))
      else (if un >=? 2 ^ 63 then None else Some un)
    end
  end.

(* strings.Index(s, ".") *)
Fixpoint index_dot (s : bytes) (i : Z) : Z :=
  match s with
  | [] => -1
  | c :: r => if c =? 46 then i else index_dot r (i + 1)
  end.

(* StringToFixed64.  [guarded] = true is the repaired code (the precision
   test applies only when there is a '.'); false is the code before the
   repair, where a string without '.' of nine or more characters is rejected
   as "unsupported precision" because len(s) - (-1) > 9. *)
Definition string_to_fixed64 (guarded : bool) (s : bytes) : option Z :=
  let di := index_dot s 0 in
  if (if guarded then negb (di =? -1) else true) && (len s - di >? 9) then None else
  let buf :=
    if di =? -1 then s ++ repeat 48 8
    else firstn (Z.to_nat di) s ++ skipn (Z.to_nat (di + 1)) s ++ repeat 48 (Z.to_nat (8 - (len s - di - 1))) in
  parse_int buf.

(* ---------------------------------------------------------------- (4) keystore key blob *)

(* account/client.go SaveAccount: 96 bytes = public key X || Y (64 bytes of
   the uncompressed encoding) followed by the private key right-aligned in the
   last 32 bytes (crypto.GenerateKeyPair returns D.Bytes(), which is shorter
   than 32 bytes for one key in 256).  LoadAccounts rebuilds the account from
   keyPair[64:96] read as a big-endian scalar (crypto.NewPubKey, crypto.Sign). *)
Definition key_blob (xy d : bytes) : bytes := firstn 64 xy ++ repeat 0 (32 - length d) ++ d.
Definition blob_priv (blob : bytes) : bytes := firstn 32 (skipn 64 blob).
