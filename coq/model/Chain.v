(* Chain.v — executable model of chain selection in blockchain/blockchain.go
   (processBlock, maybeAcceptBlock, connectBestChain, getReorganizeNodes,
   reorganizeChain, ReorganizeChain, AddOrphanBlock, ProcessOrphans) and of the
   irreversibility guard in dpos/state/state.go (IsIrreversible,
   tryUpdateLastIrreversibleHeight and the undo closures it appends to the
   state history).  Shared by C12 and C30.  NO PROOFS in this file.

   The model mirrors the code as it is:
   - a block is (id, parent id, declared height, work, sane, valid, mode bits).
     [b_sane] is the verdict of CheckBlockSanity (context free).  [b_valid] is
     the verdict of connectBlock (CheckBlockContext, confirmation check, store)
     when the block is attached on top of its own parent chain; it is a
     function of the block because the ancestors are fixed by the hash.
     [b_dpos] says whether State.ConsensusAlgorithm is DPOS once the block has
     been committed to the DPoS state, [b_resume] whether
     "DPOSWorkHeight != 0 && height == DPOSWorkHeight+1" holds when the block is
     processed.  Both are chain content (arbitrary bits here: the theorems
     hold for all consensus-mode transitions);
   - [connect_best_chain]: a block extending the tip is validated and connected
     (a failure leaves no trace: the node is not even indexed); any other block
     is indexed as a side-chain node WITHOUT validation; work is compared with
     [<=] (first seen wins ties); a heavier side chain triggers
     [get_reorganize_nodes], the IsIrreversible guard (refusal is silent: the
     node stays indexed) and [reorganize];
   - [reorganize] is reorganizeChain as written: detach everything (rolling the
     DPoS state back before each detach), then attach one by one and RETURN AT
     THE FIRST FAILURE, leaving the chain on fork point + valid prefix;
   - [process_orphans] is the breadth-first loop of ProcessOrphans: it returns
     at the first child that fails, leaving that orphan and all later ones in
     the pool;
   - [add_orphan]: the pool is capped (maxOrphanBlocks; the oldest entry is
     evicted).  Entries also expire after one hour of wall-clock time in the
     Go code; the model has no clock: deliveries are assumed to happen within
     the hour;
   - [is_irreversible] and [try_update] use uint32 arithmetic ([u32]);
     History.Append defers its closures to Commit, so every condition of
     tryUpdateLastIrreversibleHeight reads the values from BEFORE the block
     (in particular "height - DPOSStartHeight >= 6" reads the old
     DPOSStartHeight even when the resume closure is queued in front of it);
     the undo closures restore both DPOSStartHeight and LastIrreversibleHeight
     (since the repair ff7a11db of C21's finding; before it the advancing
     branch left LastIrreversibleHeight untouched).

   Not modelled: the side-chain block cache lookup at the head of
   reorganizeChain (every non-main indexed node is cached while the process
   lives), pruneBlockNodes (needs 20160 in-memory nodes), the
   "forkCount >= 720" checkpoint replay, VoteStartHeight (assumed below
   RevertToPOWStartHeight), wall-clock orphan expiry, a block whose previous
   hash is the empty hash.

   Ghost fields ([refused], [evlog]) record what the guard refused and which
   reorganisations were performed; they do not influence the computation. *)
From Coq Require Import ZArith NArith Bool List.
Import ListNotations.
Local Open Scope Z_scope.

Set Implicit Arguments.

Definition u32 (x : Z) : Z := x mod 4294967296.
Definition IRR : Z := 6.      (* state.IrreversibleHeight *)

Record params := mkParams {
  p_crc_only : Z;          (* ChainParams.CRCOnlyDPOSHeight *)
  p_revert_start : Z;      (* DPoSConfiguration.RevertToPOWStartHeight *)
  p_cap : nat              (* maxOrphanBlocks *)
}.

(* ------------------------------------------------------------------ *)
(* Irreversibility state                                               *)

Inductive undo :=
| UInit (ol od : Z)   (* initialisation branch: restores LIH (= 0) and DPOSStartHeight *)
| UKeep (ol od : Z).  (* resume / advancing branches: restore both as well
                         (repair ff7a11db; before it only DPOSStartHeight) *)

Record irr := mkIrr {
  lih : Z;                     (* State.LastIrreversibleHeight *)
  dstart : Z;                  (* State.DPOSStartHeight *)
  hist : list (Z * undo)       (* undo closures by height, newest first *)
}.

Definition irr0 : irr := mkIrr 0 0 [].

(* tryUpdateLastIrreversibleHeight(h) followed by History.Commit(h).
   [dpos]: ConsensusAlgorithm == DPOS as read while the block is processed
   (the mode left by the parent block). *)
Definition try_update (p : params) (h : Z) (dpos resume : bool) (s : irr) : irr :=
  if h <? p_revert_start p then s
  else if lih s =? 0 then
    mkIrr (u32 (h - IRR)) (u32 (h - IRR)) ((h, UInit (lih s) (dstart s)) :: hist s)
  else if dpos then
    let d1 := if resume then h else dstart s in
    if IRR <=? u32 (h - dstart s) then
      mkIrr (u32 (d1 + 1)) (u32 (d1 + 1)) ((h, UKeep (lih s) (dstart s)) :: hist s)
    else if resume then
      mkIrr (lih s) h ((h, UKeep (lih s) (dstart s)) :: hist s)
    else s
  else s.

(* History.RollbackTo(h): undo every entry above h, newest first *)
Fixpoint irr_rollback_aux (h l d : Z) (hs : list (Z * undo)) : irr :=
  match hs with
  | (hh, u) :: rest =>
      if h <? hh then
        match u with
        | UInit ol od => irr_rollback_aux h ol od rest
        | UKeep ol od => irr_rollback_aux h ol od rest
        end
      else mkIrr l d hs
  | [] => mkIrr l d []
  end.

Definition irr_rollback (h : Z) (s : irr) : irr :=
  irr_rollback_aux h (lih s) (dstart s) (hist s).

(* State.IsIrreversible(curBlockHeight, detachNodesLen) *)
Definition is_irreversible (p : params) (dpos : bool) (l cur d : Z) : bool :=
  if cur <=? p_crc_only p then false
  else if u32 (cur - d) <=? l then true
  else if p_revert_start p <=? cur then dpos && (IRR <=? d)
  else IRR <? d.

(* ------------------------------------------------------------------ *)
(* Blocks, nodes, state                                                *)

Record block := mkBlock {
  b_id : N;
  b_parent : N;
  b_height : Z;       (* Header.Height as declared *)
  b_work : Z;         (* CalcWork(Header.Bits) *)
  b_sane : bool;
  b_valid : bool;
  b_dpos : bool;
  b_resume : bool
}.

Record node := mkNode {
  n_blk : block;
  n_height : Z;       (* parent height + 1 *)
  n_worksum : Z       (* parent work sum + work *)
}.

Definition n_id (n : node) : N := b_id (n_blk n).
Definition n_parent (n : node) : N := b_parent (n_blk n).

Inductive event :=
| EvReorg (lih_before : Z) (detached : list Z) (attached : list N) (ok : bool)
| EvRefused (id : N) (cur d lih_now : Z).

Record state := mkState {
  index : list node;       (* blockIndex: every known node, in insertion order *)
  main : list node;        (* BlockChain.Nodes, tip first; the last one is genesis *)
  orphans : list block;    (* orphan pool in arrival order *)
  ir : irr;
  refused : list N;        (* ghost *)
  evlog : list event       (* ghost, newest first *)
}.

Definition genesis_block : block := mkBlock 0 0 0 0 true true false false.
Definition genesis : node := mkNode genesis_block 0 0.
Definition init : state := mkState [genesis] [genesis] [] irr0 [] [].

Definition tip (s : state) : node := hd genesis (main s).

Definition lookup (id : N) (l : list node) : option node :=
  find (fun n => N.eqb (n_id n) id) l.

Definition has_id (id : N) (l : list node) : bool :=
  existsb (fun n => N.eqb (n_id n) id) l.

(* BlockChain.BlockExists *)
Definition block_exists (s : state) (id : N) : bool := has_id id (index s).

Definition is_orphan (s : state) (id : N) : bool :=
  existsb (fun b => N.eqb (b_id b) id) (orphans s).

(* ------------------------------------------------------------------ *)
(* getReorganizeNodes                                                  *)

(* walk the parents of [n] until a main-chain node is met; [acc] collects the
   nodes to attach (PushFront), result: (attach list in attach order, ancestor).
   The Go loop has no bound; the fuel given by get_reorganize_nodes (height+1)
   is enough because every step goes to a node one lower. *)
Fixpoint walk (fuel : nat) (idx mn : list node) (n : node) (acc : list node)
  : list node * node :=
  match fuel with
  | O => (acc, n)
  | S f =>
      if has_id (n_id n) mn then (acc, n)
      else match lookup (n_parent n) idx with
           | None => (acc, n)
           | Some pn => walk f idx mn pn (n :: acc)
           end
  end.

(* from the tip backwards up to (excluding) the ancestor; the root has no parent *)
Fixpoint det_nodes (mn : list node) (anc : N) : list node :=
  match mn with
  | [] => []
  | n :: rest =>
      if N.eqb (n_id n) anc then []
      else match rest with
           | [] => []
           | _ => n :: det_nodes rest anc
           end
  end.

Definition get_reorganize_nodes (s : state) (n : node) : list node * list node :=
  let '(att, anc) := walk (S (Z.to_nat (n_height n))) (index s) (main s) n [] in
  (det_nodes (main s) (n_id anc), att).

(* ------------------------------------------------------------------ *)
(* connect / disconnect / reorganizeChain                              *)

(* the DPoS state processes a block connected on top of the current tip *)
Definition ir_connect (p : params) (s : state) (n : node) : irr :=
  try_update p (n_height n) (b_dpos (n_blk (tip s))) (b_resume (n_blk n)) (ir s).

Definition push_main (p : params) (s : state) (n : node) : state :=
  mkState (index s) (n :: main s) (orphans s) (ir_connect p s n) (refused s) (evlog s).

(* one iteration of the detach loop: CkpManager.OnRollbackTo(height-1), disconnectBlock *)
Definition detach_one (s : state) : state :=
  mkState (index s) (tl (main s)) (orphans s)
          (irr_rollback (n_height (tip s) - 1) (ir s)) (refused s) (evlog s).

Fixpoint detach_n (k : nat) (s : state) : state :=
  match k with O => s | S k' => detach_n k' (detach_one s) end.

Fixpoint attach_all (p : params) (att : list node) (s : state) : state * bool :=
  match att with
  | [] => (s, true)
  | n :: rest =>
      if b_valid (n_blk n) then attach_all p rest (push_main p s n)
      else (s, false)
  end.

Definition log_event (e : event) (s : state) : state :=
  mkState (index s) (main s) (orphans s) (ir s) (refused s) (e :: evlog s).

Definition reorganize (p : params) (det att : list node) (s : state) : state * bool :=
  let lih0 := lih (ir s) in
  let '(s1, ok) := attach_all p att (detach_n (length det) s) in
  (log_event (EvReorg lih0 (map n_height det) (map n_id att) ok) s1, ok).

(* ------------------------------------------------------------------ *)
(* connectBestChain / maybeAcceptBlock                                 *)

Definition add_index (n : node) (s : state) : state :=
  mkState (index s ++ [n]) (main s) (orphans s) (ir s) (refused s) (evlog s).

Definition refuse (n : node) (d : Z) (s : state) : state :=
  mkState (index s) (main s) (orphans s) (ir s) (n_id n :: refused s)
          (EvRefused (n_id n) (n_height (tip s)) d (lih (ir s)) :: evlog s).

(* result: None = error, Some b = inMainChain *)
Definition connect_best_chain (p : params) (n : node) (s : state) : state * option bool :=
  if N.eqb (n_parent n) (n_id (tip s)) then
    if b_valid (n_blk n) then (push_main p (add_index n s) n, Some true)
    else (s, None)
  else
    let s1 := add_index n s in
    if n_worksum n <=? n_worksum (tip s1) then (s1, Some false)
    else
      let '(det, att) := get_reorganize_nodes s1 n in
      let d := Z.of_nat (length det) in
      if is_irreversible p (b_dpos (n_blk (tip s1))) (lih (ir s1)) (n_height (tip s1)) d
      then (refuse n d s1, Some false)
      else let '(s2, ok) := reorganize p det att s1 in
           (s2, if ok then Some true else None).

Definition maybe_accept (p : params) (b : block) (s : state) : state * option bool :=
  match lookup (b_parent b) (index s) with
  | None => (s, None)
  | Some pn =>
      if negb (b_height b =? n_height pn + 1) then (s, None)
      else connect_best_chain p (mkNode b (n_height pn + 1) (n_worksum pn + b_work b)) s
  end.

(* ------------------------------------------------------------------ *)
(* orphans                                                             *)

Definition add_orphan (p : params) (b : block) (s : state) : state :=
  let os := if Nat.ltb (p_cap p) (length (orphans s) + 1) then tl (orphans s) else orphans s in
  mkState (index s) (main s) (os ++ [b]) (ir s) (refused s) (evlog s).

Fixpoint remove_orphan (id : N) (os : list block) : list block :=
  match os with
  | [] => []
  | o :: rest => if N.eqb (b_id o) id then rest else o :: remove_orphan id rest
  end.

Definition drop_orphan (id : N) (s : state) : state :=
  mkState (index s) (main s) (remove_orphan id (orphans s)) (ir s) (refused s) (evlog s).

(* ProcessOrphans: [queue] is processHashes; the head stays in front until it
   has no orphan child left; accepted children are appended *)
Fixpoint process_orphans (p : params) (fuel : nat) (queue : list N) (s : state) : state * bool :=
  match fuel with
  | O => (s, true)
  | S f =>
      match queue with
      | [] => (s, true)
      | h :: q =>
          match find (fun o => N.eqb (b_parent o) h) (orphans s) with
          | None => process_orphans p f q s
          | Some o =>
              match maybe_accept p o s with
              | (s1, None) => (s1, false)
              | (s1, Some _) => process_orphans p f (h :: q ++ [b_id o]) (drop_orphan (b_id o) s1)
              end
          end
      end
  end.

(* ------------------------------------------------------------------ *)
(* processBlock                                                        *)

(* the Go result triple (inMainChain, isOrphan, err != nil) *)
Record result := mkRes { r_main : bool; r_orphan : bool; r_err : bool }.

(* CheckBlockSanity; it includes the proof-of-work check (positive target
   within the limit), which makes CalcWork(bits) positive *)
Definition sane_ok (b : block) : bool := b_sane b && (0 <? b_work b).

Definition process_block (p : params) (s : state) (b : block) : state * result :=
  if block_exists s (b_id b) then (s, mkRes false false true)
  else if is_orphan s (b_id b) then (s, mkRes false true false)
  else if negb (sane_ok b) then (s, mkRes false false true)
  else if negb (block_exists s (b_parent b)) then (add_orphan p b s, mkRes false true false)
  else
    match maybe_accept p b s with
    | (s1, None) => (s1, mkRes false true true)
    | (s1, Some inmain) =>
        match process_orphans p (2 * length (orphans s1) + 2) [b_id b] s1 with
        | (s2, false) => (s2, mkRes false false true)
        | (s2, true) => (s2, mkRes inmain false false)
        end
    end.

(* BlockChain.ReorganizeChain(block): exported, no work comparison, the guard is
   evaluated with the TARGET block's height *)
Definition api_reorganize (p : params) (s : state) (id : N) : state * bool :=
  match lookup id (index s) with
  | None => (s, false)
  | Some n =>
      let '(det, att) := get_reorganize_nodes s n in
      let d := Z.of_nat (length det) in
      if is_irreversible p (b_dpos (n_blk (tip s))) (lih (ir s)) (n_height n) d then (s, true)
      else reorganize p det att s
  end.

Fixpoint run (p : params) (s : state) (bs : list block) : state :=
  match bs with
  | [] => s
  | b :: rest => run p (fst (process_block p s b)) rest
  end.

(* observables used by the correspondence and the statements *)
Definition main_ids (s : state) : list N := map n_id (main s).
Definition tip_id (s : state) : N := n_id (tip s).
Definition tip_height (s : state) : Z := n_height (tip s).

Definition reorg_failed (e : event) : bool :=
  match e with EvReorg _ _ _ ok => negb ok | _ => false end.

(* no reorganisation of the run failed half-way *)
Definition no_failed_switch (s : state) : bool := negb (existsb reorg_failed (evlog s)).
