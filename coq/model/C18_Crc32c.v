(* CRC-32C (Castagnoli, reflected polynomial 0x82F63B78, init and final xor
   0xFFFFFFFF) as computed by Go's hash/crc32 with crc32.MakeTable(crc32.Castagnoli);
   [crc32c_be] is hasher.Sum(nil) (big-endian bytes).  Executable only, on
   Coq's primitive 63-bit integers and arrays for speed under vm_compute.  The
   theorems of C17/C18 never mention this file (the checksum is a Section
   variable there); the C18 correspondence compares the bytes of the real flat
   files with records built through this function on every run. *)
From Coq Require Import ZArith NArith List Uint63 PArray.
Import ListNotations.

Definition poly : int := 2197175160%uint63.
Definition step1 (c : int) : int :=
  if Uint63.eqb (Uint63.land c 1) 1 then Uint63.lxor (Uint63.lsr c 1) poly else Uint63.lsr c 1.
Definition entry (i : int) : int := step1 (step1 (step1 (step1 (step1 (step1 (step1 (step1 i))))))).
Definition table : array int :=
  Eval vm_compute in
    fold_left (fun t i => let k := Uint63.of_Z (Z.of_nat i) in PArray.set t k (entry k))
              (seq 0 256) (PArray.make 256 0%uint63).
Definition upd (crc : int) (b : N) : int :=
  let bi := Uint63.of_Z (Z.of_N b) in
  Uint63.lxor (PArray.get table (Uint63.land (Uint63.lxor crc bi) 255)) (Uint63.lsr crc 8).
Definition crc32c (data : list N) : N :=
  Z.to_N (Uint63.to_Z (Uint63.lxor (fold_left upd data 4294967295%uint63) 4294967295%uint63)).
Local Open Scope N_scope.
Definition be32 (x : N) : list N :=
  [(x / 16777216) mod 256; (x / 65536) mod 256; (x / 256) mod 256; x mod 256].
Definition crc32c_be (data : list N) : list N := be32 (crc32c data).
