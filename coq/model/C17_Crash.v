(* C17 model: crash behaviour of the ffldb block database.

   Durable state = (flat files, atomic key-value store incl. the write-cursor
   row).  A session (the life of one process after Open) executes commits; each
   commit emits a trace of durable steps mirroring the order of the code:

     db.go writePendingAndCommit:  for each pending block  blockio.go writeBlock
         [rollover: next file number, offset 0]  openWriteFile (O_CREATE)
         writeData network; writeData length; writeData block; writeData checksum
       block-index row and write-cursor row go into the transaction's pending keys
     dbcache.go commitTx: needsFlush false -> pending keys merge into the in-memory
         cache, NO durable step;
       needsFlush true -> flush(): syncBlocks (fsync of the current file), one
         atomic LevelDB transaction with the cached keys of EARLIER commits (only if
         the cache is non-empty), then a second LevelDB transaction with this
         transaction's own keys (new cursor).
     db.Close: flush().
   [SMark p] steps are the instrumented crash points (no durable effect); the
   correspondence cuts the trace at the k-th [SMark p].  A crash keeps a prefix of
   the trace; the flat-file write in progress may be torn (any prefix of its
   data).  Open = reconcileDB: read the cursor row, scan the files, truncate /
   delete what lies beyond the cursor (handleRollback), corruption if the files
   end before it.  Each [SKV j b] is annotated with the number [j] of session items
   whose effects it makes durable.  Executable, no proofs.

   The flat-file functions come from model/C18_Flat.v. *)
From Coq Require Import NArith List Bool.
From ELA Require Import model.C18_Flat.
Import ListNotations.
Local Open Scope N_scope.

Inductive key := KMeta (k : N) | KBlock (i : N) | KCursor.
Definition key_eqb (a b : key) : bool :=
  match a, b with
  | KMeta x, KMeta y => x =? y
  | KBlock x, KBlock y => x =? y
  | KCursor, KCursor => true
  | _, _ => false
  end.

(* a batch of puts ([Some v]) and deletes ([None]); the first entry for a key wins *)
Definition batch := list (key * option bytes).
Definition kv := key -> option bytes.
Fixpoint lookup (b : batch) (k : key) : option (option bytes) :=
  match b with
  | [] => None
  | (k', v) :: t => if key_eqb k' k then Some v else lookup t k
  end.
Definition apply_batch (b : batch) (s : kv) : kv :=
  fun k => match lookup b k with Some ov => ov | None => s k end.

Inductive step :=
| SEnsure (f : N)                          (* openWriteFile: create if missing *)
| SAppend (f off : N) (data : bytes)       (* one WriteAt *)
| SSync (f : N)                            (* fsync: no effect on what a process crash keeps *)
| SKV (j : nat) (b : batch)                (* one atomic LevelDB transaction *)
| SMark (p : N).                           (* instrumented crash point *)

Record durable := mkdur { du_files : files; du_kv : kv }.

Definition apply_step (D : durable) (s : step) : durable :=
  match s with
  | SEnsure f => mkdur (ensure_file (du_files D) f) (du_kv D)
  | SAppend f off data =>
      let d := match get_file (du_files D) f with Some d => d | None => [] end in
      mkdur (set_file (du_files D) f (write_at d off data)) (du_kv D)
  | SSync _ => D
  | SKV _ b => mkdur (du_files D) (apply_batch b (du_kv D))
  | SMark _ => D
  end.
Definition apply_steps (tr : list step) (D : durable) : durable := fold_left apply_step tr D.

(* a crash after k complete steps; if the next step is a file write, the first
   m bytes of its data may have reached the file *)
Definition crash_at (k m : nat) (tr : list step) : list step :=
  firstn k tr ++
  match nth_error tr k with
  | Some (SAppend f off data) => [SAppend f off (firstn m data)]
  | _ => []
  end.

(* number of session items made durable by the key-value batches of a trace *)
Fixpoint durable_index (tr : list step) (j : nat) : nat :=
  match tr with
  | [] => j
  | SKV j' _ :: t => durable_index t j'
  | _ :: t => durable_index t j
  end.

(* one commit: blocks to store, metadata puts/deletes (in order), and the
   outcome of needsFlush (time / cache size: outside the model, any value) *)
Record commit := mkcommit { c_blocks : list bytes; c_ops : list (N * option bytes); c_flush : bool }.
Inductive item := ICommit (c : commit) | IClose.

(* in-memory state of the running process *)
Record mem := mkmem {
  m_file : N; m_off : N;      (* write cursor *)
  m_cache : batch;            (* dbCache.cachedKeys / cachedRemove *)
  m_next : N;                 (* number of the next block (its index key) *)
  m_done : nat                (* session items completed *)
}.

Section Crash.
Variable max : N.
Variable net : N.
Variable cksum : bytes -> bytes.

(* the WriteAt calls of one record, with the crash points around them *)
Fixpoint appends (f o : N) (ps : list bytes) (marks : list N) : list step * N :=
  match ps with
  | [] => ([], o)
  | p :: t =>
      let '(s, o') := appends f (u32 (o + len p)) t (tl marks) in
      (SMark 7 :: SAppend f o p :: SMark (hd 0 marks) :: s, o')
  end.

(* writeBlock as durable steps; returns the new cursor and the location *)
Definition block_steps (f o : N) (raw : bytes) : list step * (N * N) * loc :=
  let r := rollover_needed max o raw in
  let f1 := if r then u32 (f + 1) else f in
  let o1 := if r then 0 else o in
  let '(s, o2) := appends f1 o1 (pieces net cksum raw) [3; 4; 5; 6] in
  ((if r then [SMark 1] else []) ++ SEnsure f1 :: SMark 2 :: s, (f1, o2), mkloc f1 o1 (full_len raw)).

(* all pending blocks of a transaction: steps, cursor, index rows (newest first) *)
Fixpoint blocks_steps (f o next : N) (blocks : list bytes) : list step * (N * N) * batch :=
  match blocks with
  | [] => ([], (f, o), [])
  | raw :: t =>
      let '(s1, (f1, o1), l) := block_steps f o raw in
      let '(s2, c2, rows) := blocks_steps f1 o1 (next + 1) t in
      (s1 ++ s2, c2, rows ++ [(KBlock next, Some (ser_loc l))])
  end.

(* dbCache.flush *)
Definition flush_steps (m : mem) : list step :=
  [SMark 10; SSync (m_file m); SMark 11] ++
  match m_cache m with
  | [] => []
  | c => [SMark 12; SKV (m_done m) c; SMark 13]
  end.

Definition ops_batch (ops : list (N * option bytes)) : batch :=
  rev (map (fun ko => (KMeta (fst ko), snd ko)) ops).

Definition commit_steps (m : mem) (c : commit) : list step * mem :=
  let '(s, (f, o), rows) := blocks_steps (m_file m) (m_off m) (m_next m) (c_blocks c) in
  let txb : batch := (KCursor, Some (ser_wrow cksum f o)) :: rows ++ ops_batch (c_ops c) in
  let next := m_next m + N.of_nat (length (c_blocks c)) in
  let m1 := mkmem f o (m_cache m) next (m_done m) in    (* cursor already advanced when flush runs *)
  if c_flush c
  then (s ++ [SMark 8; SMark 9] ++ flush_steps m1 ++ [SMark 14; SKV (S (m_done m)) txb; SMark 15],
        mkmem f o [] next (S (m_done m)))
  else (s ++ [SMark 8; SMark 9], mkmem f o (txb ++ m_cache m) next (S (m_done m))).

Definition item_steps (m : mem) (it : item) : list step * mem :=
  match it with
  | ICommit c => commit_steps m c
  | IClose => (flush_steps m, mkmem (m_file m) (m_off m) [] (m_next m) (S (m_done m)))
  end.

Fixpoint session_steps (m : mem) (its : list item) : list step :=
  match its with
  | [] => []
  | it :: t => let '(s, m') := item_steps m it in s ++ session_steps m' t
  end.
Fixpoint session_mem (m : mem) (its : list item) : mem :=
  match its with
  | [] => m
  | it :: t => session_mem (snd (item_steps m it)) t
  end.

(* Open: reconcileDB.  Returns the repaired durable state and the cursor. *)
Definition recover (D : durable) : res (durable * (N * N)) :=
  match du_kv D KCursor with
  | None => Err ECorrupt
  | Some row =>
    match deser_wrow cksum row with
    | Ok c => match reconcile (du_files D) c with
              | Ok st => Ok (mkdur (s_files st) (du_kv D), (s_file st, s_off st))
              | Err e => Err e
              | Panic => Panic
              end
    | Err e => Err e
    | Panic => Panic
    end
  end.

(* memory of a fresh session on a recovered database holding [nb] blocks *)
Definition mem_of (c : N * N) (nb : N) : mem := mkmem (fst c) (snd c) [] nb 0.

(* FetchBlock / metadata Get on a durable state *)
Definition d_fetch (D : durable) (i : N) : res bytes :=
  match du_kv D (KBlock i) with
  | None => Err ENotFound
  | Some row => read_block net cksum (du_files D) (deser_loc row)
  end.
Definition d_meta (D : durable) (k : N) : option bytes := du_kv D (KMeta k).

(* the state a running session shows (durable store seen through its cache) *)
Definition visible (D : durable) (m : mem) : durable := mkdur (du_files D) (apply_batch (m_cache m) (du_kv D)).

(* logical contents: stored blocks in order and the metadata map *)
Record logical := mklog { lg_blocks : list bytes; lg_meta : N -> option bytes }.
Definition meta_apply (mp : N -> option bytes) (ops : list (N * option bytes)) : N -> option bytes :=
  fold_left (fun mp ko => fun k => if k =? fst ko then snd ko else mp k) ops mp.
Definition log_item (L : logical) (it : item) : logical :=
  match it with
  | ICommit c => mklog (lg_blocks L ++ c_blocks c) (meta_apply (lg_meta L) (c_ops c))
  | IClose => L
  end.
Definition log_items (L : logical) (its : list item) : logical := fold_left log_item its L.

Definition kv0 : kv := fun k => match k with KCursor => Some (ser_wrow cksum 0 0) | _ => None end.
Definition dur0 : durable := mkdur [] kv0.      (* database.Create *)
Definition log0 : logical := mklog [] (fun _ => None).
End Crash.
