(* Ledger.v — executable model of the persistent ledger indexes of Elastos.ELA
   (shared by C06, C13, C14).  No proofs here.

   Mirrors, as written:
     blockchain/indexers/unspentindex.go   UnspentIndex.ConnectBlock / DisconnectBlock
     blockchain/indexers/utxoindex.go      UtxoIndex.ConnectBlock / DisconnectBlock, DBFetchUtxoIndexEntry
     blockchain/indexers/txindex.go        TxIndex.ConnectBlock / DisconnectBlock, FetchTx
     blockchain/indexers/returndepositindex.go
     blockchain/indexers/manager.go        Manager.ConnectBlock / DisconnectBlock (order, tip assertion)
     blockchain/chainstoreffldb.go         SaveBlock / RollbackBlock (processors first, then indexers, one db transaction)
     core/transaction/withdrawfromsidechaintransaction.go, crcproposal*.go   GetSaveProcessor / GetRollbackProcessor
     blockchain/chainstore.go              IsDoubleSpend, IsTxHashDuplicate, GetTxReference
     blockchain/blockvalidator.go          CheckBlockSanity (coinbase position, duplicate tx ids, duplicate inputs),
                                           checkTxsContext (per-transaction context checks against the pre-block state)
     core/transaction/transactionchecker.go  ContextCheck: duplicate hash, unknown reference, IsDoubleSpend, checkInvalidUTXO (coinbase maturity)
     mempool/txpool.go, conflictmanager.go, conflictslot.go  input slot (slotTxInputsReferKeys)

   Abstractions: transaction ids, addresses, side-chain hashes and draft hashes
   are numbers chosen by the harness (injective renaming of the 32/21-byte
   values); signatures, fees, sizes, proof of work are not modelled (the
   correspondence generator keeps them valid).  Database buckets are total
   functions with "empty = absent", which is exactly what the Go readers
   observe (DBFetchUnspentIndexEntry returns nil for a missing and for an empty
   value; DBFetchUtxoIndexEntry skips empty values).  The in-memory TxCache in
   front of FetchTx is not modelled (C15). *)
From Coq Require Import List ZArith NArith Bool.
Import ListNotations.
Local Open Scope N_scope.

(* ------------------------------------------------------------------ data *)

Definition outpoint := (N * N)%type.               (* referenced tx id, output index *)
Definition op_eqb (a b : outpoint) : bool := (fst a =? fst b) && (snd a =? snd b).

Record output := mkOut { o_addr : N; o_val : Z }.

(* what the per-type save/rollback processors and the return-deposit index
   look at *)
Inductive side :=
| SNone
| SWithdraw (ver : N) (payload_hashes output_hashes : list N)
    (* WithdrawFromSideChain: V0 records payload.SideChainTransactionHashes,
       V1/V2 record the hash of every OTWithdrawFromSideChain output *)
| SRetDep (hashes : list N)     (* ReturnSideChainDepositCoin outputs *)
| SDraft (ds : list (N * N))    (* CRCProposal / Review / Tracking: (hash, data) in put order *)
| SPow (genesis : N).           (* SideChainPow with inputs: side-chain genesis hash (mempool replacement key) *)

Record tx := mkTx {
  t_id : N; t_cb : bool; t_lock : N;
  t_ins : list outpoint; t_outs : list output; t_side : side }.

Record block := mkBlock { b_id : N; b_prev : N; b_height : N; b_txs : list tx }.

Record utxo := mkU { u_tx : N; u_idx : N; u_val : Z }.
Definition utxo_is (t i : N) (u : utxo) : bool := (u_tx u =? t) && (u_idx u =? i).

(* which version of the code is modelled (both flags true = repaired tree) *)
Record cfg := mkCfg {
  cb_dup_check : bool;   (* checkTxsContext rejects a coinbase whose hash is already in the ledger *)
  v2_rollback  : bool }. (* WithdrawFromSideChain rollback processor handles payload V2 *)
Definition cfg_fixed := mkCfg true true.

Inductive res (A : Type) := Ok (a : A) | Err | Panic.
Arguments Ok {A} a. Arguments Err {A}. Arguments Panic {A}.
Definition bind {A B} (r : res A) (f : A -> res B) : res B :=
  match r with Ok a => f a | Err => Err | Panic => Panic end.

(* ------------------------------------------------------------------ maps *)

Definition upd {A} (m : N -> A) (k : N) (v : A) : N -> A :=
  fun k' => if k' =? k then v else m k'.
Definition upd2 {A} (m : N -> N -> A) (k1 k2 : N) (v : A) : N -> N -> A :=
  fun a b => if (a =? k1) && (b =? k2) then v else m a b.

(* Go's local map[...] used inside one Connect/DisconnectBlock call *)
Section Assoc.
  Context {K A : Type} (eqb : K -> K -> bool).
  Fixpoint alookup (l : list (K * A)) (k : K) : option A :=
    match l with [] => None | (k', v) :: r => if eqb k' k then Some v else alookup r k end.
  Fixpoint aset (l : list (K * A)) (k : K) (v : A) : list (K * A) :=
    match l with
    | [] => [(k, v)]
    | (k', v') :: r => if eqb k' k then (k', v) :: r else (k', v') :: aset r k v
    end.
End Assoc.

Definition idxs (n : nat) : list N := map N.of_nat (seq 0 n).

(* ------------------------------------------------------------------ state *)

Record state := mkState {
  s_tip     : N;                          (* indexer tip / best block id *)
  s_txidx   : N -> option (N * tx);       (* tx index + block store: txid -> (height, tx) *)
  s_unspent : N -> list N;                (* unspent index: txid -> unspent output indexes *)
  s_addr    : N -> N -> list utxo;        (* utxo index: address -> height -> utxos *)
  s_retdep  : N -> bool;                  (* return-deposit index *)
  s_tx3     : N -> bool;                  (* Tx3 bucket (side-chain withdrawal hashes) *)
  s_draft   : N -> option N }.            (* proposal draft data bucket *)

Definition empty_state (tip : N) : state :=
  mkState tip (fun _ => None) (fun _ => []) (fun _ _ => []) (fun _ => false) (fun _ => false) (fun _ => None).

(* ------------------------------------------------------------------ unspent index *)

(* the loop "find k with l[k] = i; l[k] = l[len-1]; l = l[:len-1]; break" *)
Fixpoint swap_pop (l : list N) (i : N) : list N :=
  match l with
  | [] => []
  | x :: r => if x =? i then (match r with [] => [] | _ => last r 0 :: removelast r end)
              else x :: swap_pop r i
  end.

Definition ulocal := list (N * list N).

Definition unspent_connect_tx (db : N -> list N) (loc : ulocal) (t : tx) : ulocal :=
  let loc1 := fold_left (fun l i =>
                aset N.eqb l (t_id t) (match alookup N.eqb l (t_id t) with Some v => v | None => [] end ++ [i]))
              (idxs (length (t_outs t))) loc in
  if t_cb t then loc1 else
  fold_left (fun l (op : outpoint) =>
      let cur := match alookup N.eqb l (fst op) with Some v => v | None => db (fst op) end in
      aset N.eqb l (fst op) (swap_pop cur (snd op)))
    (t_ins t) loc1.

(* "for txHash, value := range unspents": delete when empty (an error if the
   entry does not exist), put otherwise *)
Fixpoint unspent_writeback (db : N -> list N) (loc : ulocal) : res (N -> list N) :=
  match loc with
  | [] => Ok db
  | (k, v) :: r =>
      match v with
      | [] => match db k with [] => Err | _ => unspent_writeback (upd db k []) r end
      | _ => unspent_writeback (upd db k v) r
      end
  end.

Definition unspent_connect (db : N -> list N) (b : block) : res (N -> list N) :=
  unspent_writeback db (fold_left (unspent_connect_tx db) (b_txs b) []).

(* DisconnectBlock deletes the entries of the block's own transactions
   directly in the db transaction while it walks the block, and reads the
   referenced entries from that same (already modified) transaction *)
Definition unspent_disconnect_tx (st : res ((N -> list N) * ulocal)) (t : tx) : res ((N -> list N) * ulocal) :=
  bind st (fun '(db, loc) =>
    bind (match t_outs t with
          | [] => Ok db
          | _ => match db (t_id t) with [] => Err | _ => Ok (upd db (t_id t) []) end
          end) (fun db1 =>
    if t_cb t then Ok (db1, loc) else
    Ok (db1, fold_left (fun l (op : outpoint) =>
               let l1 := match alookup N.eqb l (fst op) with
                         | Some _ => l
                         | None => match db1 (fst op) with [] => l | v => aset N.eqb l (fst op) v end
                         end in
               aset N.eqb l1 (fst op) (match alookup N.eqb l1 (fst op) with Some v => v | None => [] end ++ [snd op]))
             (t_ins t) loc))).

Definition unspent_disconnect (db : N -> list N) (b : block) : res (N -> list N) :=
  bind (fold_left unspent_disconnect_tx (b_txs b) (Ok (db, []))) (fun '(db1, loc) => unspent_writeback db1 loc).

(* ------------------------------------------------------------------ tx index *)

Definition txidx_connect (m : N -> option (N * tx)) (b : block) : N -> option (N * tx) :=
  fold_left (fun m t => upd m (t_id t) (Some (b_height b, t))) (b_txs b) m.

Definition txidx_disconnect (m : N -> option (N * tx)) (b : block) : res (N -> option (N * tx)) :=
  fold_left (fun r t => bind r (fun m => match m (t_id t) with None => Err | Some _ => Ok (upd m (t_id t) None) end))
            (b_txs b) (Ok m).

(* ------------------------------------------------------------------ utxo (per-address) index *)

Definition akey := (N * N)%type.    (* address, height *)
Definition akey_eqb (a b : akey) : bool := (fst a =? fst b) && (snd a =? snd b).
Definition alocal := list (akey * list utxo).

Definition aget (db : N -> N -> list utxo) (loc : alocal) (k : akey) : list utxo :=
  match alookup akey_eqb loc k with Some v => v | None => db (fst k) (snd k) end.

(* "for i, utxo := range utxos { if match { utxos[i] = utxos[len-1]; utxos = utxos[:len-1]; break } }" *)
Fixpoint swap_pop_u (l : list utxo) (t i : N) : list utxo :=
  match l with
  | [] => []
  | x :: r => if utxo_is t i x then (match r with [] => [] | _ => last r x :: removelast r end)
              else x :: swap_pop_u r t i
  end.

Fixpoint utxo_connect_outs (db : N -> N -> list utxo) (loc : alocal) (tid h : N) (i : N) (outs : list output) : alocal :=
  match outs with
  | [] => loc
  | o :: r =>
      let loc' := if (o_val o =? 0)%Z then loc
                  else aset akey_eqb loc (o_addr o, h) (aget db loc (o_addr o, h) ++ [mkU tid i (o_val o)]) in
      utxo_connect_outs db loc' tid h (i + 1) r
  end.

Definition utxo_connect_tx (fetch : N -> option (N * tx)) (db : N -> N -> list utxo) (h : N)
           (st : res alocal) (t : tx) : res alocal :=
  bind st (fun loc =>
    let loc1 := utxo_connect_outs db loc (t_id t) h 0 (t_outs t) in
    if t_cb t then Ok loc1 else
    fold_left (fun r (op : outpoint) => bind r (fun l =>
        match fetch (fst op) with
        | None => Err                                     (* FetchTx error *)
        | Some (rh, rt) =>
            match nth_error (t_outs rt) (N.to_nat (snd op)) with
            | None => Panic                               (* referTx.Outputs()[index] out of range *)
            | Some ro => Ok (aset akey_eqb l (o_addr ro, rh) (swap_pop_u (aget db l (o_addr ro, rh)) (fst op) (snd op)))
            end
        end)) (t_ins t) (Ok loc1)).

Definition awriteback (db : N -> N -> list utxo) (loc : alocal) : N -> N -> list utxo :=
  fold_left (fun m '(k, v) => upd2 m (fst k) (snd k) v) loc db.

Definition utxo_connect (fetch : N -> option (N * tx)) (db : N -> N -> list utxo) (b : block) : res (N -> N -> list utxo) :=
  bind (fold_left (utxo_connect_tx fetch db (b_height b)) (b_txs b) (Ok [])) (fun loc => Ok (awriteback db loc)).

Definition utxo_disconnect_tx (fetch : N -> option (N * tx)) (db : N -> N -> list utxo) (h : N)
           (st : res alocal) (t : tx) : res alocal :=
  bind st (fun loc =>
    let loc1 := fold_left (fun l o => aset akey_eqb l (o_addr o, h) []) (t_outs t) loc in
    if t_cb t then Ok loc1 else
    fold_left (fun r (op : outpoint) => bind r (fun l =>
        match fetch (fst op) with
        | None => Err
        | Some (rh, rt) =>
            match nth_error (t_outs rt) (N.to_nat (snd op)) with
            | None => Panic
            | Some ro => if (o_val ro =? 0)%Z then Ok l
                         else Ok (aset akey_eqb l (o_addr ro, rh)
                                    (aget db l (o_addr ro, rh) ++ [mkU (fst op) (snd op) (o_val ro)]))
            end
        end)) (t_ins t) (Ok loc1)).

Definition utxo_disconnect (fetch : N -> option (N * tx)) (db : N -> N -> list utxo) (b : block) : res (N -> N -> list utxo) :=
  bind (fold_left (utxo_disconnect_tx fetch db (b_height b)) (b_txs b) (Ok [])) (fun loc => Ok (awriteback db loc)).

(* ------------------------------------------------------------------ return-deposit index, processors *)

Definition set_all (m : N -> bool) (ks : list N) (v : bool) : N -> bool :=
  fold_left (fun m k => upd m k v) ks m.

Definition retdep_hashes (t : tx) : list N := match t_side t with SRetDep hs => hs | _ => [] end.
Definition retdep_connect (m : N -> bool) (b : block) := fold_left (fun m t => set_all m (retdep_hashes t) true) (b_txs b) m.
Definition retdep_disconnect (m : N -> bool) (b : block) := fold_left (fun m t => set_all m (retdep_hashes t) false) (b_txs b) m.

(* hashes written by GetSaveProcessor *)
Definition tx3_saved (t : tx) : list N :=
  match t_side t with
  | SWithdraw ver ph oh => if ver =? 0 then ph else if (ver =? 1) || (ver =? 2) then oh else []
  | _ => []
  end.
(* hashes removed by GetRollbackProcessor *)
Definition tx3_rolled (c : cfg) (t : tx) : list N :=
  match t_side t with
  | SWithdraw ver ph oh => if ver =? 0 then ph else if (ver =? 1) || ((ver =? 2) && v2_rollback c) then oh else []
  | _ => []
  end.
Definition drafts (t : tx) : list (N * N) := match t_side t with SDraft ds => ds | _ => [] end.

Definition save_processors (s : state) (b : block) : state :=
  fold_left (fun s t =>
    mkState (s_tip s) (s_txidx s) (s_unspent s) (s_addr s) (s_retdep s)
            (set_all (s_tx3 s) (tx3_saved t) true)
            (fold_left (fun m '(k, d) => upd m k (Some d)) (drafts t) (s_draft s)))
    (b_txs b) s.

Definition rollback_processors (c : cfg) (s : state) (b : block) : state :=
  fold_left (fun s t =>
    mkState (s_tip s) (s_txidx s) (s_unspent s) (s_addr s) (s_retdep s)
            (set_all (s_tx3 s) (tx3_rolled c t) false)
            (fold_left (fun m '(k, _) => upd m k None) (drafts t) (s_draft s)))
    (b_txs b) s.

(* ------------------------------------------------------------------ SaveBlock / RollbackBlock *)

(* one db transaction: any error leaves the store unchanged (the caller keeps
   the old state on Err/Panic) *)
Definition save_block (s : state) (b : block) : res state :=
  if negb (b_prev b =? s_tip s) then Err else        (* dbIndexConnectBlock: must extend the index tip *)
  let s1 := save_processors s b in
  let tix := txidx_connect (s_txidx s1) b in
  bind (unspent_connect (s_unspent s1) b) (fun un =>
  bind (utxo_connect tix (s_addr s1) b) (fun ad =>
  Ok (mkState (b_id b) tix un ad (retdep_connect (s_retdep s1) b) (s_tx3 s1) (s_draft s1)))).

Definition rollback_block (c : cfg) (s : state) (b : block) : res state :=
  if negb (b_id b =? s_tip s) then Err else
  let s1 := rollback_processors c s b in
  bind (txidx_disconnect (s_txidx s1) b) (fun tix =>
  bind (unspent_disconnect (s_unspent s1) b) (fun un =>
  bind (utxo_disconnect tix (s_addr s1) b) (fun ad =>
  Ok (mkState (b_prev b) tix un ad (retdep_disconnect (s_retdep s1) b) (s_tx3 s1) (s_draft s1))))).

(* index catch-up of the genesis block (Manager.Init): indexers only *)
Definition init_state (g : block) : res state := save_block (empty_state (b_prev g)) g.

(* ------------------------------------------------------------------ queries *)

Definition q_unspent (s : state) (t : N) : list N := s_unspent s t.                 (* GetUnspent *)
Definition q_tx (s : state) (t : N) : option N := option_map fst (s_txidx s t).     (* GetTransaction: height *)
(* GetUTXO: concatenation over the heights that exist; heights are listed by the caller *)
Definition q_utxos (s : state) (addr : N) (heights : list N) : list utxo := flat_map (s_addr s addr) heights.
Definition q_balance (s : state) (addr : N) (heights : list N) : Z :=
  fold_left (fun a u => (a + u_val u)%Z) (q_utxos s addr heights) 0%Z.             (* Ledger.GetAmount *)

(* ------------------------------------------------------------------ validation *)

Fixpoint dup_free {A} (eqb : A -> A -> bool) (l : list A) : bool :=
  match l with [] => true | x :: r => negb (existsb (eqb x) r) && dup_free eqb r end.

Definition spends (t : tx) : list outpoint := if t_cb t then [] else t_ins t.
Definition block_spends (b : block) : list outpoint := flat_map spends (b_txs b).

(* ChainStore.IsDoubleSpend *)
Definition is_double_spend (s : state) (t : tx) : bool :=
  existsb (fun op : outpoint => negb (existsb (N.eqb (snd op)) (s_unspent s (fst op)))) (t_ins t).

(* GetTxReference: every input resolves to an output of a stored transaction *)
Definition refs_known (s : state) (t : tx) : bool :=
  forallb (fun op : outpoint => match s_txidx s (fst op) with
                   | Some (_, rt) => N.to_nat (snd op) <? length (t_outs rt)
                   | None => false end)%nat (t_ins t).

(* checkInvalidUTXO: outputs of a coinbase need CoinbaseMaturity confirmations;
   uint32 arithmetic *)
Definition mature (mat cur : N) (s : state) (t : tx) : bool :=
  forallb (fun op : outpoint => match s_txidx s (fst op) with
                   | Some (_, rt) => if t_cb rt then negb (((cur + 4294967296 - t_lock rt) mod 4294967296) <? mat) else true
                   | None => true end) (t_ins t).

(* per-transaction context check against the state before the block *)
Definition tx_context_ok (mat cur : N) (s : state) (t : tx) : bool :=
  match s_txidx s (t_id t) with Some _ => false | None => true end   (* IsTxHashDuplicate *)
  && refs_known s t && negb (is_double_spend s t) && mature mat cur s t.

(* CheckTransactionSanity for a transfer: inputs and outputs non-empty, no
   duplicate input, not the coinbase outpoint *)
Definition tx_sanity_ok (t : tx) : bool :=
  negb (t_cb t) && (match t_ins t with [] => false | _ => true end)
  && (match t_outs t with [] => false | _ => true end) && dup_free op_eqb (t_ins t).

Definition block_sanity_ok (b : block) : bool :=
  match b_txs b with
  | [] => false
  | c :: rest => t_cb c && forallb tx_sanity_ok rest
                 && dup_free N.eqb (map t_id (b_txs b))
                 && dup_free op_eqb (block_spends b)
  end.

Definition block_context_ok (c : cfg) (mat cur : N) (s : state) (b : block) : bool :=
  match b_txs b with
  | [] => false
  | cb :: rest =>
      (if cb_dup_check c then match s_txidx s (t_id cb) with Some _ => false | None => true end else true)
      && forallb (tx_context_ok mat cur s) rest
  end.

Inductive verdict := Accepted (s : state) | Rejected | Failed.

(* BlockChain.maybeAcceptBlock / connectBlock on a block extending the tip:
   height = parent height + 1, sanity, context, then ChainStore.SaveBlock *)
Definition connect (c : cfg) (mat cur : N) (s : state) (b : block) : verdict :=
  if block_sanity_ok b && block_context_ok c mat cur s b && (b_prev b =? s_tip s)
     && (b_height b =? cur + 1) then      (* maybeAcceptBlock: "wrong block height" *)
    match save_block s b with Ok s' => Accepted s' | _ => Failed end
  else Rejected.

(* ------------------------------------------------------------------ active chain and its UTXO set (the specification side) *)

Definition chain := list block.                     (* oldest first, genesis included *)
Definition chain_txs (c : chain) : list tx := flat_map b_txs c.
Definition all_spent (c : chain) : list outpoint := flat_map spends (chain_txs c).
Definition created (c : chain) (op : outpoint) : bool :=
  existsb (fun t => (t_id t =? fst op) && (N.to_nat (snd op) <? length (t_outs t))%nat) (chain_txs c).
Definition utxo_set (c : chain) (op : outpoint) : bool :=
  created c op && negb (existsb (op_eqb op) (all_spent c)).

Definition chain_height (c : chain) : N := match rev c with b :: _ => b_height b | [] => 0 end.

(* ------------------------------------------------------------------ histories *)

Inductive hstep := HConnect (b : block) | HDisconnect.

Definition hstep_run (cf : cfg) (mat : N) (st : state * chain) (e : hstep) : state * chain :=
  let '(s, c) := st in
  match e with
  | HConnect b =>
      match connect cf mat (chain_height c) s b with Accepted s' => (s', c ++ [b]) | _ => (s, c) end
  | HDisconnect =>
      match rev c with
      | b :: (_ :: _) =>        (* never the genesis block *)
          match rollback_block cf s b with Ok s' => (s', removelast c) | _ => (s, c) end
      | _ => (s, c)
      end
  end.

Definition history_run (cf : cfg) (mat : N) (st : state * chain) (h : list hstep) : state * chain :=
  fold_left (hstep_run cf mat) h st.

(* ------------------------------------------------------------------ mempool input slot *)

(* pool = transactions held + the key set of slotTxInputsReferKeys *)
Record pool := mkPool { p_txs : list tx; p_slot : list (outpoint * N) }.   (* slot: outpoint -> id of the holding tx *)
Definition empty_pool := mkPool [] [].

Definition slot_has (p : pool) (op : outpoint) : bool := existsb (fun e => op_eqb (fst e) op) (p_slot p).
Definition slot_remove_keys (sl : list (outpoint * N)) (ks : list outpoint) : list (outpoint * N) :=
  filter (fun e => negb (existsb (op_eqb (fst e)) ks)) sl.

(* doRemoveTransaction / removeTx: callers pass a member of the pool (looked
   up by hash); the slot keys removed are those of that member *)
Definition pool_remove (p : pool) (t : tx) : pool :=
  match find (fun x => t_id x =? t_id t) (p_txs p) with
  | Some x => mkPool (filter (fun y => negb (t_id y =? t_id x)) (p_txs p)) (slot_remove_keys (p_slot p) (t_ins x))
  | None => p
  end.

(* replaceDuplicateSideChainPowTx: a SideChainPow transaction evicts the pool's
   SideChainPow transactions of the same side chain (before the slot check,
   and whether or not that check then succeeds) *)
Definition same_pow (g : N) (x : tx) : bool := match t_side x with SPow g' => g' =? g | _ => false end.
Definition pool_replace_pow (p : pool) (t : tx) : pool :=
  match t_side t with
  | SPow g => fold_left (fun p x => if same_pow g x then pool_remove p x else p) (p_txs p) p
  | _ => p
  end.

(* appendToTxPool: duplicate, sanity, context against the ledger,
   verifyTransactionWithTxnPool (SideChainPow replacement, then the conflict
   slots for every transaction type), then add *)
Definition pool_append (mat cur : N) (s : state) (p : pool) (t : tx) : pool * bool :=
  if existsb (fun x => t_id x =? t_id t) (p_txs p) then (p, false) else
  if tx_sanity_ok t && tx_context_ok mat cur s t then
    let p1 := pool_replace_pow p t in
    if negb (existsb (slot_has p1) (t_ins t))
    then (mkPool (p_txs p1 ++ [t]) (p_slot p1 ++ map (fun op => (op, t_id t)) (t_ins t)), true)
    else (p1, false)
  else (p, false).

(* cleanTransactions (CleanSubmittedTransactions) for one connected block *)
Definition pool_clean_block (p : pool) (b : block) : pool :=
  fold_left (fun p bt =>
    if t_cb bt then p else
    let p1 := fold_left (fun p (op : outpoint) =>
                match find (fun e => op_eqb (fst e) op) (p_slot p) with
                | Some (_, holder) =>
                    match find (fun x => t_id x =? holder) (p_txs p) with Some x => pool_remove p x | None => p end
                | None => p end) (t_ins bt) p in
    mkPool (p_txs p1) (slot_remove_keys (p_slot p1) (t_ins bt)))
  (b_txs b) p.

(* checkAndCleanAllTransactions *)
Definition pool_check_all (mat cur : N) (s : state) (p : pool) : pool :=
  fold_left (fun p t => if tx_context_ok mat cur s t then p else pool_remove p t) (p_txs p) p.

Inductive pool_op :=
| PAppend (mat cur : N) (s : state) (t : tx)
| PRemove (t : tx)
| PCleanBlock (b : block)
| PCheckAll (mat cur : N) (s : state).

Definition pool_step (p : pool) (o : pool_op) : pool :=
  match o with
  | PAppend mat cur s t => fst (pool_append mat cur s p t)
  | PRemove t => pool_remove p t
  | PCleanBlock b => pool_clean_block p b
  | PCheckAll mat cur s => pool_check_all mat cur s p
  end.

Definition pool_inputs (p : pool) : list outpoint := flat_map t_ins (p_txs p).
