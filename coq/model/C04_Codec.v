(* C04 — typed records for the transaction envelope, header and block on top
   of the C02 descriptors: conversion to/from DSL values, encode_tx/decode_tx,
   the transaction hash over the unsigned serialization.  No proofs here.

   Payloads (transaction payload, output payload, auxpow) stay DSL values: what
   is typed is the envelope of core/transaction/transaction.go, Output/Input/
   Attribute/Program of core/types/common and the Header/Block framing. *)
From Coq Require Import NArith List Bool.
From ELA Require Import lib.GoSem lib.Bytes lib.VarInt model.C02_Fmt model.C02_Descr.
Import ListNotations.
Local Open Scope N_scope.

Record output := mkOutput {
  o_asset : bytes; o_value : N; o_lock : N; o_hash : bytes;
  o_pl : option (N * value)     (* output type and payload; None on version-0 transactions *)
}.

Record tx := mkTx {
  t_version : N; t_type : N; t_pver : N; t_payload : value;
  t_attrs : list (N * bytes);              (* usage, data *)
  t_inputs : list (bytes * N * N);         (* txid, index, sequence *)
  t_outputs : list output;
  t_lock : N;
  t_programs : list (bytes * bytes)        (* parameter, code *)
}.

Record header := mkHeader {
  h_version : N; h_prev : bytes; h_root : bytes; h_time : N; h_bits : N; h_nonce : N; h_height : N;
  h_aux : value
}.

Record block := mkBlock { b_header : header; b_txs : list tx }.

Definition set_programs (t : tx) (ps : list (bytes * bytes)) : tx :=
  mkTx (t_version t) (t_type t) (t_pver t) (t_payload t) (t_attrs t) (t_inputs t) (t_outputs t) (t_lock t) ps.

(* ---- to values *)
Definition attr_v (a : N * bytes) : value := VTag (fst a) (VB (snd a)).
Definition input_v (i : bytes * N * N) : value :=
  match i with (h, ix, sq) => VPair (VB h) (VPair (VN ix) (VN sq)) end.
Definition output_v (o : output) : value :=
  match o_pl o with
  | Some (t, p) => VPair (VB (o_asset o)) (VPair (VN (o_value o)) (VPair (VN (o_lock o)) (VPair (VB (o_hash o)) (VTag t p))))
  | None => VPair (VB (o_asset o)) (VPair (VN (o_value o)) (VPair (VN (o_lock o)) (VB (o_hash o))))
  end.
Definition program_v (p : bytes * bytes) : value := VPair (VB (fst p)) (VB (snd p)).

Definition body_v (t : tx) : value :=
  VTag (t_pver t) (VPair (t_payload t)
    (VPair (VL (map attr_v (t_attrs t))) (VPair (VL (map input_v (t_inputs t)))
      (VPair (VL (map output_v (t_outputs t))) (VN (t_lock t)))))).

(* SerializeUnsigned writes the version byte only when version >= 9 *)
Definition txu_v (t : tx) : value :=
  if 9 <=? t_version t then VTag (t_version t) (VTag (t_type t) (body_v t))
  else VTag (t_type t) (body_v t).
Definition programs_v (ps : list (bytes * bytes)) : value := VL (map program_v ps).
Definition tx_v (t : tx) : value := VPair (txu_v t) (programs_v (t_programs t)).

Definition header_v (h : header) : value :=
  VPair (VN (h_version h)) (VPair (VB (h_prev h)) (VPair (VB (h_root h)) (VPair (VN (h_time h))
    (VPair (VN (h_bits h)) (VPair (VN (h_nonce h)) (VPair (VN (h_height h)) (VPair (h_aux h) VUnit))))))).
Definition block_v (b : block) : value := VPair (header_v (b_header b)) (VL (map tx_v (b_txs b))).

(* ---- from values *)
Fixpoint traverse {A B} (f : A -> option B) (l : list A) : option (list B) :=
  match l with
  | [] => Some []
  | a :: r => match f a, traverse f r with
              | Some b, Some bs => Some (b :: bs)
              | _, _ => None
              end
  end.

Definition attr_of (v : value) : option (N * bytes) :=
  match v with VTag u (VB d) => Some (u, d) | _ => None end.
Definition input_of (v : value) : option (bytes * N * N) :=
  match v with VPair (VB h) (VPair (VN ix) (VN sq)) => Some (h, ix, sq) | _ => None end.
Definition output_of (v : value) : option output :=
  match v with
  | VPair (VB a) (VPair (VN x) (VPair (VN l) (VPair (VB h) (VTag t p)))) => Some (mkOutput a x l h (Some (t, p)))
  | VPair (VB a) (VPair (VN x) (VPair (VN l) (VB h))) => Some (mkOutput a x l h None)
  | _ => None
  end.
Definition program_of (v : value) : option (bytes * bytes) :=
  match v with VPair (VB p) (VB c) => Some (p, c) | _ => None end.

Definition body_of (ver ty : N) (v : value) (progs : list (bytes * bytes)) : option tx :=
  match v with
  | VTag pv (VPair pl (VPair (VL av) (VPair (VL iv) (VPair (VL ov) (VN lk))))) =>
    match traverse attr_of av, traverse input_of iv, traverse output_of ov with
    | Some a, Some i, Some o => Some (mkTx ver ty pv pl a i o lk progs)
    | _, _, _ => None
    end
  | _ => None
  end.

Definition tx_of (v : value) : option tx :=
  match v with
  | VPair u (VL pv) =>
    match traverse program_of pv with
    | Some progs =>
      match u with
      | VTag ver (VTag ty (VTag p b)) => if 9 <=? ver then body_of ver ty (VTag p b) progs else None
      | VTag ty (VTag p (VPair x y)) => body_of 0 ty (VTag p (VPair x y)) progs
      | _ => None
      end
    | None => None
    end
  | _ => None
  end.

Definition header_of (v : value) : option header :=
  match v with
  | VPair (VN a) (VPair (VB p) (VPair (VB r) (VPair (VN t) (VPair (VN b) (VPair (VN n) (VPair (VN h) (VPair aux VUnit))))))) =>
      Some (mkHeader a p r t b n h aux)
  | _ => None
  end.
Definition block_of (v : value) : option block :=
  match v with
  | VPair hv (VL tv) =>
    match header_of hv, traverse tx_of tv with
    | Some h, Some ts => Some (mkBlock h ts)
    | _, _ => None
    end
  | _ => None
  end.

(* ---- codecs *)
Definition lift {A} (of : value -> option A) (r : dres) : res (A * bytes) :=
  match r with
  | (Ok (v, rest), _) => match of v with Some a => Ok (a, rest) | None => Err end
  | (Err, _) => Err
  | (Panic, _) => Panic
  end.

Definition encode_tx (t : tx) : bytes := encode tx_fmt [] (tx_v t).
Definition encode_unsigned (t : tx) : bytes := encode txu_fmt [] (txu_v t).
Definition encode_programs (ps : list (bytes * bytes)) : bytes := encode programs_fmt [] (programs_v ps).
Definition decode_tx (bs : bytes) : res (tx * bytes) := lift tx_of (decode tx_fmt [] bs).

Definition encode_header (h : header) : bytes := encode header_fmt [] (header_v h).
Definition decode_header (bs : bytes) : res (header * bytes) := lift header_of (decode header_fmt [] bs).
Definition encode_block (b : block) : bytes := encode block_fmt [] (block_v b).
Definition decode_block (bs : bytes) : res (block * bytes) := lift block_of (decode block_fmt [] bs).

(* what the code needs of a transaction value to round-trip: the version is 0
   or >= 9 (versions 1..8 are written like 0), and the value is one the
   serializer/decoder pair agrees on (known type, version 0 only for types
   below 9, attribute usages valid, counts and lengths within their prefixes
   and limits, payload matching type and payload version, output payloads
   present exactly on version >= 9) *)
Definition version_ok (t : tx) : bool := (t_version t =? 0) || (9 <=? t_version t).
Definition wf_tx (t : tx) : bool := version_ok t && wt tx_fmt [] (tx_v t).
Definition wf_header (h : header) : bool := wt header_fmt [] (header_v h).
Definition wf_block (b : block) : bool :=
  forallb version_ok (b_txs b) && wt block_fmt [] (block_v b).

(* transaction id: double hash of the unsigned serialization, for any H *)
Definition tx_hash (H : bytes -> bytes) (t : tx) : bytes := H (H (encode_unsigned t)).
