(* C22 reduced model: a subset of the CR state changes, issued through the
   shared history model (lib/History.v: [change], [do_all], [undo_order] — the
   forward-order undo of HeightChanges.rollback) with the same (do, undo) pairs
   as the Go closures.

   The state is a memory of integer cells (absent = 0); the cells stand for
     votes i      Candidate.Votes of candidate i           (cr/state/state.go processVoteCRC,
                                                            committeeaction.go processVoteCancel)
     cstate i     Candidate.State                           (state.go unregisterCR)
     cancelh i    Candidate.CancelHeight                    (state.go unregisterCR)
     review p m   ProposalState.CRVotes[m] + 1, 0 = absent  (proposalmanager.go proposalReview)
     used         CRCCommitteeUsedAmount                    (committeeaction.go processCRCAddressRelatedTx,
                                                            Committee.proposalTracking)
   Every closure is built from the state BEFORE the block ([mk_changes s]) and
   executed at Commit; additive closures undo by the opposite addition,
   assignments undo by assigning the value captured before the block — except
   CancelHeight, which the Go undo resets to the literal 0.
   Executable, no proofs here. *)
From Coq Require Import ZArith Bool List.
From ELA Require Import lib.History.
Import ListNotations.
Local Open Scope Z_scope.

Definition mem := list (Z * Z).
Fixpoint get (k : Z) (m : mem) : Z :=
  match m with
  | [] => 0
  | (k', v) :: r => if k =? k' then v else get k r
  end.
Definition put (k v : Z) (m : mem) : mem := (k, v) :: m.

Inductive chg :=
| Add (k d : Z)            (* x += d        / x -= d *)
| Assign (k v old : Z).    (* x = v         / x = old *)

Definition ch_do (c : chg) (m : mem) : mem :=
  match c with Add k d => put k (get k m + d) m | Assign k v _ => put k v m end.
Definition ch_undo (c : chg) (m : mem) : mem :=
  match c with Add k d => put k (get k m - d) m | Assign k _ old => put k old m end.
Definition to_change (c : chg) : change mem := Change (ch_do c) (ch_undo c).

(* cells *)
Definition votes (i : Z) := 10 * i + 1.
Definition cstate (i : Z) := 10 * i + 2.
Definition cancelh (i : Z) := 10 * i + 3.
Definition review (p m : Z) := 10 * (100 * p + m) + 4.
Definition used := 5.
Definition Canceled := 2.

Inductive tx :=
| TxVote (cv : list (Z * Z))          (* vote output: candidate, votes *)
| TxCancelVote (cv : list (Z * Z))    (* spending a vote output *)
| TxUnregister (i : Z)
| TxReview (p m r : Z)
| TxProposalBudget (amount : Z)
| TxTrackingRelease (amount : Z).

Definition tx_changes (s : mem) (h : Z) (t : tx) : list chg :=
  match t with
  | TxVote cv => map (fun iv => Add (votes (fst iv)) (snd iv)) cv
  | TxCancelVote cv => map (fun iv => Add (votes (fst iv)) (- snd iv)) cv
  | TxUnregister i => [Assign (cancelh i) h 0; Assign (cstate i) Canceled (get (cstate i) s)]
  | TxReview p m r => [Assign (review p m) (r + 1) (get (review p m) s)]
  | TxProposalBudget a => [Add used a]
  | TxTrackingRelease a => [Add used (- a)]
  end.

Definition mk_changes (s : mem) (h : Z) (txs : list tx) : list chg := flat_map (tx_changes s h) txs.

(* one committed height: its changes, recorded at state s *)
Definition entry := (Z * list chg)%type.

Definition commit_block (s : mem) (b : Z * list tx) : entry * mem :=
  let cs := mk_changes s (fst b) (snd b) in
  ((fst b, cs), do_all (map to_change cs) s).

(* process blocks in order, keeping the log *)
Fixpoint process (s : mem) (bs : list (Z * list tx)) : list entry * mem :=
  match bs with
  | [] => ([], s)
  | b :: r => let '(e, s1) := commit_block s b in
              let '(log, s2) := process s1 r in (e :: log, s2)
  end.

(* RollbackTo k: entries above k are undone, last first, each with the
   history's undo order (forward inside one height) *)
Definition rollback_to (k : Z) (log : list entry) (s : mem) : mem :=
  fold_right (fun (e : entry) s => if k <? fst e then undo_order (map to_change (snd e)) s else s) s log.

Definition direct (k : Z) (s0 : mem) (bs : list (Z * list tx)) : mem :=
  snd (process s0 (filter (fun b => fst b <=? k) bs)).
