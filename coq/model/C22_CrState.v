(* C22 reduced model: CR state changes issued through the shared history model
   (lib/History.v: [change], [do_all], [undo_order] — the forward-order undo of
   HeightChanges.rollback) with the same (do, undo) pairs as the Go closures.

   The state is a memory of integer cells (absent = 0).  A Go closure pair is a
   list of primitive field changes of four shapes:
     Add k d            x += d            / x -= d
     Assign k v old     x = v             / x = old     (old captured or a literal)
     AddRestore k d old x += d            / x = old     (DepositAmount -= Min / = ori)
     Restore k old      —                 / x = old     (BudgetsStatus = oriBudgetsStatus
                                                         re-installs untouched stages too;
                                                         FinalPaymentStatus = false)
   One entry of the log is one HeightChanges of one of the committee's
   histories (state, manager, committee, ...): a block is a sequence of
   entries with the same height, each built from the state left by the previous
   one.  RollbackTo undoes the entries above the target, last committed first.
   (The node undoes the inactive-member history after the state history although
   it commits it after the committee history; the model keeps commit order.)

   Cells ([cell class index]) and the closures modelled:
     votes i, cstate i, cancelh i        candidates: processVoteCRC / processVoteCancel,
                                         unregisterCR (CancelHeight undo is the literal 0)
     review p m, reject p                proposalReview, processVoteCRCProposal
     used                                CRCCommitteeUsedAmount (+= budgets, -= unused)
     track p, pstatus p, final p, termh p, bstat p s, wable p s, wn p s, wtx t
                                         proposalTracking (all kinds), proposalWithdraw,
                                         abortProposal
     imp m, mstate m, penalty m, deposit m, inelect, lastvote
                                         processImpeachment, transferCRMemberState,
                                         terminateCRMember, tryStartVotingPeriod
     any cells                           TxAssignMany: "capture the old value, assign a new
                                         one" over a set of fields — the shape of the
                                         committee-change closures (Members, Candidates,
                                         Nicknames, session, used amount, ...)
   Executable, no proofs here. *)
From Coq Require Import ZArith Bool List.
From ELA Require Import lib.History.
Import ListNotations.
Local Open Scope Z_scope.

Definition mem := list (Z * Z).
Fixpoint get (k : Z) (m : mem) : Z :=
  match m with
  | [] => 0
  | (k', v) :: r => if k =? k' then v else get k r
  end.
Definition put (k v : Z) (m : mem) : mem := (k, v) :: m.

Inductive chg :=
| Add (k d : Z)
| Assign (k v old : Z)
| AddRestore (k d old : Z)
| Restore (k old : Z).

Definition ch_do (c : chg) (m : mem) : mem :=
  match c with
  | Add k d => put k (get k m + d) m
  | Assign k v _ => put k v m
  | AddRestore k d _ => put k (get k m + d) m
  | Restore _ _ => m
  end.
Definition ch_undo (c : chg) (m : mem) : mem :=
  match c with
  | Add k d => put k (get k m - d) m
  | Assign k _ old => put k old m
  | AddRestore k _ old => put k old m
  | Restore k old => put k old m
  end.
Definition to_change (c : chg) : change mem := Change (ch_do c) (ch_undo c).

(* cells *)
Definition cell (cls idx : Z) : Z := 64 * idx + cls.
Definition votes (i : Z) := cell 1 i.
Definition cstate (i : Z) := cell 2 i.
Definition cancelh (i : Z) := cell 3 i.
Definition review (p m : Z) := cell 4 (256 * p + m).
Definition used := cell 5 0.
Definition track (p : Z) := cell 6 p.
Definition pstatus (p : Z) := cell 7 p.
Definition final (p : Z) := cell 8 p.
Definition termh (p : Z) := cell 9 p.
Definition bstat (p s : Z) := cell 10 (256 * p + s).
Definition wable (p s : Z) := cell 11 (256 * p + s).     (* amount + 1, 0 = absent *)
Definition wn (p s : Z) := cell 12 (256 * p + s).        (* amount + 1, 0 = absent *)
Definition wtx (t : Z) := cell 13 t.
Definition mstate (m : Z) := cell 14 m.
Definition imp (m : Z) := cell 15 m.
Definition penalty (m : Z) := cell 16 m.
Definition deposit (m : Z) := cell 17 m.
Definition inelect := cell 18 0.
Definition lastvote := cell 19 0.
Definition reject (p : Z) := cell 20 p.

Definition Canceled := 2.
(* BudgetStatus *)
Definition Unfinished := 0. Definition Withdrawable := 1. Definition Withdrawn := 2.
Definition Rejected := 3. Definition Closed := 4.
(* ProposalStatus *)
Definition Finished := 3. Definition Terminated := 6. Definition Aborted := 7.
(* tracking types *)
Definition TProgress := 1. Definition TRejected := 2. Definition TTerminated := 3.
Definition TChangeOwner := 4. Definition TFinalized := 5.
(* MemberState *)
Definition MImpeached := 1. Definition MTerminated := 2.
Definition MinDeposit := 500000000000.

Inductive tx :=
| TxVote (cv : list (Z * Z))
| TxCancelVote (cv : list (Z * Z))
| TxUnregister (i : Z)
| TxReview (p m r : Z)
| TxProposalBudget (amount : Z)
| TxTrackingRelease (amount : Z)
| TxRejectVote (p v : Z)
(* proposalTracking + Committee.proposalTracking: type, stage, amount of the
   stage (progress) or of the final payment with its stage (finalized), whether
   the final-payment flag is raised, all stage ids of the proposal, budget released *)
| TxTrack (p ty stage amt fstage : Z) (setfinal : bool) (stages : list Z) (release : Z)
(* proposalWithdraw: all stage ids; payload-v1 record id (0 = payload v0) *)
| TxWithdraw (p : Z) (stages : list Z) (t : Z)
| TxAbort (p : Z) (stages : list Z)
| TxImpeachVote (m v : Z)
| TxTransferMember (m newstate newpenalty : Z)   (* transferCRMemberState / terminateCRMember *)
| TxDissolve (h : Z)                             (* tryStartVotingPeriod: election period ends *)
| TxAssignMany (kv : list (Z * Z)).

Definition restore_all (s : mem) (p : Z) (stages : list Z) : list chg :=
  map (fun st => Restore (bstat p st) (get (bstat p st) s)) stages.
Definition close_open (s : mem) (p : Z) (skip : Z) (stages : list Z) : list chg :=
  flat_map (fun st =>
     let v := get (bstat p st) s in
     if negb (st =? skip) && ((v =? Unfinished) || (v =? Rejected))
     then [Assign (bstat p st) Closed v] else []) stages.

Definition tx_changes (s : mem) (h : Z) (t : tx) : list chg :=
  match t with
  | TxVote cv => map (fun iv => Add (votes (fst iv)) (snd iv)) cv
  | TxCancelVote cv => map (fun iv => Add (votes (fst iv)) (- snd iv)) cv
  | TxUnregister i => [Assign (cancelh i) h 0; Assign (cstate i) Canceled (get (cstate i) s)]
  | TxReview p m r => [Assign (review p m) (r + 1) (get (review p m) s)]
  | TxProposalBudget a => [Add used a]
  | TxTrackingRelease a => [Add used (- a)]
  | TxRejectVote p v => [Add (reject p) v]
  | TxTrack p ty stage amt fstage setfinal stages release =>
      Add (track p) 1 ::
      (if ty =? TProgress then
         [Assign (bstat p stage) Withdrawable (get (bstat p stage) s);
          Assign (wable p stage) (amt + 1) 0;
          if setfinal then Assign (final p) 1 0 else Restore (final p) 0] ++ restore_all s p stages
       else if ty =? TRejected then
         (if (stage =? 0) then [] else [Assign (bstat p stage) Rejected (get (bstat p stage) s)])
         ++ restore_all s p stages
       else if ty =? TTerminated then
         [Assign (termh p) h (get (termh p) s); Assign (pstatus p) Terminated (get (pstatus p) s)]
         ++ close_open s p (-1) stages ++ restore_all s p stages
       else if ty =? TFinalized then
         [Assign (pstatus p) Finished (get (pstatus p) s);
          Assign (wable p fstage) (amt + 1) 0;
          Assign (bstat p stage) Withdrawable (get (bstat p stage) s)]
         ++ close_open s p stage stages ++ restore_all s p stages
       else [])
      ++ [Add used (- release)]
  | TxWithdraw p stages t =>
      flat_map (fun st =>
         if negb (get (wable p st) s =? 0) && (get (wn p st) s =? 0)
         then [Assign (wn p st) (get (wable p st) s) 0] else []) stages
      ++ flat_map (fun st => if get (bstat p st) s =? Withdrawable
                             then [Assign (bstat p st) Withdrawn Withdrawable] else []) stages
      ++ restore_all s p stages
      ++ (if t =? 0 then [] else [Assign (wtx t) 1 0])
  | TxAbort p stages =>
      Assign (pstatus p) Aborted (get (pstatus p) s)
      :: map (fun st => Assign (bstat p st) Closed (get (bstat p st) s)) stages
  | TxImpeachVote m v => [Add (imp m) v]
  | TxTransferMember m ns np =>
      [Assign (mstate m) ns (get (mstate m) s); Assign (penalty m) np (get (penalty m) s);
       AddRestore (deposit m) (- MinDeposit) (get (deposit m) s)]
  | TxDissolve h' =>
      [Assign inelect 0 (get inelect s); Assign lastvote h' (get lastvote s)]
  | TxAssignMany kv => map (fun x => Assign (fst x) (snd x) (get (fst x) s)) kv
  end.

Definition mk_changes (s : mem) (h : Z) (txs : list tx) : list chg := flat_map (tx_changes s h) txs.

Definition entry := (Z * list chg)%type.

Definition commit_block (s : mem) (b : Z * list tx) : entry * mem :=
  let cs := mk_changes s (fst b) (snd b) in
  ((fst b, cs), do_all (map to_change cs) s).

Fixpoint process (s : mem) (bs : list (Z * list tx)) : list entry * mem :=
  match bs with
  | [] => ([], s)
  | b :: r => let '(e, s1) := commit_block s b in
              let '(log, s2) := process s1 r in (e :: log, s2)
  end.

Definition rollback_to (k : Z) (log : list entry) (s : mem) : mem :=
  fold_right (fun (e : entry) s => if k <? fst e then undo_order (map to_change (snd e)) s else s) s log.

Definition direct (k : Z) (s0 : mem) (bs : list (Z * list tx)) : mem :=
  snd (process s0 (filter (fun b => fst b <=? k) bs)).

(* the discipline as a boolean check on one entry recorded at s: every change
   whose undo assigns has the cell's value in s as undo value, and its cell is
   not also changed by a plain Add in the same entry *)
Definition addedb (k : Z) (cs : list chg) : bool :=
  existsb (fun c => match c with Add k' _ => k =? k' | _ => false end) cs.
Definition discb (s : mem) (cs : list chg) : bool :=
  forallb (fun c => match c with
                    | Add _ _ => true
                    | Assign k _ old | AddRestore k _ old | Restore k old =>
                        (old =? get k s) && negb (addedb k cs)
                    end) cs.
Fixpoint goodb (s : mem) (bs : list (Z * list tx)) : bool :=
  match bs with
  | [] => true
  | b :: r => discb s (mk_changes s (fst b) (snd b)) && goodb (snd (commit_block s b)) r
  end.
