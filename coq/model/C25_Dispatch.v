(* C25 model, vote-collection side: dpos/manager/proposaldispatcher.go
     ProcessVote / alreadyExistVote / countAcceptedVote / countRejectedVote,
     AddPendingVote, setProcessingProposal, AppendConfirm (confirm = processing
     proposal + every collected accept vote), CleanProposals(true) after a
     rejecting minority;
   dpos/manager/dposondutyhandler.go, dposnormalhandler.go
     ProcessAcceptVote / ProcessRejectVote (the vote reaches ProcessVote with
     accept := the message command, only if it is for the processing proposal;
     the normal handler parks votes while no proposal is processed).
   blockchain.VoteCheck = signature oracle && signer is a current normal arbiter.
   The illegal-vote monitor (active above ChangeViewV1Height) and
   FinishConsensus are not modelled: the harness runs below that height and
   with a processing block of height 0.  No proofs in this file. *)
From Coq Require Import ZArith List Bool.
From ELA Require Import model.C25_Confirm.
Import ListNotations.
Local Open Scope Z_scope.

Record dstate := { d_prop : option proposal; d_acc : list vote; d_rej : list vote; d_pend : list vote }.

Definition d_empty : dstate := {| d_prop := None; d_acc := []; d_rej := []; d_pend := [] |}.

(* a vote's hash covers (ProposalHash, Signer, Accept), not the signature *)
Definition vkey_eqb (a b : vote) : bool :=
  (v_hash a =? v_hash b) && (v_signer a =? v_signer b) && Bool.eqb (v_accept a) (v_accept b).

Inductive op :=
| OStart (p : proposal)             (* setProcessingProposal *)
| OPend (v : vote)                  (* AddPendingVote directly *)
| ODuty (v : vote) (cmd : bool)     (* on-duty handler, cmd = true: CmdAcceptVote *)
| ONormal (v : vote) (cmd : bool).  (* normal handler *)

Section Dispatch.
  Variable vverify : Z -> Z -> bool -> Z -> bool.
  Variable arbs : list arbiter.
  Variable fallback : Z.

  Definition vote_check (v : vote) : bool :=
    vverify (v_signer v) (v_hash v) (v_accept v) (v_sig v) && is_arbiter arbs (v_signer v).

  Definition exists_vote (st : dstate) (v : vote) : bool :=
    existsb (vkey_eqb v) (d_acc st) || existsb (vkey_eqb v) (d_rej st).

  (* HasArbitersMajorityCount / HasArbitersMinorityCount *)
  Definition has_majority (k : nat) : bool :=
    majority (arbiters_count arbs fallback) <? Z.of_nat k.
  Definition has_minority (k : nat) : bool :=
    Z.of_nat (length arbs) - majority (arbiters_count arbs fallback) <=? Z.of_nat k.

  (* result: new state, succeed, finished *)
  Definition process_vote (st : dstate) (v : vote) (accept : bool) : dstate * bool * bool :=
    if negb (vote_check v) then (st, false, false)
    else if exists_vote st v then (st, false, false)
    else if accept then
      if v_accept v then
        let acc := v :: d_acc st in
        ({| d_prop := d_prop st; d_acc := acc; d_rej := d_rej st; d_pend := d_pend st |},
         true, has_majority (length acc))
      else (st, false, false)
    else
      if negb (v_accept v) then
        let rej := v :: d_rej st in
        if has_minority (length rej) then (d_empty, true, true)
        else ({| d_prop := d_prop st; d_acc := d_acc st; d_rej := rej; d_pend := d_pend st |},
              true, false)
      else (st, false, false).

  Definition for_current (st : dstate) (v : vote) (cmd : bool) : dstate * bool * bool :=
    match d_prop st with
    | Some p => if v_hash v =? p_hash p then process_vote st v cmd else (st, false, false)
    | None => (st, false, false)
    end.

  Definition add_pending (st : dstate) (v : vote) : dstate :=
    {| d_prop := d_prop st; d_acc := d_acc st; d_rej := d_rej st;
       d_pend := v :: filter (fun w => negb (vkey_eqb v w)) (d_pend st) |}.

  (* setProcessingProposal: replay the parked votes for this proposal with
     accept := the vote's own flag; stop at the first one that finishes *)
  Fixpoint replay (p : proposal) (st : dstate) (vs : list vote) : dstate * bool :=
    match vs with
    | [] => ({| d_prop := d_prop st; d_acc := d_acc st; d_rej := d_rej st; d_pend := [] |}, false)
    | v :: rest =>
        if v_hash v =? p_hash p then
          match process_vote st v (v_accept v) with
          | (st', _, true) => (st', true)
          | (st', _, false) => replay p st' rest
          end
        else replay p st rest
    end.

  Definition start (st : dstate) (p : proposal) : dstate * bool :=
    replay p {| d_prop := Some p; d_acc := d_acc st; d_rej := d_rej st; d_pend := d_pend st |}
           (d_pend st).

  Definition step (st : dstate) (o : op) : dstate * bool * bool :=
    match o with
    | OStart p => let (st', fin) := start st p in (st', fin, fin)
    | OPend v => (add_pending st v, false, false)
    | ODuty v cmd => for_current st v cmd
    | ONormal v cmd =>
        match d_prop st with
        | None => (add_pending st v, false, false)
        | Some _ => for_current st v cmd
        end
    end.

  Fixpoint run (st : dstate) (ops : list op) : dstate :=
    match ops with
    | [] => st
    | o :: rest => run (fst (fst (step st o))) rest
    end.

  (* per-step (succeed, finished) trace, for the correspondence *)
  Fixpoint trace (st : dstate) (ops : list op) : list (bool * bool) :=
    match ops with
    | [] => []
    | o :: rest => let '(st', s, f) := step st o in (s, f) :: trace st' rest
    end.

  (* AppendConfirm *)
  Definition assembled (st : dstate) : option confirm :=
    match d_prop st with
    | Some p => Some {| c_prop := p; c_votes := d_acc st |}
    | None => None
    end.

  (* a new proposal is only started on a clean dispatcher (CleanProposals ran),
     and ProcessProposal has checked it (ProposalCheck) *)
  Variable pverify : Z -> Z -> Z -> bool.
  Definition proposal_ok (p : proposal) : bool :=
    pverify (p_sponsor p) (p_hash p) (p_sig p) && is_arbiter arbs (p_sponsor p).

  Fixpoint starts_clean (st : dstate) (ops : list op) : bool :=
    match ops with
    | [] => true
    | o :: rest =>
        match o with
        | OStart p =>
            match d_prop st, d_acc st, d_rej st with
            | None, [], [] => proposal_ok p
            | _, _, _ => false
            end
        | _ => true
        end && starts_clean (fst (fst (step st o))) rest
    end.
End Dispatch.

Definition vote_keys_subset (a b : list vote) : bool :=
  forallb (fun v => existsb (vkey_eqb v) b) a.
Definition same_votes (a b : list vote) : bool :=
  (length a =? length b)%nat && vote_keys_subset a b && vote_keys_subset b a.
