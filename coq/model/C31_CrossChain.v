(* C31 model: the emergency cross-chain UTXO policy.
   Mirrors core/transaction/transactionchecker.go checkTransactionCrossChainUTXO
   and hasCrossChainUTXO, and common/config/settings/settings.go
   enforceCrossChainUTXORestrictionHeights together with the net-name switch of
   SetupConfig (strings.ToLower of ActiveNet) and the constants of
   common/config/config.go.  Executable, no proofs here.
   A transaction is seen as (type byte, payload version byte); its references as
   the list of first bytes (prefix) of the referenced outputs' program hashes;
   heights are uint32 values in Z; a net name is its list of Unicode code points. *)
From Coq Require Import ZArith Bool List.
Import ListNotations.
Local Open Scope Z_scope.

Definition prefix_crosschain : Z := 75.          (* contract.PrefixCrossChain 0x4B *)
Definition tx_withdraw : Z := 7.                 (* common.WithdrawFromSideChain 0x07 *)
Definition tx_return_deposit : Z := 81.          (* common.ReturnSideChainDepositCoin 0x51 *)

Definition is_cc (p : Z) : bool := p =? prefix_crosschain.

(* hasCrossChainUTXO *)
Definition has_cc (prefixes : list Z) : bool := existsb is_cc prefixes.

(* checkTransactionCrossChainUTXO: true = nil error *)
Definition check_crosschain (tt pv : Z) (prefixes : list Z) (h fh rh : Z) : bool :=
  if (h <? fh) || negb (has_cc prefixes) then true
  else if h <? rh then false
  else if tt =? tx_withdraw then (pv =? 0) || (pv =? 1) || (pv =? 2)
  else if negb (tt =? tx_return_deposit) then false
  else if negb (pv =? 0) then false
  else forallb is_cc prefixes.

(* ---- configuration ---- *)

Definition mainnet_freeze : Z := 2256110.
Definition mainnet_restriction : Z := 2256724.
Definition disabled_height : Z := 4294967295.    (* math.MaxUint32 *)

(* strings.ToLower on one code point, as far as it can produce an ASCII letter:
   A-Z, U+0130 (dotted capital I -> i), U+212A (Kelvin sign -> k); any other
   code point maps to itself or to another non-ASCII code point *)
Definition lower_cp (c : Z) : Z :=
  if (65 <=? c) && (c <=? 90) then c + 32
  else if c =? 304 then 105
  else if c =? 8490 then 107
  else c.

Fixpoint eq_cps (a b : list Z) : bool :=
  match a, b with
  | [], [] => true
  | x :: a', y :: b' => (x =? y) && eq_cps a' b'
  | _, _ => false
  end.

Definition s_mainnet : list Z := [109; 97; 105; 110; 110; 101; 116].
Definition s_main : list Z := [109; 97; 105; 110].

(* case "", "mainnet", "main" of the switch on strings.ToLower(ActiveNet) *)
Definition is_mainnet (name : list Z) : bool :=
  let l := map lower_cp name in
  eq_cps l [] || eq_cps l s_mainnet || eq_cps l s_main.

(* enforceCrossChainUTXORestrictionHeights: (freeze, restriction) after the call,
   given the values the local configuration had *)
Definition enforce_heights (name : list Z) (cfg_fh cfg_rh : Z) : Z * Z :=
  if is_mainnet name then (mainnet_freeze, mainnet_restriction)
  else (disabled_height, disabled_height).

(* the policy as a node runs it after SetupConfig *)
Definition node_policy (name : list Z) (cfg_fh cfg_rh : Z) (tt pv : Z) (prefixes : list Z) (h : Z) : bool :=
  let '(fh, rh) := enforce_heights name cfg_fh cfg_rh in
  check_crosschain tt pv prefixes h fh rh.
