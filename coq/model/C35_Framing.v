(* C35 model: mirrors p2p/header.go (BuildHeader, Serialize, Deserialize,
   GetCMD, Verify), p2p/message.go (ReadMessage, WriteMessage without the
   block send cache, which only memoises the serialization) and
   p2p/peer/peer.go (CheckAndCreateMessage, CheckAndCreateTxMessage) together
   with the per-layer command tables (Peer.createMessage of p2p/peer and
   dpos/p2p/peer, createMessage of elanet/server.go and dpos/network.go).
   Executable, no proofs here.

   A connection is the list of bytes (N below 256) that can still be read
   from it before it is closed.  The framing functions are parameterised by
   the checksum hash [H] (SHA-256d in the code), the command table [tbl]
   (command -> MaxLength) and the payload decoder's verdict [decodes]
   (message.Deserialize succeeded); [alloc] is the size of the payload buffer
   the reader allocated (make([]byte, hdr.Length)), 0 when it returned before. *)
From Coq Require Import NArith List Bool.
Import ListNotations.
Local Open Scope N_scope.

Fixpoint list_eqb (a b : list N) : bool :=
  match a, b with
  | [], [] => true
  | x :: a', y :: b' => (x =? y) && list_eqb a' b'
  | _, _ => false
  end.

Definition blen (l : list N) : N := N.of_nat (length l).

(* binary.LittleEndian uint32 *)
Definition ser32 (x : N) : list N :=
  [x mod 256; (x / 256) mod 256; (x / 65536) mod 256; (x / 16777216) mod 256].
Definition le32 (b : list N) : N :=
  match b with
  | [b0; b1; b2; b3] => b0 + 256 * b1 + 65536 * b2 + 16777216 * b3
  | _ => 0
  end.

(* bytes.TrimRight(cmd, "\x00") *)
Fixpoint trim_right (l : list N) : list N :=
  match l with
  | [] => []
  | x :: r => match trim_right r with
              | [] => if x =? 0 then [] else [x]
              | t => x :: t
              end
  end.

(* bytes.IndexByte(cmd, 0) >= 0 *)
Definition has_nul (l : list N) : bool := existsb (N.eqb 0) l.

(* copy(header.CMD[:len(cmd)], cmd) into the zeroed [12]byte; Go panics (slice
   bounds) for a command longer than 12 bytes: every command constant of the
   repository has at most 11 *)
Definition pad_cmd (c : list N) : list N := c ++ repeat 0 (12 - length c)%nat.

Inductive err :=
| EShort            (* io.EOF / io.ErrUnexpectedEOF: header or payload not complete *)
| EInvalidHeader    (* ErrInvalidHeader: no NUL in the command field *)
| EUnmatchedMagic   (* ErrUnmatchedMagic *)
| EUnknown          (* the command is in no table *)
| ESizeExceeded     (* ErrMsgSizeExceeded: declared length above MaxLength *)
| EInvalidPayload   (* ErrInvalidPayload: checksum *)
| EDecode.          (* message.Deserialize failed *)

Inductive result :=
| ROk (cmd payload rest : list N) (alloc : N)
| RErr (e : err) (alloc consumed : N).

Definition max_message_payload : N := 33554432.   (* MaxMessagePayload = 32 MB *)

Section Framing.
Variable H : list N -> list N.
Variable tbl : list N -> option N.
Variable decodes : list N -> list N -> bool.

Definition cks4 (p : list N) : list N := firstn 4 (H p).

(* header ++ payload as WriteMessage puts them on the wire *)
Definition frame (magic : N) (cmd p : list N) : list N :=
  ser32 magic ++ pad_cmd cmd ++ ser32 (blen p) ++ cks4 p ++ p.

(* WriteMessage: None = ErrMsgSizeExceeded *)
Definition write_message (magic : N) (cmd p : list N) : option (list N) :=
  if max_message_payload <? blen p then None else Some (frame magic cmd p).

Definition read_message (magic : N) (s : list N) : result :=
  if blen s <? 24 then RErr EShort 0 (blen s) else
  let hb := firstn 24 s in
  let body := skipn 24 s in
  let raw := firstn 12 (skipn 4 hb) in
  if negb (has_nul raw) then RErr EInvalidHeader 0 24 else
  if negb (le32 (firstn 4 hb) =? magic) then RErr EUnmatchedMagic 0 24 else
  let cmd := trim_right raw in
  let len := le32 (firstn 4 (skipn 16 hb)) in
  let k := skipn 20 hb in
  match tbl cmd with
  | None => RErr EUnknown 0 24
  | Some mx =>
      if mx <? len then RErr ESizeExceeded 0 24 else
      if blen body <? len then RErr EShort len (24 + blen body) else
      let p := firstn (N.to_nat len) body in
      if negb (list_eqb k (cks4 p)) then RErr EInvalidPayload len (24 + len) else
      if negb (decodes cmd p) then RErr EDecode len (24 + len) else
      ROk cmd p (skipn (N.to_nat len) body) len
  end.

Definition alloc_of (r : result) : N :=
  match r with ROk _ _ _ a => a | RErr _ a _ => a end.

End Framing.

(* ------------------------------------------------------------------ the command tables *)
From Coq Require Import String Ascii.

Definition bytes_of_string (s : string) : list N :=
  map (fun a => N_of_ascii a) (list_ascii_of_string s).

Definition u32 (x : N) : N := x mod 4294967296.

Fixpoint lookup (t : list (string * N)) (cmd : list N) : option N :=
  match t with
  | [] => None
  | (c, mx) :: r => if list_eqb (bytes_of_string c) cmd then Some mx else lookup r cmd
  end.

(* [ctx] = pact.MaxBlockContextSize, [hs] = pact.MaxBlockHeaderSize (variables
   set from the configuration; 8000000 and 1000000 by default) *)

(* p2p/peer Peer.createMessage, then elanet/server.go createMessage *)
Definition table_main (ctx hs : N) : list (string * N) :=
  [ ("version", 82); ("verack", 0); ("getaddr", 0); ("addr", 42008); ("ping", 8); ("pong", 8);
    ("mempool", 0); ("tx", ctx); ("block", u32 (u32 (ctx + hs) * 2)); ("inv", 1800004);
    ("notfound", 1800004); ("getdata", 1800004); ("getblocks", 16036); ("filteradd", 523);
    ("filterclear", 0); ("filterload", 36012); ("txfilter", 50004); ("reject", 524288);
    ("daddr", 387) ]%string.

(* dpos/p2p/peer Peer.createMessage, then dpos/network.go createMessage *)
Definition table_dpos (ctx hs : N) : list (string * N) :=
  [ ("version", 128); ("verack", 64); ("addr", 255); ("ping", 8); ("pong", 8);
    ("block", u32 (u32 (ctx + hs) * 2)); ("tx", ctx); ("acc_vote", 297); ("proposal", 168);
    ("rej_vote", 297); ("inv", 32); ("getblock", 32); ("get_blc", 8); ("res_blc", 80000000);
    ("req_con", 4); ("res_con", 80000000); ("req_pro", 32); ("ill_pro", 1000000);
    ("ill_vote", 1000000); ("side_ill", ctx); ("ina_ars", 145); ("rev_to_dpos", 512);
    ("reset_view", 100) ]%string.

(* p2p/server checkAddr: only "version" *)
Definition table_checkaddr : list (string * N) := [ ("version", 82) ]%string.

Definition cmd_ping : list N := bytes_of_string "ping".
Definition cmd_pong : list N := bytes_of_string "pong".
