(* C32 model: frozen addresses.
   Mirrors core/transaction/transactionchecker.go checkFrozenAddresses,
   common/config/settings/settings.go enforceFrozenAddresses (with the net-name
   switch shared with C31) and the resolution of ProgramHash from Address in
   common/config/config.go Sterilize.  Executable, no proofs here.
   A program hash (21 bytes) is the big-endian number of its bytes; an entry of
   Configuration.FrozenAddresses is (ProgramHash or None when nil,
   DisableStartHeight). *)
From Coq Require Import ZArith Bool List.
From ELA Require Import model.C31_CrossChain.
Import ListNotations.
Local Open Scope Z_scope.

Record frozen := F { f_hash : option Z; f_start : Z }.

Definition mem (x : Z) (l : list Z) : bool := existsb (Z.eqb x) l.

(* one iteration of the outer loop: false = an error is returned *)
Definition entry_ok (refs outs : list Z) (h : Z) (e : frozen) : bool :=
  match f_hash e with
  | None => true                                   (* frozen.ProgramHash == nil: continue *)
  | Some ph =>
      if h <? f_start e then true                  (* blockHeight < DisableStartHeight: continue *)
      else negb (mem ph refs) && negb (mem ph outs)
  end.

(* checkFrozenAddresses: true = nil error.  refs = program hashes of the
   referenced outputs, outs = program hashes of the transaction's outputs *)
Definition check_frozen (entries : list frozen) (refs outs : list Z) (h : Z) : bool :=
  forallb (entry_ok refs outs h) entries.

(* ---- configuration ---- *)

(* an entry as written in the configuration: address (as an opaque id) and start height *)
Record cfg_entry := CE { ce_addr : Z; ce_start : Z }.

Definition exploit_addr : Z := 1.   (* id standing for config.ExploitIntermediateFrozenAddress *)

(* config.MainNetFrozenAddresses() *)
Definition mainnet_frozen : list cfg_entry := [CE exploit_addr mainnet_freeze].

(* enforceFrozenAddresses *)
Definition enforce_frozen (name : list Z) (cfg : list cfg_entry) : list cfg_entry :=
  if is_mainnet name then mainnet_frozen else cfg.

(* Sterilize: ProgramHash from Address, through an address decoder (an oracle:
   base58check decoding is not modelled; None = undecodable or empty address) *)
Definition sterilize (decode : Z -> option Z) (cfg : list cfg_entry) : list frozen :=
  map (fun e => F (decode (ce_addr e)) (ce_start e)) cfg.

(* the check as a node runs it after SetupConfig *)
Definition node_frozen_check (decode : Z -> option Z) (name : list Z) (cfg : list cfg_entry)
                             (refs outs : list Z) (h : Z) : bool :=
  check_frozen (sterilize decode (enforce_frozen name cfg)) refs outs h.
