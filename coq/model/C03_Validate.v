(* C03 model, part 2: program verification (crypto/common.go: parsePublicKeys,
   ParseMultisigScript, ParseCrossChainScript; crypto/crypto.go:
   CheckMultiSigSignatures, VerifyMultisigSignatures; blockchain/validation.go:
   RunPrograms, CheckStandardSignature, checkSchnorrSignatures,
   checkCrossChainSignatures), coinbase output indexing
   (core/transaction/coinbasetransaction.go: CheckTransactionOutput;
   blockchain/blockvalidator.go: checkCoinbaseTransactionContext,
   CheckCoinbaseArbitratorsReward) and the code slicing / arbiter indexing
   sites of core/transaction (CheckAttributeProgram guard; RegisterProducer
   and ReturnDepositCoin SpecialContextCheck; checkSchnorrWithdrawFromSidechain).
   Executable, no proofs here.

   Cryptography is an oracle: [decode pk] (crypto.DecodePoint succeeds),
   [verify pk sig] (crypto.Verify on this transaction's data succeeds),
   [schnorr pk sig] (crypto.SchnorrVerify succeeds).  A returned error and a
   returned false are both [Ok false].  The model follows the code after the
   `fix:` commits (length guards in checkSchnorrSignatures,
   checkCrossChainSignatures, CheckMultiSigSignatures; unconditional signer
   index bound in checkSchnorrWithdrawFromSidechain). *)
From Coq Require Import ZArith List Bool.
From ELA Require Import lib.C03_GoSem model.C03_Script.
Import ListNotations.
Local Open Scope Z_scope.

Fixpoint bytes_eqb (a b : list Z) : bool :=
  match a, b with
  | [], [] => true
  | x :: a', y :: b' => (x =? y) && bytes_eqb a' b'
  | _, _ => false
  end.

(* ---------------------------------------------------------------- crypto *)

(* for i < len(code) { code[i:i+34]; i += 34 } *)
Fixpoint pk_loop (fuel : nat) (c : list Z) (i : Z) (acc : list (list Z)) : res (list (list Z)) :=
  match fuel with
  | O => Ok (rev acc)
  | S f =>
    if i <? len c then
      s <- slice c i (i + 34) ;;
      pk_loop f c (i + 34) (s :: acc)
    else Ok (rev acc)
  end.

(* None = returned an error *)
Definition parse_public_keys (code : list Z) : res (option (list (list Z))) :=
  c1 <- slice_to code (len code - 1) ;;
  c2 <- slice_from c1 1 ;;
  c3 <- slice_to c2 (len c2 - 1) ;;
  if negb (len c3 mod 34 =? 0) then Ok None else
  ks <- pk_loop (S (length c3)) c3 0 [] ;;
  Ok (Some ks).

(* ParseMultisigScript (last = 0xAE) / ParseCrossChainScript (last = 0xAF) *)
Definition parse_script (last : Z) (code : list Z) : res (option (list (list Z))) :=
  if len code <? 71 then Ok None else
  c <- idx code (len code - 1) ;;
  if negb (c =? last) then Ok None else
  parse_public_keys code.

Section Oracles.
Variable decode : list Z -> bool.
Variable verify : list Z -> list Z -> bool.
Variable schnorr : list Z -> list Z -> bool.

Inductive inner := Abort (b : bool) | Cont (verified : list (list Z)).

(* for _, publicKey := range publicKeys *)
Fixpoint match_keys (pks : list (list Z)) (sign : list Z) (verified : list (list Z)) : res inner :=
  match pks with
  | [] => Ok (Cont verified)
  | pk :: rest =>
    k <- slice_from pk 1 ;;
    if negb (decode k) then Ok (Abort false) else
    if verify k sign then
      if existsb (bytes_eqb pk) verified then Ok (Abort false)
      else Ok (Cont (pk :: verified))
    else match_keys rest sign verified
  end.

(* for i := 0; i < len(signatures); i += 65 *)
Fixpoint sig_loop (fuel : nat) (pks : list (list Z)) (sigs : list Z) (i : Z)
    (verified : list (list Z)) : res inner :=
  match fuel with
  | O => Ok (Cont verified)
  | S f =>
    if i <? len sigs then
      s0 <- slice sigs i (i + 65) ;;
      sign <- slice_from s0 1 ;;
      r <- match_keys pks sign verified ;;
      match r with
      | Abort b => Ok (Abort b)
      | Cont v => sig_loop f pks sigs (i + 65) v
      end
    else Ok (Cont verified)
  end.

Definition verify_multisig (m n : Z) (pks : list (list Z)) (sigs : list Z) : res bool :=
  if negb (len pks =? n) then Ok false else
  if negb (len sigs mod 65 =? 0) then Ok false else
  if len sigs / 65 <? m then Ok false else
  if n <? len sigs / 65 then Ok false else
  r <- sig_loop (S (length sigs)) pks sigs 0 [] ;;
  match r with
  | Abort b => Ok b
  | Cont v => Ok (m <=? len v)
  end.

(* crypto.CheckMultiSigSignatures *)
Definition check_multisig (code param : list Z) : res bool :=
  if len code <? 71 then Ok false else
  cn <- idx code (len code - 2) ;;
  c0 <- idx code 0 ;;
  let n := cn - 81 + 1 in
  let m := c0 - 81 + 1 in
  if (m <? 1) || (n <? m) then Ok false else
  ks <- parse_script 174 code ;;
  match ks with
  | None => Ok false
  | Some pks => verify_multisig m n pks param
  end.

(* blockchain.checkCrossChainSignatures *)
Definition check_crosschain (code param : list Z) : res bool :=
  if len code <? 71 then Ok false else
  cn <- idx code (len code - 2) ;;
  c0 <- idx code 0 ;;
  let n := cn - 81 + 1 in
  let m := c0 - 81 + 1 in
  ks <- parse_script 175 code ;;
  match ks with
  | None => Ok false
  | Some pks => verify_multisig m n pks param
  end.

(* blockchain.CheckStandardSignature *)
Definition check_standard (code param : list Z) : res bool :=
  if negb (len param =? 65) then Ok false else
  pk <- slice code 1 (len code - 1) ;;
  if negb (decode pk) then Ok false else
  sg <- slice_from param 1 ;;
  Ok (verify pk sg).

(* copy(publicKey[:], code[2:]) into a [33]byte *)
Definition pad33 (l : list Z) : list Z := firstn 33 (l ++ repeat 0 33).

(* blockchain.checkSchnorrSignatures *)
Definition check_schnorr (code param : list Z) : res bool :=
  if (len code <? 2) || (len param <? 64) then Ok false else
  pk <- slice_from code 2 ;;
  sg <- slice_to param 64 ;;
  Ok (schnorr (pad33 pk) sg).

(* one program: does the owner code hash equal the hash of the code (an
   oracle: SHA-256 + RIPEMD-160), code, parameter *)
Definition prog := (bool * list Z * list Z)%type.

(* None = continue with the next program *)
Definition run_one (prefix : Z) (p : prog) : res (option bool) :=
  let '(hash_match, code, param) := p in
  let sig_step (r : res bool) : res (option bool) :=
    b <- r ;; if b then Ok None else Ok (Some false) in
  if prefix =? 75 then                       (* PrefixCrossChain *)
    s <- is_schnorr code ;;
    if s then sig_step (check_schnorr code param)
    else sig_step (check_crosschain code param)
  else if negb hash_match then Ok (Some false)
  else if (prefix =? 33) || (prefix =? 31) then   (* PrefixStandard, PrefixDeposit *)
    s <- is_schnorr code ;;
    if s then sig_step (check_schnorr code param) else
    st <- is_standard code ;;
    if st then sig_step (check_standard code param) else
    ms <- is_multisig code ;;
    if ms then sig_step (check_multisig code param) else Ok (Some false)
  else if prefix =? 18 then                  (* PrefixMultiSig *)
    sig_step (check_multisig code param)
  else Ok (Some false).

Fixpoint run_loop (hashes : list Z) (progs : list prog) (i : Z) : res bool :=
  match progs with
  | [] => Ok true
  | p :: rest =>
    ph <- idx hashes i ;;
    r <- run_one ph p ;;
    match r with
    | Some b => Ok b
    | None => run_loop hashes rest (i + 1)
    end
  end.

(* blockchain.RunPrograms; hashes = the prefix bytes of programHashes *)
Definition run_programs (hashes : list Z) (progs : list prog) : res bool :=
  if negb (len hashes =? len progs) then Ok false else run_loop hashes progs 0.

End Oracles.

(* ---------------------------------------------------------------- coinbase *)

Record output := {
  o_value : Z;             (* Fixed64 *)
  o_asset_ok : bool;       (* AssetID == ELAAssetID *)
  o_destroy : bool;        (* ProgramHash == DestroyELAProgramHash *)
  o_crassets : bool;       (* ProgramHash == CRAssetsProgramHash *)
  o_dposv2 : bool;         (* ProgramHash == DPoSV2RewardAccumulateProgramHash *)
  o_reward : option Z      (* GetArbitersRoundReward()[ProgramHash] *)
}.

Definition i64 (x : Z) : Z := (x + 2^63) mod 2^64 - 2^63.

(* CoinBaseTransaction.CheckTransactionOutput.  The two float comparisons
   (foundation reward below 30% of the total) are oracle booleans. *)
Definition coinbase_sanity (pre_dpos : bool) (outs : list output)
    (low_share_pre low_share_post : bool) : res bool :=
  if 65535 <? len outs then Ok false else
  if len outs <? 2 then Ok false else
  o0 <- idx outs 0 ;;
  if pre_dpos then
    if negb (forallb o_asset_ok outs) then Ok false else Ok (negb low_share_pre)
  else
    a <- idx outs 0 ;;
    b <- idx outs 1 ;;
    if (len outs =? 2) && low_share_post then Ok false else Ok true.

(* for i := 2; i < len(outputs); i++ *)
Fixpoint reward_loop (fuel : nat) (outs : list output) (i : Z) : res bool :=
  match fuel with
  | O => Ok true
  | S f =>
    if i <? len outs then
      o <- idx outs i ;;
      match o_reward o with
      | None => Ok false
      | Some a =>
        o' <- idx outs i ;;
        if negb (a =? o_value o') then Ok false else reward_loop f outs (i + 1)
      end
    else Ok true
  end.

(* regime 0: DPoS v2 active; 1: [PublicDPOSHeight, ..); 2: before.
   rcr, rmm, rdpos: the three v2 reward amounts; expected: the regime-1 sum
   or the regime-2 total (reward + fees); nrewards = len(round rewards) *)
Definition coinbase_context (regime : Z) (pow : bool) (outs : list output)
    (rcr rmm rdpos expected nrewards : Z) : res bool :=
  if regime =? 0 then
    o0 <- idx outs 0 ;;
    if negb (o_value o0 =? rcr) then Ok false else
    o1 <- idx outs 1 ;;
    if negb (o_value o1 =? rmm) then Ok false else
    if negb (len outs =? 3) then Ok false else
    o2 <- idx outs 2 ;;
    if negb (o_value o2 =? rdpos) then Ok false else
    if pow then
      o2 <- idx outs 2 ;;
      if negb (o_destroy o2) then Ok false else
      o0 <- idx outs 0 ;;
      Ok (o_destroy o0)
    else
      o0 <- idx outs 0 ;;
      if negb (o_crassets o0) then Ok false else
      o2 <- idx outs 2 ;;
      Ok (o_dposv2 o2)
  else if regime =? 1 then
    o0 <- idx outs 0 ;;
    o1 <- idx outs 1 ;;
    if negb (expected =? i64 (o_value o0 + o_value o1)) then Ok false else
    if negb (nrewards =? len outs - 2) then Ok false else
    reward_loop (length outs) outs 2
  else
    Ok (i64 (fold_left (fun acc o => i64 (acc + o_value o)) outs 0) =? expected).

(* ---------------------------------------------------------------- tx sites *)

(* DefaultChecker.CheckAttributeProgram, program part: code and parameter
   non-nil (oracle booleans), code at least MinProgramCodeSize *)
Definition attr_prog := (bool * bool * list Z)%type. (* code != nil, param != nil, code *)

Fixpoint attr_loop (schnorr_allowed : bool) (ps : list attr_prog) : res bool :=
  match ps with
  | [] => Ok true
  | (code_nn, param_nn, code) :: rest =>
    if negb code_nn then Ok false else
    if len code <? 23 then Ok false else
    if negb param_nn then Ok false else
    if schnorr_allowed then attr_loop schnorr_allowed rest else
    s <- is_schnorr code ;;
    if s then Ok false else attr_loop schnorr_allowed rest
  end.

Definition check_attribute_program (schnorr_allowed : bool) (ps : list attr_prog) : res bool :=
  if len ps =? 0 then Ok false else attr_loop schnorr_allowed ps.

(* ReturnDepositCoin.SpecialContextCheck, program loop: the producer key is
   the code itself (multisig) or code[1:len-1]; [known key] says whether the
   state has such a producer *)
Fixpoint return_deposit_loop (known : list Z -> bool) (codes : list (list Z)) : res bool :=
  match codes with
  | [] => Ok true
  | code :: rest =>
    ms <- is_multisig code ;;
    key <- (if ms then Ok code else slice code 1 (len code - 1)) ;;
    if negb (known key) then Ok false else return_deposit_loop known rest
  end.

(* RegisterProducer.SpecialContextCheck, signature-scheme part.
   version 0/1: payload signature (oracle [payload_sig_ok]); 2: Schnorr; 3: multisig *)
Definition register_producer_code (version : Z) (payload_sig_ok : bool)
    (codes : list (list Z)) (owner_key : list Z) : res bool :=
  if version <? 2 then Ok payload_sig_ok
  else if version =? 2 then
    if negb (len codes =? 1) then Ok false else
    c <- idx codes 0 ;;
    s <- is_schnorr c ;;
    if negb s then Ok false else
    c <- idx codes 0 ;;
    pk <- slice_from c 2 ;;
    Ok (bytes_eqb pk owner_key)
  else if version =? 3 then
    c <- idx codes 0 ;;
    ms <- is_multisig c ;;
    if negb ms then Ok false else
    c <- idx codes 0 ;;
    if negb (bytes_eqb c owner_key) then Ok false else
    c <- idx codes 0 ;;
    cn <- idx c (len c - 2) ;;
    Ok (cn - 81 + 1 <=? 10)
  else Ok true.

(* checkSchnorrWithdrawFromSidechain, signer loop: arbiters[index]; an
   arbiter is 1 when its node key unmarshals to a point of the curve, else 0 *)
Fixpoint signer_loop (validate : bool) (narbiters : Z) (arbiters : list Z)
    (signers : list Z) (seen : list Z) : res bool :=
  match signers with
  | [] => Ok true
  | index :: rest =>
    if narbiters <=? index then Ok false else
    if validate && existsb (Z.eqb index) seen then Ok false else
    a <- idx arbiters index ;;
    if a =? 0 then Ok false else
    signer_loop validate narbiters arbiters rest (if validate then index :: seen else seen)
  end.

Definition schnorr_withdraw_signers (validate : bool) (arbiters signers : list Z) : res bool :=
  signer_loop validate (len arbiters) arbiters signers [].

(* for _, program := range t.Programs(): Schnorr code equal to the redeem script *)
Fixpoint withdraw_programs (redeem : list Z) (codes : list (list Z)) : res bool :=
  match codes with
  | [] => Ok true
  | c :: rest =>
    s <- is_schnorr c ;;
    if s then (if bytes_eqb c redeem then withdraw_programs redeem rest else Ok false)
    else Ok false
  end.

(* the whole check; agg_ok: the aggregated key decodes and its redeem script
   is built (oracle), redeem: that script *)
Definition schnorr_withdraw (validate : bool) (arbiters signers : list Z)
    (agg_ok : bool) (redeem : list Z) (codes : list (list Z)) : res bool :=
  l <- schnorr_withdraw_signers validate arbiters signers ;;
  if negb l then Ok false else
  if negb agg_ok then Ok false else
  withdraw_programs redeem codes.

(* TransferCrossChainAsset.checkTransferCrossChainAssetTransactionV0.
   addrs: the cross-chain addresses as numbers (0 = the empty string),
   idxs: OutputIndexes (uint64), amounts (Fixed64), outs: (first byte of the
   program hash, value) of every output *)
Fixpoint v0_index_loop (nouts : Z) (idxs seen : list Z) : bool :=
  match idxs with
  | [] => true
  | i :: rest =>
    if existsb (Z.eqb i) seen || (nouts <=? i) then false
    else v0_index_loop nouts rest (i :: seen)
  end.

Fixpoint v0_addr_loop (fuel : nat) (addrs idxs : list Z) (outs : list (Z * Z))
    (i : Z) (seen : list Z) : res bool :=
  match fuel with
  | O => Ok true
  | S f =>
    if i <? len addrs then
      a <- idx addrs i ;;
      if existsb (Z.eqb a) seen then Ok false else
      k <- idx idxs i ;;
      o <- idx outs k ;;
      if negb (fst o =? 75) then Ok false else
      if a =? 0 then Ok false else
      v0_addr_loop f addrs idxs outs (i + 1) (a :: seen)
    else Ok true
  end.

Fixpoint v0_amount_loop (fuel : nat) (amounts idxs : list Z) (outs : list (Z * Z))
    (minfee i : Z) : res bool :=
  match fuel with
  | O => Ok true
  | S f =>
    if i <? len amounts then
      a <- idx amounts i ;;
      if a <? 0 then Ok false else
      k <- idx idxs i ;;
      o <- idx outs k ;;
      if i64 (snd o - minfee) <? a then Ok false else
      v0_amount_loop f amounts idxs outs minfee (i + 1)
    else Ok true
  end.

Definition crosschain_v0 (is_payload : bool) (addrs idxs amounts : list Z)
    (outs : list (Z * Z)) (minfee total_in : Z) : res bool :=
  if negb is_payload then Ok false else
  if (len addrs =? 0) || (len outs <? len addrs) || negb (len addrs =? len amounts) ||
     negb (len amounts =? len idxs) then Ok false else
  if negb (v0_index_loop (len outs) idxs []) then Ok false else
  r <- v0_addr_loop (length addrs) addrs idxs outs 0 [] ;;
  if negb r then Ok false else
  r <- v0_amount_loop (length amounts) amounts idxs outs minfee 0 ;;
  if negb r then Ok false else
  Ok (minfee <=? i64 (total_in - fold_left (fun acc o => i64 (acc + snd o)) outs 0)).

(* ReturnSideChainDepositCoin.SpecialContextCheck, one return output.
   The deposit transaction named by the output payload is looked up in the
   chain store (oracle): its inputs as (previous index, outputs of the
   referenced transaction as program-hash ids, None = not found), its
   payload version, whether its payload is a TransferCrossChainAsset, that
   payload's OutputIndexes and its outputs (program-hash id, value, counts
   for the V1 sum). *)
Record deposit_tx := {
  d_inputs : list (Z * option (list Z));
  d_pver : Z;
  d_is_tcca : bool;
  d_idxs : list Z;
  d_outs : list (Z * Z * bool)
}.

Fixpoint dep_amount_v0 (idxs : list Z) (outs : list (Z * Z * bool)) (side : Z) (acc : Z) : res Z :=
  match idxs with
  | [] => Ok acc
  | k :: rest =>
    o <- idx outs k ;;
    if negb (fst (fst o) =? side) then dep_amount_v0 rest outs side acc
    else dep_amount_v0 rest outs side (i64 (acc + snd (fst o)))
  end.

Definition dep_amount_v1 (outs : list (Z * Z * bool)) (side : Z) : Z :=
  fold_left (fun acc o => if snd o && (fst (fst o) =? side) then i64 (acc + snd (fst o)) else acc) outs 0.

(* out_ph / out_value: the return output; dup: hash already returned;
   dep: the looked-up deposit transaction; addr_ok / side: GenesisBlockAddress
   decodes, to this program-hash id.  None = continue with the next output *)
Definition return_deposit_output (out_ph out_value fee : Z) (dup : bool)
    (dep : option deposit_tx) (addr_ok : bool) (side : Z) : res (option bool) :=
  if dup then Ok (Some false) else
  match dep with
  | None => Ok (Some false)
  | Some tx =>
    if len (d_inputs tx) =? 0 then Ok (Some false) else
    i0 <- idx (d_inputs tx) 0 ;;
    match snd i0 with
    | None => Ok (Some false)
    | Some refouts =>
      ro <- idx refouts (fst i0) ;;
      if negb (out_ph =? ro) then Ok (Some false) else
      if negb addr_ok then Ok (Some false) else
      amt <- (if d_pver tx =? 0 then
                if negb (d_is_tcca tx) then Ok None
                else a <- dep_amount_v0 (d_idxs tx) (d_outs tx) side 0 ;; Ok (Some a)
              else if d_pver tx =? 1 then
                if negb (d_is_tcca tx) then Ok None else Ok (Some (dep_amount_v1 (d_outs tx) side))
              else Ok (Some 0)) ;;
      match amt with
      | None => Ok None
      | Some a => if negb (i64 (out_value + fee) =? a) then Ok (Some false) else Ok None
      end
    end
  end.

(* CheckInactiveArbitrators / CheckRevertToDPOSTransaction (blockchain and
   core/transaction): txn.Programs()[0], then checkCRCArbitratorsSignatures /
   checkArbitratorsSignatures on its code.  [counts_ok m n]: the m / n / quorum
   test against the arbiter set (oracle), [member key]: IsCRCArbitrator /
   IsArbitrator (oracle) *)
Fixpoint members_loop (member : list Z -> bool) (pks : list (list Z)) : res bool :=
  match pks with
  | [] => Ok true
  | pk :: rest =>
    k <- slice_from pk 1 ;;
    if negb (member k) then Ok false else members_loop member rest
  end.

Definition arbiter_signatures (counts_ok : Z -> Z -> bool) (member : list Z -> bool)
    (codes : list (list Z)) : res bool :=
  if len codes =? 0 then Ok false else
  code <- idx codes 0 ;;
  if len code <? 71 then Ok false else
  cn <- idx code (len code - 2) ;;
  c0 <- idx code 0 ;;
  if negb (counts_ok (c0 - 81 + 1) (cn - 81 + 1)) then Ok false else
  ks <- parse_script 174 code ;;
  match ks with
  | None => Ok false
  | Some pks => members_loop member pks
  end.

(* ---------------------------------------------------------------- composition *)

(* a decoded transaction: the sanity check CheckAttributeProgram, then (only
   if it accepted) the context checks that index / slice program codes *)
Definition validate_tx_programs decode verify schnorr (allowed : bool) (ps : list attr_prog)
    (hashes : list Z) (progs : list prog) (known : list Z -> bool)
    (version : Z) (sigok : bool) (owner : list Z) : res bool :=
  a <- check_attribute_program allowed ps ;;
  if negb a then Ok false else
  r <- run_programs decode verify schnorr hashes progs ;;
  d <- return_deposit_loop known (map snd ps) ;;
  g <- register_producer_code version sigok (map snd ps) owner ;;
  Ok (r && d && g).

(* a decoded block: merged-mining proof, then the coinbase sanity check, then
   (only if it accepted) the coinbase context check *)
Definition validate_block_header_coinbase (H : Z -> Z -> Z)
    cbhash cbbranch parindex hdrroot auxhash auxbranch auxindex txin chainID
    (pre : bool) (outs : list output) (f1 f2 : bool)
    (regime : Z) (pow : bool) (rcr rmm rdpos expected nrewards : Z) : res bool :=
  a <- auxpow_check H cbhash cbbranch parindex hdrroot auxhash auxbranch auxindex txin chainID ;;
  if negb a then Ok false else
  s <- coinbase_sanity pre outs f1 f2 ;;
  if negb s then Ok false else
  coinbase_context regime pow outs rcr rmm rdpos expected nrewards.

