(* C21 — reduced executable model of the DPoS producer state
   (dpos/state/state.go: State.ProcessBlock / State.RollbackTo) on top of
   lib/History.v.  No proofs here.

   Modelled (the transaction kinds the theorem covers): RegisterProducer,
   UpdateProducer (nickname), CancelProducer, v1 delegate votes (TransferAsset
   v0.9 vote outputs) and their cancellation by spending the vote output,
   deposit top-up (processDeposit), ReturnDepositCoin, and the per-block
   bookkeeping: pending -> active after ActivateDuration = 6 confirmations,
   deposit release DepositLockupBlocks after the cancel height, last block
   timestamp, RevertToPOW / RevertToDPOS and the switch back to DPOS at the
   work height (consensus mode), tryUpdateLastIrreversibleHeight in all three
   branches, emergency InactiveArbitrators (setInactiveProducer /
   revertSettingInactiveProducer with the saturating penalty revert),
   ActivateProducer and inactive -> active after 6 blocks, illegal evidence
   (all four branches, penalty += / = ori).  Not modelled: inactivity counting
   from confirms (the countArbitratorsInactivity family), DPoS v2 stake and
   votes, NFTs, CR council claims, the arbiter rotation of
   dpos/state/arbitrators.go.  Those are covered by the
   differential oracle of harness/cmd/c21 only.

   State: the Go maps and producer objects are laid out in one vector of
   integers (a location per producer field, per set membership, per scalar);
   a Go closure pair (execute, rollback) is a pair of lists of primitive
   location updates, written down from the closures of state.go:
   - as in the Go code every decision and every captured "ori" value is taken
     from the state *before* the block (Append only records, Commit executes);
   - the undo lists are the Go rollback closures as they are (constants such
     as cancelHeight = 0, state = Canceled, and captured values);
   - the nickname deleted by cancelProducer is read when the closure runs in
     Go; here it is the pre-block nickname (no other change of a valid block
     touches that producer);
   - processDeposit also writes DepositOutputs immediately (kept by the fix
     for compatibility); the model has the history entry only — the immediate
     write is idempotent with it and only visible to a spend in the same block;
   - pending producers are activated in index order (Go: map order; the
     changes touch distinct producers and commute). *)
From Coq Require Import ZArith NArith List Bool.
From ELA Require Import lib.History.
Import ListNotations.
Local Open Scope Z_scope.

Record params := Params {
  pK : nat;          (* producer slots *)
  pM : nat;          (* nickname ids *)
  pR : nat;          (* output reference ids *)
  p_lockup : Z;      (* CRConfiguration.DepositLockupBlocks *)
  p_revert_start : Z;(* DPoSConfiguration.RevertToPOWStartHeight *)
  p_fee : Z;         (* MinTransactionFee *)
  p_cap : Z;         (* maxHistoryCapacity *)
  p_emergency_penalty : Z;  (* DPoSConfiguration.EmergencyInactivePenalty *)
  p_illegal_penalty : Z     (* illegal penalty in force (0 before ChangeCommitteeNewCRHeight) *)
}.

(* producer fields *)
Definition F := 18%nat.
Definition fSt := 0%nat.  Definition fReg := 1%nat.  Definition fCancel := 2%nat.
Definition fNick := 3%nat. Definition fDepAmt := 4%nat. Definition fVotes := 5%nat.
Definition fTotal := 6%nat. Definition fInPending := 7%nat. Definition fInActive := 8%nat.
Definition fInCanceled := 9%nat. Definition fInPendCanceled := 10%nat.
Definition fInactiveSince := 11%nat. Definition fActReq := 12%nat. Definition fIllegalH := 13%nat.
Definition fPenalty := 14%nat. Definition fInInactive := 15%nat. Definition fInIllegal := 16%nat.
Definition fInEmergency := 17%nat.   (* EmergencyInactiveArbiters *)

(* producer state codes: Go's ProducerState + 1; 0 = no producer in the slot *)
Definition stPending := 1. Definition stActive := 2. Definition stInactive := 3. Definition stCanceled := 4.
Definition stIllegal := 5. Definition stReturned := 6.
Definition max32 := 4294967295.        (* math.MaxUint32: no activation request *)

Definition min_deposit := 500000000000.   (* state.MinDepositAmount = 5000 ELA *)
Definition activate_duration := 6.
Definition irreversible_height := 6.

Section Layout.
  Variable P : params.
  Definition iP (k f : nat) : nat := (k * F + f)%nat.
  Definition iNick (m : nat) : nat := (pK P * F + m)%nat.
  Definition iVote (r : nat) : nat := (pK P * F + pM P + 2 * r)%nat.
  Definition iDep (r : nat) : nat := (pK P * F + pM P + 2 * r + 1)%nat.
  Definition iTs : nat := (pK P * F + pM P + 2 * pR P)%nat.
  Definition iLih : nat := (iTs + 1)%nat.
  Definition iDst : nat := (iTs + 2)%nat.
  Definition iCA : nat := (iTs + 3)%nat.       (* ConsensusAlgorithm: 0 = DPOS, 1 = POW *)
  Definition iWork : nat := (iTs + 4)%nat.     (* DPOSWorkHeight *)
  Definition iRevH : nat := (iTs + 5)%nat.     (* RevertToPOWBlockHeight *)
  Definition iNoProd : nat := (iTs + 6)%nat.   (* NoProducers *)
  Definition iNoClaim : nat := (iTs + 7)%nat.  (* NoClaimDPOSNode *)
  Definition iNeedTx : nat := (iTs + 8)%nat.   (* NeedRevertToDPOSTX *)
  Definition vlen : nat := (iTs + 9)%nat.

End Layout.

Definition vec := list Z.
Definition get (x : vec) (i : nat) : Z := nth i x 0.
Definition setnth (i : nat) (v : Z) (l : vec) : vec :=
  if Nat.ltb i (length l) then firstn i l ++ v :: skipn (S i) l else l.

(* primitive location updates *)
Inductive prim :=
| PSet (i : nat) (v : Z)
| PAdd (i : nat) (d : Z)
| PSubSat (i : nat) (p : Z)             (* x[i] := if x[i] < p then 0 else x[i] - p *)
| PRet (ist itot : nat) (chg fee : Z)   (* if x[ist] = Canceled and x[itot] + chg <= fee then x[ist] := Returned *)
| PLih (ilih idst : nat).               (* x[idst]++ ; x[ilih] := x[idst] *)

Definition apply_prim (x : vec) (p : prim) : vec :=
  match p with
  | PSet i v => setnth i v x
  | PAdd i d => setnth i (get x i + d) x
  | PSubSat i p => setnth i (if get x i <? p then 0 else get x i - p) x
  | PRet ist itot chg fee =>
      if (get x ist =? stCanceled) && (get x itot + chg <=? fee) then setnth ist stReturned x else x
  | PLih ilih idst => let x1 := setnth idst (get x idst + 1) x in setnth ilih (get x1 idst) x1
  end.
Definition apply_prims (ps : list prim) (x : vec) : vec := fold_left apply_prim ps x.

(* a Go closure pair *)
Record dchg := DChg { d_do : list prim; d_undo : list prim }.
Definition interp (c : dchg) : change vec := Change (apply_prims (d_do c)) (apply_prims (d_undo c)).

Inductive tx :=
| TRegister (k m : nat) (amount : Z) (r : nat)       (* owner slot, nickname id, deposit, deposit output ref *)
| TUpdate (k m : nat)                                (* new nickname id *)
| TCancel (k : nat)
| TVote (r : nat) (cands : list (nat * Z))           (* vote output ref, (candidate slot, votes) *)
| TUnvote (r : nat) (cands : list (nat * Z))         (* spends vote output r carrying these candidate votes *)
| TTopup (k : nat) (amount : Z) (r : nat)
| TReturn (k : nat) (refs : list nat) (chg : Z)      (* spends deposit outputs refs *)
| TRevertPow                                          (* RevertToPOW *)
| TRevertDpos (interval : Z)                          (* RevertToDPOS, WorkHeightInterval *)
| TInactive (k : nat)                                 (* InactiveArbitrators naming producer k (emergency) *)
| TActivate (k : nat)                                 (* ActivateProducer *)
| TIllegal (k : nat).                                 (* illegal evidence against producer k *)

Record block := Block { b_height : Z; b_time : Z; b_txs : list tx }.

Section Model.
  Variable P : params.
  Notation iP := iP.

  Definition exists_prod (s : vec) (k : nat) : bool := negb (get s (iP k fSt) =? 0).

  Definition tx_changes (s : vec) (h : Z) (t : tx) : list dchg :=
    match t with
    | TRegister k m amount r =>
        (* registerProducer *)
        [DChg [PSet (iNick P m) 1; PSet (iP k fInPending) 1; PSet (iP k fSt) stPending; PSet (iP k fReg) h;
               PSet (iP k fNick) (Z.of_nat m + 1); PSet (iP k fDepAmt) min_deposit; PAdd (iP k fTotal) amount;
               PSet (iP k fActReq) max32; PSet (iDep P r) amount]
              [PSet (iNick P m) 0; PSet (iP k fInPending) 0; PSet (iP k fSt) 0; PSet (iP k fReg) 0;
               PSet (iP k fNick) 0; PSet (iP k fDepAmt) 0; PAdd (iP k fTotal) (- amount);
               PSet (iP k fActReq) 0; PSet (iDep P r) 0]]
    | TUpdate k m =>
        (* updateProducer / updateProducerInfo (nickname only) *)
        if exists_prod s k then
          let old := get s (iP k fNick) in
          let new := Z.of_nat m + 1 in
          let oldi := iNick P (Z.to_nat (old - 1)) in
          if old =? new then [DChg [PSet (iP k fNick) new] [PSet (iP k fNick) old]]
          else [DChg [PSet oldi 0; PSet (iNick P m) 1; PSet (iP k fNick) new]
                     [PSet (iNick P m) 0; PSet oldi 1; PSet (iP k fNick) old]]
        else []
    | TCancel k =>
        (* cancelProducer *)
        if exists_prod s k then
          let ori := get s (iP k fSt) in
          let nicki := iNick P (Z.to_nat (get s (iP k fNick) - 1)) in
          let moves_do := if ori =? stPending then [PSet (iP k fInPending) 0; PSet (iP k fInPendCanceled) 1]
                          else if ori =? stActive then [PSet (iP k fInActive) 0]
                          else if ori =? stInactive then [PSet (iP k fInInactive) 0] else [] in
          let moves_undo := if ori =? stPending then [PSet (iP k fInPending) 1; PSet (iP k fInPendCanceled) 0]
                            else if ori =? stActive then [PSet (iP k fInActive) 1]
                            else if ori =? stInactive then [PSet (iP k fInInactive) 1] else [] in
          [DChg ([PSet (iP k fSt) stCanceled; PSet (iP k fCancel) h; PSet (iP k fInCanceled) 1] ++ moves_do ++
                 [PSet nicki 0])
                ([PSet (iP k fCancel) 0; PSet (iP k fInCanceled) 0; PSet (iP k fSt) ori] ++ moves_undo ++
                 [PSet nicki 1])]
        else []
    | TVote r cands =>
        (* processVotes + processVoteOutput (countByVote) *)
        DChg [PSet (iVote P r) 1] [PSet (iVote P r) 0] ::
        flat_map (fun kv => if exists_prod s (fst kv)
                            then [DChg [PAdd (iP (fst kv) fVotes) (snd kv)] [PAdd (iP (fst kv) fVotes) (- snd kv)]]
                            else []) cands
    | TUnvote r cands =>
        (* processCancelVotes + processVoteCancel (subtractByVote) *)
        if get s (iVote P r) =? 1 then
          flat_map (fun kv => if exists_prod s (fst kv)
                              then [DChg [PAdd (iP (fst kv) fVotes) (- snd kv)] [PAdd (iP (fst kv) fVotes) (snd kv)]]
                              else []) cands
        else []
    | TTopup k amount r =>
        (* processDeposit + addProducerAssert *)
        if exists_prod s k && negb (get s (iP k fSt) =? stReturned) then
          [DChg [PAdd (iP k fTotal) amount] [PAdd (iP k fTotal) (- amount)];
           DChg [PSet (iDep P r) amount] [PSet (iDep P r) 0]]
        else []
    | TReturn k refs chg =>
        (* returnDeposit *)
        if exists_prod s k then
          let input := fold_left (fun a r => a + get s (iDep P r)) refs 0 in
          [DChg [PAdd (iP k fTotal) (- input); PRet (iP k fSt) (iP k fTotal) chg (p_fee P)]
                [PAdd (iP k fTotal) input; PSet (iP k fSt) stCanceled]]
        else []
    | TRevertPow =>
        (* processRevertToPOW *)
        [DChg [PSet (iCA P) 1; PSet (iNoProd P) 0; PSet (iNoClaim P) 0; PSet (iWork P) 0; PSet (iRevH P) h]
              [PSet (iCA P) 0; PSet (iNoProd P) (get s (iNoProd P)); PSet (iNoClaim P) (get s (iNoClaim P));
               PSet (iWork P) (get s (iWork P)); PSet (iRevH P) (get s (iRevH P))]]
    | TRevertDpos iv =>
        (* processRevertToDPOS *)
        [DChg [PSet (iWork P) (h + iv); PSet (iNeedTx P) 0]
              [PSet (iWork P) (get s (iWork P)); PSet (iNeedTx P) (get s (iNeedTx P))]]
    | TInactive k =>
        (* processEmergencyInactiveArbitrators: setInactiveProducer / revertSettingInactiveProducer
           (emergency; VersionStartHeight = VersionEndHeight = 0), for a producer in
           ActivityProducers and again for one in InactiveProducers *)
        let c := DChg [PSet (iP k fInactiveSince) h; PSet (iP k fActReq) max32; PSet (iP k fSt) stInactive;
                       PSet (iP k fInInactive) 1; PSet (iP k fInActive) 0;
                       PAdd (iP k fPenalty) (p_emergency_penalty P); PSet (iP k fInEmergency) 1]
                      [PSet (iP k fInactiveSince) 0; PSet (iP k fActReq) max32; PSet (iP k fSt) stActive;
                       PSet (iP k fInActive) 1; PSet (iP k fInInactive) 0;
                       PSubSat (iP k fPenalty) (p_emergency_penalty P); PSet (iP k fInEmergency) 0] in
        (if get s (iP k fInActive) =? 1 then [c] else []) ++ (if get s (iP k fInInactive) =? 1 then [c] else [])
    | TActivate k =>
        (* activateProducer *)
        if exists_prod s k then [DChg [PSet (iP k fActReq) h] [PSet (iP k fActReq) max32]] else []
    | TIllegal k =>
        (* processIllegalEvidence, by the map the producer is in *)
        let pi := p_illegal_penalty P in
        let ori := get s (iP k fSt) in
        let oriPen := get s (iP k fPenalty) in
        let oriIll := get s (iP k fIllegalH) in
        if get s (iP k fInActive) =? 1 then
          [DChg [PSet (iP k fSt) stIllegal; PSet (iP k fIllegalH) h; PSet (iP k fInIllegal) 1; PSet (iP k fActReq) max32;
                 PAdd (iP k fPenalty) pi; PSet (iP k fInActive) 0]
                [PSet (iP k fSt) ori; PSet (iP k fPenalty) oriPen; PSet (iP k fIllegalH) oriIll; PSet (iP k fInActive) 1;
                 PSet (iP k fActReq) max32; PSet (iP k fInIllegal) 0]]
        else if get s (iP k fInInactive) =? 1 then
          [DChg [PSet (iP k fSt) stIllegal; PSet (iP k fIllegalH) h; PSet (iP k fInIllegal) 1; PSet (iP k fActReq) max32;
                 PAdd (iP k fPenalty) pi; PSet (iP k fInInactive) 0]
                [PSet (iP k fSt) ori; PSet (iP k fPenalty) oriPen; PSet (iP k fIllegalH) oriIll; PSet (iP k fInInactive) 1;
                 PSet (iP k fActReq) max32; PSet (iP k fInIllegal) 0]]
        else if get s (iP k fInIllegal) =? 1 then
          [DChg [PSet (iP k fIllegalH) h; PSet (iP k fActReq) max32; PAdd (iP k fPenalty) pi]
                [PSet (iP k fPenalty) oriPen; PSet (iP k fIllegalH) oriIll; PSet (iP k fActReq) max32]]
        else if get s (iP k fInCanceled) =? 1 then
          [DChg [PSet (iP k fSt) stIllegal; PSet (iP k fIllegalH) h; PSet (iP k fInIllegal) 1;
                 PAdd (iP k fPenalty) pi; PSet (iP k fInCanceled) 0]
                [PSet (iP k fSt) ori; PSet (iP k fIllegalH) 0; PSet (iP k fPenalty) oriPen; PSet (iP k fInCanceled) 1;
                 PSet (iP k fInIllegal) 0]]
        else []
    end.

  (* processTransactions, at the end: back to DPOS at the work height *)
  Definition revert_dpos_changes (s : vec) (h : Z) : list dchg :=
    if negb (get s (iWork P) =? 0) && (get s (iWork P) <=? h) && (get s (iCA P) =? 1)
    then [DChg [PSet (iCA P) 0] [PSet (iCA P) 1]] else [].

  Definition slots : list nat := seq 0 (pK P).

  (* processTransactions: pending producers with 6 confirmations become active *)
  Definition activation_changes (s : vec) (h : Z) : list dchg :=
    flat_map (fun k =>
      if (get s (iP k fInPending) =? 1) && (activate_duration <=? h - get s (iP k fReg) + 1)
      then [DChg [PSet (iP k fSt) stActive; PSet (iP k fInActive) 1; PSet (iP k fInPending) 0]
                 [PSet (iP k fSt) stPending; PSet (iP k fInPending) 1; PSet (iP k fInActive) 0]]
      else []) slots ++
    flat_map (fun k =>
      if (get s (iP k fInInactive) =? 1) && (get s (iP k fActReq) <? h) &&
         (activate_duration <=? h - get s (iP k fActReq) + 1)
      then [DChg [PSet (iP k fSt) stActive; PSet (iP k fInActive) 1; PSet (iP k fInInactive) 0]
                 [PSet (iP k fSt) stInactive; PSet (iP k fInInactive) 1; PSet (iP k fInActive) 0]]
      else []) slots.

  (* updateProducersDepositCoin *)
  Definition lockup_changes (s : vec) (h : Z) : list dchg :=
    flat_map (fun k =>
      if (get s (iP k fInCanceled) =? 1) && (h - get s (iP k fCancel) =? p_lockup P)
      then [DChg [PAdd (iP k fDepAmt) (- min_deposit)] [PSet (iP k fDepAmt) (get s (iP k fDepAmt))]]
      else []) slots.

  (* recordLastBlockTime *)
  Definition ts_changes (s : vec) (t : Z) : list dchg :=
    [DChg [PSet (iTs P) t] [PSet (iTs P) (get s (iTs P))]].

  (* tryUpdateLastIrreversibleHeight; the distance is a uint32 subtraction *)
  Definition lih_changes (s : vec) (h : Z) : list dchg :=
    if h <? p_revert_start P then []
    else if get s (iLih P) =? 0 then
      [DChg [PSet (iLih P) (h - irreversible_height); PSet (iDst P) (h - irreversible_height)]
            [PSet (iLih P) (get s (iLih P)); PSet (iDst P) (get s (iDst P))]]
    else if get s (iCA P) =? 0 then
      (if negb (get s (iWork P) =? 0) && (h =? get s (iWork P) + 1)
       then [DChg [PSet (iDst P) h] [PSet (iDst P) (get s (iDst P))]] else []) ++
      (if irreversible_height <=? (h - get s (iDst P)) mod 4294967296
       then [DChg [PLih (iLih P) (iDst P)] [PSet (iDst P) (get s (iDst P)); PSet (iLih P) (get s (iLih P))]]
       else [])
    else [].

  (* State.ProcessBlock: the changes a block appends, all computed from the
     state before the block *)
  Definition block_changes (s : vec) (b : block) : list dchg :=
    flat_map (tx_changes s (b_height b)) (b_txs b) ++
    activation_changes s (b_height b) ++ revert_dpos_changes s (b_height b) ++
    lockup_changes s (b_height b) ++
    ts_changes s (b_time b) ++ lih_changes s (b_height b).

  Definition mstate := (history vec * vec)%type.

  Definition block_ops (s : vec) (b : block) : list (op vec) :=
    map (fun c => OAppend (Z.to_N (b_height b)) (interp c)) (block_changes s b) ++
    [OCommit (Z.to_N (b_height b))].

  (* ProcessBlock = Append ... Append, Commit on the history *)
  Definition process_block (ms : option mstate) (b : block) : option mstate :=
    match ms with
    | Some st => run (block_ops (snd st) b) st
    | None => None
    end.

  Definition process_all (bs : list block) (st : mstate) : option mstate :=
    fold_left process_block bs (Some st).

  Definition init_state : vec := repeat 0 (vlen P).
  Definition init : mstate := (new_history (p_cap P), init_state).

  (* State.RollbackTo *)
  Definition rollback (k : Z) (ms : option mstate) : option mstate :=
    match ms with
    | Some st => match rollback_to (Z.to_N k) st with ROk st' => Some st' | RErr st' => Some st' | RPanic => None end
    | None => None
    end.

  (* ---- change discipline, as a computable check on the pre-block state ----
     For every coordinate j of the state, looking at all do lists D and all
     undo lists U of the block (in order), one of:
     (A) nothing targets j;
     (C) the last primitive of U that targets j assigns the pre-block value;
     (B) everything that targets j is an addition and the additions of D and U
         sum to zero;
     (B') j is targeted by exactly one addition p >= 0 in D and exactly one
         saturating subtraction of p in U, and the pre-block value is >= 0. *)
  Definition prim_target (p : prim) : list nat :=
    match p with
    | PSet i _ => [i] | PAdd i _ => [i] | PSubSat i _ => [i] | PRet i _ _ _ => [i] | PLih a b => [a; b]
    end.

  Definition targets (j : nat) (p : prim) : bool := existsb (Nat.eqb j) (prim_target p).

  Definition all_dos (cs : list dchg) : list prim := flat_map d_do cs.
  Definition all_undos (cs : list dchg) : list prim := flat_map d_undo cs.

  Fixpoint last_toucher (j : nat) (ps : list prim) : option prim :=
    match ps with
    | [] => None
    | p :: r => match last_toucher j r with
                | Some q => Some q
                | None => if targets j p then Some p else None
                end
    end.

  Definition add_or_other (j : nat) (p : prim) : bool :=
    negb (targets j p) || match p with PAdd _ _ => true | _ => false end.

  Definition add_sum (j : nat) (ps : list prim) : Z :=
    fold_right (fun p a => match p with PAdd i d => if Nat.eqb i j then d + a else a | _ => a end) 0 ps.

  Definition coord_ok (s : vec) (cs : list dchg) (j : nat) : bool :=
    let D := all_dos cs in
    let U := all_undos cs in
    (negb (existsb (targets j) D) && negb (existsb (targets j) U))
    || match last_toucher j U with Some (PSet _ v) => v =? get s j | _ => false end
    || (forallb (add_or_other j) D && forallb (add_or_other j) U && (add_sum j D + add_sum j U =? 0))
    || match filter (targets j) D, filter (targets j) U with
       | [PAdd _ p], [PSubSat _ q] => (p =? q) && (0 <=? p) && (0 <=? get s j)
       | _, _ => false
       end.

  Definition changes_disciplined (s : vec) (cs : list dchg) : bool :=
    forallb (coord_ok s cs) (seq 0 (length s)).

  Definition block_disciplined (s : vec) (b : block) : bool :=
    changes_disciplined s (block_changes s b).

End Model.
