(* C26 model: the DPoS view-change schedule of dpos/manager/view.go.

   Mirrors, as written:
     view.calculateOffsetTimeV0        -> offset_v0
     view.calculateOffsetTimeV1        -> offset_v1 (v1_loop, slot_init, slot_loop)
     view.ChangeView / ChangeViewV1    -> cv0 / cv1 (state = view offset and the
                                           time elapsed since viewStartTime)
   Durations are int64 nanoseconds (Z); offsets are uint32 (wrap mod 2^32).
   No proofs in this file. *)
From Coq Require Import ZArith List Bool.
Import ListNotations.
Local Open Scope Z_scope.

Definition sec : Z := 1000000000.
Definition u32 (x : Z) : Z := x mod 4294967296.

Inductive res :=
| Ok (k r : Z)     (* view offset, remaining duration *)
| DivZero          (* Go: runtime panic "integer divide by zero" *)
| OutOfFuel.       (* model artefact: the loop did not finish within the fuel *)

(* ---- V0:  offset := duration / signTolerance ; offsetTime := duration % signTolerance
        return uint32(offset), offsetTime      (Go / and % truncate towards zero) *)
Definition offset_v0 (tol d : Z) : res :=
  if tol =? 0 then DivZero else Ok (u32 (Z.quot d tol)) (Z.rem d tol).

(* ChangeView: *viewOffset += offset; viewStartTime = now - offsetTime.
   State (k, r): offset and now - viewStartTime at the previous evaluation;
   dt = time since the previous evaluation. *)
Definition cv0 (tol k r dt : Z) : res :=
  match offset_v0 tol (r + dt) with
  | Ok q r' => Ok (u32 (k + q)) r'
  | e => e
  end.

(* ---- V1 *)
(* uint32(math.Pow(20, float64(j))): exact while 20^j < 2^63 (j <= 14), the
   float->uint32 conversion of amd64 goes through int64 and keeps the low 32
   bits; above 2^63 the int64 conversion yields 0x8000000000000000, low bits 0. *)
Definition pow20 (j : Z) : Z := if j <=? 14 then u32 (20 ^ j) else 0.

(* slot length used for the FIRST comparison of an evaluation *)
Definition slot_init (n k : Z) : Z :=
  if k <? n then 5 * sec
  else u32 (5 + (1 + k - n) * 3 * pow20 (k / n)) * sec.

(* slot length recomputed INSIDE the loop after currentOffset++ *)
Definition slot_loop (n k : Z) : Z :=
  if k <? n then 5 * sec
  else u32 (5 + (k - n) * 3 * pow20 (k / n)) * sec.

Fixpoint v1_loop (fuel : nat) (n k d s : Z) : res :=
  match fuel with
  | O => OutOfFuel
  | S f =>
      if s <=? d then
        let k' := u32 (k + 1) in v1_loop f n k' (d - s) (slot_loop n k')
      else Ok k d
  end.

Definition offset_v1 (fuel : nat) (n k d : Z) : res :=
  if n =? 0 then DivZero else v1_loop fuel n k d (slot_init n k).

(* ChangeViewV1: if the offset did not change nothing is written, otherwise
   *viewOffset = offset; viewStartTime = now - offsetTime. *)
Definition cv1 (fuel : nat) (n k r dt : Z) : res :=
  match offset_v1 fuel n k (r + dt) with
  | Ok k' r' => if k' =? k then Ok k (r + dt) else Ok k' r'
  | e => e
  end.

(* ---- polling schedules: dts = gaps between successive evaluations *)
Fixpoint poll (step : Z -> Z -> Z -> res) (k r : Z) (dts : list Z) : res :=
  match dts with
  | [] => Ok k r
  | dt :: rest =>
      match step k r dt with
      | Ok k' r' => poll step k' r' rest
      | e => e
      end
  end.

Definition v0_poll (tol : Z) := poll (cv0 tol).
Definition v1_poll (fuel : nat) (n : Z) := poll (cv1 fuel n).

Definition sum (l : list Z) : Z := fold_right Z.add 0 l.

(* Every evaluation of the schedule starts at an offset below the arbiter
   count, or still at the offset k0 the schedule started from. *)
Fixpoint v1_sched_ok (fuel : nat) (n k0 k r : Z) (dts : list Z) : bool :=
  match dts with
  | [] => true
  | dt :: rest =>
      ((k <? n) || (k =? k0)) &&
      match cv1 fuel n k r dt with
      | Ok k' r' => v1_sched_ok fuel n k0 k' r' rest
      | _ => false
      end
  end.

(* Every evaluation starts at an offset below the arbiter count. *)
Fixpoint v1_starts_below (fuel : nat) (n k r : Z) (dts : list Z) : bool :=
  match dts with
  | [] => true
  | dt :: rest =>
      (k <? n) &&
      match cv1 fuel n k r dt with
      | Ok k' r' => v1_starts_below fuel n k' r' rest
      | _ => false
      end
  end.

Definition res_eqb (a b : res) : bool :=
  match a, b with
  | Ok k r, Ok k' r' => (k =? k') && (r =? r')
  | DivZero, DivZero => true
  | OutOfFuel, OutOfFuel => true
  | _, _ => false
  end.
