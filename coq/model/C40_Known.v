(* C40 — hand-maintained classification of the method parts the lockset
   checker rejects on the current tree.  No proofs.
   [known_parts]: recorded findings (one line each in known_findings.jsonl,
   signature "lockset:<name>").  [allowed_parts]: exported methods that are
   lock-free on purpose (reasons in notes/C40.md); an entry counts only while
   the translator confirms its side condition (no production caller outside
   the stated place) by listing the part in Gen.allowed_ids. *)
From Coq Require Import List String NArith Bool.
Import ListNotations.
Local Open Scope string_scope.

Definition known_parts : list string := [
  "State.GetActiveProducers/escape";
  "State.GetActiveV1Producers/escape";
  "State.GetActivityV2Producers/escape";
  "State.GetAllProducers/escape";
  "State.GetCanceledProducers/escape";
  "State.GetDposV2ActiveProducers/escape";
  "State.GetDposV2Producers/escape";
  "State.GetHistory/locked";
  "State.GetIllegalProducers/escape";
  "State.GetInactiveProducers/escape";
  "State.GetPendingCanceledProducers/escape";
  "State.GetPendingProducers/escape";
  "State.GetProducer/escape";
  "State.GetProducerByOwnerPublicKey/escape";
  "State.GetProducers/escape";
  "State.GetRealWithdrawTransactions/escape";
  "State.GetReturnedDepositProducers/escape";
  "State.GetVotedProducers/escape";
  "State.GetVotesWithdrawableTxInfo/escape";
  "State.RemoveSpecialTx/locked";
  "Committee.GetAllCandidates/escape";
  "Committee.GetCRMember/escape";
  "Committee.GetCandidate/escape";
  "Committee.GetCandidateByCID/escape";
  "Committee.GetCandidateByID/escape";
  "Committee.GetCandidateByPublicKey/escape";
  "Committee.GetCandidates/escape";
  "Committee.GetCurrentMembers/escape";
  "Committee.GetCustomIDResults/escape";
  "Committee.GetMember/escape";
  "Committee.GetMemberByNodePublicKey/escape";
  "Committee.GetNextMember/escape";
  "Committee.GetNextMembers/escape";
  "Committee.GetPendingReceivedCustomIDMap/escape";
  "Committee.GetProposal/escape";
  "Committee.GetProposalByDraftHash/escape";
  "Committee.GetProposalManager/escape";
  "Committee.GetRealWithdrawTransactions/escape";
  "Committee.GetState/escape";
  "Committee.RevertUpdateCRInactivePenalty/locked";
  "Committee.TryRevertCRMemberIllegal/locked";
  "Committee.TryRevertCRMemberInactivity/locked";
  "Committee.TryUpdateCRMemberIllegal/locked";
  "Committee.TryUpdateCRMemberInactivity/locked";
  "Committee.UpdateCRInactivePenalty/locked"
].

Definition allowed_parts : list string := [
  "State.RegisterFuncitons/unlocked";
  "Committee.RegisterFuncitons/unlocked";
  "State.ProcessVoteStatisticsBlock/unlocked";
  "Committee.Snapshot/unlocked"
].

Definition mem_str (s : string) (l : list string) : bool := existsb (String.eqb s) l.

(* ids (of this run's generated table) excluded from the partial theorem *)
Definition excluded_ids (part_names : list (N * string)) (allowed_ids : list N) : list N :=
  map fst (filter (fun p => mem_str (snd p) known_parts
                            || (mem_str (snd p) allowed_parts && existsb (N.eqb (fst p)) allowed_ids))
                  part_names).
