(* C16 — executable model of the metadata side of database/ffldb (db.go,
   dbcache.go): three overlays of raw key/value pairs

     transaction  pendingKeys / pendingRemove     (treap.Mutable)
     cache        cachedKeys  / cachedRemove      (treap.Immutable)
     store        leveldb

   Each overlay is an ordered map (lib/OMap.v; C19 ties the treaps to it).
   Buckets are key prefixes: <bucket id><key>, and the bucket index
   "bidx"<parent id><name> -> <id>, ids allocated from "bidx-cbid".
   No proofs here. *)
From Coq Require Import ZArith List Bool.
From ELA Require Import lib.OMap.
Import ListNotations.
Local Open Scope Z_scope.

Definition kvs := omap val.

(* ------------------------------------------------------------- overlays *)

Definition put_all (m : kvs) (l : kvs) : kvs := fold_left (fun m e => OMap.put m (fst e) (snd e)) l m.
Definition del_all (m : kvs) (l : kvs) : kvs := fold_left (fun m e => OMap.del m (fst e)) l m.
Definition mark_all (m : kvs) (l : kvs) : kvs := fold_left (fun m e => OMap.put m (fst e) []) l m.

(* commitTreaps: every pending key is Put, then every pending removal is Deleted *)
Definition apply_layer (base keys rem : kvs) : kvs := del_all (put_all base keys) rem.

Record txn := {
  t_w : bool;                  (* writable *)
  t_store : kvs; t_ck : kvs; t_cr : kvs;   (* the snapshot taken at begin *)
  t_pk : kvs; t_pr : kvs       (* pendingKeys / pendingRemove *)
}.

Record dbs := {
  d_store : kvs; d_ck : kvs; d_cr : kvs;
  d_max : Z;                   (* cache.maxSize *)
  d_always : bool              (* flushInterval elapsed (negative interval) *)
}.

(* dbCacheSnapshot.Has / Get *)
Definition snap_get (st ck cr : kvs) (k : key) : option val :=
  if OMap.has cr k then None
  else match OMap.get ck k with
       | Some v => Some v
       | None => OMap.get st k
       end.

(* transaction.fetchKey / hasKey *)
Definition fetch (t : txn) (k : key) : option val :=
  if t_w t then
    if OMap.has (t_pr t) k then None
    else match OMap.get (t_pk t) k with
         | Some v => Some v
         | None => snap_get (t_store t) (t_ck t) (t_cr t) k
         end
  else snap_get (t_store t) (t_ck t) (t_cr t) k.

Definition has_key (t : txn) (k : key) : bool :=
  match fetch t k with Some _ => true | None => false end.

Definition with_pending (t : txn) (pk pr : kvs) : txn :=
  {| t_w := t_w t; t_store := t_store t; t_ck := t_ck t; t_cr := t_cr t; t_pk := pk; t_pr := pr |}.

(* transaction.putKey / deleteKey *)
Definition put_key (t : txn) (k : key) (v : val) : txn :=
  with_pending t (OMap.put (t_pk t) k v) (OMap.del (t_pr t) k).
Definition delete_key (t : txn) (k : key) : txn :=
  with_pending t (OMap.del (t_pk t) k) (OMap.put (t_pr t) k []).

Definition begin (d : dbs) (w : bool) : txn :=
  {| t_w := w; t_store := d_store d; t_ck := d_ck d; t_cr := d_cr d; t_pk := []; t_pr := [] |}.

(* what the transaction sees: the layers merged into one ordered map *)
Definition snap_view (st ck cr : kvs) : kvs := apply_layer st ck cr.
Definition view (t : txn) : kvs :=
  if t_w t then apply_layer (snap_view (t_store t) (t_ck t) (t_cr t)) (t_pk t) (t_pr t)
  else snap_view (t_store t) (t_ck t) (t_cr t).
Definition db_view (d : dbs) : kvs := snap_view (d_store d) (d_ck d) (d_cr d).

(* treap sizes (C19_size): 72 + |key| + |value| per node *)
Definition zlen {A} (l : list A) : Z := Z.of_nat (length l).
Fixpoint treap_size (m : kvs) : Z :=
  match m with [] => 0 | (k, v) :: m' => 72 + (zlen k + zlen v) + treap_size m' end.

(* dbCache.needsFlush: sizes of the SNAPSHOT's treaps, times 1.5 *)
Definition needs_flush (d : dbs) (t : txn) : bool :=
  d_always d || (d_max d <? (3 * (treap_size (t_ck t) + treap_size (t_cr t))) / 2).

Definition with_layers (d : dbs) (st ck cr : kvs) : dbs :=
  {| d_store := st; d_ck := ck; d_cr := cr; d_max := d_max d; d_always := d_always d |}.

(* dbCache.flush *)
Definition flush (d : dbs) : dbs :=
  with_layers d (apply_layer (d_store d) (d_ck d) (d_cr d)) [] [].

(* dbCache.commitTx without flush: merge the transaction into the cache *)
Definition merge_cache (d : dbs) (t : txn) : dbs :=
  with_layers d (d_store d)
    (del_all (put_all (d_ck d) (t_pk t)) (t_pr t))
    (mark_all (del_all (d_cr d) (t_pk t)) (t_pr t)).

(* dbCache.commitTx; [fl] is the flush decision *)
Definition commit_with (fl : bool) (d : dbs) (t : txn) : dbs :=
  if fl then
    let d' := flush d in
    with_layers d' (apply_layer (d_store d') (t_pk t) (t_pr t)) (d_ck d') (d_cr d')
  else merge_cache d t.

(* ------------------------------------------------------------- bucket keys *)

Definition bidx : key := [98; 105; 100; 120].                            (* "bidx" *)
Definition cbid_key : key := [98; 105; 100; 120; 45; 99; 98; 105; 100].  (* "bidx-cbid" *)
Definition meta_id : key := [0; 0; 0; 0].
Definition writeloc_key : key :=                                          (* <meta id>"ffldb-writeloc" *)
  meta_id ++ [102; 102; 108; 100; 98; 45; 119; 114; 105; 116; 101; 108; 111; 99].

Definition bucketized (id k : key) : key := id ++ k.
Definition bidx_key (parent name : key) : key := bidx ++ parent ++ name.

Definition be32_dec (b : list Z) : Z :=
  match b with
  | [a; b; c; d] => ((a * 256 + b) * 256 + c) * 256 + d
  | _ => 0
  end.
Definition be32_enc (n : Z) : list Z :=
  let n := n mod 4294967296 in
  [n / 16777216; (n / 65536) mod 256; (n / 256) mod 256; n mod 256].

(* copy(childBucket.id[:], childID) *)
Definition to_id (v : val) : key := firstn 4 (v ++ [0; 0; 0; 0]).

Fixpoint resolve (t : txn) (id : key) (path : list key) : option key :=
  match path with
  | [] => Some id
  | n :: rest =>
    match fetch t (bidx_key id n) with
    | Some v => resolve t (to_id v) rest
    | None => None
    end
  end.

Fixpoint strip_prefix (p k : key) : option key :=
  match p, k with
  | [], _ => Some k
  | x :: p', y :: k' => if x =? y then strip_prefix p' k' else None
  | _ :: _, [] => None
  end.

(* the entries of an ordered map under a prefix, prefix removed *)
Fixpoint under (p : key) (m : kvs) : kvs :=
  match m with
  | [] => []
  | (k, v) :: m' =>
    match strip_prefix p k with
    | Some k' => (k', v) :: under p m'
    | None => under p m'
    end
  end.

Definition bucket_keys (t : txn) (id : key) : kvs := under id (view t).
Definition bucket_subs (t : txn) (id : key) : kvs := under (bidx ++ id) (view t).

(* error codes as canonicalised by the harness *)
Definition E_OK := 0.
Definition E_NOT_WRITABLE := 1.
Definition E_KEY_REQUIRED := 2.
Definition E_NAME_REQUIRED := 3.
Definition E_BUCKET_EXISTS := 4.
Definition E_BUCKET_NOT_FOUND := 5.
Definition E_INCOMPATIBLE := 6.

Definition is_nil {A} (l : list A) : bool := match l with [] => true | _ => false end.

(* bucket.Put / Get / Delete *)
Definition b_put (t : txn) (id k : key) (v : val) : txn * Z :=
  if negb (t_w t) then (t, E_NOT_WRITABLE)
  else if is_nil k then (t, E_KEY_REQUIRED)
  else (put_key t (bucketized id k) v, E_OK).

Definition b_get (t : txn) (id k : key) : option val :=
  if is_nil k then None else fetch t (bucketized id k).

Definition b_delete (t : txn) (id k : key) : txn * Z :=
  if negb (t_w t) then (t, E_NOT_WRITABLE)
  else if is_nil k then (t, E_OK)
  else (delete_key t (bucketized id k), E_OK).

(* bucket.CreateBucket (the fixed id of "ffldb-blockidx" cannot be reached:
   that bucket always exists) *)
Definition b_create (t : txn) (id n : key) : txn * Z :=
  if negb (t_w t) then (t, E_NOT_WRITABLE)
  else if is_nil n then (t, E_NAME_REQUIRED)
  else if has_key t (bidx_key id n) then (t, E_BUCKET_EXISTS)
  else
    let cur := match fetch t cbid_key with Some v => be32_dec v | None => 0 end in
    let nid := be32_enc (cur + 1) in
    let t1 := put_key t cbid_key nid in
    (put_key t1 (bidx_key id n) nid, E_OK).

Definition b_create_if (t : txn) (id n : key) : txn * Z :=
  if negb (t_w t) then (t, E_NOT_WRITABLE)
  else if has_key t (bidx_key id n) then (t, E_OK)
  else b_create t id n.

(* bucket.DeleteBucket: work list of bucket ids; every visible key under the
   id and every visible index entry under "bidx"<id> is scheduled for removal *)
Fixpoint delete_rec (fuel : nat) (t : txn) (stack : list key) : txn :=
  match fuel, stack with
  | S f, id :: rest =>
    let t1 := fold_left (fun t e => delete_key t (bucketized id (fst e))) (bucket_keys t id) t in
    let subs := bucket_subs t1 id in
    let t2 := fold_left (fun t e => delete_key t (bidx_key id (fst e))) subs t1 in
    delete_rec f t2 (map (fun e => to_id (snd e)) subs ++ rest)
  | _, _ => t
  end.

Definition b_delete_bucket (t : txn) (id n : key) : txn * Z :=
  if negb (t_w t) then (t, E_NOT_WRITABLE)
  else match fetch t (bidx_key id n) with
       | None => (t, E_BUCKET_NOT_FOUND)
       | Some v =>
         let t1 := delete_rec (S (length (view t))) t [to_id v] in
         (delete_key t1 (bidx_key id n), E_OK)
       end.

(* what a full cursor shows: the keys, then the nested buckets (value nil) *)
Definition cursor_entries (t : txn) (id : key) : list (key * option val) :=
  map (fun e => (fst e, Some (snd e))) (bucket_keys t id) ++
  map (fun e => (fst e, None)) (bucket_subs t id).

Definition cursor_from (t : txn) (id sk : key) : list (key * option val) :=
  map (fun e => (fst e, Some (snd e))) (filter (fun e => kleb sk (fst e)) (bucket_keys t id)) ++
  map (fun e => (fst e, None)) (bucket_subs t id).

(* ------------------------------------------------------------- flat histories
   (the part the theorems are about: raw keys, one writer at a time, readers
   holding older snapshots, flush decisions supplied from outside) *)

Inductive fop :=
| FBegin (h : Z) (w : bool)
| FPut (h : Z) (k : key) (v : val)
| FDel (h : Z) (k : key)
| FGet (h : Z) (k : key)
| FScan (h : Z)                     (* the whole ordered view *)
| FCommit (h : Z) (fl : bool)       (* fl = the cache decides to flush *)
| FRollback (h : Z)
| FFlush.                           (* close/reopen *)

Inductive fout := OVal (o : option val) | OScan (m : kvs) | ONone.

Fixpoint tx_find {A} (l : list (Z * A)) (h : Z) : option A :=
  match l with [] => None | (h', a) :: l' => if h =? h' then Some a else tx_find l' h end.
Fixpoint tx_remove {A} (l : list (Z * A)) (h : Z) : list (Z * A) :=
  match l with [] => [] | (h', a) :: l' => if h =? h' then tx_remove l' h else (h', a) :: tx_remove l' h end.
Definition tx_set {A} (l : list (Z * A)) (h : Z) (a : A) : list (Z * A) := (h, a) :: tx_remove l h.
(* replace the state of an open handle in place *)
Fixpoint tx_update {A} (l : list (Z * A)) (h : Z) (a : A) : list (Z * A) :=
  match l with [] => [] | (h', a') :: l' => if h =? h' then (h', a) :: l' else (h', a') :: tx_update l' h a end.

Definition impl_state := (dbs * list (Z * txn))%type.

Definition impl_step (s : impl_state) (o : fop) : impl_state * fout :=
  let '(d, txs) := s in
  match o with
  | FBegin h w => ((d, tx_set txs h (begin d w)), ONone)
  | FPut h k v =>
    match tx_find txs h with
    | Some t => if t_w t then ((d, tx_update txs h (put_key t k v)), ONone) else (s, ONone)
    | None => (s, ONone)
    end
  | FDel h k =>
    match tx_find txs h with
    | Some t => if t_w t then ((d, tx_update txs h (delete_key t k)), ONone) else (s, ONone)
    | None => (s, ONone)
    end
  | FGet h k =>
    match tx_find txs h with Some t => (s, OVal (fetch t k)) | None => (s, ONone) end
  | FScan h =>
    match tx_find txs h with Some t => (s, OScan (view t)) | None => (s, ONone) end
  | FCommit h fl =>
    match tx_find txs h with
    | Some t => if t_w t then ((commit_with fl d t, tx_remove txs h), ONone)
                else ((d, tx_remove txs h), ONone)
    | None => (s, ONone)
    end
  | FRollback h => ((d, tx_remove txs h), ONone)
  | FFlush => ((flush d, txs), ONone)
  end.

(* the specification: one ordered map, transactions work on private copies *)
Definition spec_state := (kvs * list (Z * (bool * kvs)))%type.

Definition spec_step (s : spec_state) (o : fop) : spec_state * fout :=
  let '(m, txs) := s in
  match o with
  | FBegin h w => ((m, tx_set txs h (w, m)), ONone)
  | FPut h k v =>
    match tx_find txs h with
    | Some (true, tm) => ((m, tx_update txs h (true, OMap.put tm k v)), ONone)
    | _ => (s, ONone)
    end
  | FDel h k =>
    match tx_find txs h with
    | Some (true, tm) => ((m, tx_update txs h (true, OMap.del tm k)), ONone)
    | _ => (s, ONone)
    end
  | FGet h k =>
    match tx_find txs h with Some (_, tm) => (s, OVal (OMap.get tm k)) | None => (s, ONone) end
  | FScan h =>
    match tx_find txs h with Some (_, tm) => (s, OScan tm) | None => (s, ONone) end
  | FCommit h _ =>
    match tx_find txs h with
    | Some (true, tm) => ((tm, tx_remove txs h), ONone)
    | Some (false, _) => ((m, tx_remove txs h), ONone)
    | None => (s, ONone)
    end
  | FRollback h => ((m, tx_remove txs h), ONone)
  | FFlush => (s, ONone)
  end.

Fixpoint run {S} (step : S -> fop -> S * fout) (s : S) (ops : list fop) : list fout :=
  match ops with
  | [] => []
  | o :: ops' => let '(s', out) := step s o in out :: run step s' ops'
  end.

(* histories the database admits: at most one write transaction open at a
   time (db.writeLock), handles not reused while open *)
Fixpoint writers {A} (w : A -> bool) (l : list (Z * A)) : nat :=
  match l with [] => O | (_, a) :: l' => (if w a then 1 else 0) + writers w l' end%nat.

Definition open_step (open : list (Z * bool)) (o : fop) : option (list (Z * bool)) :=
  match o with
  | FBegin h w =>
    match tx_find open h with
    | Some _ => None
    | None => if w && (0 <? Z.of_nat (writers (fun b : bool => b) open)) then None
              else Some ((h, w) :: open)
    end
  | FCommit h _ | FRollback h => Some (tx_remove open h)
  | FFlush => if is_nil open then Some open else None     (* Close waits for every transaction *)
  | _ => Some open
  end.

Fixpoint admissible (open : list (Z * bool)) (ops : list fop) : bool :=
  match ops with
  | [] => true
  | o :: r => match open_step open o with Some open' => admissible open' r | None => false end
  end.

(* the same history with every flush decision cleared *)
Definition clear_flush (o : fop) : fop := match o with FCommit h _ => FCommit h false | o => o end.

Definition impl_init (m : kvs) : impl_state :=
  ({| d_store := m; d_ck := []; d_cr := []; d_max := 0; d_always := false |}, []).
Definition spec_init (m : kvs) : spec_state := (m, []).

(* ------------------------------------------------------------- the merged cursor
   (db.go cursor.First/Last/Next/Prev, chooseIterator, skipPendingUpdates):
   one iterator over the snapshot [db], one over the pending keys [pend];
   snapshot keys that are pending or removed are skipped.  Sub-iterators are
   positions in sorted key lists (exhausted = None, and an exhausted
   sub-iterator is only ever re-positioned by First/Last). *)

Inductive cstep := CFirst | CLast | CNext | CPrev.

Definition knext (l : list key) (p : option key) : option key :=
  match p with Some k => find (fun y => kltb k y) l | None => None end.
Definition kprev (l : list key) (p : option key) : option key :=
  match p with Some k => find (fun y => kltb y k) (rev l) | None => None end.

Record mcur := { mc_db : option key; mc_pend : option key; mc_cur : option bool (* Some true = db *) }.

Section Cursor.
  Variables (db pend : list key) (skip : key -> bool).

  Fixpoint skip_loop (fuel : nat) (fwd : bool) (p : option key) : option key :=
    match fuel, p with
    | S f, Some k => if skip k then skip_loop f fwd (if fwd then knext db p else kprev db p) else p
    | _, _ => p
    end.

  Definition choose (fwd : bool) (d p : option key) : mcur :=
    let d := skip_loop (S (length db)) fwd d in
    match d, p with
    | None, None => {| mc_db := d; mc_pend := p; mc_cur := None |}
    | Some _, None => {| mc_db := d; mc_pend := p; mc_cur := Some true |}
    | None, Some _ => {| mc_db := d; mc_pend := p; mc_cur := Some false |}
    | Some a, Some b =>
      let c := kcmp a b in
      let pick_pend := match c with Gt => fwd | Lt => negb fwd | Eq => false end in
      {| mc_db := d; mc_pend := p; mc_cur := Some (negb pick_pend) |}
    end.

  Definition cur_step (c : mcur) (s : cstep) : mcur :=
    match s with
    | CFirst => choose true (hd_error db) (hd_error pend)
    | CLast => choose false (hd_error (rev db)) (hd_error (rev pend))
    | CNext =>
      match mc_cur c with
      | None => c
      | Some true => choose true (knext db (mc_db c)) (mc_pend c)
      | Some false => choose true (mc_db c) (knext pend (mc_pend c))
      end
    | CPrev =>
      match mc_cur c with
      | None => c
      | Some true => choose false (kprev db (mc_db c)) (mc_pend c)
      | Some false => choose false (mc_db c) (kprev pend (mc_pend c))
      end
    end.

  Definition cur_key (c : mcur) : option key :=
    match mc_cur c with Some true => mc_db c | Some false => mc_pend c | None => None end.

  Definition cur_init : mcur := {| mc_db := None; mc_pend := None; mc_cur := None |}.

  (* keys the cursor reports along a step sequence *)
  Fixpoint cur_run (c : mcur) (ss : list cstep) : list (option key) :=
    match ss with [] => [] | s :: r => let c' := cur_step c s in cur_key c' :: cur_run c' r end.
End Cursor.

(* what an ordered map predicts: a position in the sorted merged key list *)
Fixpoint spec_run (m : list key) (p : option key) (ss : list cstep) : list (option key) :=
  match ss with
  | [] => []
  | s :: r =>
    let p' := match s with
              | CFirst => hd_error m
              | CLast => hd_error (rev m)
              | CNext => knext m p
              | CPrev => kprev m p
              end in
    p' :: spec_run m p' r
  end.

(* a step sequence that never reverses: First Next* or Last Prev* *)
Definition monotone (ss : list cstep) : bool :=
  match ss with
  | CFirst :: r => forallb (fun s => match s with CNext => true | _ => false end) r
  | CLast :: r => forallb (fun s => match s with CPrev => true | _ => false end) r
  | _ => false
  end.

(* configurations over a small key universe: which keys are in the snapshot,
   pending, removed (a removed key is never pending: deleteKey/putKey keep the
   two treaps disjoint) *)
Definition sub_keys (u : list key) (mask : Z) : list key :=
  map snd (filter (fun ik => Z.testbit mask (fst ik)) (combine (map Z.of_nat (seq 0 (length u))) u)).

Definition okey_eqb (a b : option key) : bool :=
  match a, b with Some x, Some y => keqb x y | None, None => true | _, _ => false end.
Fixpoint olist_eqb (a b : list (option key)) : bool :=
  match a, b with
  | [], [] => true
  | x :: a', y :: b' => okey_eqb x y && olist_eqb a' b'
  | _, _ => false
  end.

Definition cursor_agrees (u : list key) (md mp mr : Z) (ss : list cstep) : bool :=
  let dbk := sub_keys u md in
  let pk := sub_keys u mp in
  let rk := sub_keys u (Z.land mr (Z.lnot mp)) in
  let mem (l : list key) (k : key) := existsb (keqb k) l in
  let skip k := mem rk k || mem pk k in
  let merged := filter (fun k => mem pk k || (mem dbk k && negb (mem rk k))) u in
  olist_eqb (cur_run dbk pk skip cur_init ss) (spec_run merged None ss).

(* all configurations over the universe [u], both maximal monotone walks *)
Definition zrange (n : Z) : list Z := map Z.of_nat (seq 0 (Z.to_nat n)).
Definition sweep_monotone (u : list key) : bool :=
  let n := 2 ^ Z.of_nat (length u) in
  let fwd := CFirst :: repeat CNext (S (length u)) in
  let bwd := CLast :: repeat CPrev (S (length u)) in
  forallb (fun md => forallb (fun mp => forallb (fun mr =>
    cursor_agrees u md mp mr fwd && cursor_agrees u md mp mr bwd) (zrange n)) (zrange n)) (zrange n).
