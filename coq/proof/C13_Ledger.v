(* C13: disconnecting a block exactly undoes connecting it. *)
From Coq Require Import List ZArith NArith Bool Lia.
From ELA Require Import model.Ledger proof.Ledger_base proof.Ledger_unspent proof.C06_Ledger.
Import ListNotations.
Local Open Scope N_scope.

(* ---------------------------------------------------------------- key/value buckets *)
Lemma set_all_spec ks : forall (m : N -> bool) v k,
  set_all m ks v k = if existsb (N.eqb k) ks then v else m k.
Proof.
  induction ks as [|a r IH]; intros m v k; simpl; [reflexivity|].
  unfold set_all in *. simpl. rewrite IH. unfold upd.
  destruct (existsb (N.eqb k) r); [now rewrite orb_true_r|]. rewrite orb_false_r. reflexivity.
Qed.

Definition block_tx3_saved (b : block) : list N := flat_map tx3_saved (b_txs b).
Definition block_tx3_rolled (c : cfg) (b : block) : list N := flat_map (tx3_rolled c) (b_txs b).
Definition block_retdep (b : block) : list N := flat_map retdep_hashes (b_txs b).
Definition block_draft_keys (b : block) : list N := map fst (flat_map drafts (b_txs b)).

Lemma save_tx3 b : forall s k, s_tx3 (save_processors s b) k = set_all (s_tx3 s) (block_tx3_saved b) true k.
Proof.
  unfold save_processors, block_tx3_saved. generalize (b_txs b). intros txs.
  induction txs as [|t r IH]; intros s k; simpl; [reflexivity|].
  rewrite IH. simpl. unfold set_all. now rewrite fold_left_app.
Qed.
Lemma rollback_tx3 cf b : forall s k, s_tx3 (rollback_processors cf s b) k = set_all (s_tx3 s) (block_tx3_rolled cf b) false k.
Proof.
  unfold rollback_processors, block_tx3_rolled. generalize (b_txs b). intros txs.
  induction txs as [|t r IH]; intros s k; simpl; [reflexivity|].
  rewrite IH. simpl. unfold set_all. now rewrite fold_left_app.
Qed.

Lemma tx3_rolled_fixed t : tx3_rolled cfg_fixed t = tx3_saved t.
Proof. unfold tx3_rolled, tx3_saved. destruct (t_side t); try reflexivity. simpl. now rewrite andb_true_r. Qed.
Lemma block_tx3_rolled_fixed b : block_tx3_rolled cfg_fixed b = block_tx3_saved b.
Proof.
  unfold block_tx3_rolled, block_tx3_saved. induction (b_txs b) as [|t r IH]; simpl; [reflexivity|].
  now rewrite tx3_rolled_fixed, IH.
Qed.

Lemma retdep_connect_spec b : forall m k, retdep_connect m b k = set_all m (block_retdep b) true k.
Proof.
  unfold retdep_connect, block_retdep. generalize (b_txs b). intros txs.
  induction txs as [|t r IH]; intros m k; simpl; [reflexivity|]. rewrite IH. unfold set_all. now rewrite fold_left_app.
Qed.
Lemma retdep_disconnect_spec b : forall m k, retdep_disconnect m b k = set_all m (block_retdep b) false k.
Proof.
  unfold retdep_disconnect, block_retdep. generalize (b_txs b). intros txs.
  induction txs as [|t r IH]; intros m k; simpl; [reflexivity|]. rewrite IH. unfold set_all. now rewrite fold_left_app.
Qed.

Definition put_drafts (m : N -> option N) (ds : list (N * N)) := fold_left (fun m '(k, d) => upd m k (Some d)) ds m.
Definition del_drafts (m : N -> option N) (ds : list (N * N)) := fold_left (fun (m : N -> option N) '(k, _) => upd m k None) ds m.

Lemma save_draft b : forall s k, s_draft (save_processors s b) k = put_drafts (s_draft s) (flat_map drafts (b_txs b)) k.
Proof.
  unfold save_processors. generalize (b_txs b). intros txs.
  induction txs as [|t r IH]; intros s k; simpl; [reflexivity|]. rewrite IH. simpl. unfold put_drafts. now rewrite fold_left_app.
Qed.
Lemma rollback_draft cf b : forall s k, s_draft (rollback_processors cf s b) k = del_drafts (s_draft s) (flat_map drafts (b_txs b)) k.
Proof.
  unfold rollback_processors. generalize (b_txs b). intros txs.
  induction txs as [|t r IH]; intros s k; simpl; [reflexivity|]. rewrite IH. simpl. unfold del_drafts. now rewrite fold_left_app.
Qed.

Lemma put_drafts_other ds : forall m k, ~ In k (map fst ds) -> put_drafts m ds k = m k.
Proof.
  induction ds as [|[a d] r IH]; intros m k H; simpl; [reflexivity|]. simpl in H.
  unfold put_drafts in *. simpl. rewrite IH by tauto. apply upd_other. intro; apply H; left; congruence.
Qed.
Lemma del_drafts_spec ds : forall m k, del_drafts m ds k = if existsb (N.eqb k) (map fst ds) then None else m k.
Proof.
  induction ds as [|[a d] r IH]; intros m k; simpl; [reflexivity|].
  unfold del_drafts in *. simpl. rewrite IH. unfold upd.
  destruct (existsb (N.eqb k) (map fst r)); [now rewrite orb_true_r|]. rewrite orb_false_r. reflexivity.
Qed.

Lemma existsb_eqb_in k l : existsb (N.eqb k) l = true <-> In k l.
Proof.
  rewrite existsb_exists. split; [intros [x [H E]]; apply N.eqb_eq in E; now subst|intros H; exists k; split; [exact H|apply N.eqb_refl]].
Qed.

(* ---------------------------------------------------------------- tx index values *)
Lemma txidx_connect_other txs (h : N) : forall (m : N -> option (N * tx)) t, ~ In t (ids txs) ->
  fold_left (fun m x => upd m (t_id x) (Some (h, x))) txs m t = m t.
Proof.
  induction txs as [|x r IH]; intros m t H; simpl; [reflexivity|]. simpl in H. rewrite IH by tauto.
  apply upd_other. intro; apply H; left; congruence.
Qed.
Lemma txidx_disconnect_val txs : forall (m m' : N -> option (N * tx)),
  fold_left (fun r x => bind r (fun m : N -> option (N * tx) => match m (t_id x) with None => Err | Some _ => Ok (upd m (t_id x) None) end)) txs (Ok m) = Ok m' ->
  forall t, m' t = if existsb (N.eqb t) (ids txs) then None else m t.
Proof.
  induction txs as [|x r IH]; intros m m' H t; simpl in *.
  - inversion H; subst. reflexivity.
  - destruct (m (t_id x)) eqn:E.
    + rewrite (IH _ _ H t). unfold upd. destruct (existsb (N.eqb t) (ids r)); [now rewrite orb_true_r|]. rewrite orb_false_r. reflexivity.
    + exfalso. clear -H. induction r; simpl in H; [discriminate|auto].
Qed.

(* ---------------------------------------------------------------- the observable state *)
(* every query function except the per-address list (see notes/C13.md) *)
Record obs_eq (s2 s : state) : Prop := mkObsEq {
  oe_tip : s_tip s2 = s_tip s;
  oe_txidx : forall t, s_txidx s2 t = s_txidx s t;                               (* GetTransaction *)
  oe_unspent : forall t i, In i (s_unspent s2 t) <-> In i (s_unspent s t);       (* GetUnspent, as a set *)
  oe_unspent_nodup : forall t, NoDup (s_unspent s2 t);
  oe_tx3 : forall k, s_tx3 s2 k = s_tx3 s k;                                     (* IsTx3Exist *)
  oe_retdep : forall k, s_retdep s2 k = s_retdep s k;                            (* IsSideChainReturnDepositExist *)
  oe_draft : forall k, s_draft s2 k = s_draft s k }.                             (* GetProposalDraftDataByDraftHash *)

(* what block validation establishes about a block with respect to the ledger *)
Record valid_block (s : state) (b : block) : Prop := mkValid {
  vb_ids : NoDup (ids (b_txs b));
  vb_spends : NoDup (block_spends b);
  vb_fresh : forall t, In t (b_txs b) -> s_txidx s (t_id t) = None;                         (* IsTxHashDuplicate *)
  vb_unspent : forall op, In op (block_spends b) -> In (snd op) (s_unspent s (fst op));    (* IsDoubleSpend *)
  vb_tx3 : forall k, In k (block_tx3_saved b) -> s_tx3 s k = false;                         (* IsSidechainTxHashDuplicate *)
  vb_retdep : forall k, In k (block_retdep b) -> s_retdep s k = false;                      (* IsSidechainReturnDepositTxHashDuplicate *)
  vb_draft : forall k, In k (block_draft_keys b) -> s_draft s k = None }.

Lemma save_block_side s b s1 : save_block s b = Ok s1 ->
  (forall k, s_tx3 s1 k = s_tx3 (save_processors s b) k) /\
  (forall k, s_draft s1 k = s_draft (save_processors s b) k) /\
  (forall k, s_retdep s1 k = retdep_connect (s_retdep s) b k).
Proof.
  unfold save_block. destruct (negb (b_prev b =? s_tip s)); [discriminate|].
  destruct (save_processors_fields s b) as [_ [_ [_ [_ F5]]]].
  destruct (unspent_connect _ b); simpl; try discriminate.
  destruct (utxo_connect _ _ b); simpl; try discriminate.
  intros H. inversion H; subst. simpl. rewrite F5. auto.
Qed.
Lemma rollback_block_side cf s b s2 : rollback_block cf s b = Ok s2 ->
  (forall k, s_tx3 s2 k = s_tx3 (rollback_processors cf s b) k) /\
  (forall k, s_draft s2 k = s_draft (rollback_processors cf s b) k) /\
  (forall k, s_retdep s2 k = retdep_disconnect (s_retdep s) b k).
Proof.
  unfold rollback_block. destruct (negb (b_id b =? s_tip s)); [discriminate|].
  destruct (rollback_processors_fields cf s b) as [_ [_ [_ [_ F5]]]].
  destruct (txidx_disconnect _ b); simpl; try discriminate.
  destruct (unspent_disconnect _ b); simpl; try discriminate.
  destruct (utxo_disconnect _ _ b); simpl; try discriminate.
  intros H. inversion H; subst. simpl. rewrite F5. auto.
Qed.

Theorem disconnect_connect s c b s1 s2 :
  inv s c -> c <> [] -> valid_block s b ->
  save_block s b = Ok s1 -> rollback_block cfg_fixed s1 b = Ok s2 ->
  obs_eq s2 s.
Proof.
  intros I Hne V Hs Hr.
  assert (I1 : inv s1 (c ++ [b])).
  { eapply save_inv; eauto using (vb_ids _ _ V), (vb_spends _ _ V), (vb_fresh _ _ V), (vb_unspent _ _ V). }
  assert (I2 : inv s2 c) by (eapply rollback_inv; eauto).
  destruct (save_block_fields _ _ _ Hs) as [Hprev [_ [Ftx1 _]]].
  destruct (rollback_block_fields _ _ _ _ Hr) as [_ [Ftip2 [Ftx2 _]]].
  destruct (save_block_side _ _ _ Hs) as [S3 [Sd Sr]].
  destruct (rollback_block_side _ _ _ _ Hr) as [R3 [Rd Rr]].
  constructor.
  - congruence.
  - intros t. unfold txidx_disconnect in Ftx2. rewrite (txidx_disconnect_val _ _ _ Ftx2 t), Ftx1.
    destruct (existsb (N.eqb t) (ids (b_txs b))) eqn:E.
    + apply existsb_eqb_in in E. unfold ids in E. apply in_map_iff in E. destruct E as [x [<- Hx]].
      symmetry. now apply (vb_fresh _ _ V).
    + unfold txidx_connect. apply txidx_connect_other. intros Hin. apply existsb_eqb_in in Hin. congruence.
  - intros t i. rewrite (inv_unspent _ _ I2), (inv_unspent _ _ I). tauto.
  - apply (inv_nodup _ _ I2).
  - intros k. rewrite R3, rollback_tx3, block_tx3_rolled_fixed, set_all_spec.
    destruct (existsb (N.eqb k) (block_tx3_saved b)) eqn:E.
    + apply existsb_eqb_in in E. symmetry. now apply (vb_tx3 _ _ V).
    + rewrite S3, save_tx3, set_all_spec, E. reflexivity.
  - intros k. rewrite Rr, retdep_disconnect_spec, set_all_spec.
    destruct (existsb (N.eqb k) (block_retdep b)) eqn:E.
    + apply existsb_eqb_in in E. symmetry. now apply (vb_retdep _ _ V).
    + rewrite Sr, retdep_connect_spec, set_all_spec, E. reflexivity.
  - intros k. rewrite Rd, rollback_draft, del_drafts_spec.
    destruct (existsb (N.eqb k) (map fst (flat_map drafts (b_txs b)))) eqn:E.
    + apply existsb_eqb_in in E. symmetry. now apply (vb_draft _ _ V).
    + rewrite Sd, save_draft. apply put_drafts_other. intros Hin. apply existsb_eqb_in in Hin. congruence.
Qed.

(* a rolled-back withdrawal can be included again: its hashes are not recorded *)
Theorem rewithdraw_after_rollback s c b s1 s2 :
  inv s c -> c <> [] -> valid_block s b ->
  save_block s b = Ok s1 -> rollback_block cfg_fixed s1 b = Ok s2 ->
  (forall k, In k (block_tx3_saved b) -> s_tx3 s1 k = true /\ s_tx3 s2 k = false) /\
  (forall b', b_txs b' = b_txs b -> valid_block s2 b').
Proof.
  intros I Hne V Hs Hr. pose proof (disconnect_connect _ _ _ _ _ I Hne V Hs Hr) as O.
  destruct (save_block_side _ _ _ Hs) as [S3 _]. split.
  - intros k Hk. split.
    + rewrite S3, save_tx3, set_all_spec. apply existsb_eqb_in in Hk. now rewrite Hk.
    + rewrite (oe_tx3 _ _ O). now apply (vb_tx3 _ _ V).
  - intros b' E. constructor; unfold block_spends, block_tx3_saved, block_retdep, block_draft_keys; rewrite E.
    + apply (vb_ids _ _ V).
    + apply (vb_spends _ _ V).
    + intros t Ht. rewrite (oe_txidx _ _ O). now apply (vb_fresh _ _ V).
    + intros op Hop. apply (oe_unspent _ _ O). now apply (vb_unspent _ _ V).
    + intros k Hk. rewrite (oe_tx3 _ _ O). now apply (vb_tx3 _ _ V).
    + intros k Hk. rewrite (oe_retdep _ _ O). now apply (vb_retdep _ _ V).
    + intros k Hk. rewrite (oe_draft _ _ O). now apply (vb_draft _ _ V).
Qed.
