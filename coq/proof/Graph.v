(* Soundness and completeness of the reachability checker of lib/Graph.v with
   respect to an inductive path relation over the emitted adjacency lists. *)
From Coq Require Import List PArith Bool FMapPositive MSetPositive Lia.
From ELA Require Import lib.Graph.
Import ListNotations.

Module PS := PositiveSet.

(* the edge relation of the emitted table *)
Definition edge (g : graph) (a b : node) : Prop := exists l, In (a, l) g /\ In b l.

Inductive reachable (g : graph) : node -> node -> Prop :=
| reach_refl : forall x, reachable g x x
| reach_step : forall x y z, reachable g x y -> edge g y z -> reachable g x z.

(* explicit paths, for readers who prefer them: [path g a l b] is a walk
   a -> ... -> b whose intermediate and final nodes are l *)
Inductive path (g : graph) : node -> list node -> node -> Prop :=
| path_nil : forall x, path g x [] x
| path_cons : forall x y l z, edge g x y -> path g y l z -> path g x (y :: l) z.

Lemma reachable_trans g x y z : reachable g x y -> reachable g y z -> reachable g x z.
Proof. intros H1 H2; induction H2; eauto using reachable. Qed.

Lemma path_reachable g x l z : path g x l z -> reachable g x z.
Proof.
  induction 1 as [|x y l z He _ IH]. constructor.
  eapply reachable_trans; [|exact IH]. econstructor; [constructor|exact He].
Qed.

Lemma reachable_path g x z : reachable g x z -> exists l, path g x l z.
Proof.
  induction 1 as [x|x y z _ [l Hl] He].
  - exists []; constructor.
  - exists (l ++ [z]). clear -Hl He. induction Hl; simpl.
    + econstructor; [exact He|constructor].
    + econstructor; eauto.
Qed.

(* ---- the adjacency map agrees with the table *)

Lemma succs_add m a l x :
  succs (PositiveMap.add a l m) x = if Pos.eqb x a then l else succs m x.
Proof.
  unfold succs. destruct (Pos.eqb_spec x a) as [->|Hne].
  - now rewrite PositiveMap.gss.
  - now rewrite PositiveMap.gso.
Qed.

Lemma mk_fold_succs g : forall m a b,
  In b (succs (fold_left (fun m e => PositiveMap.add (fst e) (snd e ++ succs m (fst e)) m) g m) a)
  <-> In b (succs m a) \/ edge g a b.
Proof.
  induction g as [|[a0 l0] g IH]; intros m a b; simpl.
  - split; [auto|]. intros [H|[l [[] _]]]; exact H.
  - rewrite IH, succs_add. unfold edge; simpl.
    destruct (Pos.eqb_spec a a0) as [->|Hne].
    + rewrite in_app_iff. split.
      * intros [[H|H]|[l [H1 H2]]]; eauto 6.
      * intros [H|[l [[H1|H1] H2]]]; [auto| |eauto 6].
        inversion H1; subst; auto.
    + split.
      * intros [H|[l [H1 H2]]]; eauto 6.
      * intros [H|[l [[H1|H1] H2]]]; [auto| |eauto 6].
        inversion H1; subst; congruence.
Qed.

Lemma mk_succs g a b : In b (succs (mk g) a) <-> edge g a b.
Proof.
  unfold mk. rewrite mk_fold_succs. unfold succs at 1. rewrite PositiveMap.gempty.
  simpl; tauto.
Qed.

(* ---- the worklist search *)

Lemma go_closed m : forall fuel work seen S,
  go fuel m work seen = Some S ->
  (forall x, PS.In x seen -> forall y, In y (succs m x) -> PS.In y seen \/ In y work) ->
  (forall x, PS.In x seen \/ In x work -> PS.In x S) /\
  (forall x, PS.In x S -> forall y, In y (succs m x) -> PS.In y S).
Proof.
  induction fuel as [|k IH]; intros work seen S Hgo Hinv; simpl in Hgo; [discriminate|].
  destruct work as [|x w].
  - inversion Hgo; subst. split.
    + intros x [H|[]]; exact H.
    + intros x Hx y Hy. destruct (Hinv x Hx y Hy) as [H|[]]; exact H.
  - destruct (PS.mem x seen) eqn:Hm.
    + apply PS.mem_spec in Hm.
      destruct (IH _ _ _ Hgo) as [H1 H2].
      * intros x' Hx' y Hy. destruct (Hinv x' Hx' y Hy) as [H|[H|H]]; subst; auto.
      * split; [|exact H2]. intros z [H|[H|H]]; subst; auto.
    + destruct (IH _ _ _ Hgo) as [H1 H2].
      * intros x' Hx' y Hy. apply PS.add_spec in Hx'. destruct Hx' as [->|Hx'].
        -- right. apply in_or_app; auto.
        -- destruct (Hinv x' Hx' y Hy) as [H|[H|H]].
           ++ left. apply PS.add_spec; auto.
           ++ subst. left. apply PS.add_spec; auto.
           ++ right. apply in_or_app; auto.
      * split; [|exact H2]. intros z [H|[H|H]].
        -- apply H1. left. apply PS.add_spec; auto.
        -- subst. apply H1. left. apply PS.add_spec; auto.
        -- apply H1. right. apply in_or_app; auto.
Qed.

Lemma go_sound m (R : node -> Prop) :
  (forall x y, R x -> In y (succs m x) -> R y) ->
  forall fuel work seen S,
  go fuel m work seen = Some S ->
  (forall x, PS.In x seen \/ In x work -> R x) ->
  forall x, PS.In x S -> R x.
Proof.
  intros Hstep. induction fuel as [|k IH]; intros work seen S Hgo Hinv; simpl in Hgo; [discriminate|].
  destruct work as [|x w].
  - inversion Hgo; subst. auto.
  - destruct (PS.mem x seen) eqn:Hm.
    + eapply IH; [exact Hgo|]. intros z [H|H]; apply Hinv; simpl; auto.
    + eapply IH; [exact Hgo|]. intros z [H|H].
      * apply PS.add_spec in H. destruct H as [->|H]; apply Hinv; simpl; auto.
      * apply in_app_or in H. destruct H as [H|H].
        -- eapply Hstep; [|exact H]. apply Hinv; simpl; auto.
        -- apply Hinv; simpl; auto.
Qed.

(* completeness: the computed set contains every node reachable from a source *)
Theorem reach_set_complete g srcs S :
  reach_set g srcs = Some S ->
  forall s x, In s srcs -> reachable g s x -> PS.mem x S = true.
Proof.
  unfold reach_set. intros Hgo s x Hs Hr.
  destruct (go_closed _ _ _ _ _ Hgo) as [H1 H2].
  - intros z Hz. exfalso. revert Hz. apply PS.empty_spec.
  - apply PS.mem_spec. induction Hr as [s|s y z _ IHr He].
    + apply H1; auto.
    + eapply H2; [apply IHr, Hs|]. apply mk_succs, He.
Qed.

(* soundness: every node of the computed set is reachable from a source *)
Theorem reach_set_sound g srcs S :
  reach_set g srcs = Some S ->
  forall x, PS.mem x S = true -> exists s, In s srcs /\ reachable g s x.
Proof.
  unfold reach_set. intros Hgo x Hx. apply PS.mem_spec in Hx.
  eapply (go_sound (mk g) (fun x => exists s, In s srcs /\ reachable g s x)); [| exact Hgo | | exact Hx].
  - intros a b [s [Hs Hr]] Hb. exists s; split; [exact Hs|].
    econstructor; [exact Hr|]. apply mk_succs, Hb.
  - intros z [H|H].
    + exfalso. revert H. apply PS.empty_spec.
    + exists z; split; [exact H|constructor].
Qed.

Lemma set_of_spec l x : PS.mem x (set_of l) = true <-> In x l.
Proof.
  induction l as [|a l IH].
  - simpl. split; [discriminate|tauto].
  - change (set_of (a :: l)) with (PS.add a (set_of l)).
    rewrite PS.mem_spec, PS.add_spec, <- PS.mem_spec, IH. simpl. intuition.
Qed.

Lemma mem_edge_spec a b l : mem_edge a b l = true -> In (a, b) l.
Proof.
  unfold mem_edge. rewrite existsb_exists. intros [[x y] [Hin H]]. simpl in H.
  apply andb_prop in H. destruct H as [H1 H2].
  apply Pos.eqb_eq in H1, H2. subst. exact Hin.
Qed.

(* [reach]: no bad node is reachable from any source *)
Theorem reach_false_sound g srcs bads :
  reach g srcs bads = false ->
  forall s b, In s srcs -> In b bads -> ~ reachable g s b.
Proof.
  unfold reach. destruct (reach_set g srcs) as [S|] eqn:HS; [|discriminate].
  intros Hex s b Hs Hb Hr.
  assert (Hm := reach_set_complete _ _ _ HS _ _ Hs Hr).
  assert (existsb (fun b => PS.mem b S) bads = true) by (apply existsb_exists; eauto).
  congruence.
Qed.

Theorem reach_true_witness g srcs bads :
  reach_set g srcs <> None -> reach g srcs bads = true ->
  exists s b, In s srcs /\ In b bads /\ reachable g s b.
Proof.
  unfold reach. destruct (reach_set g srcs) as [S|] eqn:HS; [|congruence].
  intros _ Hex. apply existsb_exists in Hex. destruct Hex as [b [Hb Hm]].
  destruct (reach_set_sound _ _ _ HS _ Hm) as [s [Hs Hr]]. eauto.
Qed.

Theorem reach_ok_witness g srcs bads :
  reach_ok g srcs bads = true ->
  exists s b, In s srcs /\ In b bads /\ reachable g s b.
Proof.
  unfold reach_ok. destruct (reach_set g srcs) as [S|] eqn:HS; [|discriminate].
  intros Hex. apply existsb_exists in Hex. destruct Hex as [b [Hb Hm]].
  destruct (reach_set_sound _ _ _ HS _ Hm) as [s [Hs Hr]]. eauto.
Qed.

(* the statement used by C24/C38: every reference to a bad node made by a
   function reachable from a source is one of the allowed edges *)
Definition no_bad_reference (g : graph) (srcs bad : list node) (allowed : list (node * node)) : Prop :=
  forall s f b, In s srcs -> reachable g s f -> edge g f b -> In b bad -> In (f, b) allowed.

Theorem no_bad_reference_sound g srcs bad allowed :
  no_bad_reference_b g srcs bad allowed = true -> no_bad_reference g srcs bad allowed.
Proof.
  unfold no_bad_reference_b, no_bad_reference.
  destruct (reach_set g srcs) as [S|] eqn:HS; [|discriminate].
  intros Hall s f b Hs Hr [l [Hin Hb]] Hbad.
  rewrite forallb_forall in Hall. specialize (Hall _ Hin). simpl in Hall.
  rewrite (reach_set_complete _ _ _ HS _ _ Hs Hr) in Hall.
  rewrite forallb_forall in Hall. specialize (Hall _ Hb).
  apply orb_prop in Hall. destruct Hall as [H|H].
  - apply negb_true_iff in H. apply set_of_spec in Hbad. congruence.
  - apply mem_edge_spec, H.
Qed.

(* consequently, when nothing is allowed, no bad node is reachable at all
   (except a bad node that is itself a source) *)
Corollary no_bad_reference_no_path g srcs bad :
  no_bad_reference g srcs bad [] ->
  forall s b, In s srcs -> In b bad -> reachable g s b -> s = b.
Proof.
  intros H s b Hs Hb Hr. inversion Hr as [|x y z Hr' He]; subst; [reflexivity|].
  exfalso. exact (H s y b Hs Hr' He Hb).
Qed.
