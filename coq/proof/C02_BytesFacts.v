(* C02/C04: facts about lib/Bytes.v and lib/VarInt.v (lengths, round trips). *)
From Coq Require Import NArith List Lia Bool.
From ELA Require Import lib.Bytes lib.VarInt.
Import ListNotations.
Local Open Scope N_scope.

Lemma take_len : forall n bs h t, take n bs = Some (h, t) ->
  length h = n /\ bs = h ++ t.
Proof.
  induction n; intros bs h t H; simpl in H.
  - inversion H; subst; auto.
  - destruct bs as [|b r]; [discriminate|].
    destruct (take n r) as [[h' t']|] eqn:E; [|discriminate].
    inversion H; subst. apply IHn in E. destruct E as [E1 E2]. subst. simpl. auto.
Qed.

Lemma take_length : forall n bs h t, take n bs = Some (h, t) ->
  length bs = (n + length t)%nat.
Proof.
  intros n bs h t H. apply take_len in H. destruct H as [H1 H2]. subst.
  rewrite app_length. reflexivity.
Qed.

Lemma take_app : forall h t, take (length h) (h ++ t) = Some (h, t).
Proof.
  induction h; intros; simpl; auto. rewrite IHh. reflexivity.
Qed.

Lemma take_N_spec : forall bs n h t, take_N n bs = Some (h, t) ->
  bs = h ++ t /\ N.of_nat (length h) = n.
Proof.
  unfold take_N. induction bs as [|b r IH]; intros n h t H; cbn [take_Nf] in H.
  - destruct (n =? 0) eqn:Z; [|discriminate]. apply N.eqb_eq in Z. inversion H; subst. auto.
  - destruct (n =? 0) eqn:Z.
    + apply N.eqb_eq in Z. inversion H; subst. auto.
    + apply N.eqb_neq in Z. destruct (take_Nf r (N.pred n)) as [[h' t']|] eqn:E; [|discriminate].
      inversion H; subst. apply IH in E. destruct E as [E1 E2]. subst r. split; [reflexivity|].
      simpl length. lia.
Qed.

Lemma take_N_length : forall n bs h t, take_N n bs = Some (h, t) ->
  N.of_nat (length bs) = n + N.of_nat (length t) /\ N.of_nat (length h) = n.
Proof.
  intros n bs h t H. apply take_N_spec in H. destruct H as [E L]. subst bs.
  rewrite app_length. split; lia.
Qed.

Lemma take_N_app : forall h t, take_N (N.of_nat (length h)) (h ++ t) = Some (h, t).
Proof.
  unfold take_N. induction h as [|b h IH]; intros t.
  - simpl. destruct t; reflexivity.
  - cbn [app take_Nf]. replace (N.of_nat (length (b :: h)) =? 0) with false
      by (symmetry; apply N.eqb_neq; simpl length; lia).
    replace (N.pred (N.of_nat (length (b :: h)))) with (N.of_nat (length h)) by (simpl length; lia).
    rewrite IH. reflexivity.
Qed.

Lemma varint_dec_length : forall bs v t, varint_dec bs = Some (v, t) ->
  (length t + 1 <= length bs)%nat.
Proof.
  intros bs v t H. destruct bs as [|d r]; unfold varint_dec in H; [discriminate|].
  destruct (d =? 255).
  { destruct (take 8 r) as [[h t']|] eqn:E; [|discriminate].
    destruct (le_val h <? 4294967296); [discriminate|]. inversion H; subst.
    apply take_length in E. simpl. lia. }
  destruct (d =? 254).
  { destruct (take 4 r) as [[h t']|] eqn:E; [|discriminate].
    destruct (le_val h <? 65536); [discriminate|]. inversion H; subst.
    apply take_length in E. simpl. lia. }
  destruct (d =? 253).
  { destruct (take 2 r) as [[h t']|] eqn:E; [|discriminate].
    destruct (le_val h <? 253); [discriminate|]. inversion H; subst.
    apply take_length in E. simpl. lia. }
  inversion H; subst. simpl. lia.
Qed.

(* ---- little-endian round trip *)

Lemma le_enc_length : forall w n, length (le_enc w n) = w.
Proof. induction w; intros; simpl; auto. Qed.

Lemma pow256_S : forall w, pow256 (S w) = 256 * pow256 w.
Proof.
  intros. unfold pow256. rewrite Nnat.Nat2N.inj_succ.
  replace (8 * N.succ (N.of_nat w)) with (8 + 8 * N.of_nat w) by lia.
  rewrite N.pow_add_r. reflexivity.
Qed.

Lemma pow256_pos : forall w, 0 < pow256 w.
Proof. intros. unfold pow256. apply N.neq_0_lt_0. apply N.pow_nonzero. lia. Qed.

Lemma le_val_enc : forall w n, n < pow256 w -> le_val (le_enc w n) = n.
Proof.
  induction w; intros n H.
  - change (pow256 0) with 1 in H. simpl. lia.
  - rewrite pow256_S in H. cbn [le_enc le_val]. rewrite IHw.
    + pose proof (N.div_mod n 256). lia.
    + apply N.div_lt_upper_bound; lia.
Qed.

Lemma le_val_bound : forall bs, bytes_ok bs = true -> le_val bs < pow256 (length bs).
Proof.
  induction bs; intros H.
  - vm_compute. reflexivity.
  - simpl in H. apply andb_true_iff in H. destruct H as [Ha Hb].
    apply N.ltb_lt in Ha. specialize (IHbs Hb).
    change (length (a :: bs)) with (S (length bs)). rewrite pow256_S. cbn [le_val]. lia.
Qed.

Lemma le_enc_val : forall bs, bytes_ok bs = true -> le_enc (length bs) (le_val bs) = bs.
Proof.
  induction bs; intros H; [reflexivity|].
  simpl in H. apply andb_true_iff in H. destruct H as [Ha Hb]. apply N.ltb_lt in Ha.
  cbn [length le_enc le_val]. f_equal.
  - rewrite (N.mul_comm 256), N.mod_add by lia. apply N.mod_small; auto.
  - rewrite (N.mul_comm 256), N.div_add by lia.
    rewrite (N.div_small a 256) by auto. rewrite N.add_0_l. auto.
Qed.

Lemma bytes_ok_app : forall a b, bytes_ok (a ++ b) = bytes_ok a && bytes_ok b.
Proof. intros. unfold bytes_ok. apply forallb_app. Qed.

Lemma le_enc_ok : forall w n, bytes_ok (le_enc w n) = true.
Proof.
  induction w; intros; simpl; auto. rewrite IHw, andb_true_r.
  apply N.ltb_lt. apply N.mod_lt. lia.
Qed.

(* ---- varint round trip *)

Lemma varint_dec_enc : forall n t, n < 18446744073709551616 ->
  varint_dec (varint_enc n ++ t) = Some (n, t).
Proof.
  intros n t H. unfold varint_enc.
  destruct (n <? 253) eqn:E1.
  { apply N.ltb_lt in E1. simpl.
    replace (n =? 255) with false by (symmetry; apply N.eqb_neq; lia).
    replace (n =? 254) with false by (symmetry; apply N.eqb_neq; lia).
    replace (n =? 253) with false by (symmetry; apply N.eqb_neq; lia). reflexivity. }
  apply N.ltb_ge in E1.
  destruct (n <=? 65535) eqn:E2.
  { apply N.leb_le in E2. change ((253 :: le_enc 2 n) ++ t) with (253 :: (le_enc 2 n ++ t)).
    cbn [varint_dec]. change (253 =? 255) with false. change (253 =? 254) with false.
    change (253 =? 253) with true. cbv iota.
    pose proof (take_app (le_enc 2 n) t) as T. rewrite le_enc_length in T. rewrite T.
    rewrite le_val_enc by (change (pow256 2) with 65536; lia).
    replace (n <? 253) with false by (symmetry; apply N.ltb_ge; lia). reflexivity. }
  apply N.leb_gt in E2.
  destruct (n <=? 4294967295) eqn:E3.
  { apply N.leb_le in E3. change ((254 :: le_enc 4 n) ++ t) with (254 :: (le_enc 4 n ++ t)).
    cbn [varint_dec]. change (254 =? 255) with false. change (254 =? 254) with true. cbv iota.
    pose proof (take_app (le_enc 4 n) t) as T. rewrite le_enc_length in T. rewrite T.
    rewrite le_val_enc by (change (pow256 4) with 4294967296; lia).
    replace (n <? 65536) with false by (symmetry; apply N.ltb_ge; lia). reflexivity. }
  apply N.leb_gt in E3.
  change ((255 :: le_enc 8 n) ++ t) with (255 :: (le_enc 8 n ++ t)).
  cbn [varint_dec]. change (255 =? 255) with true. cbv iota.
  pose proof (take_app (le_enc 8 n) t) as T. rewrite le_enc_length in T. rewrite T.
  rewrite le_val_enc by (change (pow256 8) with 18446744073709551616; lia).
  replace (n <? 4294967296) with false by (symmetry; apply N.ltb_ge; lia). reflexivity.
Qed.

Lemma varint_enc_length : forall n, (1 <= length (varint_enc n))%nat.
Proof.
  intros. unfold varint_enc.
  destruct (n <? 253); [simpl; lia|]. destruct (n <=? 65535); [simpl; lia|].
  destruct (n <=? 4294967295); simpl; lia.
Qed.

(* decoded varints are below 2^64 and re-encode to the bytes read *)
Lemma varint_enc_dec : forall bs v t, bytes_ok bs = true -> varint_dec bs = Some (v, t) ->
  v < 18446744073709551616 /\ bs = varint_enc v ++ t.
Proof.
  intros bs v t Hok H. destruct bs as [|d r]; unfold varint_dec in H; [discriminate|].
  simpl in Hok. apply andb_true_iff in Hok. destruct Hok as [Hd Hr]. apply N.ltb_lt in Hd.
  assert (TK : forall w h t', take w r = Some (h, t') ->
     le_val h < pow256 w /\ le_enc w (le_val h) = h /\ r = h ++ t').
  { intros w h t' E. apply take_len in E. destruct E as [E1 E2]. subst r.
    rewrite bytes_ok_app in Hr. apply andb_true_iff in Hr. destruct Hr as [Hh _].
    subst w. split; [apply le_val_bound; auto|]. split; [apply le_enc_val; auto|reflexivity]. }
  destruct (d =? 255) eqn:D1.
  { apply N.eqb_eq in D1. subst d.
    destruct (take 8 r) as [[h t']|] eqn:E; [|discriminate].
    destruct (le_val h <? 4294967296) eqn:C; [discriminate|]. inversion H; subst.
    apply N.ltb_ge in C. destruct (TK _ _ _ E) as [B [R1 R2]].
    change (pow256 8) with 18446744073709551616 in B. split; [lia|].
    unfold varint_enc.
    replace (le_val h <? 253) with false by (symmetry; apply N.ltb_ge; lia).
    replace (le_val h <=? 65535) with false by (symmetry; apply N.leb_gt; lia).
    replace (le_val h <=? 4294967295) with false by (symmetry; apply N.leb_gt; lia).
    rewrite R1, R2. reflexivity. }
  destruct (d =? 254) eqn:D2.
  { apply N.eqb_eq in D2. subst d.
    destruct (take 4 r) as [[h t']|] eqn:E; [|discriminate].
    destruct (le_val h <? 65536) eqn:C; [discriminate|]. inversion H; subst.
    apply N.ltb_ge in C. destruct (TK _ _ _ E) as [B [R1 R2]].
    change (pow256 4) with 4294967296 in B. split; [lia|].
    unfold varint_enc.
    replace (le_val h <? 253) with false by (symmetry; apply N.ltb_ge; lia).
    replace (le_val h <=? 65535) with false by (symmetry; apply N.leb_gt; lia).
    replace (le_val h <=? 4294967295) with true by (symmetry; apply N.leb_le; lia).
    rewrite R1, R2. reflexivity. }
  destruct (d =? 253) eqn:D3.
  { apply N.eqb_eq in D3. subst d.
    destruct (take 2 r) as [[h t']|] eqn:E; [|discriminate].
    destruct (le_val h <? 253) eqn:C; [discriminate|]. inversion H; subst.
    apply N.ltb_ge in C. destruct (TK _ _ _ E) as [B [R1 R2]].
    change (pow256 2) with 65536 in B. split; [lia|].
    unfold varint_enc.
    replace (le_val h <? 253) with false by (symmetry; apply N.ltb_ge; lia).
    replace (le_val h <=? 65535) with true by (symmetry; apply N.leb_le; lia).
    rewrite R1, R2. reflexivity. }
  inversion H; subst. apply N.eqb_neq in D1, D2, D3. split; [lia|].
  unfold varint_enc. replace (v <? 253) with true by (symmetry; apply N.ltb_lt; lia). reflexivity.
Qed.

Lemma varint_enc_ok : forall n, n < 18446744073709551616 -> bytes_ok (varint_enc n) = true.
Proof.
  intros n H. unfold varint_enc.
  destruct (n <? 253) eqn:E; [apply N.ltb_lt in E; simpl; rewrite andb_true_r; apply N.ltb_lt; lia|].
  destruct (n <=? 65535); [simpl; apply le_enc_ok with (w := 2%nat)|].
  destruct (n <=? 4294967295); [simpl; apply le_enc_ok with (w := 4%nat)|].
  simpl. apply le_enc_ok with (w := 8%nat).
Qed.

(* ---- take_upto *)
Lemma take_upto_spec : forall bs n h t, take_upto bs n = (h, t) ->
  bs = h ++ t /\ N.of_nat (length h) <= n.
Proof.
  induction bs as [|b r IH]; intros n h t H; cbn [take_upto] in H.
  - destruct (n =? 0); inversion H; subst; split; auto; simpl; lia.
  - destruct (n =? 0) eqn:Z.
    + inversion H; subst. split; auto. simpl. lia.
    + apply N.eqb_neq in Z. destruct (take_upto r (N.pred n)) as [h' t'] eqn:E.
      inversion H; subst. apply IH in E. destruct E as [E1 E2]. subst r. split; [reflexivity|].
      simpl length. lia.
Qed.

Lemma take_upto_app : forall h t, take_upto (h ++ t) (N.of_nat (length h)) = (h, t).
Proof.
  induction h as [|b h IH]; intros t.
  - simpl. destruct t; reflexivity.
  - cbn [app take_upto]. replace (N.of_nat (length (b :: h)) =? 0) with false
      by (symmetry; apply N.eqb_neq; simpl length; lia).
    replace (N.pred (N.of_nat (length (b :: h)))) with (N.of_nat (length h)) by (simpl length; lia).
    rewrite IH. reflexivity.
Qed.
