(* C05 proofs about model/C05_Sig.v, for every choice of the oracles. *)
From Coq Require Import ZArith Bool List Lia Permutation.
From ELA Require Import model.C05_Sig.
Import ListNotations.
Local Open Scope Z_scope.

Lemma beq_eq : forall a b, beq a b = true <-> a = b.
Proof.
  induction a as [|x a IH]; destruct b as [|y b]; simpl; split; intro H; try discriminate; auto.
  - apply andb_true_iff in H as [H1 H2]. apply Z.eqb_eq in H1. apply IH in H2. congruence.
  - inversion H; subst. rewrite Z.eqb_refl. simpl. apply IH. reflexivity.
Qed.

Lemma beq_refl : forall a, beq a a = true.
Proof. intro a. apply beq_eq. reflexivity. Qed.

Lemma mem_In : forall x l, mem x l = true <-> In x l.
Proof.
  intros x l. unfold mem. rewrite existsb_exists. split.
  - intros [y [Hy He]]. apply beq_eq in He. subst. exact Hy.
  - intro H. exists x. split; [exact H | apply beq_refl].
Qed.

Lemma mem_false : forall x l, mem x l = false <-> ~ In x l.
Proof.
  intros x l. rewrite <- mem_In. destruct (mem x l); split; intro H; try discriminate; auto.
  exfalso. apply H. reflexivity.
Qed.

Lemma NoDup_map_local : forall (A B : Type) (f : A -> B) (l : list A),
  NoDup l -> (forall a b, In a l -> In b l -> f a = f b -> a = b) -> NoDup (map f l).
Proof.
  intros A B f l Hnd. induction Hnd as [|x l Hx Hnd IH]; intros Hinj; simpl; constructor.
  - intro Hin. apply in_map_iff in Hin as [y [Hy Hyl]].
    assert (y = x) by (apply Hinj; simpl; auto). subst. contradiction.
  - apply IH. intros a b Ha Hb. apply Hinj; simpl; auto.
Qed.

Section Proofs.
  Variable codehash : bytes -> bytes.
  Variable point_ok : bytes -> bool.
  Variable verify_ecdsa : bytes -> bytes -> bytes -> bool.
  Variable verify_schnorr : bytes -> bytes -> bytes -> bool.
  Variable keyhash : bytes -> bytes.

  Notation match_sig := (match_sig point_ok verify_ecdsa keyhash).
  Notation sig_loop := (sig_loop point_ok verify_ecdsa keyhash).
  Notation verify_multisig := (verify_multisig point_ok verify_ecdsa keyhash).
  Notation check_multisig := (check_multisig point_ok verify_ecdsa keyhash).
  Notation check_standard := (check_standard point_ok verify_ecdsa).
  Notation check_schnorr := (check_schnorr verify_schnorr).
  Notation check_one := (check_one codehash point_ok verify_ecdsa verify_schnorr keyhash).
  Notation run_loop := (run_loop codehash point_ok verify_ecdsa verify_schnorr keyhash).
  Notation run_programs := (run_programs codehash point_ok verify_ecdsa verify_schnorr keyhash).
  Notation check_tx_signature := (check_tx_signature codehash point_ok verify_ecdsa verify_schnorr keyhash).

  (* ------------------------------------------------------------ multisig *)

  (* k is the first key script of [keys] whose key verifies signature [s] *)
  Fixpoint first_in (data s k : bytes) (keys : list bytes) : Prop :=
    match keys with
    | [] => False
    | a :: rest =>
      (verify_ecdsa (tl a) data s = true /\ k = a) \/
      (verify_ecdsa (tl a) data s = false /\ first_in data s k rest)
    end.

  Lemma first_in_verifies : forall data s k keys,
    first_in data s k keys -> In k keys /\ verify_ecdsa (tl k) data s = true.
  Proof.
    induction keys as [|a rest IH]; simpl; [tauto|].
    intros [[Hv ->]|[_ H]]; [auto|]. apply IH in H as [? ?]. auto.
  Qed.

  (* two first matches with the same 33-byte key are the same script entry *)
  Lemma first_in_inj : forall data keys s s' k k',
    first_in data s k keys -> first_in data s' k' keys -> tl k = tl k' -> k = k'.
  Proof.
    induction keys as [|a rest IH]; simpl; [tauto|].
    intros s s' k k' [[Hv ->]|[Hv H]] [[Hv' ->]|[Hv' H']] Ht; auto.
    - apply first_in_verifies in H' as [_ H']. rewrite <- Ht, Hv' in H'. discriminate.
    - apply first_in_verifies in H as [_ H]. rewrite Ht, Hv in H. discriminate.
    - eapply IH; eauto.
  Qed.

  Lemma match_sig_spec : forall data s keys v v',
    match_sig data s keys v = Some v' ->
    v' = v \/ exists k, first_in data s k keys /\ ~ In (keyhash k) v /\ v' = keyhash k :: v.
  Proof.
    induction keys as [|a rest IH]; simpl; intros v v' H.
    - inversion H. auto.
    - destruct (point_ok (tl a)); simpl in H; [|discriminate].
      destruct (verify_ecdsa (tl a) data s) eqn:Hv.
      + destruct (mem (keyhash a) v) eqn:Hm; [discriminate|]. inversion H; subst.
        right. exists a. split; [left; auto|]. split; [apply mem_false; exact Hm | reflexivity].
      + apply IH in H as [->|[k [Hf [Hn ->]]]]; [auto|]. right. exists k. split; [right; auto|auto].
  Qed.

  (* ghost invariant of the signature loop: the verified set is the image of
     a list [ks] of first-matching script entries *)
  Definition inv (data : bytes) (keys : list bytes) (sigs : list bytes) (ks : list bytes) (v : list bytes) : Prop :=
    v = map keyhash ks /\ NoDup v /\
    forall k, In k ks -> exists s, In s sigs /\ first_in data (tl s) k keys.

  Lemma sig_loop_inv : forall data keys all ss v v' ks,
    incl ss all ->
    sig_loop data ss keys v = Some v' -> inv data keys all ks v ->
    exists ks', inv data keys all ks' v'.
  Proof.
    induction ss as [|s ss IH]; simpl; intros v v' ks Hincl H Hinv.
    - inversion H; subst. eauto.
    - destruct (match_sig data (tl s) keys v) as [v1|] eqn:Hm; [|discriminate].
      assert (Hincl' : incl ss all) by (intros x Hx; apply Hincl; simpl; auto).
      apply match_sig_spec in Hm as [->|[k [Hf [Hn ->]]]].
      + eapply IH; eauto.
      + eapply (IH _ _ (k :: ks)); eauto.
        destruct Hinv as [Hv [Hnd Hall]]. subst v. split; [reflexivity|]. split.
        * simpl. constructor; assumption.
        * intros k0 [<-|Hk0]; [|auto]. exists s. split; [apply Hincl; simpl; auto | exact Hf].
  Qed.

  (* the statement for one m-of-n check: at least m script entries with
     pairwise different 33-byte keys, each with a verifying signature among
     the 65-byte chunks of the parameter *)
  Definition threshold (m : Z) (keys : list bytes) (sigs data : bytes) : Prop :=
    exists ks, NoDup (map (@tl Z) ks) /\ incl ks keys /\ m <= len ks /\
      forall k, In k ks ->
        exists s, In s (chunks (length sigs) 65 sigs) /\ verify_ecdsa (tl k) data (tl s) = true.

  Lemma multisig_threshold : forall m n keys sigs data,
    verify_multisig m n keys sigs data = true -> threshold m keys sigs data.
  Proof.
    unfold C05_Sig.verify_multisig. intros m n keys sigs data H.
    destruct (negb (len keys =? n)); [discriminate|].
    destruct (negb (len sigs mod 65 =? 0)); [discriminate|].
    destruct (len sigs / 65 <? m); [discriminate|].
    destruct (len sigs / 65 >? n); [discriminate|].
    destruct (sig_loop data (chunks (length sigs) 65 sigs) keys []) as [v|] eqn:Hl; [|discriminate].
    apply negb_true_iff, Z.ltb_ge in H.
    destruct (sig_loop_inv data keys (chunks (length sigs) 65 sigs) _ [] v [] (incl_refl _) Hl) as [ks [Hv [Hnd Hall]]].
    { split; [reflexivity|]. split; [constructor|]. intros k []. }
    exists ks. repeat split.
    - apply NoDup_map_local.
      + subst v. clear - Hnd. induction ks; simpl in *; constructor; inversion Hnd; subst; auto.
        intro Hin. apply H1. apply in_map. exact Hin.
      + intros a b Ha Hb Ht. destruct (Hall a Ha) as [s [_ Hf]]. destruct (Hall b Hb) as [s' [_ Hf']].
        eapply first_in_inj; eauto.
    - intros k Hk. destruct (Hall k Hk) as [s [_ Hf]]. apply first_in_verifies in Hf. tauto.
    - subst v. unfold len in *. rewrite map_length in H. exact H.
    - intros k Hk. destruct (Hall k Hk) as [s [Hs Hf]]. exists s. split; [exact Hs|].
      apply first_in_verifies in Hf. tauto.
  Qed.

  (* ------------------------------------------------------------ one program *)

  (* "program (code, param) proves control of the script [code] over data" *)
  Definition authorised (data code param : bytes) : Prop :=
    (is_schnorr code = true /\ verify_schnorr (skipn 2 code) data (firstn 64 param) = true) \/
    (is_standard code = true /\ len param = 65 /\
       verify_ecdsa (firstn (length code - 2) (tl code)) data (tl param) = true) \/
    (exists keys, parse_keys 174 code = Some keys /\ 1 <= byte_at code 0 - 80 /\
       threshold (byte_at code 0 - 80) keys param data).

  Lemma nthz_0 : forall c v, nthz c 0 = Some v -> byte_at c 0 = v.
  Proof. intros [|x c] v; unfold nthz, byte_at; simpl; intro H; inversion H; reflexivity. Qed.

  Lemma check_multisig_sound : forall code param data,
    check_multisig true 174 code param data = true ->
    exists keys, parse_keys 174 code = Some keys /\ 1 <= byte_at code 0 - 80 /\
       threshold (byte_at code 0 - 80) keys param data.
  Proof.
    unfold C05_Sig.check_multisig. intros code param data H.
    destruct (nthz code (len code - 2)) as [cn|]; [|discriminate].
    destruct (nthz code 0) as [c0|] eqn:H0; [|discriminate].
    apply nthz_0 in H0. subst c0. simpl in H.
    destruct ((byte_at code 0 - 81 + 1 <? 1) || (byte_at code 0 - 81 + 1 >? cn - 81 + 1)) eqn:Hm; [discriminate|].
    apply orb_false_iff in Hm as [Hm _]. apply Z.ltb_ge in Hm.
    destruct (parse_keys 174 code) as [keys|]; [|discriminate].
    exists keys. split; [reflexivity|]. split; [lia|].
    apply multisig_threshold in H. replace (byte_at code 0 - 80) with (byte_at code 0 - 81 + 1) by lia. exact H.
  Qed.

  Lemma check_one_sound : forall data h code param,
    check_one true data h code param = true -> prefix_of h <> 75 ->
    tl h = codehash code /\ authorised data code param.
  Proof.
    unfold C05_Sig.check_one. intros data h code param H Hp.
    destruct (prefix_of h =? 75) eqn:E; [apply Z.eqb_eq in E; contradiction|].
    destruct (beq (tl h) (codehash code)) eqn:Hb; simpl in H; [|discriminate].
    apply beq_eq in Hb. split; [exact Hb|].
    destruct ((prefix_of h =? 33) || (prefix_of h =? 31)).
    - destruct (is_schnorr code) eqn:Hs.
      + left. split; [exact Hs|]. unfold C05_Sig.check_schnorr in H.
        destruct (len param <? 64); [discriminate|exact H].
      + destruct (is_standard code) eqn:Hst.
        * right; left. split; [exact Hst|]. unfold C05_Sig.check_standard in H.
          destruct (len param =? 65) eqn:Hl; simpl in H; [|discriminate]. apply Z.eqb_eq in Hl.
          destruct (len code <? 2); [discriminate|].
          destruct (point_ok _); simpl in H; [|discriminate]. auto.
        * destruct (is_multisig code); simpl in H; try discriminate.
          right; right. apply check_multisig_sound. exact H.
    - destruct (prefix_of h =? 18); [|discriminate].
      right; right. apply check_multisig_sound. exact H.
  Qed.

  Definition slot_ok (data : bytes) (h : bytes) (cp : bytes * bytes) : Prop :=
    tl h = codehash (fst cp) /\ authorised data (fst cp) (snd cp).

  Lemma run_loop_sound : forall data hs ps,
    run_loop true data hs ps = true ->
    Forall2 (fun h cp => prefix_of h <> 75 -> slot_ok data h cp) hs ps.
  Proof.
    induction hs as [|h hs IH]; destruct ps as [|[c p] ps]; simpl; intro H; try discriminate; constructor.
    - apply andb_true_iff in H as [H1 _]. intro Hp. apply check_one_sound; assumption.
    - apply andb_true_iff in H as [_ H2]. apply IH. exact H2.
  Qed.

  (* run_programs_sound, Forall2 form (slot i of the hashes is answered by slot i of the programs) *)
  Lemma run_programs_sound_slots : forall data hs ps,
    run_programs true data hs ps = true ->
    Forall2 (fun h cp => prefix_of h <> 75 -> slot_ok data h cp) hs ps.
  Proof.
    unfold C05_Sig.run_programs. intros data hs ps H. apply andb_true_iff in H as [_ H].
    apply run_loop_sound. exact H.
  Qed.

  Lemma Forall2_In_l : forall (A B : Type) (R : A -> B -> Prop) l l' a,
    Forall2 R l l' -> In a l -> exists b, In b l' /\ R a b.
  Proof.
    intros A B R l l' a H. induction H as [|x y l l' Hxy H IH]; simpl; [tauto|].
    intros [<-|Ha]; [exists y; auto|]. destruct (IH Ha) as [b [Hb Hr]]. exists b. auto.
  Qed.

  Lemma run_programs_sound : forall data hs ps,
    run_programs true data hs ps = true ->
    forall h, In h hs -> prefix_of h <> 75 ->
    exists cp, In cp ps /\ tl h = codehash (fst cp) /\ authorised data (fst cp) (snd cp).
  Proof.
    intros data hs ps H h Hh Hp. apply run_programs_sound_slots in H.
    destruct (Forall2_In_l _ _ _ _ _ _ H Hh) as [cp [Hcp Hs]]. exists cp. split; [exact Hcp|]. apply Hs. exact Hp.
  Qed.

  (* ------------------------------------------------------------ transaction level *)

  Lemma insert_sorted_In : forall (A : Type) (key : A -> bytes) x y l,
    In y (insert_sorted key x l) <-> y = x \/ In y l.
  Proof.
    induction l as [|z l IH]; simpl; [intuition|].
    destruct (hash_lt (key x) (key z)); simpl; rewrite ?IH; intuition.
  Qed.

  Lemma sort_by_In : forall (A : Type) (key : A -> bytes) l y, In y (sort_by key l) <-> In y l.
  Proof.
    intros A key l y. unfold sort_by.
    assert (G : forall l acc, In y (fold_left (fun acc x => insert_sorted key x acc) l acc) <-> In y l \/ In y acc).
    { induction l0 as [|x l0 IH]; simpl; intro acc; [intuition|]. rewrite IH, insert_sorted_In. intuition. }
    rewrite G. simpl. intuition.
  Qed.

  Lemma dedup_In : forall l y, In y (dedup l) <-> In y l.
  Proof.
    induction l as [|x l IH]; simpl; intro y; [tauto|].
    destruct (mem x l) eqn:Hm.
    - rewrite IH. split; [auto|]. intros [<-|H]; [apply mem_In; exact Hm | exact H].
    - simpl. rewrite IH. tauto.
  Qed.

  Lemma script_attrs_In : forall attrs l d,
    script_attrs attrs = Some l -> In (32, d) attrs -> In d l.
  Proof.
    induction attrs as [|[u e] r IH]; simpl; intros l d H Hin; [tauto|].
    destruct (script_attrs r) as [l0|]; [|discriminate].
    destruct Hin as [Heq|Hin].
    - inversion Heq; subst. simpl in H. destruct (len d =? 21); inversion H. simpl. auto.
    - specialize (IH l0 d eq_refl Hin). destruct (u =? 32); [destruct (len e =? 21)|]; inversion H; subst; simpl; auto.
  Qed.

  Lemma check_tx_signature_sound : forall data refs attrs ps,
    check_tx_signature true data refs attrs ps = true ->
    forall h, In h refs \/ In (32, h) attrs -> prefix_of h <> 75 ->
    exists cp, In cp ps /\ tl h = codehash (fst cp) /\ authorised data (fst cp) (snd cp).
  Proof.
    unfold C05_Sig.check_tx_signature, get_tx_program_hashes. intros data refs attrs ps H h Hh Hp.
    destruct (script_attrs attrs) as [l|] eqn:Hs; [|discriminate].
    assert (Hin : In h (sort_by (fun h0 => tl h0) (dedup (refs ++ l)))).
    { apply sort_by_In, dedup_In, in_or_app. destruct Hh as [Hh|Hh]; [left; exact Hh|right].
      eapply script_attrs_In; eauto. }
    destruct (run_programs_sound _ _ _ H h Hin Hp) as [cp [Hcp Hrest]].
    exists cp. split; [|exact Hrest]. apply sort_by_In in Hcp. exact Hcp.
  Qed.


  (* boolean side-condition forms used by props/C05.v *)
  Lemma run_programs_sound_b : forall data hs ps,
    run_programs true data hs ps = true ->
    forall h, In h hs -> negb (prefix_of h =? 75) = true ->
    exists cp, In cp ps /\ tl h = codehash (fst cp) /\ authorised data (fst cp) (snd cp).
  Proof.
    intros data hs ps H h Hh Hp. eapply run_programs_sound; eauto.
    apply negb_true_iff, Z.eqb_neq in Hp. exact Hp.
  Qed.

  Lemma check_tx_signature_sound_b : forall data refs attrs ps,
    check_tx_signature true data refs attrs ps = true ->
    forall h, In h refs \/ In (32, h) attrs -> negb (prefix_of h =? 75) = true ->
    exists cp, In cp ps /\ tl h = codehash (fst cp) /\ authorised data (fst cp) (snd cp).
  Proof.
    intros data refs attrs ps H h Hh Hp. eapply check_tx_signature_sound; eauto.
    apply negb_true_iff, Z.eqb_neq in Hp. exact Hp.
  Qed.

  (* ------------------------------------------------------------ no valid signature => rejected *)

  Lemma threshold_needs_signature : forall m keys sigs data,
    1 <= m -> threshold m keys sigs data -> exists k s, verify_ecdsa k data s = true.
  Proof.
    intros m keys sigs data Hm [ks [_ [_ [Hlen Hall]]]].
    destruct ks as [|k ks]; [unfold len in Hlen; simpl in Hlen; lia|].
    destruct (Hall k (or_introl eq_refl)) as [s [_ Hv]]. eauto.
  Qed.

  Lemma authorised_needs_signature : forall data code param,
    authorised data code param ->
    (exists k s, verify_ecdsa k data s = true) \/ (exists k s, verify_schnorr k data s = true).
  Proof.
    intros data code param [[_ H]|[[_ [_ H]]|[keys [_ [Hm Ht]]]]]; [right|left|left]; eauto.
    eapply threshold_needs_signature; eauto.
  Qed.

  Lemma no_valid_signature_rejected : forall data hs ps h,
    (forall k s, verify_ecdsa k data s = false) -> (forall k s, verify_schnorr k data s = false) ->
    In h hs -> prefix_of h <> 75 -> run_programs true data hs ps = false.
  Proof.
    intros data hs ps h He Hs Hh Hp. destruct (run_programs true data hs ps) eqn:H; [|reflexivity].
    destruct (run_programs_sound _ _ _ H h Hh Hp) as [cp [_ [_ Ha]]].
    apply authorised_needs_signature in Ha as [[k [s Hv]]|[k [s Hv]]]; [rewrite He in Hv|rewrite Hs in Hv]; discriminate.
  Qed.

  (* ------------------------------------------------------------ tamper: data only matters through the oracles *)

  Section Tamper.
    Variables d d' : bytes.
    Hypothesis He : forall k s, verify_ecdsa k d s = verify_ecdsa k d' s.
    Hypothesis Hs : forall k s, verify_schnorr k d s = verify_schnorr k d' s.

    Lemma match_sig_ext : forall s keys v, match_sig d s keys v = match_sig d' s keys v.
    Proof. induction keys as [|a r IH]; simpl; intro v; [reflexivity|]. rewrite He, IH. reflexivity. Qed.

    Lemma sig_loop_ext : forall ss keys v, sig_loop d ss keys v = sig_loop d' ss keys v.
    Proof.
      induction ss as [|s ss IH]; simpl; intros keys v; [reflexivity|]. rewrite match_sig_ext.
      destruct (match_sig d' (tl s) keys v); [apply IH|reflexivity].
    Qed.

    Lemma verify_multisig_ext : forall m n keys sigs, verify_multisig m n keys sigs d = verify_multisig m n keys sigs d'.
    Proof. intros. unfold C05_Sig.verify_multisig. rewrite sig_loop_ext. reflexivity. Qed.

    Lemma check_multisig_ext : forall b last c p, check_multisig b last c p d = check_multisig b last c p d'.
    Proof.
      intros. unfold C05_Sig.check_multisig.
      destruct (nthz c (len c - 2)); [|reflexivity]. destruct (nthz c 0); [|reflexivity].
      destruct (b && _); [reflexivity|]. destruct (parse_keys last c); [|reflexivity]. apply verify_multisig_ext.
    Qed.

    Lemma check_one_ext : forall strict h c p, check_one strict d h c p = check_one strict d' h c p.
    Proof.
      intros. unfold C05_Sig.check_one, C05_Sig.check_schnorr, C05_Sig.check_standard.
      rewrite !Hs, !He, !check_multisig_ext. reflexivity.
    Qed.

    Lemma run_programs_ext : forall strict hs ps, run_programs strict d hs ps = run_programs strict d' hs ps.
    Proof.
      intros strict hs ps. unfold C05_Sig.run_programs. f_equal.
      revert ps. induction hs as [|h hs IH]; destruct ps as [|[c p] ps]; simpl; try reflexivity.
      rewrite check_one_ext, IH. reflexivity.
    Qed.
  End Tamper.

  (* ------------------------------------------------------------ the repaired gap (a) *)

  Definition junk_code : bytes := repeat 106 30.

  Lemma unknown_shape_before_fix : forall data,
    run_programs false data [33 :: codehash junk_code] [(junk_code, [])] = true.
  Proof.
    intro data. unfold C05_Sig.run_programs, C05_Sig.run_loop, C05_Sig.check_one. simpl tl.
    rewrite beq_refl. reflexivity.
  Qed.

  Lemma unknown_shape_after_fix : forall data,
    run_programs true data [33 :: codehash junk_code] [(junk_code, [])] = false.
  Proof.
    intro data. unfold C05_Sig.run_programs, C05_Sig.run_loop, C05_Sig.check_one. simpl tl.
    rewrite beq_refl. reflexivity.
  Qed.
End Proofs.

(* ---------------------------------------------------------------- gap (b): CrossChain prefix *)

(* A concrete oracle in which exactly one key verifies exactly one signature. *)
Definition wkey : bytes := 2 :: repeat 7 32.
Definition wsig : bytes := repeat 9 64.
Definition w_codehash (c : bytes) : bytes := repeat 1 20.
Definition w_point_ok (_ : bytes) := true.
Definition w_ecdsa (k _d s : bytes) := beq k wkey && beq s wsig.
Definition w_schnorr (_ _ _ : bytes) := false.
Definition w_keyhash (k : bytes) := k.
Definition w_cross_code : bytes := 81 :: (33 :: wkey) ++ (33 :: wkey) ++ [82; 175].
Definition w_addr : bytes := 75 :: repeat 200 20.   (* not the hash of w_cross_code *)

Lemma crosschain_unbound_witness :
  run_programs w_codehash w_point_ok w_ecdsa w_schnorr w_keyhash true [] [w_addr] [(w_cross_code, 64 :: wsig)] = true
  /\ tl w_addr <> w_codehash w_cross_code.
Proof. split; [vm_compute; reflexivity | vm_compute; discriminate]. Qed.

(* ... and with m = 0 no signature at all is needed under that prefix *)
Definition w_cross_code0 : bytes := 80 :: (33 :: wkey) ++ (33 :: wkey) ++ [82; 175].
Lemma crosschain_m0_witness :
  run_programs w_codehash w_point_ok (fun _ _ _ => false) w_schnorr w_keyhash true [] [w_addr] [(w_cross_code0, [])] = true.
Proof. vm_compute. reflexivity. Qed.

(* non-vacuity of the soundness theorems: an accepting 2-of-3 multisig instance *)
Definition nv_k (i : Z) : bytes := 33 :: 2 :: repeat i 32.
Definition nv_code : bytes := 82 :: nv_k 1 ++ nv_k 2 ++ nv_k 3 ++ [83; 174].
Definition nv_sig (i : Z) : bytes := 64 :: repeat i 64.
Definition nv_ecdsa (k _d s : bytes) := beq (repeat (byte_at k 1) 64) s.
Definition nv_codehash (c : bytes) : bytes := firstn 20 c.

Lemma nonvacuous_accept :
  run_programs nv_codehash w_point_ok nv_ecdsa w_schnorr w_keyhash true [] [18 :: nv_codehash nv_code]
     [(nv_code, nv_sig 3 ++ nv_sig 1)] = true
  /\ run_programs nv_codehash w_point_ok nv_ecdsa w_schnorr w_keyhash true [] [18 :: nv_codehash nv_code]
     [(nv_code, nv_sig 3 ++ nv_sig 3)] = false
  /\ run_programs nv_codehash w_point_ok nv_ecdsa w_schnorr w_keyhash true [] [18 :: nv_codehash nv_code]
     [(nv_code, nv_sig 3)] = false.
Proof. vm_compute. repeat split; reflexivity. Qed.

Lemma crosschain_refuted :
  exists codehash point_ok verify_ecdsa verify_schnorr keyhash data h code param,
  run_programs codehash point_ok verify_ecdsa verify_schnorr keyhash true data [h] [(code, param)] = true /\
  tl h <> codehash code.
Proof.
  exists w_codehash, w_point_ok, w_ecdsa, w_schnorr, w_keyhash, [], w_addr, w_cross_code, (64 :: wsig).
  exact crosschain_unbound_witness.
Qed.

Lemma crosschain_m0_refuted :
  exists codehash point_ok verify_schnorr keyhash data h code,
  run_programs codehash point_ok (fun _ _ _ => false) verify_schnorr keyhash true data [h] [(code, [])] = true.
Proof.
  exists w_codehash, w_point_ok, w_schnorr, w_keyhash, [], w_addr, w_cross_code0.
  exact crosschain_m0_witness.
Qed.

(* statements with exactly the oracles they mention (tactics such as [tauto]
   make the section lemmas depend on every section variable) *)
Lemma multisig_threshold_min : forall point_ok verify_ecdsa keyhash m n keys sigs data,
  verify_multisig point_ok verify_ecdsa keyhash m n keys sigs data = true ->
  exists ks, NoDup (map (@tl Z) ks) /\ incl ks keys /\ m <= len ks /\
    forall k, In k ks ->
      exists s, In s (chunks (length sigs) 65 sigs) /\ verify_ecdsa (tl k) data (tl s) = true.
Proof.
  intros po ve kh. exact (multisig_threshold (fun x => x) po ve (fun _ _ _ => false) kh).
Qed.

(* ---------------------------------------------------------------- exemptions *)

Lemma all_exemptions_justified_spec : forall rows facts,
  all_exemptions_justified rows facts = true ->
  forall ty v, 0 <= ty < 256 -> 0 <= v < 256 -> exempt rows ty v = true -> justified facts ty v = true.
Proof.
  intros rows facts H ty v Hty Hv He. unfold all_exemptions_justified in H.
  rewrite forallb_forall in H.
  assert (Hin : forall x, 0 <= x < 256 -> In x (map Z.of_nat (seq 0 256))).
  { intros x Hx. apply in_map_iff. exists (Z.to_nat x). split; [lia|]. apply in_seq. lia. }
  specialize (H ty (Hin ty Hty)). rewrite forallb_forall in H. specialize (H v (Hin v Hv)).
  rewrite He in H. exact H.
Qed.

Lemma typed_transaction_sound :
  forall codehash point_ok verify_ecdsa verify_schnorr keyhash rows facts ty v data refs attrs ps,
  all_exemptions_justified rows facts = true -> 0 <= ty < 256 -> 0 <= v < 256 ->
  check_tx_signature_typed codehash point_ok verify_ecdsa verify_schnorr keyhash rows ty v data refs attrs ps = true ->
  justified facts ty v = true \/
  forall h, In h refs \/ In (32, h) attrs -> negb (prefix_of h =? 75) = true ->
    exists cp, In cp ps /\ tl h = codehash (fst cp) /\
               authorised verify_ecdsa verify_schnorr data (fst cp) (snd cp).
Proof.
  intros ch po ve vs kh rows facts ty v data refs attrs ps Hall Hty Hv H.
  unfold check_tx_signature_typed in H. destruct (exempt rows ty v) eqn:E.
  - left. eapply all_exemptions_justified_spec; eauto.
  - right. intros h Hh Hp. eapply check_tx_signature_sound_b; eauto.
Qed.
