(* C32 proofs about model/C32_Frozen.v *)
From Coq Require Import ZArith Bool Lia List.
From ELA Require Import model.C31_CrossChain model.C32_Frozen.
Import ListNotations.
Local Open Scope Z_scope.

Lemma mem_In x l : mem x l = true <-> In x l.
Proof.
  unfold mem. rewrite existsb_exists. split.
  - intros [y [Hy E]]. apply Z.eqb_eq in E. subst. exact Hy.
  - intros Hi. exists x. split; [exact Hi|apply Z.eqb_refl].
Qed.

Lemma mem_false x l : mem x l = false <-> ~ In x l.
Proof. rewrite <- mem_In. destruct (mem x l); split; congruence. Qed.

Lemma entry_ok_spec refs outs h e :
  entry_ok refs outs h e = true <->
  (forall ph, f_hash e = Some ph -> f_start e <= h -> ~ In ph refs /\ ~ In ph outs).
Proof.
  unfold entry_ok. destruct (f_hash e) as [ph|].
  2:{ split; [intros _ ph; discriminate|reflexivity]. }
  destruct (Z.ltb_spec h (f_start e)).
  - split; [intros _ q _ ?; lia|reflexivity].
  - rewrite andb_true_iff, !negb_true_iff, !mem_false. split.
    + intros Hn q [= <-] _. exact Hn.
    + intros Hq. apply Hq; [reflexivity|lia].
Qed.

(* complete characterisation: accepted iff no active frozen hash occurs among
   the spent outputs or the outputs, at any position *)
Theorem check_frozen_spec entries refs outs h :
  check_frozen entries refs outs h = true <->
  (forall e ph, In e entries -> f_hash e = Some ph -> f_start e <= h ->
                ~ In ph refs /\ ~ In ph outs).
Proof.
  unfold check_frozen. rewrite forallb_forall. split.
  - intros Ha e ph Hi. apply entry_ok_spec, Ha, Hi.
  - intros Ha e Hi. apply entry_ok_spec. intros ph. apply Ha, Hi.
Qed.

Theorem frozen_blocks_spend_and_receive entries refs outs h e ph :
  In e entries -> f_hash e = Some ph -> f_start e <= h ->
  In ph refs \/ In ph outs ->
  check_frozen entries refs outs h = false.
Proof.
  intros Hi Hh Hs Hio. destruct (check_frozen entries refs outs h) eqn:E; [|reflexivity].
  destruct (proj1 (check_frozen_spec _ _ _ _) E e ph Hi Hh Hs). tauto.
Qed.

(* ---------- configuration ---------- *)

Theorem mainnet_list_forced name cfg :
  is_mainnet name = true -> enforce_frozen name cfg = mainnet_frozen.
Proof. intros Hm. unfold enforce_frozen. rewrite Hm. reflexivity. Qed.

Theorem other_nets_keep name cfg :
  is_mainnet name = false -> enforce_frozen name cfg = cfg.
Proof. intros Hm. unfold enforce_frozen. rewrite Hm. reflexivity. Qed.

(* a mainnet node, whatever list its local configuration carries, rejects
   every transaction that spends from or pays to the coordinated address from
   the freeze height on (given that the address decodes, which the harness
   observes on the real Sterilize) *)
Theorem mainnet_node_freezes decode name cfg refs outs h ph :
  is_mainnet name = true -> decode exploit_addr = Some ph ->
  mainnet_freeze <= h -> In ph refs \/ In ph outs ->
  node_frozen_check decode name cfg refs outs h = false.
Proof.
  intros Hm Hd Hh Hio. unfold node_frozen_check. rewrite (mainnet_list_forced _ _ Hm).
  apply (frozen_blocks_spend_and_receive _ _ _ _ (F (Some ph) mainnet_freeze) ph);
    [|reflexivity|exact Hh|exact Hio].
  cbn. rewrite Hd. left. reflexivity.
Qed.

(* ... and nothing else, and nothing before that height *)
Theorem mainnet_node_only_that decode name cfg refs outs h ph :
  is_mainnet name = true -> decode exploit_addr = Some ph ->
  (h < mainnet_freeze \/ (~ In ph refs /\ ~ In ph outs)) ->
  node_frozen_check decode name cfg refs outs h = true.
Proof.
  intros Hm Hd Hc. unfold node_frozen_check. rewrite (mainnet_list_forced _ _ Hm).
  apply check_frozen_spec. cbn. rewrite Hd.
  intros e q [<-|[]] [= <-] Hs. cbn in Hs. destruct Hc as [?|?]; [lia|assumption].
Qed.
