(* Basic lemmas about the ledger model: assoc-list local maps behave like
   functional maps, swap-and-pop removes exactly one element, write-back. *)
From Coq Require Import List ZArith NArith Bool Lia Permutation.
From ELA Require Import model.Ledger.
Import ListNotations.
Local Open Scope N_scope.

(* ---------------------------------------------------------------- upd *)
Lemma upd_same {A} (m : N -> A) k v : upd m k v k = v.
Proof. unfold upd. now rewrite N.eqb_refl. Qed.
Lemma upd_other {A} (m : N -> A) k v k' : k' <> k -> upd m k v k' = m k'.
Proof. unfold upd. intros H. destruct (N.eqb_spec k' k); congruence. Qed.

(* ---------------------------------------------------------------- assoc lists over N *)
Definition eff {A} (db : N -> A) (loc : list (N * A)) (k : N) : A :=
  match alookup N.eqb loc k with Some v => v | None => db k end.

Lemma alookup_aset {A} (l : list (N * A)) k v k' :
  alookup N.eqb (aset N.eqb l k v) k' = if k' =? k then Some v else alookup N.eqb l k'.
Proof.
  induction l as [|[a x] r IH]; simpl.
  - rewrite N.eqb_sym. destruct (N.eqb_spec k' k); reflexivity.
  - destruct (N.eqb_spec a k) as [->|Hak]; simpl.
    + rewrite N.eqb_sym. destruct (N.eqb_spec k' k); reflexivity.
    + destruct (N.eqb_spec a k') as [->|Hak'].
      * destruct (N.eqb_spec k' k); [congruence|reflexivity].
      * apply IH.
Qed.

Lemma eff_aset {A} (db : N -> A) l k v k' :
  eff db (aset N.eqb l k v) k' = if k' =? k then v else eff db l k'.
Proof. unfold eff. rewrite alookup_aset. destruct (k' =? k); reflexivity. Qed.

Lemma aset_keys_nodup {A} (l : list (N * A)) k v : NoDup (map fst l) -> NoDup (map fst (aset N.eqb l k v)).
Proof.
  induction l as [|[a x] r IH]; simpl; intros H.
  - constructor; [intros []|constructor].
  - inversion H as [|? ? Hn Hr]; subst. destruct (N.eqb_spec a k) as [->|Hak]; simpl.
    + constructor; assumption.
    + constructor; [|apply IH; assumption].
      intros Hin. apply Hn. clear -Hin Hak.
      induction r as [|[b y] r IH]; simpl in *.
      * destruct Hin as [->|[]]. congruence.
      * destruct (N.eqb_spec b k) as [->|]; simpl in *; [exact Hin|].
        destruct Hin as [->|Hin]; [now left|right; apply IH; exact Hin].
Qed.

Lemma alookup_none_notin {A} (l : list (N * A)) k : alookup N.eqb l k = None -> ~ In k (map fst l).
Proof.
  induction l as [|[a x] r IH]; simpl; intros H; [tauto|].
  destruct (N.eqb_spec a k); [discriminate|]. intros [->|Hin]; [congruence|]. now apply IH.
Qed.

(* ---------------------------------------------------------------- swap_pop *)
Lemma last_removelast_perm {A} (r : list A) d : r <> [] -> Permutation (last r d :: removelast r) r.
Proof.
  intros H. rewrite (app_removelast_last d H) at 3.
  apply Permutation_cons_append.
Qed.

Lemma swap_pop_spec l i : NoDup l ->
  NoDup (swap_pop l i) /\ forall x, In x (swap_pop l i) <-> In x l /\ x <> i.
Proof.
  induction l as [|a r IH]; simpl; intros Hnd.
  - split; [constructor|]. intros x; tauto.
  - inversion Hnd as [|? ? Hn Hr]; subst.
    destruct (N.eqb_spec a i) as [->|Hai].
    + destruct r as [|b r'].
      * split; [constructor|]. intros x; simpl. split; [tauto|]. intros [[->|[]] Hne]; congruence.
      * assert (Hp : Permutation (last (b :: r') 0 :: removelast (b :: r')) (b :: r'))
          by (apply last_removelast_perm; discriminate).
        split.
        -- eapply Permutation_NoDup; [symmetry; exact Hp|exact Hr].
        -- intros x. split.
           ++ intros Hin. assert (Hx : In x (b :: r')) by (eapply Permutation_in; [exact Hp|exact Hin]).
              split; [now right|]. intros ->. contradiction.
           ++ intros [[->|Hin] Hne]; [congruence|].
              eapply Permutation_in; [symmetry; exact Hp|exact Hin].
    + destruct (IH Hr) as [IH1 IH2]. split.
      * constructor; [|exact IH1]. intros Hin. apply IH2 in Hin. tauto.
      * intros x. simpl. rewrite IH2. split.
        -- intros [->|[H1 H2]]; [split; [now left|assumption]|split; [now right|assumption]].
        -- intros [[->|H1] H2]; [now left|right; tauto].
Qed.

(* ---------------------------------------------------------------- write-back *)
Lemma writeback_spec loc : forall db m,
  unspent_writeback db loc = Ok m -> NoDup (map fst loc) ->
  forall k, m k = eff db loc k.
Proof.
  induction loc as [|[a v] r IH]; simpl; intros db m H Hnd k.
  - inversion H; subst. reflexivity.
  - inversion Hnd as [|? ? Hn Hr]; subst. unfold eff. simpl.
    assert (Hgen : forall db', unspent_writeback db' r = Ok m -> (forall k', k' <> a -> db' k' = db k') -> db' a = v ->
               m k = if a =? k then v else match alookup N.eqb r k with Some v0 => v0 | None => db k end).
    { intros db' Hw Hoth Ha. specialize (IH db' m Hw Hr k). unfold eff in IH. rewrite IH.
      destruct (N.eqb_spec a k) as [->|Hak].
      - destruct (alookup N.eqb r k) eqn:E; [|exact Ha].
        exfalso. apply Hn. clear -E. induction r as [|[b y] r IH]; simpl in *; [discriminate|].
        destruct (N.eqb_spec b k); [now left|right; auto].
      - destruct (alookup N.eqb r k); [reflexivity|]. apply Hoth. congruence. }
    assert (Hfin : m k = if a =? k then v else match alookup N.eqb r k with Some v0 => v0 | None => db k end).
    { destruct v as [|v0 vr].
      + destruct (db a) eqn:Ea; [discriminate|]. eapply Hgen; [exact H| |apply upd_same].
        intros k' Hk'. now apply upd_other.
      + eapply Hgen; [exact H| |apply upd_same]. intros k' Hk'. now apply upd_other. }
    rewrite Hfin. destruct (a =? k); reflexivity.
Qed.

(* ---------------------------------------------------------------- idxs *)
Lemma idxs_in n i : In i (idxs n) <-> (N.to_nat i < n)%nat.
Proof.
  unfold idxs. rewrite in_map_iff. split.
  - intros [x [<- Hx]]. apply in_seq in Hx. rewrite Nat2N.id. lia.
  - intros H. exists (N.to_nat i). split; [apply N2Nat.id|apply in_seq; lia].
Qed.
Lemma idxs_nodup n : NoDup (idxs n).
Proof.
  unfold idxs. apply FinFun.Injective_map_NoDup; [|apply seq_NoDup].
  intros a b H. now apply Nat2N.inj.
Qed.
