(* C09 proofs about model/C09_Compact.v *)
From Coq Require Import ZArith Bool Lia List.
From ELA Require Import model.C09_Compact.
Local Open Scope Z_scope.

Ltac conc :=
  change (8 * (3 - 0)) with 24 in *; change (8 * (3 - 1)) with 16 in *;
  change (8 * (3 - 2)) with 8 in *; change (8 * (3 - 3)) with 0 in *;
  change (8 * (4 - 3)) with 8 in *; change (8 * (4 - 1 - 3)) with 0 in *;
  change (2 ^ 0) with 1 in *; change (2 ^ 8) with 256 in *; change (2 ^ 16) with 65536 in *;
  change (2 ^ 23) with 8388608 in *; change (2 ^ 24) with 16777216 in *;
  change (2 ^ 32) with 4294967296 in *.

Lemma pow8_pos k : 0 <= k -> 0 < 2 ^ (8 * k).
Proof. intros; apply Z.pow_pos_nonneg; lia. Qed.

(* ---------- byte length ---------- *)

Lemma bytelen_unique a k :
  0 <= k -> 2 ^ (8 * k) <= a < 2 ^ (8 * (k + 1)) -> bytelen a = k + 1.
Proof.
  intros Hk [Hlo Hhi].
  assert (Hpos : 0 < a) by (pose proof (pow8_pos k Hk); lia).
  unfold bytelen. destruct (Z.eqb_spec a 0) as [->|_]; [lia|].
  rewrite Z.abs_eq by lia.
  apply (proj1 (Z.log2_le_pow2 a (8 * k) Hpos)) in Hlo.
  apply (proj1 (Z.log2_lt_pow2 a (8 * (k + 1)) Hpos)) in Hhi.
  assert (Z.log2 a / 8 = k) as ->; [|reflexivity].
  symmetry. apply (Z.div_unique _ _ _ (Z.log2 a - 8 * k)); lia.
Qed.

Lemma bytelen_spec a :
  0 < a -> 1 <= bytelen a /\ 2 ^ (8 * (bytelen a - 1)) <= a < 2 ^ (8 * bytelen a).
Proof.
  intros Hpos. unfold bytelen. destruct (Z.eqb_spec a 0) as [->|_]; [lia|].
  rewrite Z.abs_eq by lia.
  pose proof (Z.log2_nonneg a) as Hl.
  pose proof (Z.log2_spec a Hpos) as [Hlo Hhi].
  set (q := Z.log2 a / 8).
  assert (Hq : 8 * q <= Z.log2 a < 8 * q + 8).
  { unfold q. pose proof (Z.div_mod (Z.log2 a) 8 ltac:(lia)).
    pose proof (Z.mod_pos_bound (Z.log2 a) 8 ltac:(lia)). lia. }
  assert (0 <= q) by (unfold q; apply Z.div_pos; lia).
  split; [lia|]. replace (q + 1 - 1) with q by lia. split.
  - eapply Z.le_trans; [|exact Hlo]. apply Z.pow_le_mono_r; lia.
  - eapply Z.lt_le_trans; [exact Hhi|]. apply Z.pow_le_mono_r; lia.
Qed.

(* ---------- fields of a compact value ---------- *)

Lemma fields e s m :
  0 <= m < 2^23 -> 0 <= s <= 1 ->
  mant_of (e * 2^24 + s * 2^23 + m) = m /\
  exp_of (e * 2^24 + s * 2^23 + m) = e /\
  neg_of (e * 2^24 + s * 2^23 + m) = (s =? 1).
Proof.
  intros Hm Hs. unfold mant_of, exp_of, neg_of.
  change (2^24) with 16777216. change (2^23) with 8388608.
  repeat split.
  - symmetry. apply (Z.mod_unique _ _ (2 * e + s)); lia.
  - symmetry. apply (Z.div_unique _ _ _ (s * 8388608 + m)); lia.
  - assert ((e * 16777216 + s * 8388608 + m) / 8388608 = 2 * e + s) as ->.
    { symmetry. apply (Z.div_unique _ _ _ m); lia. }
    assert ((2 * e + s) mod 2 = s) as ->; [|reflexivity].
    symmetry. apply (Z.mod_unique _ _ e); lia.
Qed.

Lemma decompose c :
  0 <= c < 2^32 ->
  c = exp_of c * 2^24 + ((c / 2^23) mod 2) * 2^23 + mant_of c /\
  0 <= mant_of c < 2^23 /\ 0 <= (c / 2^23) mod 2 <= 1 /\ 0 <= exp_of c < 256.
Proof.
  intros Hc. unfold exp_of, mant_of.
  change (2^24) with 16777216. change (2^23) with 8388608. change (2^32) with 4294967296 in Hc.
  pose proof (Z.div_mod c 8388608 ltac:(lia)).
  pose proof (Z.mod_pos_bound c 8388608 ltac:(lia)).
  pose proof (Z.div_mod (c / 8388608) 2 ltac:(lia)).
  pose proof (Z.mod_pos_bound (c / 8388608) 2 ltac:(lia)).
  assert (c / 16777216 = c / 8388608 / 2) as ->.
  { rewrite Z.div_div by lia. reflexivity. }
  assert (0 <= c / 8388608 < 512).
  { split; [apply Z.div_pos; lia|]. apply Z.div_lt_upper_bound; lia. }
  repeat split; try lia.
Qed.

Lemma u32_small x : 0 <= x < 2^32 -> u32 x = x.
Proof. intros; unfold u32; apply Z.mod_small; lia. Qed.

(* ---------- decode . encode <= id on positive targets ---------- *)

Lemma encode_pos_shape t :
  0 < t -> bytelen t <= 254 ->
  exists e m, 0 <= m < 2^23 /\ 0 <= e /\
    big_to_compact t = e * 2^24 + 0 * 2^23 + m /\
    (if e <=? 3 then m / 2 ^ (8 * (3 - e)) else m * 2 ^ (8 * (e - 3))) <= t /\
    (* loses less than one unit of the mantissa's last place *)
    t < (if e <=? 3 then m / 2 ^ (8 * (3 - e)) + 1 else (m + 1) * 2 ^ (8 * (e - 3))).
Proof.
  intros Hpos Hlen.
  destruct (bytelen_spec t Hpos) as (He1 & Hlo & Hhi).
  unfold big_to_compact.
  destruct (Z.eqb_spec t 0) as [->|_]; [lia|].
  destruct (Z.ltb_spec t 0) as [?|_]; [lia|].
  rewrite (Z.abs_eq t) by lia.
  set (e := bytelen t) in *.
  destruct (Z.leb_spec e 3) as [He3|He3].
  - (* short numbers: e in 1..3 *)
    assert (Ht24 : t < 2^24).
    { eapply Z.lt_le_trans; [exact Hhi|]. apply Z.pow_le_mono_r; lia. }
    rewrite (u32_small t) by (change (2^24) with 16777216 in Ht24; change (2^32) with 4294967296; lia).
    assert (He : e = 1 \/ e = 2 \/ e = 3) by lia.
    destruct He as [He|[He|He]]; rewrite He in *; conc.
    + (* e = 1: t in [1,255] *)
      rewrite (u32_small (t * 65536)) by (change (2^32) with 4294967296; lia).
      destruct (Z.eqb_spec ((t * 65536 / 8388608) mod 2) 1) as [Hb|Hb].
      * exists 2, (t * 65536 / 256).
        assert (t * 65536 / 256 = t * 256) as -> by (symmetry; apply (Z.div_unique _ _ _ 0); lia).
        rewrite u32_small by (change (2^32) with 4294967296; lia).
        change (2 <=? 3) with true. conc. change (2 ^ 8) with 256.
        assert (t * 256 / 256 = t) as -> by (symmetry; apply (Z.div_unique _ _ _ 0); lia).
        repeat split; try lia.
      * exists 1, (t * 65536).
        assert (Hsmall : t * 65536 < 8388608).
        { assert (t * 65536 / 8388608 = 0 \/ t * 65536 / 8388608 = 1) as [H0|H1].
          { assert (0 <= t * 65536 / 8388608 < 2); [|lia]. split; [apply Z.div_pos; lia|apply Z.div_lt_upper_bound; lia]. }
          - apply Z.div_small_iff in H0; lia.
          - rewrite H1 in Hb. change (1 mod 2) with 1 in Hb. lia. }
        rewrite u32_small by (change (2^32) with 4294967296; lia).
        change (1 <=? 3) with true. conc. change (2 ^ 16) with 65536.
        assert (t * 65536 / 65536 = t) as -> by (symmetry; apply (Z.div_unique _ _ _ 0); lia).
        repeat split; try lia.
    + (* e = 2: t in [256, 65535] *)
      rewrite (u32_small (t * 256)) by (change (2^32) with 4294967296; lia).
      destruct (Z.eqb_spec ((t * 256 / 8388608) mod 2) 1) as [Hb|Hb].
      * exists 3, (t * 256 / 256).
        assert (t * 256 / 256 = t) as -> by (symmetry; apply (Z.div_unique _ _ _ 0); lia).
        rewrite u32_small by (change (2^32) with 4294967296; lia).
        change (3 <=? 3) with true. conc. change (2 ^ 0) with 1.
        rewrite Z.div_1_r. repeat split; try lia.
      * exists 2, (t * 256).
        assert (Hsmall : t * 256 < 8388608).
        { assert (t * 256 / 8388608 = 0 \/ t * 256 / 8388608 = 1) as [H0|H1].
          { assert (0 <= t * 256 / 8388608 < 2); [|lia]. split; [apply Z.div_pos; lia|apply Z.div_lt_upper_bound; lia]. }
          - apply Z.div_small_iff in H0; lia.
          - rewrite H1 in Hb. change (1 mod 2) with 1 in Hb. lia. }
        rewrite u32_small by (change (2^32) with 4294967296; lia).
        change (2 <=? 3) with true. conc. change (2 ^ 8) with 256.
        assert (t * 256 / 256 = t) as -> by (symmetry; apply (Z.div_unique _ _ _ 0); lia).
        repeat split; try lia.
    + (* e = 3: t in [65536, 2^24) *)
      rewrite Z.mul_1_r. rewrite (u32_small t) by (change (2^32) with 4294967296; lia).
      destruct (Z.eqb_spec ((t / 8388608) mod 2) 1) as [Hb|Hb].
      * exists 4, (t / 256).
        assert (0 <= t / 256 < 65536) by (split; [apply Z.div_pos; lia|apply Z.div_lt_upper_bound; lia]).
        rewrite u32_small by (change (2^32) with 4294967296; lia).
        change (4 <=? 3) with false. conc. change (2 ^ 8) with 256.
        pose proof (Z.div_mod t 256 ltac:(lia)). pose proof (Z.mod_pos_bound t 256 ltac:(lia)).
        repeat split; try lia.
      * exists 3, t.
        assert (Hsmall : t < 8388608).
        { assert (t / 8388608 = 0 \/ t / 8388608 = 1) as [H0|H1].
          { assert (0 <= t / 8388608 < 2); [|lia]. split; [apply Z.div_pos; lia|apply Z.div_lt_upper_bound; lia]. }
          - apply Z.div_small_iff in H0; lia.
          - rewrite H1 in Hb. change (1 mod 2) with 1 in Hb. lia. }
        rewrite u32_small by (change (2^32) with 4294967296; lia).
        change (3 <=? 3) with true. conc. change (2 ^ 0) with 1.
        rewrite Z.div_1_r. repeat split; try lia.
  - (* long numbers: e >= 4 *)
    set (k := 8 * (e - 3)) in *.
    assert (Hk : 0 < 2 ^ k) by (apply Z.pow_pos_nonneg; lia).
    assert (Hsplit : 2 ^ (8 * e) = 2 ^ 24 * 2 ^ k).
    { unfold k. rewrite <- Z.pow_add_r by lia. f_equal. lia. }
    assert (Hsplit' : 2 ^ (8 * (e - 1)) = 2 ^ 16 * 2 ^ k).
    { unfold k. rewrite <- Z.pow_add_r by lia. f_equal. lia. }
    set (q := t / 2 ^ k).
    assert (Hq : 2^16 <= q < 2^24).
    { unfold q. split.
      - apply Z.div_le_lower_bound; lia.
      - apply Z.div_lt_upper_bound; lia. }
    pose proof (Z.div_mod t (2 ^ k) ltac:(lia)) as Hdm.
    pose proof (Z.mod_pos_bound t (2 ^ k) Hk) as Hmb. fold q in Hdm.
    rewrite (Z.abs_eq q) by (change (2^16) with 65536 in Hq; lia).
    change (2^16) with 65536 in Hq. change (2^24) with 16777216 in *. change (2^23) with 8388608.
    rewrite (u32_small q) by (change (2^32) with 4294967296; lia).
    destruct (Z.eqb_spec ((q / 8388608) mod 2) 1) as [Hb|Hb].
    + exists (e + 1), (q / 256).
      assert (0 <= q / 256 < 65536) by (split; [apply Z.div_pos; lia|apply Z.div_lt_upper_bound; lia]).
      rewrite u32_small by (change (2^32) with 4294967296; lia).
      destruct (Z.leb_spec (e + 1) 3); [lia|].
      replace (8 * (e + 1 - 3)) with (8 + k) by (unfold k; lia).
      rewrite Z.pow_add_r by lia. change (2 ^ 8) with 256.
      pose proof (Z.div_mod q 256 ltac:(lia)). pose proof (Z.mod_pos_bound q 256 ltac:(lia)).
      repeat split; try lia; nia.
    + exists e, q.
      assert (Hsmall : q < 8388608).
      { assert (q / 8388608 = 0 \/ q / 8388608 = 1) as [H0|H1].
        { assert (0 <= q / 8388608 < 2); [|lia]. split; [apply Z.div_pos; lia|apply Z.div_lt_upper_bound; lia]. }
        - apply Z.div_small_iff in H0; lia.
        - rewrite H1 in Hb. change (1 mod 2) with 1 in Hb. lia. }
      rewrite u32_small by (change (2^32) with 4294967296; lia).
      destruct (Z.leb_spec e 3); [lia|]. fold k.
      repeat split; try lia; nia.
Qed.

Lemma decode_fields e s m :
  0 <= m < 2^23 -> 0 <= s <= 1 ->
  compact_to_big (e * 2^24 + s * 2^23 + m) =
  (if s =? 1 then -1 else 1) *
  (if e <=? 3 then m / 2 ^ (8 * (3 - e)) else m * 2 ^ (8 * (e - 3))).
Proof.
  intros Hm Hs. unfold compact_to_big.
  destruct (fields e s m Hm Hs) as (-> & -> & ->).
  destruct (s =? 1); lia.
Qed.

Lemma encode_never_larger t :
  0 < t -> t < 2 ^ 2032 -> compact_to_big (big_to_compact t) <= t.
Proof.
  intros Hpos Hub.
  assert (Hlen : bytelen t <= 254).
  { destruct (bytelen_spec t Hpos) as (He1 & Hlo & _).
    destruct (Z.le_gt_cases (bytelen t) 254) as [|Hgt]; [assumption|exfalso].
    assert (2 ^ 2032 <= 2 ^ (8 * (bytelen t - 1))) by (apply Z.pow_le_mono_r; lia). lia. }
  destruct (encode_pos_shape t Hpos Hlen) as (e & m & Hm & He & -> & Hle & _).
  clear Hub. rewrite decode_fields by lia. change (0 =? 1) with false.
  rewrite Z.mul_1_l. exact Hle.
Qed.

(* ---------- encode . decode = id on canonical encodings ---------- *)

Lemma compact_roundtrip c :
  0 <= c < 2^32 -> canonical c = true -> big_to_compact (compact_to_big c) = c.
Proof.
  intros Hc Hcan.
  destruct (decompose c Hc) as (Hdec & Hm & Hs & He).
  unfold canonical in Hcan. apply orb_true_iff in Hcan.
  destruct Hcan as [H0|Hcan]; [apply Z.eqb_eq in H0; subst c; reflexivity|].
  apply andb_true_iff in Hcan. destruct Hcan as [Hm15 Hlow]. apply Z.leb_le in Hm15.
  set (m := mant_of c) in *. set (e := exp_of c) in *. set (s := (c / 2^23) mod 2) in *.
  rewrite Hdec at 1. rewrite decode_fields by assumption.
  (* the value v > 0 and its sign *)
  set (v := if e <=? 3 then m / 2 ^ (8 * (3 - e)) else m * 2 ^ (8 * (e - 3))).
  assert (Hv : 0 < v /\
               exists e' m', big_to_compact v = e' * 2^24 + 0 * 2^23 + m' /\ e' = e /\ m' = m).
  { unfold v. destruct (Z.leb_spec e 3) as [He3|He3].
    - assert (Hcase : e = 0 \/ e = 1 \/ e = 2 \/ e = 3) by lia.
      change (2^23) with 8388608 in Hm.
      destruct Hcase as [E|[E|[E|E]]]; rewrite E in *; conc.
      + apply Z.eqb_eq in Hlow. rewrite Z.mod_small in Hlow by lia. lia.
      + apply Z.eqb_eq in Hlow.
        pose proof (Z.div_mod m 65536 ltac:(lia)) as Hdm. rewrite Hlow in Hdm.
        set (w := m / 65536) in *.
        assert (1 <= w < 128) by lia.
        split; [lia|].
        assert (Hbl : bytelen w = 1) by (apply (bytelen_unique w 0); [lia|change (2^(8*0)) with 1; change (2^(8*(0+1))) with 256; lia]).
        exists 1, m. split; [|split; reflexivity].
        unfold big_to_compact.
        destruct (Z.eqb_spec w 0); [lia|]. destruct (Z.ltb_spec w 0); [lia|].
        rewrite Hbl. change (1 <=? 3) with true. rewrite Z.abs_eq by lia.
        rewrite (u32_small w) by (change (2^32) with 4294967296; lia).
        conc. change (2^16) with 65536.
        rewrite (u32_small (w * 65536)) by (change (2^32) with 4294967296; lia).
        change (2^23) with 8388608.
        assert (w * 65536 / 8388608 = 0) as -> by (apply Z.div_small; lia).
        change (0 mod 2 =? 1) with false. cbv iota.
        rewrite u32_small by (change (2^32) with 4294967296; change (2^24) with 16777216; lia).
        change (2^24) with 16777216. lia.
      + apply Z.eqb_eq in Hlow.
        pose proof (Z.div_mod m 256 ltac:(lia)) as Hdm. rewrite Hlow in Hdm.
        set (w := m / 256) in *.
        assert (128 <= w < 32768) by lia.
        split; [lia|].
        destruct (Z.lt_ge_cases w 256) as [Hw|Hw].
        * assert (Hbl : bytelen w = 1) by (apply (bytelen_unique w 0); [lia|change (2^(8*0)) with 1; change (2^(8*(0+1))) with 256; lia]).
          exists 2, m. split; [|split; reflexivity].
          unfold big_to_compact.
          destruct (Z.eqb_spec w 0); [lia|]. destruct (Z.ltb_spec w 0); [lia|].
          rewrite Hbl. change (1 <=? 3) with true. rewrite Z.abs_eq by lia.
          rewrite (u32_small w) by (change (2^32) with 4294967296; lia).
          conc. change (2^16) with 65536.
          rewrite (u32_small (w * 65536)) by (change (2^32) with 4294967296; lia).
          change (2^23) with 8388608.
          assert (w * 65536 / 8388608 = 1) as -> by (symmetry; apply (Z.div_unique _ _ _ (w * 65536 - 8388608)); lia).
          change (1 mod 2 =? 1) with true. cbv iota. change (2^8) with 256.
          assert (w * 65536 / 256 = w * 256) as -> by (symmetry; apply (Z.div_unique _ _ _ 0); lia).
          rewrite u32_small by (change (2^32) with 4294967296; change (2^24) with 16777216; lia).
          change (2^24) with 16777216. lia.
        * assert (Hbl : bytelen w = 2) by (apply (bytelen_unique w 1); [lia|change (2^(8*1)) with 256; change (2^(8*(1+1))) with 65536; lia]).
          exists 2, m. split; [|split; reflexivity].
          unfold big_to_compact.
          destruct (Z.eqb_spec w 0); [lia|]. destruct (Z.ltb_spec w 0); [lia|].
          rewrite Hbl. change (2 <=? 3) with true. rewrite Z.abs_eq by lia.
          rewrite (u32_small w) by (change (2^32) with 4294967296; lia).
          conc. change (2^8) with 256.
          rewrite (u32_small (w * 256)) by (change (2^32) with 4294967296; lia).
          change (2^23) with 8388608.
          assert (w * 256 / 8388608 = 0) as -> by (apply Z.div_small; lia).
          change (0 mod 2 =? 1) with false. cbv iota.
          rewrite u32_small by (change (2^32) with 4294967296; change (2^24) with 16777216; lia).
          change (2^24) with 16777216. lia.
      + rewrite Z.div_1_r. split; [lia|].
        destruct (Z.lt_ge_cases m 65536) as [Hw|Hw].
        * assert (Hbl : bytelen m = 2) by (apply (bytelen_unique m 1); [lia|change (2^(8*1)) with 256; change (2^(8*(1+1))) with 65536; lia]).
          exists 3, m. split; [|split; reflexivity].
          unfold big_to_compact.
          destruct (Z.eqb_spec m 0); [lia|]. destruct (Z.ltb_spec m 0); [lia|].
          rewrite Hbl. change (2 <=? 3) with true. rewrite Z.abs_eq by lia.
          rewrite (u32_small m) by (change (2^32) with 4294967296; lia).
          conc. change (2^8) with 256.
          rewrite (u32_small (m * 256)) by (change (2^32) with 4294967296; lia).
          change (2^23) with 8388608.
          assert (m * 256 / 8388608 = 1) as -> by (symmetry; apply (Z.div_unique _ _ _ (m * 256 - 8388608)); lia).
          change (1 mod 2 =? 1) with true. cbv iota.
          assert (m * 256 / 256 = m) as -> by (symmetry; apply (Z.div_unique _ _ _ 0); lia).
          rewrite u32_small by (change (2^32) with 4294967296; change (2^24) with 16777216; lia).
          change (2^24) with 16777216. lia.
        * assert (Hbl : bytelen m = 3) by (apply (bytelen_unique m 2); [lia|change (2^(8*2)) with 65536; change (2^(8*(2+1))) with 16777216; lia]).
          exists 3, m. split; [|split; reflexivity].
          unfold big_to_compact.
          destruct (Z.eqb_spec m 0); [lia|]. destruct (Z.ltb_spec m 0); [lia|].
          rewrite Hbl. change (3 <=? 3) with true. rewrite Z.abs_eq by lia.
          rewrite (u32_small m) by (change (2^32) with 4294967296; lia).
          conc. change (2^0) with 1. rewrite Z.mul_1_r.
          rewrite (u32_small m) by (change (2^32) with 4294967296; lia).
          change (2^23) with 8388608.
          assert (m / 8388608 = 0) as -> by (apply Z.div_small; lia).
          change (0 mod 2 =? 1) with false. cbv iota.
          rewrite u32_small by (change (2^32) with 4294967296; change (2^24) with 16777216; lia).
          change (2^24) with 16777216. lia.
    - (* e >= 4 *)
      clear Hlow. change (2^23) with 8388608 in Hm.
      set (k := 8 * (e - 3)).
      assert (Hk : 0 < 2 ^ k) by (apply Z.pow_pos_nonneg; unfold k; lia).
      split; [nia|].
      destruct (Z.lt_ge_cases m 65536) as [Hw|Hw].
      + (* two-byte mantissa: byte length e - 1 *)
        assert (Hbl : bytelen (m * 2 ^ k) = e - 1).
        { replace (e - 1) with ((e - 2) + 1) by lia. apply bytelen_unique; [lia|].
          replace (8 * (e - 2)) with (8 + k) by (unfold k; lia).
          replace (8 * (e - 2 + 1)) with (16 + k) by (unfold k; lia).
          rewrite !Z.pow_add_r by (unfold k; lia). change (2^8) with 256. change (2^16) with 65536. nia. }
        exists e, m. split; [|split; reflexivity].
        unfold big_to_compact.
        destruct (Z.eqb_spec (m * 2 ^ k) 0); [nia|]. destruct (Z.ltb_spec (m * 2 ^ k) 0); [nia|].
        rewrite Hbl. rewrite Z.abs_eq by nia.
        destruct (Z.leb_spec (e - 1) 3) as [E4|E4].
        * assert (e = 4) by lia. subst k. replace e with 4 in * by lia.
          conc. change (2^8) with 256. change (2^0) with 1.
          rewrite Z.mul_1_r.
          rewrite (u32_small (m * 256)) by (change (2^32) with 4294967296; lia).
          rewrite (u32_small (m * 256)) by (change (2^32) with 4294967296; lia).
          change (2^23) with 8388608.
          assert (m * 256 / 8388608 = 1) as -> by (symmetry; apply (Z.div_unique _ _ _ (m * 256 - 8388608)); lia).
          change (1 mod 2 =? 1) with true. cbv iota.
          assert (m * 256 / 256 = m) as -> by (symmetry; apply (Z.div_unique _ _ _ 0); lia).
          rewrite u32_small by (change (2^32) with 4294967296; change (2^24) with 16777216; lia).
          change (2^24) with 16777216. lia.
        * assert (Hk' : 2 ^ k = 256 * 2 ^ (8 * (e - 1 - 3))).
          { unfold k. change 256 with (2^8). rewrite <- Z.pow_add_r by lia. f_equal. lia. }
          assert (0 < 2 ^ (8 * (e - 1 - 3))) by (apply Z.pow_pos_nonneg; lia).
          assert (m * 2 ^ k / 2 ^ (8 * (e - 1 - 3)) = m * 256) as ->.
          { rewrite Hk'. symmetry. apply (Z.div_unique _ _ _ 0); lia. }
          rewrite Z.abs_eq by lia.
          rewrite (u32_small (m * 256)) by (change (2^32) with 4294967296; lia).
          change (2^23) with 8388608.
          assert (m * 256 / 8388608 = 1) as -> by (symmetry; apply (Z.div_unique _ _ _ (m * 256 - 8388608)); lia).
          change (1 mod 2 =? 1) with true. cbv iota. change (2 ^ 8) with 256.
          assert (m * 256 / 256 = m) as -> by (symmetry; apply (Z.div_unique _ _ _ 0); lia).
          replace (e - 1 + 1) with e by lia.
          rewrite u32_small by (change (2^32) with 4294967296; change (2^24) with 16777216; lia).
          change (2^24) with 16777216. lia.
      + (* three-byte mantissa: byte length e *)
        assert (Hbl : bytelen (m * 2 ^ k) = e).
        { assert (Hgoal : bytelen (m * 2 ^ k) = (e - 1) + 1); [|rewrite Hgoal; lia].
          apply bytelen_unique; [lia|].
          replace (8 * (e - 1)) with (16 + k) by (unfold k; lia).
          replace (8 * (e - 1 + 1)) with (24 + k) by (unfold k; lia).
          rewrite !Z.pow_add_r by (unfold k; lia). change (2^24) with 16777216. change (2^16) with 65536. nia. }
        exists e, m. split; [|split; reflexivity].
        unfold big_to_compact.
        destruct (Z.eqb_spec (m * 2 ^ k) 0); [nia|]. destruct (Z.ltb_spec (m * 2 ^ k) 0); [nia|].
        rewrite Hbl.
        destruct (Z.leb_spec e 3); [lia|]. fold k.
        rewrite Z.div_mul by lia. rewrite Z.abs_eq by lia.
        rewrite (u32_small m) by (change (2^32) with 4294967296; lia).
        change (2^23) with 8388608.
        assert (m / 8388608 = 0) as -> by (apply Z.div_small; lia).
        change (0 mod 2 =? 1) with false. cbv iota.
        rewrite u32_small by (change (2^32) with 4294967296; change (2^24) with 16777216; lia).
        change (2^24) with 16777216. lia. }
  destruct Hv as (Hvpos & e' & m' & Henc & -> & ->).
  fold v.
  assert (Hs01 : s = 0 \/ s = 1) by lia.
  destruct Hs01 as [S|S]; rewrite S in *.
  - change (0 =? 1) with false. rewrite Z.mul_1_l. rewrite Henc. lia.
  - change (1 =? 1) with true. cbv iota.
    replace (-1 * v) with (- v) by lia.
    (* negative numbers: magnitude handled as above, sign bit added *)
    assert (Hneg : big_to_compact (- v) = big_to_compact v + 2^23).
    { unfold big_to_compact.
      destruct (Z.eqb_spec (- v) 0); [lia|]. destruct (Z.eqb_spec v 0); [lia|].
      destruct (Z.ltb_spec (- v) 0); [|lia]. destruct (Z.ltb_spec v 0); [lia|].
      assert (bytelen (- v) = bytelen v) as -> by (unfold bytelen; rewrite Z.abs_opp; destruct (Z.eqb_spec (-v) 0), (Z.eqb_spec v 0); lia).
      rewrite Z.abs_opp.
      destruct (Z.leb_spec (bytelen v) 3); [reflexivity|].
      (* e > 3: v is m * 2^k exactly, so the floor shift of -v is exact *)
      unfold v in *. destruct (Z.leb_spec e 3) as [He3|He3].
      - (* v < 2^24 so bytelen <= 3: contradiction *)
        exfalso.
        assert (m / 2 ^ (8 * (3 - e)) < 2 ^ 24).
        { apply Z.div_lt_upper_bound; [apply Z.pow_pos_nonneg; lia|].
          assert (0 < 2 ^ (8 * (3 - e))) by (apply Z.pow_pos_nonneg; lia).
          change (2^23) with 8388608 in Hm. change (2^24) with 16777216. nia. }
        destruct (bytelen_spec _ Hvpos) as (_ & Hlo & _).
        assert (2 ^ 24 <= 2 ^ (8 * (bytelen (m / 2 ^ (8 * (3 - e))) - 1))) by (apply Z.pow_le_mono_r; lia).
        lia.
      - (* bytelen v is e or e-1, both give exact division *)
        set (k := 8 * (e - 3)) in *. set (b := bytelen (m * 2 ^ k)) in *.
        assert (Hb : b <= e).
        { destruct (bytelen_spec _ Hvpos) as (_ & Hlo & _). fold b in Hlo.
          destruct (Z.le_gt_cases b e); [assumption|exfalso].
          assert (2 ^ (8 * e) <= 2 ^ (8 * (b - 1))) by (apply Z.pow_le_mono_r; lia).
          assert (2 ^ (8 * e) = 2^24 * 2^k) by (unfold k; rewrite <- Z.pow_add_r by lia; f_equal; lia).
          assert (0 < 2 ^ k) by (apply Z.pow_pos_nonneg; unfold k; lia).
          change (2^23) with 8388608 in Hm. change (2^24) with 16777216 in *. nia. }
        assert (Hex : 2 ^ k = 2 ^ (8 * (e - b)) * 2 ^ (8 * (b - 3))).
        { unfold k. rewrite <- Z.pow_add_r by lia. f_equal. lia. }
        assert (0 < 2 ^ (8 * (b - 3))) by (apply Z.pow_pos_nonneg; lia).
        assert (0 < 2 ^ (8 * (e - b))) by (apply Z.pow_pos_nonneg; lia).
        assert ((- (m * 2 ^ k)) / 2 ^ (8 * (b - 3)) = - (m * 2 ^ (8 * (e - b)))) as ->.
        { rewrite Hex. symmetry. apply (Z.div_unique _ _ _ 0); lia. }
        assert ((m * 2 ^ k) / 2 ^ (8 * (b - 3)) = m * 2 ^ (8 * (e - b))) as ->.
        { rewrite Hex. symmetry. apply (Z.div_unique _ _ _ 0); lia. }
        rewrite Z.abs_opp. reflexivity. }
    rewrite Hneg, Henc. lia.
Qed.

(* ---------- proof of work ---------- *)

Lemma check_pow_iff bits h limit :
  check_pow bits h limit = true <->
  0 < compact_to_big bits /\ compact_to_big bits <= limit /\ h <= compact_to_big bits.
Proof.
  unfold check_pow. rewrite !andb_true_iff, Z.ltb_lt, !Z.leb_le. tauto.
Qed.

(* ---------- retarget ---------- *)

Lemma clamp_bounds lo hi x : lo <= hi -> lo <= clamp lo hi x <= hi.
Proof.
  intros. unfold clamp. destruct (Z.ltb_spec x lo); [lia|]. destruct (Z.ltb_spec hi x); lia.
Qed.

Lemma retarget_raw_bounds ob p f T k limit :
  0 < T -> 0 < k -> 0 <= compact_to_big ob ->
  let old := compact_to_big ob in
  let r := retarget_raw ob p f T k limit in
  r <= Z.max limit 0 + 0 * r /\ (0 <= limit -> r <= limit) /\
  r <= old * k /\
  Z.min limit (old * (T / k) / T) <= r.
Proof.
  intros HT Hk Hold old r. subst r. unfold retarget_raw. fold old.
  set (adj := clamp (T / k) (T * k) (u32 (p - f))).
  assert (Hq : 0 <= T / k <= T).
  { split; [apply Z.div_pos; lia|]. apply Z.div_le_upper_bound; nia. }
  assert (Hadj : T / k <= adj <= T * k) by (apply clamp_bounds; nia).
  assert (Hup : old * adj / T <= old * k).
  { apply Z.div_le_upper_bound; [lia|]. nia. }
  assert (Hlo : old * (T / k) / T <= old * adj / T).
  { apply Z.div_le_mono; [lia|]. nia. }
  destruct (Z.ltb_spec limit (old * adj / T)); repeat split; try lia.
Qed.

Lemma retarget_div_exact old T k :
  0 < k -> 0 < T -> T mod k = 0 -> old * (T / k) / T = old / k.
Proof.
  intros Hk HT Hm.
  pose proof (Z.div_mod T k ltac:(lia)) as Hd. rewrite Hm, Z.add_0_r in Hd.
  set (q := T / k) in *. assert (0 < q) by nia.
  clearbody q. rewrite Hd. rewrite Z.div_mul_cancel_r by lia. reflexivity.
Qed.

Lemma retarget_bounds ob p f T k limit :
  0 < T -> 0 < k -> T mod k = 0 -> 0 <= compact_to_big ob -> 0 <= limit ->
  let old := compact_to_big ob in
  let r := retarget_raw ob p f T k limit in
  Z.min limit (old / k) <= r <= Z.min limit (old * k).
Proof.
  intros HT Hk Hm Hold Hlim old r.
  destruct (retarget_raw_bounds ob p f T k limit HT Hk Hold) as (_ & H1 & H2 & H3).
  fold old in H2, H3. rewrite (retarget_div_exact old T k Hk HT Hm) in H3.
  subst r. split; [lia|]. specialize (H1 Hlim). lia.
Qed.

Lemma retarget_encoded_le ob p f T k limit :
  0 < T -> 0 < k -> 0 <= compact_to_big ob -> 0 <= limit -> limit < 2 ^ 2032 ->
  compact_to_big (retarget ob p f T k limit) <= retarget_raw ob p f T k limit.
Proof.
  intros HT Hk Hold Hlim Hl2. unfold retarget.
  destruct (retarget_raw_bounds ob p f T k limit HT Hk Hold) as (_ & H1 & H2 & H3).
  specialize (H1 Hlim).
  set (r := retarget_raw ob p f T k limit) in *.
  assert (0 <= r).
  { assert (0 <= compact_to_big ob * (T / k) / T).
    { apply Z.div_pos; [|lia]. apply Z.mul_nonneg_nonneg; [lia|apply Z.div_pos; lia]. }
    lia. }
  destruct (Z.eq_dec r 0) as [->|]; [reflexivity|].
  apply encode_never_larger; lia.
Qed.

Lemma calc_work_antitone b1 b2 :
  0 < compact_to_big b1 <= compact_to_big b2 -> calc_work b2 <= calc_work b1.
Proof.
  intros [H1 H2]. unfold calc_work.
  destruct (Z.leb_spec (compact_to_big b1) 0); [lia|].
  destruct (Z.leb_spec (compact_to_big b2) 0); [lia|].
  apply Z.div_le_compat_l; [apply Z.pow_nonneg; lia|lia].
Qed.
