(* C29 proofs, part 3: one block keeps the invariant; the property lemmas. *)
From Coq Require Import ZArith Bool List Lia Permutation Sorted.
From ELA Require Import model.C29_Budget proof.C29_Budget proof.C29_Inv.
Import ListNotations.
Local Open Scope Z_scope.

Lemma nodup_app_l : forall A (a b : list A), NoDup (a ++ b) -> NoDup a.
Proof. induction a; simpl; intros; [constructor|]. inversion H; subst. constructor; [intro; apply H2; apply in_or_app; auto|eauto]. Qed.

Lemma nodup_app_notin : forall A (a : list A) x, NoDup (a ++ [x]) -> ~ In x a.
Proof.
  induction a; simpl; intros x H Hin; [contradiction|]. inversion H; subst.
  destruct Hin as [->|Hin]; [apply H2; apply in_or_app; right; now left|eapply IHa; eauto].
Qed.

Lemma nodup_app_intro : forall A (a b : list A),
  NoDup a -> NoDup b -> (forall x, In x a -> ~ In x b) -> NoDup (a ++ b).
Proof.
  induction a; simpl; intros b Ha Hb Hd; auto. inversion Ha; subst. constructor.
  - intro Hin. apply in_app_or in Hin as [Hin|Hin]; [contradiction|]. eapply Hd; eauto.
  - apply IHa; auto.
Qed.

Definition nonneg (bs : list budget) : Prop := Forall (fun b => 0 <= b_amt b) bs.

Definition tx_pre (S0 : st) (t : tx) : Prop :=
  match t with
  | TReg pid bs => mget pid (props S0) = None /\ NoDup (map b_stage bs) /\ nonneg bs
  | _ => True
  end.

Definition wp (t : tx) : list Z := match t with TWithdraw p _ => [p] | _ => [] end.

Lemma withdraw_pids_wp : forall l, withdraw_pids l = flat_map wp l.
Proof. reflexivity. Qed.

Lemma Mid_weaken : forall S0 wl wl' S, incl wl wl' -> Mid S0 wl S -> Mid S0 wl' S.
Proof.
  intros S0 wl wl' S Hi [M1 M2]. split; auto.
  intros pid p0 H. destruct (M1 _ _ H) as (p & a & b & c & d & e & f).
  exists p. spl; auto.
Qed.

Lemma good_new_prop : forall bs h, NoDup (map b_stage bs) -> nonneg bs -> good_prop (new_prop bs h).
Proof.
  intros. constructor; simpl; auto; try constructor; intros ? [].
Qed.

Lemma E_app : forall pid a b, E pid (a ++ b) = E pid a ++ E pid b.
Proof. intros. unfold E. apply flat_map_app. Qed.

Lemma E_single : forall pid e, E pid [e] = if pay_pid e =? pid then pay_stages e else [].
Proof. intros. unfold E. simpl. now rewrite app_nil_r. Qed.

Lemma keys_app : forall A (a b : list (Z * A)), keys (a ++ b) = keys a ++ keys b.
Proof. intros. unfold keys. apply map_app. Qed.

Lemma incl_keys : forall A (a b : list (Z * A)), incl a b -> incl (keys a) (keys b).
Proof.
  intros A a b H k Hk. unfold keys in *. apply in_map_iff in Hk as [x [<- Hx]]. apply in_map_iff. exists x; auto.
Qed.

Lemma Mid_step : forall S0 h wl S t,
  Inv S0 -> Mid S0 wl S -> tx_pre S0 t -> NoDup (wl ++ wp t) ->
  Mid S0 (wl ++ wp t) (apply_tx S0 h S t).
Proof.
  intros S0 h wl S t I0 M Hpre Hnd.
  destruct t as [pid bs|pid m v|pid amt|pid ty stage|pid amt]; simpl wp; rewrite ?app_nil_r; simpl apply_tx.
  - (* TReg *)
    destruct Hpre as (Hfresh & Hbn & Hnn).
    eapply Mid_ext with (S := set_prop S pid (new_prop bs h)); try reflexivity.
    destruct M as [M1 M2]. split.
    + intros q p0 H0. destruct (M1 _ _ H0) as (p & Hp & rest). exists p. split; [|exact rest].
      simpl. rewrite mget_mset. destruct (q =? pid) eqn:Eq; auto.
      apply Z.eqb_eq in Eq; subst. congruence.
    + intros q H0. destruct (M2 _ H0) as [HE Hs]. split; auto.
      intros p. simpl. rewrite mget_mset. destruct (q =? pid).
      * intros Hq; injection Hq as <-. split; [now apply good_new_prop|reflexivity].
      * apply Hs.
  - (* TReview *)
    destruct (mmem pid (props S0)); auto. apply Mid_upd; auto. intros p. ext_same.
  - (* TVoteReject *)
    destruct (mget pid (props S0)) as [p0|]; auto. destruct (p_status p0 =? CRAgreed); auto.
    apply Mid_upd; auto. intros p. ext_same.
  - (* TTrack *)
    destruct (mget pid (props S0)) as [p0|]; auto.
    destruct ((ty =? TTerminated) && _); auto.
    eapply Mid_ext with (S := upd_prop S pid (track_do ty stage h)); try reflexivity.
    apply Mid_upd; auto. intros p. apply ext_track_do.
  - (* TWithdraw *)
    destruct (mget pid (props S0)) as [p0|] eqn:E0.
    2:{ eapply Mid_weaken; [|exact M]. intros x Hx. apply in_or_app; auto. }
    assert (Hnot : ~ In pid wl) by (now apply nodup_app_notin).
    destruct I0 as [I1 I2]. destruct (I1 _ _ E0) as [G0 _].
    destruct (outstanding_props p0 G0) as (Ow & On & Od).
    set (w := outstanding p0) in *.
    destruct M as [M1 M2].
    destruct (M1 _ _ E0) as (p & Hp & Hb & G & Hw & [P1 P2] & Hn). specialize (Hn Hnot).
    assert (Hwp : incl w (p_wable p)) by (eapply incl_tran; eauto).
    destruct (withdraw_do_good w p G Hwp) as (G' & Hb' & Hw' & Hn').
    split.
    + intros q p1 H1. unfold pay_ok. simpl paid. rewrite paid_upd_prop. rewrite E_app. rewrite E_single; simpl pay_pid; simpl pay_stages.
      simpl props. rewrite mget_upd_prop. destruct (q =? pid) eqn:Eq.
      * apply Z.eqb_eq in Eq; subst q. assert (p1 = p0) by congruence; subst p1.
        rewrite Hp; simpl. rewrite Z.eqb_refl.
        exists (withdraw_do w p). spl; auto; try congruence.
        -- rewrite keys_app. apply nodup_app_intro; auto.
           intros k Hk Hk2. apply (Od k Hk2). rewrite <- Hn. apply (incl_keys _ _ _ P2). exact Hk.
        -- rewrite Hn'. intros x Hx. apply in_app_or in Hx as [Hx|Hx].
           ++ apply mset_all_keep; auto. intro Hk. apply (Od _ Hk). rewrite <- Hn.
              apply (incl_keys _ _ _ P2). unfold keys. apply in_map. exact Hx.
           ++ apply mset_all_new; auto.
        -- intros N. exfalso. apply N. apply in_or_app. right. now left.
      * destruct (M1 _ _ H1) as (p2 & a & b & c & d & [e1 e2] & f).
        assert (Hne : (pid =? q) = false) by (rewrite Z.eqb_sym; exact Eq).
        rewrite Hne, !app_nil_r. exists p2. spl; auto.
        intros N. apply f. intro. apply N. apply in_or_app; auto.
    + intros q H1. simpl paid. rewrite paid_upd_prop, E_app. rewrite E_single; simpl pay_pid; simpl pay_stages.
      assert (Hne : (pid =? q) = false).
      { apply Z.eqb_neq. intros ->. congruence. }
      rewrite Hne, !app_nil_r. destruct (M2 _ H1) as [HE Hs]. split; auto.
      intros p2. simpl props. rewrite mget_upd_prop. rewrite Z.eqb_sym, Hne. apply Hs.
Qed.

Lemma Mid_fold : forall S0 h, Inv S0 -> forall l,
  Forall (tx_pre S0) l -> NoDup (withdraw_pids l) ->
  Mid S0 (withdraw_pids l) (fold_left (apply_tx S0 h) l S0).
Proof.
  intros S0 h I0 l. induction l as [|t l IH] using rev_ind; intros Hf Hn.
  - simpl. now apply Mid_init.
  - rewrite fold_left_app. simpl. rewrite withdraw_pids_wp, flat_map_app in *. simpl in *. rewrite app_nil_r in *.
    apply Forall_app in Hf as [Hf1 Hf2]. inversion Hf2; subst.
    apply Mid_step; auto. apply IH; auto. eapply nodup_app_l; eauto.
Qed.

(* from the intermediate invariant back to the invariant *)
Lemma Mid_Inv : forall S0 wl S, Mid S0 wl S -> Inv S.
Proof.
  intros S0 wl S [M1 M2]. split.
  - intros pid p Hp. destruct (mget pid (props S0)) as [p0|] eqn:E0.
    + destruct (M1 _ _ E0) as (p' & Hp' & _ & G & _ & P & _). assert (p' = p) by congruence; subst. auto.
    + destruct (M2 _ E0) as [HE Hs]. destruct (Hs _ Hp) as [G Hn]. split; auto.
      unfold pay_ok. rewrite HE. split; [constructor|intros ? []].
  - intros pid Hp. destruct (mget pid (props S0)) as [p0|] eqn:E0.
    + destruct (M1 _ _ E0) as (p' & Hp' & _). congruence.
    + apply M2; auto.
Qed.

Lemma mget_map_snd : forall A B (g : A -> B) k (m : list (Z * A)),
  mget k (map (fun kp => (fst kp, g (snd kp))) m) = option_map g (mget k m).
Proof.
  induction m as [|[a b] r IH]; simpl; auto. destruct (k =? a); auto.
Qed.

Lemma ext_update_prop : forall C h thr p, ext p (fst (update_prop C h thr p)).
Proof.
  intros. unfold update_prop.
  destruct (p_status p =? Registered).
  { destruct (_ <=? h); [|apply ext_refl]. destruct (_ <=? _); cbn [fst]; ext_same. }
  destruct (p_status p =? CRAgreed); [|apply ext_refl].
  destruct (_ <=? h); [|apply ext_refl]. destruct (thr <=? _); cbn [fst]; [ext_same|].
  set (p1 := with_status p VoterAgreed). assert (H1 : ext p p1) by ext_same.
  destruct (first_budget (fun b => b_type b =? Imprest) (p_budgets p1)) as [b|] eqn:Eb; [|exact H1].
  apply first_budget_In in Eb as [Hin _]. eapply ext_trans; [exact H1|]. now apply ext_set_wable.
Qed.

Lemma props_update_all : forall C h thr S pid,
  mget pid (props (update_all C h thr S)) = option_map (fun p => fst (update_prop C h thr p)) (mget pid (props S)).
Proof.
  intros. unfold update_all; simpl. rewrite map_map. simpl.
  rewrite (mget_map_snd _ _ (fun p => fst (update_prop C h thr p))). reflexivity.
Qed.

Lemma Inv_update_all : forall C h thr S, Inv S -> Inv (update_all C h thr S).
Proof.
  intros C h thr S [I1 I2]. split.
  - intros pid p. rewrite props_update_all. destruct (mget pid (props S)) as [p1|] eqn:E1; simpl; [|discriminate].
    intros H; injection H as <-. destruct (I1 _ _ E1) as [G [P1 P2]].
    destruct (ext_update_prop C h thr p1 G) as (a & b & c & d). split; auto.
    unfold pay_ok. simpl paid. rewrite b. split; auto.
  - intros pid. rewrite props_update_all. destruct (mget pid (props S)) eqn:E1; simpl; [discriminate|].
    intros _. apply I2; auto.
Qed.

(* ---- the registration check *)
Lemma insert_perm : forall b l, Permutation (b :: l) (insert_by_stage b l).
Proof.
  induction l as [|x r IH]; simpl; auto. destruct (_ <? _); auto.
  eapply perm_trans; [apply perm_swap|]. now constructor.
Qed.

Lemma sort_perm : forall l, Permutation l (sort_by_stage l).
Proof.
  induction l as [|x r IH]; simpl; auto. unfold sort_by_stage in *. simpl.
  eapply perm_trans; [|apply insert_perm]. now constructor.
Qed.

Lemma total_perm : forall l l', Permutation l l' -> total l = total l'.
Proof. induction 1; simpl; lia. Qed.

Lemma budgets_loop_spec : forall bs st acc a, budgets_loop bs st acc = Some a ->
  a = acc + total bs /\ nonneg bs /\ Forall (fun b => st <= b_stage b) bs /\ NoDup (map b_stage bs).
Proof.
  induction bs as [|b r IH]; simpl; intros st acc a H.
  - injection H as <-. spl; try constructor. lia.
  - destruct (negb _); [discriminate|]. destruct (negb (b_stage b =? st)) eqn:Es; [discriminate|].
    destruct (b_amt b <? 0) eqn:Ea; [discriminate|]. destruct (int64_max <? _); [discriminate|].
    apply negb_false_iff, Z.eqb_eq in Es. apply Z.ltb_ge in Ea.
    destruct (IH _ _ _ H) as (-> & Hn & Hs & Hd). spl.
    + lia.
    + constructor; auto.
    + constructor; [lia|]. eapply Forall_impl; [|exact Hs]. simpl; intros; lia.
    + constructor; auto. intro Hin. apply in_map_iff in Hin as [x [Hx1 Hx2]].
      rewrite Forall_forall in Hs. specialize (Hs _ Hx2). lia.
Qed.

Lemma check_budgets_spec : forall S pu bs, check_budgets S pu bs = true ->
  NoDup (map b_stage bs) /\ nonneg bs /\ total bs <= stage_amt S - used S - pu.
Proof.
  intros S pu bs H. unfold check_budgets in H.
  destruct (MaxBudgetsCount <? _); [discriminate|].
  pose proof (sort_perm bs) as Hp.
  destruct (sort_by_stage bs) as [|b0 r] eqn:Es; [discriminate|].
  destruct (_ && _); [discriminate|]. destruct (_ && _); [discriminate|]. destruct (negb _); [discriminate|].
  destruct (budgets_loop (b0 :: r) (b_stage b0) 0) as [a|] eqn:El; [|discriminate].
  destruct (1 <? _); [discriminate|]. destruct (negb _); [discriminate|]. destruct (_ <? a); [discriminate|].
  destruct (_ <? a) eqn:E2; [discriminate|]. apply Z.ltb_ge in E2.
  apply budgets_loop_spec in El as (-> & Hn & _ & Hd).
  apply Permutation_sym in Hp. spl.
  - eapply Permutation_NoDup; [apply Permutation_map; exact Hp|exact Hd].
  - unfold nonneg. eapply Permutation_Forall; eauto.
  - rewrite (total_perm _ _ (Permutation_sym Hp)). lia.
Qed.

Lemma check_all_pre : forall C S0 b pu, check_all C S0 pu b = true -> Forall (tx_pre S0) b.
Proof.
  induction b as [|t r IH]; simpl; intros pu H; [constructor|].
  apply andb_true_iff in H as [H1 H2]. constructor; [|eapply IH; eauto].
  destruct t; simpl; auto. simpl in H1. apply andb_true_iff in H1 as [Ha Hb].
  apply check_budgets_spec in Hb as (a & b & _). spl; auto.
  unfold mmem in Ha. destruct (mget pid (props S0)); [discriminate|reflexivity].
Qed.

Lemma nodupb_NoDup : forall l, nodupb l = true -> NoDup l.
Proof.
  induction l as [|x r IH]; simpl; intros H; [constructor|].
  apply andb_true_iff in H as [H1 H2]. constructor; auto.
  intro Hin. apply negb_true_iff in H1. assert (existsb (Z.eqb x) r = true); [|congruence].
  apply existsb_exists. exists x. split; auto. apply Z.eqb_refl.
Qed.

Section Sorted.
Variable C : cfg.
Variable sortf : list tx -> list tx.
Hypothesis Hperm : forall l, Permutation l (sortf l).

Lemma Inv_apply_block : forall S thr b, Inv S -> block_ok C S b = true -> Inv (apply_block C sortf S thr b).
Proof.
  intros S thr b I Hok. unfold block_ok in Hok. apply andb_true_iff in Hok as [Hd Hc].
  unfold dup_ok in Hd. apply andb_true_iff in Hd as [Hd Hw]. apply nodupb_NoDup in Hw.
  apply check_all_pre in Hc.
  assert (Hw' : NoDup (withdraw_pids (sortf b))).
  { eapply Permutation_NoDup; [|exact Hw]. unfold withdraw_pids. apply Permutation_flat_map. apply Hperm. }
  assert (Hc' : Forall (tx_pre S) (sortf b)) by (eapply Permutation_Forall; [apply Hperm|exact Hc]).
  unfold apply_block.
  pose proof (Mid_fold S (height S + 1) I (sortf b) Hc' Hw') as M.
  apply Mid_Inv in M. apply (Inv_update_all C (height S + 1) thr) in M.
  destruct M as [M1 M2]. split; [exact M1|exact M2].
Qed.

Lemma Inv_step : forall S blk, Inv S -> Inv (step C sortf S blk).
Proof. intros S [thr b] I. unfold step; simpl. destruct (block_ok C S b) eqn:E; auto. now apply Inv_apply_block. Qed.

Lemma Inv_run : forall bs S, Inv S -> Inv (run C sortf S bs).
Proof. induction bs as [|b r IH]; simpl; intros; auto. apply IH. now apply Inv_step. Qed.

Lemma Inv_init : forall a b c d, Inv (init a b c d).
Proof. intros. split; simpl; intros; [discriminate|reflexivity]. Qed.

(* ---- property lemmas *)
Lemma msum_bp : forall p, msum (bp p) = total (p_budgets p).
Proof. intros. unfold bp, total. induction (p_budgets p); simpl; auto. rewrite IHl. reflexivity. Qed.

Lemma stage_once : forall a b c d bs pid,
  NoDup (keys (E pid (paid (run C sortf (init a b c d) bs)))).
Proof.
  intros. pose proof (Inv_run bs _ (Inv_init a b c d)) as [I1 I2].
  destruct (mget pid (props (run C sortf (init a b c d) bs))) as [p|] eqn:Ep.
  - apply (I1 _ _ Ep).
  - rewrite (I2 _ Ep). constructor.
Qed.

Lemma withdrawn_le_budget : forall a b c d bs pid p,
  mget pid (props (run C sortf (init a b c d) bs)) = Some p ->
  msum (E pid (paid (run C sortf (init a b c d) bs))) <= total (p_budgets p).
Proof.
  intros a b c d bs pid p Hp. pose proof (Inv_run bs _ (Inv_init a b c d)) as [I1 _].
  destruct (I1 _ _ Hp) as [G [P1 P2]]. rewrite <- msum_bp. apply sum_incl.
  - now apply NoDup_keys_NoDup.
  - eapply incl_tran; [exact P2|]. eapply incl_tran; [apply G|apply G].
  - intros x Hx. unfold bp in Hx. apply in_map_iff in Hx as [y [<- Hy]]. simpl.
    destruct G as [_ Hnn _ _ _ _]. rewrite Forall_forall in Hnn. auto.
Qed.

(* payments made by one block: exactly the outstanding stages, as of the state
   before the block, of each withdrawal it contains *)
Definition pay_of (S0 : st) (t : tx) : list payment :=
  match t with
  | TWithdraw pid _ => match mget pid (props S0) with
                       | Some p0 => [{| pay_pid := pid; pay_stages := outstanding p0 |}]
                       | None => []
                       end
  | _ => []
  end.

Lemma paid_fold : forall S0 h l S, paid (fold_left (apply_tx S0 h) l S) = paid S ++ flat_map (pay_of S0) l.
Proof.
  induction l as [|t r IH]; simpl; intros S; [now rewrite app_nil_r|]. rewrite IH. clear IH.
  destruct t as [pid bs|pid m v|pid amt|pid ty stage|pid amt]; simpl; auto.
  - destruct (mmem pid (props S0)); auto. now rewrite paid_upd_prop.
  - destruct (mget pid (props S0)); auto. destruct (_ =? _); auto. now rewrite paid_upd_prop.
  - destruct (mget pid (props S0)); auto. destruct (_ && _); auto. simpl. now rewrite paid_upd_prop.
  - destruct (mget pid (props S0)); auto. simpl. rewrite paid_upd_prop, <- app_assoc. reflexivity.
Qed.

Lemma only_after_withdrawable : forall S blk e,
  In e (skipn (length (paid S)) (paid (step C sortf S blk))) ->
  exists p, mget (pay_pid e) (props S) = Some p /\ pay_stages e = outstanding p /\
            incl (pay_stages e) (p_wable p) /\
            (forall k, In k (keys (pay_stages e)) -> ~ In k (keys (p_wn p))).
Proof.
  intros S [thr b] e. unfold step; simpl. destruct (block_ok C S b).
  2:{ rewrite skipn_all. intros []. }
  unfold apply_block. simpl paid. rewrite paid_fold.
  rewrite skipn_app, skipn_all, Nat.sub_diag. simpl.
  intros Hin. apply in_flat_map in Hin as [t [_ Ht]].
  destruct t; simpl in Ht; try contradiction.
  destruct (mget pid (props S)) as [p0|] eqn:E0; [|contradiction].
  destruct Ht as [<-|[]]. simpl. exists p0. spl; auto.
  - intros x Hx. unfold outstanding in Hx. apply filter_In in Hx. tauto.
  - intros k Hk Hn. unfold keys, outstanding in Hk. apply in_map_iff in Hk as [x [<- Hx]].
    apply filter_In in Hx as [_ Hx]. apply mmem_true in Hn. rewrite Hn in Hx. discriminate.
Qed.

(* ---- committed funds never exceed the stage amount *)
Definition reg_total (l : list tx) : Z :=
  fold_right (fun t a => match t with TReg _ bs => total bs + a | _ => a end) 0 l.

Lemma total_nonneg : forall bs, nonneg bs -> 0 <= total bs.
Proof. induction 1; simpl; lia. Qed.

Lemma unused_nonneg : forall p f, nonneg (p_budgets p) -> 0 <= unused_of p f.
Proof.
  intros p f. unfold unused_of. induction 1; simpl; [lia|].
  destruct (f && _); [lia|]. destruct (mmem _ _); lia.
Qed.

Lemma reg_total_perm : forall l l', Permutation l l' -> reg_total l = reg_total l'.
Proof. induction 1; simpl; try lia. - destruct x; lia. - destruct x, y; lia. Qed.

Lemma used_upd_prop : forall S pid f, used (upd_prop S pid f) = used S /\ stage_amt (upd_prop S pid f) = stage_amt S.
Proof. intros. unfold upd_prop. destruct (mget pid (props S)); auto. Qed.

Lemma used_fold : forall S0 h, Inv S0 -> forall l S,
  used (fold_left (apply_tx S0 h) l S) <= used S + reg_total l /\ stage_amt (fold_left (apply_tx S0 h) l S) = stage_amt S.
Proof.
  intros S0 h [I1 _]. induction l as [|t r IH]; intros S; simpl; [lia|].
  destruct (IH (apply_tx S0 h S t)) as [H1 H2]. rewrite H2. clear IH H2.
  assert (used (apply_tx S0 h S t) <= used S + (match t with TReg _ bs => total bs | _ => 0 end) /\
          stage_amt (apply_tx S0 h S t) = stage_amt S) as [H3 H4].
  { destruct t as [pid bs|pid m v|pid amt|pid ty stage|pid amt]; simpl.
    - lia.
    - destruct (mmem pid (props S0)); [|lia]. destruct (used_upd_prop S pid (fun p => with_votes p (mset m v (p_votes p)))). lia.
    - destruct (mget pid (props S0)); [|lia]. destruct (_ =? _); [|lia].
      destruct (used_upd_prop S pid (fun p => with_reject p (p_reject p + amt))). lia.
    - destruct (mget pid (props S0)) as [p0|] eqn:E0; [|lia]. destruct (_ && _); [lia|]. simpl.
      destruct (used_upd_prop S pid (track_do ty stage h)) as [-> ->]. split; auto.
      assert (0 <= track_unused ty p0); [|lia].
      destruct (I1 _ _ E0) as [G _]. unfold track_unused.
      destruct (_ =? _); [apply unused_nonneg, G|]. destruct (_ =? _); [apply unused_nonneg, G|lia].
    - destruct (mget pid (props S0)); [|lia]. simpl.
      destruct (used_upd_prop S pid (withdraw_do (outstanding p))). lia. }
  split; [|exact H4]. destruct t; lia.
Qed.

Lemma update_prop_release : forall h thr p, nonneg (p_budgets p) -> 0 <= snd (update_prop C h thr p).
Proof.
  intros h thr p Hn. unfold update_prop.
  destruct (_ =? Registered). { destruct (_ <=? h); [|simpl; lia]. destruct (_ <=? _); simpl; [lia|now apply total_nonneg]. }
  destruct (_ =? CRAgreed); [|simpl; lia]. destruct (_ <=? h); [|simpl; lia].
  destruct (thr <=? _); simpl; [now apply total_nonneg|lia].
Qed.

Definition AllNN (S : st) : Prop := forall kp, In kp (props S) -> nonneg (p_budgets (snd kp)).

Lemma budgets_track_do : forall ty stage h p, p_budgets (track_do ty stage h p) = p_budgets p.
Proof.
  intros. unfold track_do.
  repeat match goal with
         | |- context [if ?c then _ else _] => destruct c
         | |- context [match ?c with Some _ => _ | None => _ end] => destruct c
         end; reflexivity.
Qed.

Lemma budgets_update_prop : forall h thr p, p_budgets (fst (update_prop C h thr p)) = p_budgets p.
Proof.
  intros. unfold update_prop.
  repeat match goal with
         | |- context [if ?c then _ else _] => destruct c
         | |- context [match ?c with Some _ => _ | None => _ end] => destruct c
         end; reflexivity.
Qed.

Lemma AllNN_upd : forall S pid f, (forall p, p_budgets (f p) = p_budgets p) -> AllNN S -> AllNN (upd_prop S pid f).
Proof.
  intros S pid f Hf H kp Hin. unfold upd_prop in Hin.
  destruct (mget pid (props S)) as [p|] eqn:Ep; [|auto]. simpl in Hin.
  apply In_mset in Hin as [->|Hin]; [|auto]. simpl. rewrite Hf.
  apply mget_In in Ep. apply (H _ Ep).
Qed.

Lemma AllNN_apply : forall S0 h S t, tx_pre S0 t -> AllNN S -> AllNN (apply_tx S0 h S t).
Proof.
  intros S0 h S t Hpre H.
  destruct t as [pid bs|pid m v|pid amt|pid ty stage|pid amt]; simpl.
  - intros kp Hin. simpl in Hin. apply In_mset in Hin as [->|Hin]; [|auto]. simpl. apply Hpre.
  - destruct (mmem pid (props S0)); auto. apply AllNN_upd; auto.
  - destruct (mget pid (props S0)); auto. destruct (_ =? _); auto. apply AllNN_upd; auto.
  - destruct (mget pid (props S0)); auto. destruct (_ && _); auto.
    intros kp Hin. simpl in Hin. revert kp Hin. apply AllNN_upd; auto. intros; apply budgets_track_do.
  - destruct (mget pid (props S0)); auto.
    intros kp Hin. simpl in Hin. revert kp Hin. apply AllNN_upd; auto.
Qed.

Lemma AllNN_fold : forall S0 h l S, Forall (tx_pre S0) l -> AllNN S -> AllNN (fold_left (apply_tx S0 h) l S).
Proof.
  induction l as [|t r IH]; simpl; intros S Hf H; auto. inversion Hf; subst.
  apply IH; auto. now apply AllNN_apply.
Qed.

Lemma used_update_all : forall h thr S, AllNN S ->
  used (update_all C h thr S) <= used S /\ stage_amt (update_all C h thr S) = stage_amt S /\
  AllNN (update_all C h thr S).
Proof.
  intros h thr S Hall. unfold update_all; simpl. split; [|split; auto].
  - assert (0 <= fold_right (fun x a => snd (snd x) + a) 0
                  (map (fun kp => (fst kp, update_prop C h thr (snd kp))) (props S))); [|lia].
    unfold AllNN in Hall. induction (props S) as [|kp r IHr]; simpl; [lia|].
    assert (0 <= snd (update_prop C h thr (snd kp))) by (apply update_prop_release, Hall; now left).
    assert (0 <= fold_right (fun x a => snd (snd x) + a) 0 (map (fun kp => (fst kp, update_prop C h thr (snd kp))) r)).
    { apply IHr. intros; apply Hall; now right. }
    lia.
  - intros kp Hin. simpl in Hin. rewrite map_map in Hin. apply in_map_iff in Hin as [kp0 [<- Hin]]. simpl.
    rewrite budgets_update_prop. now apply Hall.
Qed.

Lemma check_all_total : forall S0 b pu, check_all C S0 pu b = true -> 0 <= pu ->
  reg_total b = 0 \/ pu + reg_total b <= stage_amt S0 - used S0.
Proof.
  induction b as [|t r IH]; simpl; intros pu H Hpu; [now left|].
  apply andb_true_iff in H as [H1 H2].
  destruct t as [pid bs|pid m v|pid amt|pid ty stage|pid amt]; try (eapply IH; eauto; fail).
  simpl in H1. apply andb_true_iff in H1 as [_ Hb]. apply check_budgets_spec in Hb as (_ & Hn & Hle).
  pose proof (total_nonneg _ Hn). right.
  destruct (IH _ H2 ltac:(lia)) as [E|E]; lia.
Qed.

Definition Inv2 (S : st) : Prop := Inv S /\ AllNN S /\ used S <= stage_amt S.

Lemma Inv2_step : forall S blk, Inv2 S -> Inv2 (step C sortf S blk).
Proof.
  intros S [thr b] (I & A & U). unfold step; simpl. destruct (block_ok C S b) eqn:Eok; [|split; [exact I|split; [exact A|exact U]]].
  split; [now apply Inv_apply_block|].
  unfold block_ok in Eok. apply andb_true_iff in Eok as [_ Hc].
  pose proof (check_all_pre _ _ _ _ Hc) as Hpre.
  assert (Hpre' : Forall (tx_pre S) (sortf b)) by (eapply Permutation_Forall; [apply Hperm|exact Hpre]).
  unfold apply_block. set (h := height S + 1).
  destruct (used_fold S h I (sortf b) S) as [F1 F2].
  pose proof (AllNN_fold S h (sortf b) S Hpre' A) as A1.
  destruct (used_update_all h thr _ A1) as (G1 & G2 & G3).
  split; [exact G3|]. simpl. 
  change (used (update_all C h thr (fold_left (apply_tx S h) (sortf b) S)) <=
          stage_amt (update_all C h thr (fold_left (apply_tx S h) (sortf b) S))).
  rewrite G2, F2. rewrite <- (reg_total_perm _ _ (Hperm b)) in F1.
  destruct (check_all_total S b 0 Hc ltac:(lia)) as [E|E]; lia.
Qed.

Lemma Inv2_run : forall bs S, Inv2 S -> Inv2 (run C sortf S bs).
Proof. induction bs as [|b r IH]; simpl; intros; auto. apply IH. now apply Inv2_step. Qed.

Lemma committed_le_available : forall a b c d bs, b <= a ->
  used (run C sortf (init a b c d) bs) <= stage_amt (run C sortf (init a b c d) bs).
Proof.
  intros a b c d bs H. apply (Inv2_run bs). split; [apply Inv_init|]. split; [intros kp []|exact H].
Qed.

(* an accepted registration fits into what is left, counting the proposals
   accepted earlier in the same block *)
Lemma registration_fits : forall S b, block_ok C S b = true ->
  reg_total b = 0 \/ used S + reg_total b <= stage_amt S.
Proof.
  intros S b H. unfold block_ok in H. apply andb_true_iff in H as [_ Hc].
  destruct (check_all_total S b 0 Hc ltac:(lia)); [now left|right; lia].
Qed.

End Sorted.

(* the order Go's insertion sort produces is a permutation *)
Lemma filter_split_perm : forall A (f : A -> bool) l, Permutation l (filter f l ++ filter (fun x => negb (f x)) l).
Proof.
  induction l as [|x r IH]; simpl; auto. destruct (f x); simpl.
  - now constructor.
  - apply Permutation_cons_app. exact IH.
Qed.

Lemma go_sort_perm : forall l, Permutation l (go_sort l).
Proof.
  intros. unfold go_sort. eapply perm_trans; [apply (filter_split_perm _ is_withdraw)|].
  apply Permutation_app; apply Permutation_rev.
Qed.
