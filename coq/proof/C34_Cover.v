(* C34 — slot coverage: a requirement met by the slot table makes the named
   resource an effective conflict key; the exact rational fee-rate order is a
   strict weak order (the hypotheses of the pool theorems are satisfiable). *)
From Coq Require Import ZArith NArith Bool List Lia String.
From ELA Require Import model.C34_Pool.
Import ListNotations.
Local Open Scope Z_scope.

Lemma covered_in tbl reqs r : uncovered tbl reqs = [] -> In r reqs -> slot_covers tbl r = true.
Proof.
  unfold uncovered. intros H Hin. destruct (slot_covers tbl r) eqn:E; [reflexivity|].
  assert (Hf : In r (filter (fun r => negb (slot_covers tbl r)) reqs)).
  { apply filter_In. rewrite E. auto. }
  rewrite H in Hf. destruct Hf.
Qed.

Lemma resource_key_effective U tbl name sname tys s h k :
  slot_covers tbl (name, sname, tys) = true -> find_slot sname tbl = Some s ->
  In (t_type (U h)) tys -> In (s, k) (t_keys (U h)) -> In (s, k) (keys_of U tbl h).
Proof.
  unfold slot_covers. intros Hc Hf Hty Hk. rewrite Hf in Hc. rewrite forallb_forall in Hc.
  unfold keys_of. apply in_or_app. left. apply filter_In. split; [exact Hk|].
  simpl. apply Hc. exact Hty.
Qed.

Lemma inputs_effective U tbl name tys s h o :
  slot_covers tbl (name, name_inputs, tys) = true -> inputs_slot tbl = Some s ->
  In (t_type (U h)) tys -> In o (t_ins (U h)) -> In (s, o) (keys_of U tbl h).
Proof.
  unfold slot_covers, inputs_slot. intros Hc Hf Hty Ho. rewrite Hf in Hc.
  rewrite forallb_forall in Hc. unfold keys_of, input_keys, inputs_slot.
  apply in_or_app. right. rewrite Hf, (Hc _ Hty). apply in_map_iff. exists o. auto.
Qed.

(* fee/size compared exactly (sizes clamped to >= 1 so the order is total on Z*Z) *)
Definition rlt_q (a b : Z * Z) : bool :=
  fst a * Z.max 1 (snd b) <? fst b * Z.max 1 (snd a).

Lemma rlt_q_irrefl a : rlt_q a a = false.
Proof. unfold rlt_q. apply Z.ltb_irrefl. Qed.

Lemma rlt_q_trans a b c : rlt_q a b = true -> rlt_q b c = true -> rlt_q a c = true.
Proof.
  unfold rlt_q. rewrite !Z.ltb_lt.
  destruct a as [a1 a2], b as [b1 b2], c as [c1 c2]; simpl.
  set (x := Z.max 1 a2). set (y := Z.max 1 b2). set (z := Z.max 1 c2).
  assert (0 < x) by (unfold x; lia). assert (0 < y) by (unfold y; lia).
  assert (0 < z) by (unfold z; lia). clearbody x y z. intros Hab Hbc.
  assert (E1 : a1 * y * z < b1 * x * z) by (apply Z.mul_lt_mono_pos_r; assumption).
  assert (E2 : b1 * z * x < c1 * y * x) by (apply Z.mul_lt_mono_pos_r; assumption).
  assert (E3 : (a1 * z) * y < (c1 * x) * y) by lia.
  apply Z.mul_lt_mono_pos_r in E3; assumption.
Qed.

Lemma rlt_q_negtrans a b c : rlt_q a b = false -> rlt_q b c = false -> rlt_q a c = false.
Proof.
  unfold rlt_q. rewrite !Z.ltb_ge.
  destruct a as [a1 a2], b as [b1 b2], c as [c1 c2]; simpl.
  set (x := Z.max 1 a2). set (y := Z.max 1 b2). set (z := Z.max 1 c2).
  assert (0 < x) by (unfold x; lia). assert (0 < y) by (unfold y; lia).
  assert (0 < z) by (unfold z; lia). clearbody x y z. intros Hab Hbc.
  assert (E1 : b1 * x * z <= a1 * y * z) by (apply Z.mul_le_mono_pos_r; assumption).
  assert (E2 : c1 * y * x <= b1 * z * x) by (apply Z.mul_le_mono_pos_r; assumption).
  assert (E3 : (c1 * x) * y <= (a1 * z) * y) by lia.
  apply Z.mul_le_mono_pos_r in E3; assumption.
Qed.
