(* C25 proofs, vote-collection side (model/C25_Dispatch.v): whenever the
   dispatcher declares the quorum, the confirm it assembles passes
   ConfirmSanityCheck && ConfirmContextCheck, hence confirm_sound applies. *)
From Coq Require Import ZArith List Bool Lia.
From ELA Require Import model.C25_Confirm model.C25_Dispatch proof.C25_Confirm.
Import ListNotations.
Local Open Scope Z_scope.

Section Proofs.
  Variable vverify : Z -> Z -> bool -> Z -> bool.
  Variable arbs : list arbiter.
  Variable fb : Z.
  Variable pverify : Z -> Z -> Z -> bool.

  Notation pv := (process_vote vverify arbs fb).

  Definition acc_ok (p : proposal) (v : vote) : Prop :=
    vote_ok vverify p v = true /\ is_arbiter arbs (v_signer v) = true.

  Definition Inv (st : dstate) : Prop :=
    match d_prop st with
    | None => True
    | Some p => proposal_ok arbs pverify p = true /\
                Forall (acc_ok p) (d_acc st) /\ NoDup (map v_signer (d_acc st))
    end.

  Lemma vote_ok_parts : forall p v, vote_ok vverify p v = true ->
    v_accept v = true /\ v_hash v = p_hash p.
  Proof.
    intros p v H. unfold vote_ok in H. apply andb_prop in H. destruct H as [H _].
    apply andb_prop in H. destruct H as [A B]. apply Z.eqb_eq in B. auto.
  Qed.

  (* the shape of every outcome of process_vote *)
  Lemma pv_cases : forall st v a st' s f, pv st v a = (st', s, f) ->
    (st' = st /\ f = false) \/
    (st' = d_empty /\ f = true) \/
    (d_prop st' = d_prop st /\ d_acc st' = d_acc st /\ d_pend st' = d_pend st /\ f = false) \/
    (d_prop st' = d_prop st /\ d_acc st' = v :: d_acc st /\ d_pend st' = d_pend st /\
     vote_check vverify arbs v = true /\ exists_vote st v = false /\ v_accept v = true).
  Proof.
    intros st v a st' s f H. unfold process_vote in H.
    destruct (vote_check vverify arbs v) eqn:C; simpl in H; [|inversion H; auto].
    destruct (exists_vote st v) eqn:E; [inversion H; auto|].
    destruct a.
    - destruct (v_accept v) eqn:A; inversion H; subst; auto.
      right. right. right. simpl. auto 10.
    - destruct (v_accept v) eqn:A; simpl in H.
      + inversion H; auto.
      + destruct (has_minority _ _ _); inversion H; subst; auto.
        right. right. left. simpl. auto.
  Qed.

  Lemma pv_inv : forall st v a st' s f,
    Inv st -> (forall p, d_prop st = Some p -> v_hash v = p_hash p) ->
    pv st v a = (st', s, f) -> Inv st'.
  Proof.
    intros st v a st' s f I Hh H. apply pv_cases in H.
    destruct H as [[-> _]|[[-> _]|[(P & A & _)|(P & A & _ & C & E & Acc)]]].
    - exact I.
    - exact Logic.I.
    - unfold Inv in *. rewrite P, A. exact I.
    - unfold Inv in *. rewrite P, A. destruct (d_prop st) as [p|] eqn:Dp; auto.
      destruct I as (Pok & Fa & Nd). specialize (Hh p eq_refl).
      unfold vote_check in C. apply andb_prop in C. destruct C as [Cs Ca].
      split; [assumption|]. split.
      + constructor; [|assumption]. split; [|assumption].
        unfold vote_ok. rewrite Cs, Acc, Hh, Z.eqb_refl. reflexivity.
      + simpl. constructor; [|assumption].
        intro Hin. apply in_map_iff in Hin. destruct Hin as [w [Hs Hw]].
        rewrite Forall_forall in Fa. destruct (Fa w Hw) as [Wok _].
        apply vote_ok_parts in Wok. destruct Wok as [Wa Wh].
        assert (existsb (vkey_eqb v) (d_acc st) = true).
        { apply existsb_exists. exists w. split; [assumption|].
          unfold vkey_eqb. rewrite Hh, Wh, Hs, Acc, Wa, !Z.eqb_refl. reflexivity. }
        unfold exists_vote in E. rewrite H in E. discriminate.
  Qed.

  Lemma pv_prop : forall st v a st' s, pv st v a = (st', s, false) -> d_prop st' = d_prop st.
  Proof.
    intros st v a st' s H. apply pv_cases in H.
    destruct H as [[-> _]|[[_ F]|[(P & _)|(P & _)]]]; auto. discriminate.
  Qed.

  Lemma replay_inv : forall p vs st st' fin,
    Inv st -> d_prop st = Some p ->
    replay vverify arbs fb p st vs = (st', fin) -> Inv st'.
  Proof.
    intros p vs. induction vs as [|v rest IH]; intros st st' fin I Dp H; simpl in H.
    - inversion H; subst. unfold Inv in *. simpl. rewrite Dp in *. exact I.
    - destruct (v_hash v =? p_hash p) eqn:Eh; [|eapply IH; eauto].
      apply Z.eqb_eq in Eh.
      destruct (pv st v (v_accept v)) as [[st1 s1] f1] eqn:Epv.
      assert (I1 : Inv st1).
      { eapply pv_inv; eauto. intros q Hq. rewrite Dp in Hq. inversion Hq; subst. exact Eh. }
      destruct f1.
      + inversion H; subst. exact I1.
      + eapply IH; eauto. rewrite (pv_prop _ _ _ _ _ Epv). exact Dp.
  Qed.

  Lemma step_inv : forall st o,
    Inv st ->
    (match o with
     | OStart p => d_prop st = None /\ d_acc st = [] /\ proposal_ok arbs pverify p = true
     | _ => True
     end) ->
    Inv (fst (fst (step vverify arbs fb st o))).
  Proof.
    intros st o I W. destruct o as [p|v|v cmd|v cmd]; simpl.
    - destruct W as (Dn & Da & Pok). unfold start.
      destruct (replay vverify arbs fb p _ (d_pend st)) as [st' fin] eqn:E. simpl.
      eapply replay_inv; [| |exact E]; simpl; [|reflexivity].
      unfold Inv. simpl. rewrite Da. repeat split; auto; constructor.
    - unfold Inv in *. simpl. exact I.
    - unfold for_current. destruct (d_prop st) as [p|] eqn:Dp; [|exact I].
      destruct (v_hash v =? p_hash p) eqn:Eh; [|exact I]. apply Z.eqb_eq in Eh.
      destruct (pv st v cmd) as [[st1 s1] f1] eqn:Epv. simpl.
      eapply pv_inv; eauto. intros q Hq. rewrite Dp in Hq. inversion Hq; subst. exact Eh.
    - destruct (d_prop st) as [p|] eqn:Dp.
      + unfold for_current. rewrite Dp.
        destruct (v_hash v =? p_hash p) eqn:Eh; [|exact I]. apply Z.eqb_eq in Eh.
        destruct (pv st v cmd) as [[st1 s1] f1] eqn:Epv. simpl.
        eapply pv_inv; eauto. intros q Hq. rewrite Dp in Hq. inversion Hq; subst. exact Eh.
      + simpl. unfold Inv. simpl. rewrite Dp. exact Logic.I.
  Qed.

  Lemma run_inv : forall ops st,
    Inv st -> starts_clean vverify arbs fb pverify st ops = true ->
    Inv (run vverify arbs fb st ops).
  Proof.
    induction ops as [|o rest IH]; intros st I W; simpl in *; [exact I|].
    apply andb_prop in W. destruct W as [Wo Wr].
    apply IH; [|exact Wr]. apply step_inv; [exact I|].
    destruct o; auto.
    destruct (d_prop st); [discriminate|]. destruct (d_acc st); [|discriminate].
    destruct (d_rej st); [|discriminate]. auto.
  Qed.

  Lemma filter_all : forall (f : vote -> bool) l, (forall x, In x l -> f x = true) -> filter f l = l.
  Proof.
    induction l as [|a l IH]; intros H; simpl; [reflexivity|].
    rewrite (H a (or_introl eq_refl)). f_equal. apply IH. intros; apply H; simpl; auto.
  Qed.

  Lemma inv_quorum_checks : forall st p,
    Inv st -> d_prop st = Some p -> has_majority arbs fb (length (d_acc st)) = true ->
    confirm_check pverify vverify arbs fb {| c_prop := p; c_votes := d_acc st |} = true.
  Proof.
    intros st p I Dp Hm. unfold Inv in I. rewrite Dp in I. destruct I as (Pok & Fa & Nd).
    unfold proposal_ok in Pok. apply andb_prop in Pok. destruct Pok as [Pv Pa].
    rewrite Forall_forall in Fa.
    unfold confirm_check, confirm_sanity, confirm_context, proposal_sanity. simpl.
    rewrite Pv, Pa. simpl.
    assert (S : forallb (vote_ok vverify p) (d_acc st) = true)
      by (apply forallb_forall; intros v Hv; apply (Fa v Hv)).
    assert (A : forallb (fun v => is_arbiter arbs (v_signer v)) (d_acc st) = true)
      by (apply forallb_forall; intros v Hv; apply (Fa v Hv)).
    rewrite S, A. simpl. rewrite andb_true_r.
    unfold distinct_signers. rewrite filter_all.
    2: { intros v Hv. destruct (Fa v Hv) as [Vo _]. apply vote_ok_parts in Vo. tauto. }
    rewrite nodup_fixed_point by assumption. rewrite map_length.
    unfold has_majority in Hm. rewrite Hm. reflexivity.
  Qed.

  (* Whenever, after any well-formed stream of operations, the number of
     collected accept votes exceeds the majority count (the dispatcher
     declares the quorum and assembles the confirm), that confirm passes both
     validator checks. *)
  Lemma dispatcher_quorum_checks : forall ops st p,
    starts_clean vverify arbs fb pverify d_empty ops = true ->
    run vverify arbs fb d_empty ops = st ->
    d_prop st = Some p ->
    has_majority arbs fb (length (d_acc st)) = true ->
    confirm_check pverify vverify arbs fb {| c_prop := p; c_votes := d_acc st |} = true.
  Proof.
    intros ops st p W R Dp Hm. apply inv_quorum_checks; auto.
    rewrite <- R. apply run_inv; [exact I|exact W].
  Qed.
End Proofs.

Lemma dispatcher_confirm_sound : forall pverify vverify arbs fb ops st p,
  Z.of_nat (length arbs) < 65536 ->
  starts_clean vverify arbs fb pverify d_empty ops = true ->
  run vverify arbs fb d_empty ops = st ->
  d_prop st = Some p ->
  has_majority arbs fb (length (d_acc st)) = true ->
  let n := Z.of_nat (length arbs) in
  exists S : list Z,
    NoDup S /\ incl S (map a_key arbs) /\ 2 * n / 3 < Z.of_nat (length S) /\
    (forall k, In k S -> exists v, In v (d_acc st) /\ v_signer v = k /\ good_vote vverify arbs p v) /\
    (forall v, In v (d_acc st) -> good_vote vverify arbs p v) /\
    In (p_sponsor p) (map a_key arbs).
Proof.
  intros pverify vverify arbs fb ops st p Hn W R Dp Hm n.
  pose proof (dispatcher_quorum_checks vverify arbs fb pverify ops st p W R Dp Hm) as C.
  destruct (confirm_sound pverify vverify arbs fb _ Hn C) as [S (A & B & Q & D & E & F & _)].
  exists S. simpl in *. auto 10.
Qed.
