(* C40 — facts about the regenerated summaries (gen/C40_summaries.v), closed
   by evaluation of the verified checker. *)
From Coq Require Import List Bool NArith String.
From ELA Require Import model.C40_Locks model.C40_Known model.C40_Ckpt proof.C40_Locks proof.C40_Ckpt gen.C40_summaries.
(* not used here: required so that `make props/C40.vo` also (re)builds the
   correspondence file the case shards import *)
From ELA Require corr.C40_corr.
Import ListNotations.

Lemma lockset_partial :
  forallb (fun g => lockset_ok (without (excluded_ids part_names allowed_ids) g)) groups = true.
Proof. vm_compute. reflexivity. Qed.

Lemma lockset_refuted : existsb (fun g => negb (lockset_ok g)) groups = true.
Proof. vm_compute. reflexivity. Qed.

Lemma no_race_partial : forall g, In g groups ->
  forall n st, reachable (without (excluded_ids part_names allowed_ids) g) n st -> ~ race st.
Proof.
  intros g Hg. pose proof lockset_partial as H. rewrite forallb_forall in H.
  apply lockset_sound. exact (H g Hg).
Qed.

(* first rejected pair of a list *)
Definition bad_pair (ss : list summary) : option (summary * summary) :=
  match find (fun s1 => existsb (fun s2 => negb (pair_ok s1 s2)) ss) ss with
  | Some s1 => match find (fun s2 => negb (pair_ok s1 s2)) ss with
               | Some s2 => Some (s1, s2)
               | None => None
               end
  | None => None
  end.

Lemma bad_pair_spec : forall ss s1 s2, bad_pair ss = Some (s1, s2) ->
  In s1 ss /\ In s2 ss /\ pair_ok s1 s2 = false.
Proof.
  unfold bad_pair. intros ss s1 s2 H.
  destruct (find _ ss) as [a|] eqn:F1; try discriminate.
  destruct (find (fun s2 => negb (pair_ok a s2)) ss) as [b|] eqn:F2; try discriminate.
  inversion H; subst. apply find_some in F1. apply find_some in F2.
  destruct F1 as [I1 _]. destruct F2 as [I2 P]. apply negb_true_iff in P. auto.
Qed.

Lemma race_witness : exists g st, In g groups /\ reachable g 2 st /\ race st.
Proof.
  pose proof lockset_refuted as H. apply existsb_exists in H.
  destruct H as (g & Hg & Hbad). exists g.
  destruct (bad_pair g) as [[s1 s2]|] eqn:B.
  - apply bad_pair_spec in B. destruct B as (I1 & I2 & P).
    destruct (lockset_complete g s1 s2 I1 I2 P) as (st & R & Rc).
    exists st. auto.
  - exfalso. apply negb_true_iff in Hbad.
    assert (lockset_ok g = true); [|congruence].
    unfold lockset_ok. apply forallb_forall. intros s1 H1. apply forallb_forall. intros s2 H2.
    unfold bad_pair in B.
    destruct (find (fun s1 => existsb (fun s2 => negb (pair_ok s1 s2)) g) g) as [a|] eqn:F1.
    + destruct (find (fun s2 => negb (pair_ok a s2)) g) eqn:F2; try discriminate.
      apply find_some in F1. destruct F1 as [Ia Ea]. apply existsb_exists in Ea.
      destruct Ea as (b & Ib & Pb). pose proof (find_none _ _ F2 b Ib) as N. simpl in N. congruence.
    + pose proof (find_none _ _ F1 s1 H1) as N. simpl in N.
      destruct (pair_ok s1 s2) eqn:P; auto.
      assert (existsb (fun s2 => negb (pair_ok s1 s2)) g = true); [|congruence].
      apply existsb_exists. exists s2. rewrite P. auto.
Qed.

Lemma checkpoint_handoff : ~ off_path_live_read ckpt_table.
Proof. apply ckpt_sound. vm_compute. reflexivity. Qed.
