(* C13 — progress of the unspent-index part of SaveBlock: on a block that
   validation lets through, UnspentIndex.ConnectBlock's write-back never meets
   "delete of an entry that does not exist".  Proofs only. *)
From Coq Require Import List Arith NArith Bool.
From ELA Require Import model.Ledger proof.Ledger_base proof.Ledger_unspent.
Import ListNotations.
Local Open Scope N_scope.

Lemma alookup_some_in {A} (l : list (N * A)) k v : alookup N.eqb l k = Some v -> In k (map fst l).
Proof.
  induction l as [|[a x] r IH]; simpl; [discriminate|].
  destruct (N.eqb_spec a k) as [->|Hne]; [now left | intros H; right; auto].
Qed.

Lemma aset_keys_in {A} (l : list (N * A)) k v k' :
  In k' (map fst (aset N.eqb l k v)) -> k' = k \/ In k' (map fst l).
Proof.
  induction l as [|[a x] r IH]; simpl.
  - intros [H|[]]; now left.
  - destruct (N.eqb_spec a k) as [->|Hne]; simpl.
    + intros [H|H]; [right; now left | right; now right].
    + intros [H|H]; [right; now left|]. destruct (IH H) as [?|?]; [now left | right; now right].
Qed.

Lemma writeback_ok loc : forall db, NoDup (map fst loc) ->
  (forall k, alookup N.eqb loc k = Some [] -> db k <> []) ->
  exists m, unspent_writeback db loc = Ok m.
Proof.
  induction loc as [|[a v] r IH]; intros db Hnd H; simpl.
  - eexists; reflexivity.
  - inversion Hnd as [|? ? Hn Hr]; subst.
    assert (Hrest : forall v', forall k, alookup N.eqb r k = Some [] -> upd db a v' k <> []).
    { intros v' k Hk. destruct (N.eq_dec k a) as [->|Hne].
      - exfalso. apply Hn. eapply alookup_some_in; exact Hk.
      - rewrite upd_other by exact Hne. apply H. simpl.
        destruct (N.eqb_spec a k) as [->|_]; [congruence | exact Hk]. }
    destruct v as [|x v'].
    + assert (Ha : db a <> []) by (apply H; simpl; now rewrite N.eqb_refl).
      destruct (db a) eqn:E; [congruence|]. apply IH; [exact Hr | apply Hrest].
    + apply IH; [exact Hr | apply Hrest].
Qed.

(* keys of the local map built by ConnectBlock: ids of the block's transactions
   that have outputs, and transactions referenced by a (non-coinbase) input *)
Lemma couts_keys tid l0 : forall (loc : ulocal) k,
  In k (map fst (fold_left (couts_step tid) l0 loc)) -> (k = tid /\ l0 <> []) \/ In k (map fst loc).
Proof.
  induction l0 as [|i r IH]; intros loc k H; simpl in H; [now right|].
  destruct (IH _ _ H) as [[-> _]|Hin]; [left; split; [reflexivity|discriminate]|].
  unfold couts_step in Hin. apply aset_keys_in in Hin. destruct Hin as [->|Hin]; [left; split; [reflexivity|discriminate] | now right].
Qed.

Lemma cins_keys db ins : forall (loc : ulocal) k,
  In k (map fst (fold_left (cins_step db) ins loc)) -> (exists op, In op ins /\ fst op = k) \/ In k (map fst loc).
Proof.
  induction ins as [|op r IH]; intros loc k H; simpl in H; [now right|].
  destruct (IH _ _ H) as [[op' [Hi He]]|Hin]; [left; exists op'; split; [now right|exact He]|].
  unfold cins_step in Hin. apply aset_keys_in in Hin.
  destruct Hin as [->|Hin]; [left; exists op; split; [now left|reflexivity] | now right].
Qed.

Lemma connect_tx_keys_in db t (loc : ulocal) k :
  In k (map fst (unspent_connect_tx db loc t)) ->
  (k = t_id t /\ t_outs t <> []) \/ (exists op, In op (spends t) /\ fst op = k) \/ In k (map fst loc).
Proof.
  unfold unspent_connect_tx, spends.
  change (fun l i => aset N.eqb l (t_id t) (match alookup N.eqb l (t_id t) with Some v => v | None => [] end ++ [i]))
    with (couts_step (t_id t)).
  change (fun l (op : outpoint) => let cur := match alookup N.eqb l (fst op) with Some v => v | None => db (fst op) end in
            aset N.eqb l (fst op) (swap_pop cur (snd op))) with (cins_step db).
  assert (Houts : forall k, In k (map fst (fold_left (couts_step (t_id t)) (idxs (length (t_outs t))) loc)) ->
            (k = t_id t /\ t_outs t <> []) \/ In k (map fst loc)).
  { intros k' H. apply couts_keys in H. destruct H as [[-> Hne]|H]; [left|now right].
    split; [reflexivity|]. intro E. rewrite E in Hne. apply Hne. reflexivity. }
  destruct (t_cb t); intro H.
  - destruct (Houts _ H) as [?|?]; [now left | right; now right].
  - apply cins_keys in H. destruct H as [?|H]; [right; now left|].
    destruct (Houts _ H) as [?|?]; [now left | right; now right].
Qed.

Lemma connect_txs_keys_in db txs : forall (loc : ulocal) k,
  In k (map fst (fold_left (unspent_connect_tx db) txs loc)) ->
  (exists t, In t txs /\ t_id t = k /\ t_outs t <> []) \/
  (exists op, In op (flat_map spends txs) /\ fst op = k) \/ In k (map fst loc).
Proof.
  induction txs as [|t r IH]; intros loc k H; simpl in H; [right; now right|].
  destruct (IH _ _ H) as [[t' [Hi He]]|[[op [Hi He]]|Hin]].
  - left. exists t'. split; [now right|exact He].
  - right; left. exists op. split; [simpl; apply in_or_app; now right|exact He].
  - apply connect_tx_keys_in in Hin. destruct Hin as [[-> Ho]|[[op [Hi He]]|Hin]].
    + left. exists t. split; [now left|]. split; [reflexivity|exact Ho].
    + right; left. exists op. split; [simpl; apply in_or_app; now left|exact He].
    + right; now right.
Qed.

(* UnspentIndex.ConnectBlock succeeds when (validation, C06 invariant):
   the block's transaction ids have no unspent entry yet, and every spent
   outpoint is currently listed as unspent. *)
Theorem unspent_connect_ok db b :
  (forall t, In t (b_txs b) -> db (t_id t) = []) ->
  (forall op, In op (block_spends b) -> In (snd op) (db (fst op))) ->
  exists m, unspent_connect db b = Ok m.
Proof.
  intros Hfresh Hun. unfold unspent_connect. apply writeback_ok.
  - apply connect_txs_keys. constructor.
  - intros k Hk Hdb.
    assert (Heff : eff db (fold_left (unspent_connect_tx db) (b_txs b) []) k = []) by (unfold eff; now rewrite Hk).
    rewrite model_txs_key in Heff by exact Hfresh. change (eff db [] k) with (db k) in Heff. rewrite Hdb in Heff.
    apply alookup_some_in in Hk. apply connect_txs_keys_in in Hk.
    destruct Hk as [[t [Hi [He Ho]]]|[[op [Hi He]]|[]]].
    + assert (Hnoref : forall op, In op (flat_map spends (b_txs b)) -> fst op <> k).
      { intros op Hop E. specialize (Hun op Hop). rewrite E, Hdb in Hun. exact Hun. }
      rewrite kf_txs_noref in Heff by exact Hnoref. simpl in Heff.
      assert (Hin : forall x, In x (idxs (length (t_outs t))) ->
                In x (flat_map (fun t0 => if t_id t0 =? k then idxs (length (t_outs t0)) else []) (b_txs b))).
      { intros x Hx. apply in_flat_map. exists t. split; [exact Hi|]. rewrite He, N.eqb_refl. exact Hx. }
      destruct (t_outs t) as [|o os] eqn:Eo; [now apply Ho|].
      specialize (Hin 0). rewrite Heff in Hin. apply Hin. apply idxs_in. simpl. apply Nat.lt_0_succ.
    + specialize (Hun op Hi). rewrite He, Hdb in Hun. exact Hun.
Qed.

(* ---------------------------------------------------------------- disconnect *)
(* UnspentIndex.DisconnectBlock: every value it puts into its local map is
   non-empty (it always appends the restored index), so the write-back never
   deletes; the only failing step is the direct delete of a block
   transaction's own entry when that entry does not exist. *)
Definition vals_ne (l : ulocal) : Prop := forall k v, In (k, v) l -> v <> [].

Lemma alookup_in {A} (l : list (N * A)) k v : alookup N.eqb l k = Some v -> exists k', In (k', v) l.
Proof.
  induction l as [|[a x] r IH]; simpl; [discriminate|].
  destruct (a =? k).
  - intros H. inversion H; subst. exists a. now left.
  - intros H. destruct (IH H) as [k' Hk']. exists k'. now right.
Qed.

Lemma aset_vals (l : ulocal) k0 v0 : vals_ne l -> v0 <> [] -> vals_ne (aset N.eqb l k0 v0).
Proof.
  intros Hl Hv. induction l as [|[a x] r IH]; simpl.
  - intros k v [H|[]]. inversion H; subst. exact Hv.
  - assert (Hr : vals_ne r) by (intros k v Hin; apply (Hl k v); now right).
    destruct (a =? k0).
    + intros k v [H|H]; [inversion H; subst; exact Hv | apply (Hl k v); now right].
    + intros k v [H|H]; [apply (Hl k v); now left | exact (IH Hr k v H)].
Qed.

Lemma snoc_ne {A} (l : list A) x : l ++ [x] <> [].
Proof. destruct l; discriminate. Qed.

Lemma dins_step_vals db1 l op : vals_ne l -> vals_ne (dins_step db1 l op).
Proof.
  intros Hl. unfold dins_step. apply aset_vals; [|apply snoc_ne].
  destruct (alookup N.eqb l (fst op)); [exact Hl|].
  destruct (db1 (fst op)) eqn:E; [exact Hl|]. apply aset_vals; [exact Hl|discriminate].
Qed.

Lemma dins_fold_vals db1 ins : forall l, vals_ne l -> vals_ne (fold_left (dins_step db1) ins l).
Proof. induction ins as [|op r IH]; intros l H; simpl; [exact H|]. apply IH. now apply dins_step_vals. Qed.

Lemma dis_fold_ok : forall txs db loc,
  NoDup (ids txs) -> (forall t, In t txs -> t_outs t <> [] -> db (t_id t) <> []) ->
  NoDup (map fst loc) -> vals_ne loc ->
  exists db' loc', fold_left unspent_disconnect_tx txs (Ok (db, loc)) = Ok (db', loc') /\
                   NoDup (map fst loc') /\ vals_ne loc'.
Proof.
  induction txs as [|t r IH]; intros db loc Hnd Hdb Hk Hv.
  - exists db, loc. repeat split; assumption.
  - cbn [fold_left]. rewrite dis_tx_step. simpl in Hnd. inversion Hnd as [|? ? Hnotin Hnd']; subst.
    assert (Hdel : exists db1, dis_del db t = Ok db1 /\
              (forall t', In t' r -> t_outs t' <> [] -> db1 (t_id t') <> [])).
    { unfold dis_del. destruct (t_outs t) as [|o os] eqn:Eo.
      - exists db. split; [reflexivity|]. intros t' Ht'. apply Hdb. now right.
      - assert (Hne : db (t_id t) <> []) by (apply Hdb; [now left | rewrite Eo; discriminate]).
        destruct (db (t_id t)) eqn:Ed; [congruence|].
        eexists. split; [reflexivity|]. intros t' Ht' Ho'. rewrite upd_other.
        + apply Hdb; [now right | exact Ho'].
        + intro E. apply Hnotin. rewrite <- E. unfold ids. now apply in_map. }
    destruct Hdel as [db1 [-> Hdb1]].
    apply IH; [exact Hnd' | exact Hdb1 | |].
    + destruct (t_cb t); [exact Hk | now apply dins_fold_keys].
    + destruct (t_cb t); [exact Hv | now apply dins_fold_vals].
Qed.

Theorem unspent_disconnect_ok db b :
  NoDup (ids (b_txs b)) -> (forall t, In t (b_txs b) -> t_outs t <> [] -> db (t_id t) <> []) ->
  exists m, unspent_disconnect db b = Ok m.
Proof.
  intros Hnd Hdb. unfold unspent_disconnect.
  destruct (dis_fold_ok (b_txs b) db [] Hnd Hdb) as [db' [loc' [E [Hk Hv]]]].
  - constructor.
  - intros k v [].
  - rewrite E. cbn [bind]. apply writeback_ok; [exact Hk|].
    intros k Hl. exfalso. destruct (alookup_in _ _ _ Hl) as [k' Hin]. exact (Hv k' [] Hin eq_refl).
Qed.
