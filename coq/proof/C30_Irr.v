(* C30 lemmas: the IsIrreversible arithmetic, the undo history of
   tryUpdateLastIrreversibleHeight, and the run invariant "every
   reorganisation performed through connectBestChain detached only heights
   above the LastIrreversibleHeight recorded before it". *)
From Coq Require Import ZArith NArith Bool List Lia.
From ELA Require Import model.Chain proof.C12_Struct proof.C12_Chain.
Import ListNotations.
Local Open Scope Z_scope.

Definition W32 : Z := 4294967296.

Lemma u32_small z : 0 <= z < W32 -> u32 z = z.
Proof. intros H. unfold u32. apply Z.mod_small. exact H. Qed.

Lemma u32_range z : 0 <= u32 z < W32.
Proof. unfold u32, W32. apply Z.mod_pos_bound. lia. Qed.

(* ------------------------------------------------------------------ *)
(* the guard *)

Lemma guard_arith p dpos l cur d :
  is_irreversible p dpos l cur d = false ->
  p_crc_only p < cur -> 0 <= d <= cur -> cur < W32 -> l < cur - d.
Proof.
  unfold is_irreversible. intros H Hc Hd Hw.
  destruct (cur <=? p_crc_only p) eqn:E1; [apply Z.leb_le in E1; lia|].
  rewrite u32_small in H by lia.
  destruct (cur - d <=? l) eqn:E2; [discriminate|]. apply Z.leb_gt in E2. exact E2.
Qed.

(* what else the guard refuses (documentation of the exclusion used by C12) *)
Lemma guard_char p dpos l cur d :
  0 <= d <= cur -> cur < W32 ->
  is_irreversible p dpos l cur d = true <->
  p_crc_only p < cur /\
  (cur - d <= l \/
   (p_revert_start p <= cur /\ dpos = true /\ IRR <= d) \/
   (cur < p_revert_start p /\ IRR < d)).
Proof.
  intros Hd Hw. unfold is_irreversible.
  destruct (cur <=? p_crc_only p) eqn:E1.
  - apply Z.leb_le in E1. split; [discriminate|lia].
  - apply Z.leb_gt in E1. rewrite u32_small by lia.
    destruct (cur - d <=? l) eqn:E2.
    + apply Z.leb_le in E2. split; auto.
    + apply Z.leb_gt in E2.
      destruct (p_revert_start p <=? cur) eqn:E3.
      * apply Z.leb_le in E3. rewrite andb_true_iff, Z.leb_le. split.
        -- intros [A B]. split; auto.
        -- intros [_ [A|[(A & B & C)|(A & B)]]]; try lia. auto.
      * apply Z.leb_gt in E3. rewrite Z.ltb_lt. split.
        -- intros A. split; auto.
        -- intros [_ [A|[(A & B & C)|(A & B)]]]; try lia.
Qed.

(* ------------------------------------------------------------------ *)
(* the undo history *)

(* heights strictly decreasing and at most [bound] *)
Fixpoint desc (hs : list (Z * undo)) (bound : Z) : Prop :=
  match hs with
  | [] => True
  | (hh, _) :: r => hh <= bound /\ desc r (hh - 1)
  end.

Lemma desc_mono hs : forall b b', b <= b' -> desc hs b -> desc hs b'.
Proof. destruct hs as [|[hh u] r]; simpl; intros; auto. intuition lia. Qed.

Lemma desc_bound hs : forall b hh u, desc hs b -> In (hh, u) hs -> hh <= b.
Proof.
  induction hs as [|[h0 u0] r IH]; simpl; intros b hh u D Hin; [tauto|].
  destruct D as [D1 D2]. destruct Hin as [E|Hin].
  - inversion E; subst; auto.
  - pose proof (IH _ _ _ D2 Hin). lia.
Qed.

Definition has_init (hs : list (Z * undo)) : Prop := exists hh od, In (hh, UInit 0 od) hs.

(* every initialisation record restores LIH = 0; a record of the other branches
   restores a non-zero LIH only if an initialisation record lies below it *)
Fixpoint hist_ok (hs : list (Z * undo)) : Prop :=
  match hs with
  | [] => True
  | (_, UInit ol _) :: r => ol = 0 /\ hist_ok r
  | (_, UKeep ol _) :: r => (ol <> 0 -> has_init r) /\ hist_ok r
  end.

Record irr_ok (p : params) (H : Z) (i : irr) : Prop := mkIrrOk {
  io_desc : desc (hist i) H;
  io_low : forall hh u, In (hh, u) (hist i) -> p_revert_start p <= hh;
  io_hist : hist_ok (hist i);
  io_init : lih i <> 0 -> has_init (hist i)
}.

Lemma irr_ok_start p H i : irr_ok p H i -> lih i <> 0 -> p_revert_start p <= H.
Proof.
  intros [D L Zr I] Hl. destruct (I Hl) as (hh & od & Hin).
  pose proof (L _ _ Hin). pose proof (desc_bound _ _ _ _ D Hin). lia.
Qed.

Lemma irr_ok_update p H i dpos resume :
  irr_ok p H i -> irr_ok p (H + 1) (try_update p (H + 1) dpos resume i).
Proof.
  intros [D L Zr I]. unfold try_update.
  assert (Dm : desc (hist i) (H + 1)) by (eapply desc_mono; [|exact D]; lia).
  destruct (H + 1 <? p_revert_start p) eqn:E1; [split; auto|].
  apply Z.ltb_ge in E1.
  assert (Dn : forall u, desc ((H + 1, u) :: hist i) (H + 1)).
  { intros u. simpl. split; [lia|]. replace (H + 1 - 1) with H by lia. exact D. }
  assert (Ln : forall u hh u', In (hh, u') ((H + 1, u) :: hist i) -> p_revert_start p <= hh).
  { intros u hh u' [E|Hin]; [inversion E; subst; lia|eauto]. }
  destruct (lih i =? 0) eqn:E2.
  - apply Z.eqb_eq in E2. split; simpl hist.
    + apply Dn.
    + apply Ln.
    + simpl. auto.
    + intros _. exists (H + 1), (dstart i). rewrite E2. simpl. auto.
  - apply Z.eqb_neq in E2.
    assert (Zn : hist_ok ((H + 1, UKeep (lih i) (dstart i)) :: hist i)).
    { simpl. auto. }
    assert (In_ : has_init ((H + 1, UKeep (lih i) (dstart i)) :: hist i)).
    { destruct (I E2) as (hh & od & Hin). exists hh, od. simpl. auto. }
    destruct dpos; [|split; auto].
    destruct (IRR <=? u32 (H + 1 - dstart i)).
    + split; simpl hist; [apply Dn|apply Ln|exact Zn|intros _; exact In_].
    + destruct resume; [|split; auto].
      split; simpl hist; [apply Dn|apply Ln|exact Zn|intros _; exact In_].
Qed.

Lemma rollback_aux_ok p h : forall hs B l d,
  desc hs B ->
  (forall hh u, In (hh, u) hs -> p_revert_start p <= hh) ->
  hist_ok hs ->
  (l <> 0 -> has_init hs) ->
  irr_ok p h (irr_rollback_aux h l d hs).
Proof.
  induction hs as [|[hh u] r IH]; simpl; intros B l d D L Zr I.
  - split; simpl; auto; try (intros; tauto).
  - destruct D as [D1 D2]. destruct (h <? hh) eqn:E.
    + destruct u as [ol od|ol od]; destruct Zr as [Z1 Z2].
      * apply (IH (hh - 1)); eauto. intros Hl. congruence.
      * apply (IH (hh - 1)); eauto.
    + apply Z.ltb_ge in E. split; simpl; auto.
Qed.

Lemma irr_ok_rollback p H h i : irr_ok p H i -> irr_ok p h (irr_rollback h i).
Proof. intros [D L Zr I]. unfold irr_rollback. eapply rollback_aux_ok; eauto. Qed.

(* ------------------------------------------------------------------ *)
(* run invariant *)

Definition log_ok (s : state) : Prop :=
  forall l det att ok, In (EvReorg l det att ok) (evlog s) -> Forall (fun h => l < h) det.

Record CInv (p : params) (s : state) : Prop := mkCInv {
  c_wf : wf s;
  c_irr : irr_ok p (n_height (tip s)) (ir s);
  c_h32 : forall n, In n (index s) -> n_height n < W32;
  c_log : log_ok s
}.

Lemma chain_heights det : forall anc rest, chain (det ++ anc :: rest) ->
  Forall (fun x => n_height anc < n_height x) det /\
  n_height (hd anc det) = n_height anc + Z.of_nat (length det).
Proof.
  induction det as [|x det IH]; intros anc rest H.
  - simpl. split; [constructor|lia].
  - simpl app in H. inversion H as [E|n m r Hc Hr Hv [E1 E2]].
    + destruct det; discriminate.
    + rewrite E2 in Hc. destruct (IH _ _ Hc) as [F1 F2].
      destruct Hr as (_ & Rh & _).
      assert (m = hd anc det) by (destruct det; simpl in *; inversion E2; auto). subst m.
      split.
      * constructor; [lia|]. eapply Forall_impl; [|exact F1]. simpl. intros; lia.
      * simpl hd. simpl length. lia.
Qed.

Lemma chain_tail x l : chain (x :: l) -> l <> [] -> chain l.
Proof. intros H N. inversion H; subst; [congruence|auto]. Qed.

Lemma irr_detach_n p det : forall s anc rest,
  chain (main s) -> main s = det ++ anc :: rest ->
  irr_ok p (n_height (tip s)) (ir s) ->
  irr_ok p (n_height anc) (ir (detach_n (length det) s)).
Proof.
  induction det as [|x det IH]; intros s anc rest Hc Em Hi.
  - simpl. unfold tip in Hi. rewrite Em in Hi. exact Hi.
  - simpl. apply (IH (detach_one s) anc rest).
    + simpl. rewrite Em. simpl. rewrite Em in Hc. simpl in Hc.
      apply chain_tail in Hc; auto. destruct det; discriminate.
    + simpl. rewrite Em. reflexivity.
    + simpl. unfold tip at 1. simpl. rewrite Em. simpl.
      rewrite Em in Hc. simpl in Hc.
      inversion Hc as [E|n m r Hc' Hr Hv [E1 E2]].
      * destruct det; discriminate.
      * assert (m = hd genesis (det ++ anc :: rest)) by (rewrite <- E2; reflexivity). subst m.
        destruct Hr as (_ & Rh & _). unfold tip. rewrite Em. simpl.
        replace (n_height x - 1) with (n_height (hd genesis (det ++ anc :: rest))) by lia.
        apply irr_ok_rollback with (H := n_height x). unfold tip in Hi. rewrite Em in Hi. exact Hi.
Qed.

Lemma irr_attach_all p att : forall s, onto (tip s) att ->
  irr_ok p (n_height (tip s)) (ir s) ->
  irr_ok p (n_height (tip (fst (attach_all p att s)))) (ir (fst (attach_all p att s))).
Proof.
  induction att as [|a att IH]; simpl; intros s Hon Hi; auto.
  destruct Hon as [Hr Hon]. destruct (b_valid (n_blk a)); simpl; auto.
  apply IH; auto.
  change (tip (push_main p s a)) with a. simpl. unfold ir_connect.
  destruct Hr as (_ & Rh & _). rewrite Rh.
  apply irr_ok_update. exact Hi.
Qed.

Lemma CInv_core p s s' : same_core s s' -> CInv p s -> CInv p s'.
Proof.
  intros C [A B D E]. pose proof C as (A1 & A2 & A3 & A4 & A5). split.
  - eapply wf_core; eauto.
  - unfold tip. rewrite A2, A3. exact B.
  - rewrite A1. exact D.
  - unfold log_ok. rewrite A5. exact E.
Qed.

Lemma CInv_cbc p s n pn :
  p_crc_only p < p_revert_start p ->
  NoDup (map n_id (index s)) -> CInv p s -> has_id (n_id n) (index s) = false ->
  lookup (n_parent n) (index s) = Some pn -> rel n pn -> n_height n < W32 ->
  CInv p (fst (connect_best_chain p n s)).
Proof.
  intros Hcfg ND [W Hi H32 Lg] Hf L R Hn32.
  pose proof (wf_cbc p s n pn ND W Hf L R) as W'.
  assert (H32' : forall m, In m (index s ++ [n]) -> n_height m < W32).
  { intros m Hm. apply in_app_iff in Hm. destruct Hm as [Hm|[<-|[]]]; auto. }
  unfold connect_best_chain in *.
  destruct (N.eqb (n_parent n) (n_id (tip s))) eqn:Et.
  - apply N.eqb_eq in Et. destruct (b_valid (n_blk n)) eqn:V; simpl in *.
    2:{ split; auto. }
    assert (pn = tip s) by (eapply tip_is_parent; eauto). subst pn.
    split; auto. change (tip (push_main p (add_index n s) n)) with n. simpl. unfold ir_connect. simpl.
    destruct R as (_ & Rh & _). rewrite Rh. apply irr_ok_update. exact Hi.
  - destruct (n_worksum n <=? n_worksum (tip (add_index n s))) eqn:Ew; simpl in *.
    + split; auto.
    + destruct (get_reorganize_nodes (add_index n s) n) as [det att] eqn:G.
      destruct (reorg_nodes_spec' (add_index n s) n) with (det := det) (att := att)
        as (anc & rest & Em & Hon & Hin & Hlast); auto.
      { simpl. apply nodup_add_index; auto. }
      { apply wf_add_index with (pn := pn); auto. }
      { simpl. apply in_app_iff; simpl; auto. }
      simpl in Em.
      destruct (is_irreversible p (b_dpos (n_blk (tip (add_index n s)))) (lih (ir s))
                  (n_height (tip (add_index n s))) (Z.of_nat (length det))) eqn:Gd; simpl in *.
      * split; auto. intros l d a ok [E|Hin']; [discriminate|]. eapply Lg; eauto.
      * assert (Wa : wf (add_index n s)) by (apply wf_add_index with (pn := pn); auto).
        pose proof (wf_chain _ W) as Hch. pose proof Hch as Hch'. rewrite Em in Hch'.
        destruct (chain_heights _ _ _ Hch') as [Hh1 Hh2].
        assert (Htip : n_height (tip s) = n_height anc + Z.of_nat (length det)).
        { unfold tip. rewrite Em. destruct det; simpl in *; auto. }
        assert (Ha0 : 0 <= n_height anc).
        { apply (idx_ok_height _ (wf_idx _ W)). apply (wf_sub _ W). rewrite Em. apply in_app_iff. simpl; auto. }
        assert (Hdet : Forall (fun h => lih (ir s) < h) (map n_height det)).
        { destruct (Z.eq_dec (lih (ir s)) 0) as [E0|N0].
          - rewrite E0. apply Forall_forall. intros h Hh. apply in_map_iff in Hh.
            destruct Hh as [x [<- Hx]]. rewrite Forall_forall in Hh1. specialize (Hh1 x Hx). lia.
          - pose proof (irr_ok_start _ _ _ Hi N0) as Hrs.
            assert (Ht32 : n_height (tip s) < W32).
            { apply H32. apply (wf_sub _ W). apply tip_in; auto. }
            unfold tip in Gd at 1 2. simpl in Gd. fold (tip s) in Gd.
            apply guard_arith in Gd; try lia.
            apply Forall_forall. intros h Hh. apply in_map_iff in Hh.
            destruct Hh as [x [<- Hx]]. rewrite Forall_forall in Hh1. specialize (Hh1 x Hx). lia. }
        unfold reorganize.
        pose proof (detach_n_index (length det) (add_index n s)) as (D1 & D2 & D3 & D4 & D5).
        simpl in D5. rewrite Em, skipn_len_app in D5.
        assert (Hi1 : irr_ok p (n_height anc) (ir (detach_n (length det) (add_index n s)))).
        { apply irr_detach_n with (rest := rest); simpl; auto. }
        pose proof (irr_attach_all p att (detach_n (length det) (add_index n s))) as IA.
        pose proof (attach_all_frame p att (detach_n (length det) (add_index n s))) as AF.
        destruct (attach_all p att (detach_n (length det) (add_index n s))) as [s1 ok1] eqn:AA.
        simpl in *. specialize (AF s1 ok1 eq_refl). destruct AF as (AF1 & AF2 & AF3 & AF4).
        unfold reorganize in W'. rewrite AA in W'. simpl in W'.
        split; simpl; auto.
        -- change (tip (log_event (EvReorg (lih (ir s)) (map n_height det) (map n_id att) ok1) s1)) with (tip s1).
           apply IA.
           ++ unfold tip. rewrite D5. simpl. exact Hon.
           ++ unfold tip. rewrite D5. simpl. exact Hi1.
        -- rewrite AF1, D1. exact H32'.
        -- intros l d a ok [E|Hin'].
           ++ inversion E; subst. exact Hdet.
           ++ rewrite AF4, D4 in Hin'. eapply Lg; eauto.
Qed.

Lemma CInv_accept p s b :
  p_crc_only p < p_revert_start p ->
  SInv s -> CInv p s -> b_height b < W32 -> has_id (b_id b) (index s) = false ->
  CInv p (fst (maybe_accept p b s)).
Proof.
  intros Hcfg HS HC Hb Hf. unfold maybe_accept.
  destruct (lookup (b_parent b) (index s)) as [pn|] eqn:L; simpl; auto.
  destruct (b_height b =? n_height pn + 1) eqn:Eh; simpl; auto.
  apply Z.eqb_eq in Eh.
  eapply CInv_cbc; eauto.
  - apply (s_in _ HS).
  - pose proof (lookup_some _ _ _ L) as [_ Lid]. unfold rel, n_parent; simpl; auto.
  - simpl. lia.
Qed.

Lemma CInv_init p : CInv p init.
Proof.
  split.
  - apply wf_init.
  - simpl. split; simpl; auto; try (intros; tauto).
  - intros n [<-|[]]. simpl. unfold W32. lia.
  - intros l d a ok [].
Qed.

Lemma run_CInv p bs :
  p_crc_only p < p_revert_start p ->
  Forall (fun b => b_height b < W32) bs -> CInv p (run p init bs).
Proof.
  intros Hcfg Hbs.
  destruct (run_pres p (CInv p) (CInv_core p) (fun b => b_height b < W32)
              (fun s b HS HC Hb Hf _ => CInv_accept p s b Hcfg HS HC Hb Hf) bs) with (s := init)
    as (_ & B & _); auto.
  - eapply Forall_impl; [|exact Hbs]. auto.
  - apply SInv_init.
  - apply CInv_init.
  - intros o [].
Qed.

(* ------------------------------------------------------------------ *)
(* LIH while moving forward *)

(* consecutive forward steps from height h (exclusive) with the given mode bits;
   returns the LIH after every step *)
Fixpoint fwd (p : params) (h : Z) (bits : list (bool * bool)) (i : irr) : list Z :=
  match bits with
  | [] => []
  | (dpos, resume) :: r =>
      let i' := try_update p (h + 1) dpos resume i in
      lih i' :: fwd p (h + 1) r i'
  end.

Fixpoint nondecr (prev : Z) (l : list Z) : Prop :=
  match l with
  | [] => True
  | x :: r => prev <= x /\ nondecr x r
  end.

Definition fwd_ok (h : Z) (i : irr) : Prop := 0 <= lih i /\ (lih i <> 0 -> lih i <= dstart i <= h + 1).

Lemma try_update_mono p h i dpos resume :
  IRR <= p_revert_start p -> 0 <= h -> h + 2 < W32 -> fwd_ok h i ->
  lih i <= lih (try_update p (h + 1) dpos resume i) /\
  fwd_ok (h + 1) (try_update p (h + 1) dpos resume i).
Proof.
  unfold IRR, W32. intros Hrs Hh Hw [F0 F1]. unfold try_update, fwd_ok.
  destruct (h + 1 <? p_revert_start p) eqn:E1.
  - split; [lia|]. split; auto. intros N. specialize (F1 N). lia.
  - apply Z.ltb_ge in E1. destruct (lih i =? 0) eqn:E2.
    + apply Z.eqb_eq in E2. simpl. unfold IRR. rewrite u32_small by (unfold W32; lia).
      split; [lia|]. split; [lia|]. intros _. lia.
    + apply Z.eqb_neq in E2. specialize (F1 E2).
      destruct dpos.
      * unfold IRR. rewrite (u32_small (h + 1 - dstart i)) by (unfold W32; lia).
        destruct (6 <=? h + 1 - dstart i) eqn:E3.
        -- simpl. destruct resume; rewrite u32_small by (unfold W32; lia); split; try lia; split; try lia; intros _; lia.
        -- destruct resume; simpl.
           ++ split; [lia|]. split; [lia|]. intros _. lia.
           ++ split; [lia|]. split; [lia|]. intros _. lia.
      * split; [lia|]. split; [lia|]. intros _. lia.
Qed.

Lemma fwd_nondecr p bits : forall h i,
  IRR <= p_revert_start p -> 0 <= h -> h + Z.of_nat (length bits) + 1 < W32 -> fwd_ok h i ->
  nondecr (lih i) (fwd p h bits i).
Proof.
  induction bits as [|[dpos resume] r IH]; simpl; intros h i Hrs Hh Hw Hok; auto.
  destruct (try_update_mono p h i dpos resume Hrs Hh) as [M1 M2]; auto; try lia.
  split; auto. apply IH; auto; lia.
Qed.

(* rolling back the block just processed restores the DPoS irreversibility
   state exactly (repair ff7a11db) *)
Lemma rollback_aux_stop h l d hs : desc hs h -> irr_rollback_aux h l d hs = mkIrr l d hs.
Proof.
  destruct hs as [|[hh u] r]; simpl; auto.
  intros [D _]. destruct (h <? hh) eqn:E; auto. apply Z.ltb_lt in E. lia.
Qed.

Lemma rollback_restores p H i dpos resume :
  desc (hist i) H -> irr_rollback H (try_update p (H + 1) dpos resume i) = i.
Proof.
  intros D. destruct i as [l d hs]. unfold try_update, irr_rollback. simpl in *.
  assert (P : forall u l' d', irr_rollback_aux H l' d' ((H + 1, u) :: hs) =
                              match u with UInit ol od => mkIrr ol od hs | UKeep ol od => mkIrr ol od hs end).
  { intros u l' d'. simpl. assert (H <? H + 1 = true) as -> by (apply Z.ltb_lt; lia).
    destruct u; apply rollback_aux_stop; exact D. }
  destruct (H + 1 <? p_revert_start p); [apply rollback_aux_stop; exact D|].
  destruct (l =? 0); [cbn [lih dstart hist]; rewrite P; reflexivity|].
  destruct dpos; [|apply rollback_aux_stop; exact D].
  destruct (IRR <=? u32 (H + 1 - d)); [cbn [lih dstart hist]; rewrite P; reflexivity|].
  destruct resume; [cbn [lih dstart hist]; rewrite P; reflexivity|apply rollback_aux_stop; exact D].
Qed.
