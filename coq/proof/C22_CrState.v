(* C22 proofs: change discipline => one entry's undo restores the state it was
   recorded at; rollback over many entries = replay of the prefix. *)
From Coq Require Import ZArith Bool List Lia Sorted.
From ELA Require Import lib.History.
From ELA Require Import model.C22_CrState.
Import ListNotations.
Local Open Scope Z_scope.

Definition meq (m m' : mem) : Prop := forall k, get k m = get k m'.

Lemma meq_refl : forall m, meq m m. Proof. intros m k; reflexivity. Qed.
Lemma meq_trans : forall a b c, meq a b -> meq b c -> meq a c.
Proof. intros a b c H1 H2 k. rewrite H1. apply H2. Qed.

Definition dos (cs : list chg) (m : mem) : mem := fold_left (fun s c => ch_do c s) cs m.
Definition undos (cs : list chg) (m : mem) : mem := fold_left (fun s c => ch_undo c s) cs m.

Lemma do_all_map : forall cs m, do_all (map to_change cs) m = dos cs m.
Proof. induction cs as [|c r IH]; simpl; intros; auto. Qed.
Lemma undo_order_map : forall cs m, undo_order (map to_change cs) m = undos cs m.
Proof. induction cs as [|c r IH]; simpl; intros; auto. Qed.

Lemma ch_undo_meq : forall c m m', meq m m' -> meq (ch_undo c m) (ch_undo c m').
Proof.
  intros c m m' H k. destruct c; unfold ch_undo, put; simpl; repeat rewrite H; reflexivity.
Qed.
Lemma undos_meq : forall cs m m', meq m m' -> meq (undos cs m) (undos cs m').
Proof. induction cs as [|c r IH]; simpl; intros; auto. apply IH. now apply ch_undo_meq. Qed.

(* the cell and undo value of a change whose undo assigns *)
Definition uassign (c : chg) : option (Z * Z) :=
  match c with
  | Add _ _ => None
  | Assign k _ old | AddRestore k _ old | Restore k old => Some (k, old)
  end.
Definition adds (k : Z) (cs : list chg) : Z :=
  fold_right (fun c a => match c with Add k' d => if k =? k' then d + a else a | _ => a end) 0 cs.
Definition assigned (k : Z) (cs : list chg) : bool :=
  existsb (fun c => match uassign c with Some (k', _) => k =? k' | None => false end) cs.

Lemma dos_unassigned : forall k cs m, assigned k cs = false -> get k (dos cs m) = get k m + adds k cs.
Proof.
  induction cs as [|c r IH]; simpl; intros m H; [lia|].
  apply orb_false_iff in H as [H1 H2]. unfold dos in *. simpl. rewrite IH; auto.
  destruct c; simpl in *; try rewrite H1; try lia.
  destruct (k =? k0) eqn:E; [apply Z.eqb_eq in E; subst|]; lia.
Qed.

Lemma undos_unassigned : forall k cs m, assigned k cs = false -> get k (undos cs m) = get k m - adds k cs.
Proof.
  induction cs as [|c r IH]; simpl; intros m H; [lia|].
  apply orb_false_iff in H as [H1 H2]. unfold undos in *. simpl. rewrite IH; auto.
  destruct c; simpl in *; try rewrite H1; try lia.
  destruct (k =? k0) eqn:E; [apply Z.eqb_eq in E; subst|]; lia.
Qed.

Lemma undos_assigned : forall k v0 cs m,
  addedb k cs = false ->
  (forall c old, In c cs -> uassign c = Some (k, old) -> old = v0) ->
  get k (undos cs m) = if assigned k cs then v0 else get k m.
Proof.
  induction cs as [|c r IH]; simpl; intros m Ha Ho; auto.
  apply orb_false_iff in Ha as [H1 H2]. unfold undos in *. simpl.
  rewrite IH; auto; [|intros; eapply Ho; eauto].
  destruct c; simpl in *.
  - rewrite H1. reflexivity.
  - destruct (k =? k0) eqn:E; simpl; auto.
    apply Z.eqb_eq in E; subst k0. destruct (assigned k r); auto. eapply Ho; eauto.
  - destruct (k =? k0) eqn:E; simpl; auto.
    apply Z.eqb_eq in E; subst k0. destruct (assigned k r); auto. eapply Ho; eauto.
  - destruct (k =? k0) eqn:E; simpl; auto.
    apply Z.eqb_eq in E; subst k0. destruct (assigned k r); auto. eapply Ho; eauto.
Qed.

Definition disc (s : mem) (cs : list chg) : Prop :=
  forall k, assigned k cs = true ->
    addedb k cs = false /\ forall c old, In c cs -> uassign c = Some (k, old) -> old = get k s.

Lemma entry_good : forall s cs, disc s cs -> meq (undos cs (dos cs s)) s.
Proof.
  intros s cs D k. destruct (assigned k cs) eqn:Ea.
  - destruct (D k Ea) as [Hadd Hold]. rewrite (undos_assigned k (get k s)); auto. now rewrite Ea.
  - rewrite undos_unassigned, dos_unassigned; auto. lia.
Qed.

Lemma discb_sound : forall s cs, discb s cs = true -> disc s cs.
Proof.
  intros s cs H k Ha. unfold discb in H. rewrite forallb_forall in H.
  apply existsb_exists in Ha as [c0 [Hin0 Hc0]].
  destruct (uassign c0) as [[k0 old0]|] eqn:E0; [|discriminate]. apply Z.eqb_eq in Hc0; subst k0.
  split.
  - specialize (H _ Hin0). destruct c0; simpl in E0; try discriminate; injection E0 as -> ->;
      apply andb_true_iff in H as [_ H]; now apply negb_true_iff in H.
  - intros c old Hin Hu. specialize (H _ Hin).
    destruct c; simpl in Hu; try discriminate; injection Hu as -> ->;
      apply andb_true_iff in H as [H _]; now apply Z.eqb_eq in H.
Qed.

(* the simple kinds are disciplined by construction *)
Definition simple (t : tx) : Prop :=
  match t with
  | TxVote _ | TxCancelVote _ | TxUnregister _ | TxReview _ _ _ | TxProposalBudget _
  | TxTrackingRelease _ | TxRejectVote _ _ | TxImpeachVote _ _ => True
  | _ => False
  end.
Definition unreg_fresh (s : mem) (txs : list tx) : Prop :=
  forall i, In (TxUnregister i) txs -> get (cancelh i) s = 0.

Lemma in_mk : forall s h txs c, In c (mk_changes s h txs) -> exists t, In t txs /\ In c (tx_changes s h t).
Proof. intros. unfold mk_changes in H. apply in_flat_map in H. exact H. Qed.

Lemma addedb_false : forall k cs, (forall d, ~ In (Add k d) cs) -> addedb k cs = false.
Proof.
  intros k cs H. destruct (addedb k cs) eqn:E; auto. apply existsb_exists in E as [c [Hin Hc]].
  destruct c; try discriminate. apply Z.eqb_eq in Hc; subst. exfalso. eapply H; eauto.
Qed.

(* which cells a simple transaction adds to / assigns *)
Lemma simple_add_cell : forall s h t k d, simple t -> In (Add k d) (tx_changes s h t) ->
  exists i, k = votes i \/ k = used \/ k = reject i \/ k = imp i.
Proof.
  intros s h t k d Hs Hin. destruct t; simpl in Hs; try contradiction; simpl in Hin.
  - apply in_map_iff in Hin as [x [Hx _]]. injection Hx as Hk _. exists (fst x). left. auto.
  - apply in_map_iff in Hin as [x [Hx _]]. injection Hx as Hk _. exists (fst x). left. auto.
  - destruct Hin as [H|[H|[]]]; discriminate.
  - destruct Hin as [H|[]]; discriminate.
  - destruct Hin as [H|[]]. injection H as Hk _. exists 0. right. left. auto.
  - destruct Hin as [H|[]]. injection H as Hk _. exists 0. right. left. auto.
  - destruct Hin as [H|[]]. injection H as Hk _. exists p. right. right. left. auto.
  - destruct Hin as [H|[]]. injection H as Hk _. exists m. right. right. right. auto.
Qed.

Lemma simple_assign_cell : forall s h t c k old, simple t -> In c (tx_changes s h t) ->
  uassign c = Some (k, old) ->
  (exists i, k = cancelh i /\ old = 0 /\ t = TxUnregister i) \/
  ((exists i, k = cstate i) \/ (exists p m, k = review p m)) /\ old = get k s.
Proof.
  intros s h t c k old Hs Hin Hu. destruct t; simpl in Hs; try contradiction; simpl in Hin.
  - apply in_map_iff in Hin as [x [<- _]]. discriminate.
  - apply in_map_iff in Hin as [x [<- _]]. discriminate.
  - destruct Hin as [<-|[<-|[]]]; simpl in Hu; injection Hu as <- <-.
    + left. eauto.
    + right. split; eauto.
  - destruct Hin as [<-|[]]. simpl in Hu. injection Hu as <- <-. right. split; eauto.
  - destruct Hin as [<-|[]]. discriminate.
  - destruct Hin as [<-|[]]. discriminate.
  - destruct Hin as [<-|[]]. discriminate.
  - destruct Hin as [<-|[]]. discriminate.
Qed.

Lemma mk_disc : forall s h txs, Forall simple txs -> unreg_fresh s txs -> disc s (mk_changes s h txs).
Proof.
  intros s h txs Hsim Hf k Ha. rewrite Forall_forall in Hsim.
  apply existsb_exists in Ha as [c0 [Hin0 Hc0]].
  destruct (uassign c0) as [[k0 old0]|] eqn:E0; [|discriminate]. apply Z.eqb_eq in Hc0; subst k0.
  apply in_mk in Hin0 as [t0 [Ht0 Hc0]].
  pose proof (simple_assign_cell s h t0 c0 k old0 (Hsim _ Ht0) Hc0 E0) as Hcell.
  split.
  - apply addedb_false. intros d Hd. apply in_mk in Hd as [t' [Ht' Hc']].
    destruct (simple_add_cell s h t' k d (Hsim _ Ht') Hc') as [j Hj].
    unfold votes, used, reject, imp, cancelh, cstate, review, cell in *.
    destruct Hcell as [[i [-> _]]|[[[i ->]|[p [m ->]]] _]]; destruct Hj as [Hj|[Hj|[Hj|Hj]]]; lia.
  - intros c old Hin Hu. apply in_mk in Hin as [t [Ht Hc]].
    destruct (simple_assign_cell s h t c k old (Hsim _ Ht) Hc Hu) as [[i (-> & -> & ->)]|[_ ->]]; auto.
    symmetry. now apply Hf.
Qed.

(* ---- many entries *)
Fixpoint good (s : mem) (bs : list (Z * list tx)) : Prop :=
  match bs with
  | [] => True
  | b :: r => disc s (mk_changes s (fst b) (snd b)) /\ good (snd (commit_block s b)) r
  end.

Lemma goodb_good : forall bs s, goodb s bs = true -> good s bs.
Proof.
  induction bs as [|b r IH]; simpl; intros s H; auto.
  apply andb_true_iff in H as [H1 H2]. split; [now apply discb_sound|auto].
Qed.

(* heights never decrease: the entries of one block share its height *)
Definition nondecreasing (bs : list (Z * list tx)) : Prop := StronglySorted Z.le (map fst bs).

Lemma filter_above : forall k (bs : list (Z * list tx)),
  Forall (fun h => k < h) (map fst bs) -> filter (fun b => fst b <=? k) bs = [].
Proof.
  induction bs as [|b r IH]; simpl; intros H; auto. inversion H; subst.
  destruct (fst b <=? k) eqn:E; [apply Z.leb_le in E; lia|auto].
Qed.

Lemma process_cons : forall s b r,
  process s (b :: r) = ((fst b, mk_changes s (fst b) (snd b)) :: fst (process (snd (commit_block s b)) r),
                        snd (process (snd (commit_block s b)) r)).
Proof. intros. simpl. destruct (process _ r). reflexivity. Qed.

Lemma rollback_eq_direct : forall k bs s0, nondecreasing bs -> good s0 bs ->
  meq (rollback_to k (fst (process s0 bs)) (snd (process s0 bs))) (direct k s0 bs).
Proof.
  intros k. induction bs as [|b r IH]; intros s0 Hi Hg.
  - apply meq_refl.
  - inversion Hi as [|? ? Hs Hf]; subst. destruct Hg as [Hu Hg].
    rewrite process_cons. set (s1 := snd (commit_block s0 b)) in *.
    specialize (IH s1 Hs Hg). simpl fst. simpl snd. unfold rollback_to; simpl fold_right.
    fold (rollback_to k (fst (process s1 r)) (snd (process s1 r))).
    unfold direct. simpl filter. destruct (fst b <=? k) eqn:E.
    + assert (k <? fst b = false) as -> by (apply Z.ltb_ge; apply Z.leb_le in E; lia).
      rewrite process_cons. simpl snd. exact IH.
    + apply Z.leb_gt in E. assert (k <? fst b = true) as -> by (now apply Z.ltb_lt).
      assert (Hall : Forall (fun h => k < h) (map fst r)).
      { eapply Forall_impl; [|exact Hf]. simpl; intros; lia. }
      unfold direct in IH. rewrite (filter_above k r Hall) in *. simpl in *.
      rewrite undo_order_map.
      eapply meq_trans; [apply undos_meq; exact IH|].
      unfold s1, commit_block. simpl. rewrite do_all_map. now apply entry_good.
Qed.

Lemma undisciplined_refuted :
  exists cs s, get 7 (undos cs (dos cs s)) <> get 7 s.
Proof. exists [Assign 7 1 0; Assign 7 2 1], []. vm_compute. discriminate. Qed.

(* a literal undo value that is not the recorded value: the second progress
   tracking that finds FinalPaymentStatus already raised lowers it on rollback *)
Lemma literal_undo_refuted :
  exists s, get (final 1) s = 1 /\
    let cs := mk_changes s 9 [TxTrack 1 TProgress 0 5 0 false [1; 2] 0] in
    get (final 1) (undos cs (dos cs s)) = 0 /\ discb s cs = false.
Proof. exists [(final 1, 1)]. vm_compute. repeat split. Qed.
