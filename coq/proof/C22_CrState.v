(* C22 proofs: change discipline => one height's undo restores the state it was
   recorded at; rollback over many heights = replay of the prefix. *)
From Coq Require Import ZArith Bool List Lia Sorted.
From ELA Require Import lib.History model.C22_CrState.
Import ListNotations.
Local Open Scope Z_scope.

Definition meq (m m' : mem) : Prop := forall k, get k m = get k m'.

Lemma meq_refl : forall m, meq m m. Proof. intros m k; reflexivity. Qed.
Lemma meq_trans : forall a b c, meq a b -> meq b c -> meq a c.
Proof. intros a b c H1 H2 k. rewrite H1. apply H2. Qed.
Lemma meq_sym : forall a b, meq a b -> meq b a.
Proof. intros a b H k. symmetry. apply H. Qed.

Lemma get_put : forall k k' v m, get k (put k' v m) = if k =? k' then v else get k m.
Proof. reflexivity. Qed.

Definition dos (cs : list chg) (m : mem) : mem := fold_left (fun s c => ch_do c s) cs m.
Definition undos (cs : list chg) (m : mem) : mem := fold_left (fun s c => ch_undo c s) cs m.

Lemma do_all_map : forall cs m, do_all (map to_change cs) m = dos cs m.
Proof. induction cs as [|c r IH]; simpl; intros; auto. Qed.
Lemma undo_order_map : forall cs m, undo_order (map to_change cs) m = undos cs m.
Proof. induction cs as [|c r IH]; simpl; intros; auto. Qed.

Lemma ch_undo_meq : forall c m m', meq m m' -> meq (ch_undo c m) (ch_undo c m').
Proof.
  intros c m m' H k. destruct c; unfold ch_undo; rewrite !get_put; repeat rewrite H; reflexivity.
Qed.
Lemma undos_meq : forall cs m m', meq m m' -> meq (undos cs m) (undos cs m').
Proof. induction cs as [|c r IH]; simpl; intros; auto. apply IH. now apply ch_undo_meq. Qed.

(* per cell *)
Definition cell (c : chg) : Z := match c with Add k _ => k | Assign k _ _ => k end.
Definition adds (k : Z) (cs : list chg) : Z :=
  fold_right (fun c a => match c with Add k' d => if k =? k' then d + a else a | _ => a end) 0 cs.
Definition assigned (k : Z) (cs : list chg) : bool :=
  existsb (fun c => match c with Assign k' _ _ => k =? k' | _ => false end) cs.
Definition added (k : Z) (cs : list chg) : bool :=
  existsb (fun c => match c with Add k' _ => k =? k' | _ => false end) cs.

Lemma dos_unassigned : forall k cs m, assigned k cs = false -> get k (dos cs m) = get k m + adds k cs.
Proof.
  induction cs as [|c r IH]; simpl; intros m H; [lia|].
  apply orb_false_iff in H as [H1 H2]. unfold dos in *. simpl. rewrite IH; auto.
  destruct c; simpl.
  - destruct (k =? k0) eqn:E; [apply Z.eqb_eq in E; subst|]; lia.
  - rewrite H1. lia.
Qed.

Lemma undos_unassigned : forall k cs m, assigned k cs = false -> get k (undos cs m) = get k m - adds k cs.
Proof.
  induction cs as [|c r IH]; simpl; intros m H; [lia|].
  apply orb_false_iff in H as [H1 H2]. unfold undos in *. simpl. rewrite IH; auto.
  destruct c; simpl.
  - destruct (k =? k0) eqn:E; [apply Z.eqb_eq in E; subst|]; lia.
  - rewrite H1. lia.
Qed.

Lemma undos_assigned : forall k v0 cs m,
  added k cs = false ->
  (forall k' v old, In (Assign k' v old) cs -> k' = k -> old = v0) ->
  get k (undos cs m) = if assigned k cs then v0 else get k m.
Proof.
  induction cs as [|c r IH]; simpl; intros m Ha Ho; auto.
  apply orb_false_iff in Ha as [H1 H2]. unfold undos in *. simpl.
  rewrite IH; auto; [|intros; eapply Ho; eauto].
  destruct c; simpl.
  - rewrite H1. simpl. reflexivity.
  - destruct (k =? k0) eqn:E; simpl.
    + apply Z.eqb_eq in E; subst k0.
      destruct (assigned k r); auto. eapply Ho; eauto.
    + reflexivity.
Qed.

(* the change discipline at recording state s: a cell that is assigned in the
   block is not also added to, and every assignment's undo value is the cell's
   value in s *)
Definition disc (s : mem) (cs : list chg) : Prop :=
  forall k, assigned k cs = true ->
    added k cs = false /\ forall k' v old, In (Assign k' v old) cs -> k' = k -> old = get k s.

Lemma entry_good : forall s cs, disc s cs -> meq (undos cs (dos cs s)) s.
Proof.
  intros s cs D k. destruct (assigned k cs) eqn:Ea.
  - destruct (D k Ea) as [Hadd Hold]. rewrite (undos_assigned k (get k s)); auto. now rewrite Ea.
  - rewrite undos_unassigned, dos_unassigned; auto. lia.
Qed.

(* the changes the modelled transactions generate are disciplined as soon as
   a candidate being unregistered has no cancel height yet (the Go undo resets
   CancelHeight to the literal 0) *)
Definition unreg_fresh (s : mem) (txs : list tx) : Prop :=
  forall i, In (TxUnregister i) txs -> get (cancelh i) s = 0.

Lemma in_mk : forall s h txs c, In c (mk_changes s h txs) -> exists t, In t txs /\ In c (tx_changes s h t).
Proof. intros. unfold mk_changes in H. apply in_flat_map in H. exact H. Qed.

Lemma assigned_true : forall k cs, assigned k cs = true -> exists v old, In (Assign k v old) cs.
Proof.
  intros k cs H. apply existsb_exists in H as [c [Hin Hc]]. destruct c; [discriminate|].
  apply Z.eqb_eq in Hc; subst. eauto.
Qed.

Lemma added_false : forall k cs, (forall d, ~ In (Add k d) cs) -> added k cs = false.
Proof.
  intros k cs H. destruct (added k cs) eqn:E; auto. apply existsb_exists in E as [c [Hin Hc]].
  destruct c; [|discriminate]. apply Z.eqb_eq in Hc; subst. exfalso. eapply H; eauto.
Qed.

Lemma mk_disc : forall s h txs, unreg_fresh s txs -> disc s (mk_changes s h txs).
Proof.
  intros s h txs Hf k Ha. apply assigned_true in Ha as (v & old & Hin).
  apply in_mk in Hin as [t [Ht Hc]].
  assert (Hcell : (exists i, k = cancelh i \/ k = cstate i) \/ (exists p m, k = review p m)).
  { destruct t; simpl in Hc.
    - apply in_map_iff in Hc as [x [Hx _]]; discriminate.
    - apply in_map_iff in Hc as [x [Hx _]]; discriminate.
    - destruct Hc as [Hc|[Hc|[]]]; injection Hc as Hk _ _; rewrite <- Hk; left; eauto.
    - destruct Hc as [Hc|[]]; injection Hc as Hk _ _; rewrite <- Hk; right; eauto.
    - destruct Hc as [Hc|[]]; discriminate.
    - destruct Hc as [Hc|[]]; discriminate. }
  split.
  - apply added_false. intros d Hd. apply in_mk in Hd as [t' [_ Hc']].
    assert (Hk : (exists i, k = votes i) \/ k = used).
    { destruct t'; simpl in Hc'.
      - apply in_map_iff in Hc' as [x [Hx _]]; injection Hx as Hk _; rewrite <- Hk; left; eauto.
      - apply in_map_iff in Hc' as [x [Hx _]]; injection Hx as Hk _; rewrite <- Hk; left; eauto.
      - destruct Hc' as [Hc'|[Hc'|[]]]; discriminate.
      - destruct Hc' as [Hc'|[]]; discriminate.
      - destruct Hc' as [Hc'|[]]; injection Hc' as Hk _; rewrite <- Hk; now right.
      - destruct Hc' as [Hc'|[]]; injection Hc' as Hk _; rewrite <- Hk; now right. }
    unfold votes, used, cancelh, cstate, review in *.
    destruct Hcell as [[i [->| ->]]|[p [m ->]]], Hk as [[j Hj]|Hj]; lia.
  - intros k' v' old' Hin' ->. apply in_mk in Hin' as [t' [Ht' Hc']].
    destruct t'; simpl in Hc'.
    + apply in_map_iff in Hc' as [x [Hx _]]; discriminate.
    + apply in_map_iff in Hc' as [x [Hx _]]; discriminate.
    + destruct Hc' as [Hc'|[Hc'|[]]]; injection Hc' as <- _ <-; auto.
      symmetry. now apply Hf.
    + destruct Hc' as [Hc'|[]]; injection Hc' as <- _ <-; auto.
    + destruct Hc' as [Hc'|[]]; discriminate.
    + destruct Hc' as [Hc'|[]]; discriminate.
Qed.

(* ---- many heights *)
Fixpoint good (s : mem) (bs : list (Z * list tx)) : Prop :=
  match bs with
  | [] => True
  | b :: r => unreg_fresh s (snd b) /\ good (snd (commit_block s b)) r
  end.

Definition increasing (bs : list (Z * list tx)) : Prop := StronglySorted Z.lt (map fst bs).

Lemma filter_above : forall k (bs : list (Z * list tx)),
  Forall (fun h => k < h) (map fst bs) -> filter (fun b => fst b <=? k) bs = [].
Proof.
  induction bs as [|b r IH]; simpl; intros H; auto. inversion H; subst.
  destruct (fst b <=? k) eqn:E; [apply Z.leb_le in E; lia|auto].
Qed.

Lemma process_cons : forall s b r,
  process s (b :: r) = ((fst b, mk_changes s (fst b) (snd b)) :: fst (process (snd (commit_block s b)) r),
                        snd (process (snd (commit_block s b)) r)).
Proof. intros. simpl. destruct (process _ r). reflexivity. Qed.

Lemma rollback_eq_direct : forall k bs s0, increasing bs -> good s0 bs ->
  meq (rollback_to k (fst (process s0 bs)) (snd (process s0 bs))) (direct k s0 bs).
Proof.
  intros k. induction bs as [|b r IH]; intros s0 Hi Hg.
  - apply meq_refl.
  - inversion Hi as [|? ? Hs Hf]; subst. destruct Hg as [Hu Hg].
    rewrite process_cons. set (s1 := snd (commit_block s0 b)) in *.
    specialize (IH s1 Hs Hg). simpl fst. simpl snd. unfold rollback_to; simpl fold_right.
    fold (rollback_to k (fst (process s1 r)) (snd (process s1 r))).
    unfold direct. simpl filter. destruct (fst b <=? k) eqn:E.
    + assert (k <? fst b = false) as -> by (apply Z.ltb_ge; apply Z.leb_le in E; lia).
      rewrite process_cons. simpl snd. exact IH.
    + apply Z.leb_gt in E. assert (k <? fst b = true) as -> by (now apply Z.ltb_lt).
      assert (Hall : Forall (fun h => k < h) (map fst r)).
      { eapply Forall_impl; [|exact Hf]. simpl; intros; lia. }
      unfold direct in IH. rewrite (filter_above k r Hall) in *. simpl in *.
      rewrite undo_order_map.
      eapply meq_trans; [apply undos_meq; exact IH|].
      unfold s1, commit_block. simpl. rewrite do_all_map. apply entry_good. now apply mk_disc.
Qed.

(* the statement fails without the discipline: two assignments of one cell in
   one height whose undo values differ are not undone by the forward order *)
Lemma undisciplined_refuted :
  exists cs s, get 7 (undos cs (dos cs s)) <> get 7 s.
Proof. exists [Assign 7 1 0; Assign 7 2 1], []. vm_compute. discriminate. Qed.
