(* C18 basic lemmas: N-indexed take/drop, le32, block location round trip *)
From Coq Require Import NArith ZArith Bool Lia List.
From ELA Require Import model.C18_Flat.
Import ListNotations.
Local Open Scope N_scope.

Ltac divmod := Z.to_euclidean_division_equations.
Ltac zlia := zify; divmod; lia.

(* ------------------------------------------------------------ byte lists *)

Lemma takeN_firstn n b : takeN n b = firstn (N.to_nat n) b.
Proof.
  unfold takeN, len. destruct (N.leb_spec (N.of_nat (length b)) n); auto.
  symmetry; apply firstn_all2; lia.
Qed.
Lemma dropN_skipn n b : dropN n b = skipn (N.to_nat n) b.
Proof.
  unfold dropN, len. destruct (N.leb_spec (N.of_nat (length b)) n); auto.
  symmetry; apply skipn_all2; lia.
Qed.
Lemma len_app a b : len (a ++ b) = len a + len b.
Proof. unfold len; rewrite app_length; lia. Qed.
Lemma len_nil : len [] = 0. Proof. reflexivity. Qed.
Lemma len_0 b : len b = 0 -> b = [].
Proof. unfold len; destruct b; simpl; auto; lia. Qed.
Lemma len_rev b : len (rev b) = len b.
Proof. unfold len; now rewrite rev_length. Qed.

Lemma takeN_app_exact a b : takeN (len a) (a ++ b) = a.
Proof.
  rewrite takeN_firstn. unfold len. rewrite Nat2N.id.
  rewrite firstn_app, Nat.sub_diag, firstn_all. simpl. apply app_nil_r.
Qed.
Lemma dropN_app_exact a b : dropN (len a) (a ++ b) = b.
Proof.
  rewrite dropN_skipn. unfold len. rewrite Nat2N.id.
  rewrite skipn_app, Nat.sub_diag, skipn_all. reflexivity.
Qed.
Lemma takeN_app_le n a b : n <= len a -> takeN n (a ++ b) = takeN n a.
Proof.
  intros H. rewrite !takeN_firstn, firstn_app. unfold len in H.
  replace (N.to_nat n - length a)%nat with 0%nat by lia. simpl. apply app_nil_r.
Qed.
Lemma dropN_app_le n a b : n <= len a -> dropN n (a ++ b) = dropN n a ++ b.
Proof.
  intros H. rewrite !dropN_skipn, skipn_app. unfold len in H.
  replace (N.to_nat n - length a)%nat with 0%nat by lia. reflexivity.
Qed.
Lemma dropN_app_add a n b : dropN (len a + n) (a ++ b) = dropN n b.
Proof.
  rewrite !dropN_skipn, skipn_app. unfold len.
  replace (N.to_nat (N.of_nat (length a) + n) - length a)%nat with (N.to_nat n) by lia.
  rewrite skipn_all2 by lia. reflexivity.
Qed.
Lemma takeN_all n b : len b <= n -> takeN n b = b.
Proof. intros; rewrite takeN_firstn; apply firstn_all2; unfold len in *; lia. Qed.
Lemma dropN_all n b : len b <= n -> dropN n b = [].
Proof. intros; rewrite dropN_skipn; apply skipn_all2; unfold len in *; lia. Qed.
Lemma dropN_0 b : dropN 0 b = b.
Proof. rewrite dropN_skipn; reflexivity. Qed.
Lemma len_takeN n b : n <= len b -> len (takeN n b) = n.
Proof. intros; rewrite takeN_firstn; unfold len in *; rewrite firstn_length; lia. Qed.
Lemma len_dropN n b : len (dropN n b) = len b - n.
Proof. rewrite dropN_skipn; unfold len; rewrite skipn_length; lia. Qed.

Lemma bytes_eqb_refl a : bytes_eqb a a = true.
Proof. induction a; simpl; auto. now rewrite N.eqb_refl. Qed.

Lemma u32_small x : x < 4294967296 -> u32 x = x.
Proof. intros; unfold u32; now apply N.mod_small. Qed.

(* ------------------------------------------------------------ le32 *)

Lemma le32_len x : len (le32 x) = 4.
Proof. reflexivity. Qed.
Lemma de_le32_le32 x : x < 4294967296 -> de_le32 (le32 x) = x.
Proof.
  intros H. unfold le32, de_le32.
  assert (E1 : x / 65536 = x / 256 / 256) by (rewrite N.div_div by discriminate; reflexivity).
  assert (E2 : x / 16777216 = x / 256 / 256 / 256) by (rewrite !N.div_div by discriminate; reflexivity).
  rewrite E1, E2. zlia.
Qed.
Lemma take4_le32 x r : takeN 4 (le32 x ++ r) = le32 x.
Proof. exact (takeN_app_exact (le32 x) r). Qed.
Lemma drop4_le32 x r : dropN 4 (le32 x ++ r) = r.
Proof. exact (dropN_app_exact (le32 x) r). Qed.

Lemma ser_loc_len l : len (ser_loc l) = 12.
Proof. reflexivity. Qed.
Lemma deser_ser_loc l :
  l_file l < 4294967296 -> l_off l < 4294967296 -> l_len l < 4294967296 ->
  deser_loc (ser_loc l) = l.
Proof.
  intros Hf Ho Hl. destruct l as [f o n]; simpl in *. unfold deser_loc, ser_loc; simpl l_file; simpl l_off; simpl l_len.
  rewrite take4_le32.
  rewrite drop4_le32, take4_le32.
  change 8 with (len (le32 f) + 4). rewrite dropN_app_add, drop4_le32.
  rewrite takeN_all by (rewrite le32_len; lia).
  now rewrite !de_le32_le32.
Qed.

Lemma location_roundtrip l :
  l_file l < 4294967296 -> l_off l < 4294967296 -> l_len l < 4294967296 ->
  len (ser_loc l) = 12 /\ deser_loc (ser_loc l) = l.
Proof. intros H1 H2 H3. split; [apply ser_loc_len|now apply deser_ser_loc]. Qed.
