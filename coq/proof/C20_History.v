(* C20 — proofs about lib/History.v (model of utils.History).

   Structure: a reference machine [ghost] (the log of committed entries, the
   pending changes, the temporary changes, the height the state is positioned
   at) with obviously-right update rules [gstep]; a usage protocol [pre] (what a
   caller may do next, plus "undo inverts do where it is executed" for the
   changes being executed); an invariant [Inv] tying the concrete history to
   the reference machine; [step_inv]: every permitted op preserves it and does
   not panic.  The property theorems are corollaries. *)
From Coq Require Import ZArith NArith List Bool Lia.
From ELA Require Import lib.History.
Import ListNotations.
Local Open Scope N_scope.

Section Proofs.
  Variable S : Type.
  Notation change := (change S).
  Notation hchanges := (hchanges S).
  Notation history := (history S).

  (* ------------------------------------------------------------ folds *)
  Lemma commit_entries_app (l1 l2 : list hchanges) s :
    commit_entries (l1 ++ l2) s = commit_entries l2 (commit_entries l1 s).
  Proof. apply fold_left_app. Qed.

  Lemma rollback_entries_app (l1 l2 : list hchanges) s :
    rollback_entries (l1 ++ l2) s = rollback_entries l1 (rollback_entries l2 s).
  Proof. apply fold_right_app. Qed.

  Lemma do_all_app (l1 l2 : list change) s : do_all (l1 ++ l2) s = do_all l2 (do_all l1 s).
  Proof. apply fold_left_app. Qed.

  (* an entry is good at s when undoing it right after executing it at s
     gives s back (with the code's own undo order) *)
  Definition good_entry (e : hchanges) (s : S) : Prop := hc_rollback e (hc_commit e s) = s.

  Fixpoint log_good (l : list hchanges) (s : S) : Prop :=
    match l with
    | [] => True
    | e :: r => good_entry e s /\ log_good r (hc_commit e s)
    end.

  Lemma log_good_app l1 l2 s :
    log_good (l1 ++ l2) s <-> log_good l1 s /\ log_good l2 (commit_entries l1 s).
  Proof.
    revert s; induction l1 as [|e r IH]; intros s; simpl.
    - tauto.
    - rewrite IH. unfold commit_entries; simpl. tauto.
  Qed.

  Lemma rollback_commit l s : log_good l s -> rollback_entries l (commit_entries l s) = s.
  Proof.
    revert s; induction l as [|e r IH]; intros s H; simpl in *.
    - reflexivity.
    - destruct H as [G H]. unfold commit_entries in *; simpl.
      unfold rollback_entries in *. rewrite (IH _ H). exact G.
  Qed.

  (* ------------------------------------------------------------ sorted heights *)
  Fixpoint ssorted (l : list N) : Prop :=
    match l with [] => True | a :: r => Forall (N.lt a) r /\ ssorted r end.

  Lemma ssorted_app l1 l2 :
    ssorted (l1 ++ l2) <-> ssorted l1 /\ ssorted l2 /\ (forall x y, In x l1 -> In y l2 -> x < y).
  Proof.
    induction l1 as [|a r IH]; simpl.
    - split; [intros; repeat split; auto; intros; contradiction | tauto].
    - rewrite IH, Forall_app. split.
      + intros [[F1 F2] [S1 [S2 C]]]. repeat split; auto.
        intros x y [<-|Hx] Hy; [|auto]. rewrite Forall_forall in F2; auto.
      + intros [[F1 S1] [S2 C]]. repeat split; auto.
        apply Forall_forall; intros y Hy; apply C; auto.
  Qed.

  Lemma heights_app (l1 l2 : list hchanges) : heights (l1 ++ l2) = heights l1 ++ heights l2.
  Proof. apply map_app. Qed.

  Definition all_le (k : N) (l : list hchanges) := Forall (fun e => hc_height e <= k) l.
  Definition all_gt (k : N) (l : list hchanges) := Forall (fun e => k < hc_height e) l.

  Fixpoint drop_prefix (k : N) (l : list hchanges) : list hchanges :=
    match l with
    | [] => []
    | e :: r => if k <? hc_height e then l else drop_prefix k r
    end.

  Lemma keep_drop k l : keep_prefix k l ++ drop_prefix k l = l.
  Proof.
    induction l as [|e r IH]; simpl; auto.
    destruct (k <? hc_height e); simpl; congruence.
  Qed.

  Lemma keep_le k l : all_le k (keep_prefix k l).
  Proof.
    induction l as [|e r IH]; simpl; [constructor|].
    destruct (k <? hc_height e) eqn:E; [constructor|].
    constructor; auto. apply N.ltb_ge in E; auto.
  Qed.

  Lemma drop_gt k l : ssorted (heights l) -> all_gt k (drop_prefix k l).
  Proof.
    induction l as [|e r IH]; simpl; [constructor|].
    intros [F Sr]. destruct (k <? hc_height e) eqn:E; [|auto].
    apply N.ltb_lt in E. constructor; auto.
    apply Forall_forall; intros x Hx.
    rewrite Forall_forall in F. specialize (F (hc_height x) (in_map _ _ _ Hx)). lia.
  Qed.

  Lemma keep_all k l : all_le k l -> keep_prefix k l = l.
  Proof.
    induction 1 as [|e r He _ IH]; simpl; auto.
    destruct (k <? hc_height e) eqn:E; [apply N.ltb_lt in E; lia|congruence].
  Qed.

  Lemma keep_app_le k l1 l2 : all_le k l1 -> keep_prefix k (l1 ++ l2) = l1 ++ keep_prefix k l2.
  Proof.
    induction 1 as [|e r He _ IH]; simpl; auto.
    destruct (k <? hc_height e) eqn:E; [apply N.ltb_lt in E; lia|congruence].
  Qed.

  Lemma keep_gt k l : all_gt k l -> keep_prefix k l = [].
  Proof.
    destruct 1 as [|e r He _]; simpl; auto.
    apply N.ltb_lt in He. rewrite He. reflexivity.
  Qed.

  Lemma keep_split k l1 l2 : all_le k l1 -> all_gt k l2 -> keep_prefix k (l1 ++ l2) = l1.
  Proof. intros. rewrite keep_app_le, keep_gt, app_nil_r; auto. Qed.

  Lemma rb_filter k (l : list hchanges) s :
    ssorted (heights l) ->
    fold_right (fun hc s => if k <? hc_height hc then hc_rollback hc s else s) s l
    = rollback_entries (drop_prefix k l) s.
  Proof.
    intros Hs. pose proof (keep_le k l) as HA. pose proof (drop_gt k l Hs) as HB.
    rewrite <- (keep_drop k l) at 1. rewrite fold_right_app.
    set (B := drop_prefix k l) in *. set (A := keep_prefix k l) in *.
    assert (E1 : fold_right (fun hc s => if k <? hc_height hc then hc_rollback hc s else s) s B
                 = rollback_entries B s).
    { clear -HB. induction HB as [|e r He _ IH]; simpl; auto.
      apply N.ltb_lt in He. rewrite He, IH. reflexivity. }
    rewrite E1. generalize (rollback_entries B s). clear -HA.
    induction HA as [|e r He _ IH]; intros x; simpl; auto.
    destruct (k <? hc_height e) eqn:E; [apply N.ltb_lt in E; lia|auto].
  Qed.

  (* ------------------------------------------------------------ contiguous heights *)
  Fixpoint iotaN (a : N) (n : nat) : list N :=
    match n with O => [] | Datatypes.S n => a :: iotaN (a + 1) n end.

  Lemma iotaN_length a n : length (iotaN a n) = n.
  Proof. revert a; induction n; simpl; auto. Qed.

  Lemma iotaN_In a n x : In x (iotaN a n) <-> a <= x < a + N.of_nat n.
  Proof.
    revert a; induction n as [|n IH]; intros a; simpl.
    - lia.
    - rewrite IH. lia.
  Qed.

  Lemma iotaN_app a n m : iotaN a (n + m) = iotaN a n ++ iotaN (a + N.of_nat n) m.
  Proof.
    revert a; induction n as [|n IH]; intros a; simpl.
    - f_equal. lia.
    - rewrite IH. do 3 f_equal. lia.
  Qed.

  Lemma iotaN_nodup a n : NoDup (iotaN a n).
  Proof.
    revert a; induction n as [|n IH]; intros a; simpl; constructor; auto.
    rewrite iotaN_In. lia.
  Qed.

  Lemma iotaN_sorted a n : ssorted (iotaN a n).
  Proof.
    revert a; induction n as [|n IH]; intros a; simpl; auto. split; auto.
    apply Forall_forall; intros x Hx. apply iotaN_In in Hx. lia.
  Qed.

  Lemma heights_firstn n (l : list hchanges) : heights (firstn n l) = firstn n (heights l).
  Proof. unfold heights. symmetry. apply firstn_map. Qed.

  Lemma heights_skipn n (l : list hchanges) : heights (skipn n l) = skipn n (heights l).
  Proof. unfold heights. symmetry. apply skipn_map. Qed.

  Lemma firstn_iotaN p a n : (p <= n)%nat -> firstn p (iotaN a n) = iotaN a p.
  Proof.
    intros H. replace n with (p + (n - p))%nat by lia. rewrite iotaN_app.
    rewrite firstn_app, iotaN_length, Nat.sub_diag, firstn_O, app_nil_r.
    rewrite <- (iotaN_length a p) at 1. apply firstn_all.
  Qed.

  Lemma skipn_iotaN p a n : (p <= n)%nat -> skipn p (iotaN a n) = iotaN (a + N.of_nat p) (n - p).
  Proof.
    intros H. replace n with (p + (n - p))%nat at 1 by lia. rewrite iotaN_app.
    rewrite skipn_app, iotaN_length, Nat.sub_diag, skipn_O.
    rewrite <- (iotaN_length a p) at 1. rewrite skipn_all. reflexivity.
  Qed.

  Lemma all_le_heights k (l : list hchanges) : all_le k l <-> Forall (fun x => x <= k) (heights l).
  Proof. unfold all_le, heights. rewrite Forall_map. tauto. Qed.

  Lemma all_gt_heights k (l : list hchanges) : all_gt k l <-> Forall (fun x => k < x) (heights l).
  Proof. unfold all_gt, heights. rewrite Forall_map. tauto. Qed.

  Lemma distinct_nodup (l : list hchanges) : NoDup (heights l) -> distinct_heights l = length l.
  Proof.
    intros H. unfold distinct_heights. rewrite nodup_fixed_point by assumption.
    unfold heights. apply map_length.
  Qed.

  Lemma ssorted_nodup l : ssorted l -> NoDup l.
  Proof.
    induction l as [|a r IH]; simpl; intros H; constructor.
    - destruct H as [F _]. intros Hin. rewrite Forall_forall in F. specialize (F _ Hin). lia.
    - apply IH, H.
  Qed.

  Lemma first_count_sorted (l : list hchanges) :
    ssorted (heights l) -> first_height_count l = Nat.min 1 (length l).
  Proof.
    destruct l as [|e r]; simpl; auto. intros [F _]. rewrite N.eqb_refl. simpl.
    replace (filter _ r) with (@nil hchanges); [reflexivity|].
    symmetry. induction r as [|x r IH]; simpl; auto.
    inversion F as [|? ? Hx Fr]; subst.
    destruct (hc_height x =? hc_height e) eqn:Eq; [apply N.eqb_eq in Eq; lia|auto].
  Qed.

  Lemma sub32_small a b : b <= a -> a < 4294967296 -> sub32 a b = a - b.
  Proof.
    intros H1 H2. unfold sub32.
    rewrite (N.mod_small b) by lia.
    replace (a + 4294967296 - b) with ((a - b) + 1 * 4294967296) by lia.
    rewrite N.mod_add by lia. apply N.mod_small. lia.
  Qed.

  (* ------------------------------------------------------------ reference machine *)
  Record ghost := G {
    g_log : list hchanges;   (* committed entries not rolled back (evicted ones included) *)
    g_pend : list change;    (* changes appended for the next height *)
    g_temp : list change;    (* temporary changes *)
    g_tx : bool;             (* the temporary changes are currently executed *)
    g_pos : N;               (* height the state is positioned at *)
    g_top : N                (* best height *)
  }.

  Definition g0 : ghost := G [] [] [] false 0 0.

  (* the state the reference machine shows *)
  Definition ideal (s0 : S) (g : ghost) : S :=
    let base := commit_entries (keep_prefix (g_pos g) (g_log g)) s0 in
    if g_tx g then do_all (g_temp g) base else base.

  Definition gstep (o : op S) (g : ghost) (st : history * S) : ghost :=
    match o with
    | OAppend k c =>
        if k =? 0 then G (g_log g) (g_pend g) (g_temp g ++ [c]) (g_tx g) (g_pos g) (g_top g)
        else G (g_log g) (g_pend g ++ [c]) [] false (g_pos g) (g_top g)
    | OCommit k =>
        match g_temp g with
        | _ :: _ => G (g_log g) (g_pend g) (g_temp g) true (g_pos g) (g_top g)
        | [] => G (g_log g ++ [HC k (g_pend g)]) [] [] false k k
        end
    | OSeekTo k =>
        match seek_to k st with
        | ROk _ => G (g_log g) (g_pend g) (g_temp g) (g_tx g) k (g_top g)
        | _ => g
        end
    | ORollbackSeekTo k | ORollbackTo k =>
        if g_top g <=? k then g
        else G (keep_prefix k (g_log g)) (g_pend g) [] false k k
    end.

  Definition contiguous (h : history) : Prop :=
    exists a, 1 <= a /\ heights (h_changes h) = iotaN a (length (h_changes h)) /\
              a + N.of_nat (length (h_changes h)) = h_height h + 1.

  (* evicted part of the log *)
  Definition evicted (g : ghost) (h : history) : list hchanges :=
    firstn (length (g_log g) - length (h_changes h)) (g_log g).

  (* usage protocol *)
  Definition pre (s0 : S) (g : ghost) (st : history * S) (o : op S) : Prop :=
    let h := fst st in
    match o with
    | OAppend k c =>
        k < 4294967296 /\
        if k =? 0 then g_tx g = false
        else (g_temp g = [] \/ g_tx g = true) /\
             match h_cached h with None => h_height h < k | Some hc => hc_height hc = k end
    | OCommit k =>
        match g_temp g with
        | _ :: _ => g_tx g = false /\ undo_fwd (g_temp g) (do_all (g_temp g) (snd st)) = snd st
        | [] => k < 4294967296 /\ h_height h < k /\
                match h_cached h with None => True | Some hc => hc_height hc = k end /\
                good_entry (HC k (g_pend g)) (commit_entries (g_log g) s0)
        end
    | OSeekTo k =>
        g_temp g = [] /\ contiguous h /\
        (h_seek h = h_height h /\ k <= h_height h \/ k = h_height h)
    | ORollbackSeekTo k => h_height h <= k \/ (h_seek h = k /\ g_temp g = [])
    | ORollbackTo k =>
        h_height h <= k \/
        (h_seek h = h_height h /\ (g_temp g = [] \/ g_tx g = true) /\ all_le k (evicted g h))
    end.

  Record Inv (s0 : S) (g : ghost) (st : history * S) : Prop := {
    i_log : exists E, g_log g = E ++ h_changes (fst st);
    i_sorted : ssorted (heights (g_log g));
    i_top : all_le (h_height (fst st)) (g_log g);
    i_h32 : h_height (fst st) < 4294967296;
    i_good : log_good (g_log g) s0;
    i_seek : h_seek (fst st) <= h_height (fst st);
    i_d : h_seek (fst st) = h_height (fst st) \/
          (contiguous (fst st) /\
           h_height (fst st) - h_seek (fst st) <= N.of_nat (length (h_changes (fst st))));
    i_cached : match h_cached (fst st) with
               | None => g_pend g = []
               | Some hc => h_height (fst st) <= hc_height hc /\ hc_changes hc = g_pend g
               end;
    i_temp : h_temp (fst st) = g_temp g;
    i_tx : g_tx g = true ->
           g_temp g <> [] /\
           undo_fwd (g_temp g) (ideal s0 g) = commit_entries (keep_prefix (g_pos g) (g_log g)) s0;
    i_pos : g_pos g = h_seek (fst st);
    i_gtop : g_top g = h_height (fst st);
    i_cap : (Z.of_nat (length (h_changes (fst st))) <= Z.max (h_cap (fst st)) 1)%Z;
    i_state : snd st = ideal s0 g
  }.

  Arguments i_log {s0 g st} _.
  Arguments i_sorted {s0 g st} _.
  Arguments i_top {s0 g st} _.
  Arguments i_h32 {s0 g st} _.
  Arguments i_good {s0 g st} _.
  Arguments i_seek {s0 g st} _.
  Arguments i_d {s0 g st} _.
  Arguments i_cached {s0 g st} _.
  Arguments i_temp {s0 g st} _.
  Arguments i_tx {s0 g st} _.
  Arguments i_pos {s0 g st} _.
  Arguments i_gtop {s0 g st} _.
  Arguments i_cap {s0 g st} _.
  Arguments i_state {s0 g st} _.

  (* where the concrete list of entries splits at height k *)
  Lemma split_at (E ch : list hchanges) top k :
    ssorted (heights (E ++ ch)) -> all_le top (E ++ ch) -> k <= top ->
    (k = top \/ exists a, heights ch = iotaN a (length ch) /\ a + N.of_nat (length ch) = top + 1 /\
                          top - k <= N.of_nat (length ch)) ->
    let p := (length ch - N.to_nat (top - k))%nat in
    keep_prefix k (E ++ ch) = E ++ firstn p ch /\ all_gt k (skipn p ch).
  Proof.
    intros Hs Ht Hk [->|[a [Hh [Ha Hd]]]] p.
    - subst p. replace (N.to_nat (top - top)) with 0%nat by lia. rewrite Nat.sub_0_r.
      rewrite firstn_all, skipn_all. split; [apply keep_all; auto|constructor].
    - assert (Hp : (p <= length ch)%nat) by (subst p; lia).
      assert (L1 : all_le k (firstn p ch)).
      { apply all_le_heights. rewrite heights_firstn, Hh, firstn_iotaN by auto.
        apply Forall_forall; intros x Hx. apply iotaN_In in Hx. subst p. lia. }
      assert (L2 : all_gt k (skipn p ch)).
      { apply all_gt_heights. rewrite heights_skipn, Hh, skipn_iotaN by auto.
        apply Forall_forall; intros x Hx. apply iotaN_In in Hx. subst p. lia. }
      split; auto.
      rewrite <- (firstn_skipn p ch) at 1. rewrite app_assoc. apply keep_split; auto.
      apply Forall_app; split; auto.
      rewrite heights_app in Hs. apply ssorted_app in Hs. destruct Hs as [_ [_ C]].
      apply Forall_forall; intros x Hx.
      destruct ch as [|e r].
      + simpl in *. apply Forall_app in Ht. destruct Ht as [Ht _].
        rewrite Forall_forall in Ht. specialize (Ht _ Hx). simpl in Ht. lia.
      + specialize (C (hc_height x) (hc_height e) (in_map _ _ _ Hx) (or_introl eq_refl)).
        simpl in Hh. injection Hh as Hh _. simpl length in *. lia.
  Qed.

  (* the position lemma of the invariant *)
  Lemma pos_split s0 g st :
    Inv s0 g st ->
    let h := fst st in
    let p := (length (h_changes h) - N.to_nat (h_height h - h_seek h))%nat in
    exists A, g_log g = A ++ skipn p (h_changes h) /\ keep_prefix (h_seek h) (g_log g) = A.
  Proof.
    intros I h p. destruct (i_log I) as [E HE]. fold h in HE.
    pose proof (i_sorted I) as Hs. pose proof (i_top I) as Ht. pose proof (i_seek I) as Hk.
    fold h in Ht, Hk. rewrite HE in Hs, Ht.
    assert (Hc : h_seek h = h_height h \/
                 exists a, heights (h_changes h) = iotaN a (length (h_changes h)) /\
                           a + N.of_nat (length (h_changes h)) = h_height h + 1 /\
                           h_height h - h_seek h <= N.of_nat (length (h_changes h))).
    { destruct (i_d I) as [e|[[a [_ [H1 H2]]] H3]]; [left; exact e|right; exists a; auto]. }
    destruct (split_at E (h_changes h) (h_height h) (h_seek h) Hs Ht Hk Hc) as [K _]. fold p in K.
    exists (E ++ firstn p (h_changes h)). split.
    - rewrite HE, <- app_assoc, firstn_skipn. reflexivity.
    - rewrite HE. exact K.
  Qed.

  Definition res_state (r : res S) : option (history * S) :=
    match r with ROk st | RErr st => Some st | RPanic => None end.

  Lemma tx_false s0 g st : Inv s0 g st -> g_temp g = [] -> g_tx g = false.
  Proof.
    intros I H. destruct (g_tx g) eqn:E; auto. destruct (i_tx I E) as [C _]. contradiction.
  Qed.

  Arguments tx_false {s0 g st} _ _.
  Arguments pos_split {s0 g st} _.
  Arguments sub32_small {a b} _ _.
  Arguments keep_all {k l} _.
  Arguments first_count_sorted {l} _.

  (* undoing the temporary changes (when there are any) leads to the base state *)
  Lemma temp_base s0 g h s :
    Inv s0 g (h, s) -> (g_temp g = [] \/ g_tx g = true) ->
    match h_temp h with [] => s | _ :: _ => undo_fwd (h_temp h) s end
    = commit_entries (keep_prefix (g_pos g) (g_log g)) s0.
  Proof.
    intros I [H|H].
    - pose proof (i_temp I) as T. simpl in T. rewrite T, H.
      pose proof (i_state I) as St. simpl in St. rewrite St. unfold ideal.
      rewrite (tx_false I H). reflexivity.
    - destruct (i_tx I H) as [Hne Hu]. pose proof (i_temp I) as T. simpl in T. rewrite T.
      pose proof (i_state I) as St. simpl in St. rewrite St.
      destruct (g_temp g); [contradiction|exact Hu].
  Qed.

  Arguments temp_base {s0 g h s} _ _.

  Lemma append_inv s0 g st k c :
    Inv s0 g st -> pre s0 g st (OAppend k c) ->
    exists st', res_state (append k c st) = Some st' /\ Inv s0 (gstep (OAppend k c) g st) st'.
  Proof.
    intros I P. destruct st as [h s]. simpl in P. destruct P as [Hk P]. unfold append, gstep.
    destruct (k =? 0) eqn:K.
    - eexists; split; [reflexivity|].
      destruct I as [I1 I2 I3 I4 I5 I6 I7 I8 I9 I10 I11 I12 I13 I14]; simpl in *.
      constructor; simpl; auto.
      + rewrite I9; reflexivity.
      + intros C; congruence.
      + rewrite I14. unfold ideal. simpl. rewrite P. reflexivity.
    - destruct P as [Pt Pc].
      pose proof (temp_base I Pt) as TB.
      destruct I as [I1 I2 I3 I4 I5 I6 I7 I8 I9 I10 I11 I12 I13 I14]; simpl in *.
      destruct (h_cached h) as [hc|] eqn:Hc.
      + rewrite Pc, N.eqb_refl. simpl. eexists; split; [reflexivity|].
        constructor; simpl; auto.
        * destruct I8 as [A B]. split; [lia|rewrite B; reflexivity].
        * intros C; discriminate.
      + assert (X : k <? h_height h = false) by (apply N.ltb_ge; lia). rewrite X, andb_false_r.
        eexists; split; [reflexivity|].
        constructor; simpl; auto.
        * split; [lia|]. rewrite I8. reflexivity.
        * intros C; discriminate.
  Qed.

  Lemma Zlen_to_nat (n : nat) (d : N) : (N.to_nat d <= n)%nat ->
    Z.to_nat (Z.of_nat n - Z.of_N d) = (n - N.to_nat d)%nat.
  Proof. lia. Qed.

  Lemma commit_inv s0 g st k :
    Inv s0 g st -> pre s0 g st (OCommit k) ->
    exists st', res_state (commit k st) = Some st' /\ Inv s0 (gstep (OCommit k) g st) st'.
  Proof.
    intros I P. destruct st as [h s]. simpl in P. unfold commit, gstep.
    pose proof (i_temp I) as T. simpl in T.
    destruct (g_temp g) as [|t r] eqn:GT.
    - (* a real commit *)
      rewrite T. destruct P as [Hk [Hlt [Pc Pg]]].
      pose proof (tx_false I GT) as TX.
      destruct (pos_split I) as [A [HA KA]]. simpl in HA, KA.
      pose proof (i_seek I) as Hsk. pose proof (i_h32 I) as H32. simpl in Hsk, H32.
      rewrite (sub32_small Hsk H32).
      set (len := length (h_changes h)) in *. set (d := h_height h - h_seek h) in *.
      assert (Hd : (N.to_nat d <= len)%nat).
      { destruct (i_d I) as [e|[_ e]]; simpl in e; subst d; lia. }
      assert (S1 : commit_from (Z.of_nat len - Z.of_N d) (h_changes h) s
                   = commit_entries (g_log g) s0).
      { unfold commit_from. replace (0 <=? Z.of_nat len - Z.of_N d)%Z with true by lia.
        rewrite Zlen_to_nat by exact Hd.
        pose proof (i_state I) as St. simpl in St. rewrite St. unfold ideal. rewrite TX.
        rewrite (i_pos I). simpl. rewrite KA. rewrite HA.
        rewrite commit_entries_app. reflexivity. }
      rewrite S1.
      assert (Ehc : match h_cached h with Some hc => hc | None => HC k [] end = HC k (g_pend g)).
      { pose proof (i_cached I) as C. simpl in C. destruct (h_cached h) as [hc|].
        - destruct hc as [hh hl]. simpl in *. destruct C as [_ C]. subst. reflexivity.
        - rewrite C. reflexivity. }
      rewrite Ehc.
      pose proof (i_sorted I) as Hs. pose proof (i_top I) as Ht. simpl in Ht.
      destruct (i_log I) as [E HE]. simpl in HE.
      assert (Hsc : ssorted (heights (h_changes h))).
      { rewrite HE, heights_app in Hs. apply ssorted_app in Hs. tauto. }
      assert (Hdist : distinct_heights (h_changes h) = len).
      { apply distinct_nodup, ssorted_nodup, Hsc. }
      rewrite Hdist, (first_count_sorted Hsc). fold len.
      set (ch := if (h_cap h <=? Z.of_nat len)%Z then skipn (Nat.min 1 len) (h_changes h) else h_changes h).
      eexists; split; [reflexivity|].
      assert (Hch : exists E', g_log g = E' ++ ch /\ (Z.of_nat (length ch) + 1 <= Z.max (h_cap h) 1)%Z).
      { subst ch. destruct (h_cap h <=? Z.of_nat len)%Z eqn:Ec.
        - exists (E ++ firstn (Nat.min 1 len) (h_changes h)). split.
          + rewrite <- app_assoc, firstn_skipn. exact HE.
          + rewrite skipn_length. fold len. pose proof (i_cap I) as Cp. simpl in Cp. fold len in Cp. lia.
        - exists E. split; auto. fold len. lia. }
      destruct Hch as [E' [HE' Hcap]].
      assert (Hle : all_le k (g_log g ++ [HC k (g_pend g)])).
      { apply Forall_app; split.
        - eapply Forall_impl; [|exact Ht]. simpl; intros; lia.
        - constructor; [simpl; lia|constructor]. }
      constructor; simpl; auto.
      + exists E'. rewrite HE', app_assoc. reflexivity.
      + rewrite heights_app. apply ssorted_app. repeat split; auto.
        * simpl. auto.
        * intros x y Hx [<-|[]]. simpl.
          apply all_le_heights in Ht. rewrite Forall_forall in Ht. specialize (Ht _ Hx). lia.
      + apply log_good_app. split; [apply (i_good I)|]. simpl. split; [exact Pg|exact Logic.I].
      + lia.
      + intros C; discriminate.
      + rewrite app_length. simpl. lia.
      + unfold ideal. simpl. rewrite (keep_all Hle). rewrite commit_entries_app. reflexivity.
    - (* temporary changes pending: execute them and return *)
      rewrite T. destruct P as [TX Pu].
      eexists; split; [reflexivity|].
      pose proof (i_state I) as St. simpl in St. simpl in Pu.
      assert (Sb : s = commit_entries (keep_prefix (g_pos g) (g_log g)) s0).
      { rewrite St. unfold ideal. rewrite TX. reflexivity. }
      destruct I as [I1 I2 I3 I4 I5 I6 I7 I8 I9 I10 I11 I12 I13 I14]; simpl in *.
      constructor; simpl; auto.
      + intros _. split; [discriminate|]. unfold ideal. simpl. rewrite <- Sb. exact Pu.
      + unfold ideal. simpl. rewrite <- Sb. reflexivity.
  Qed.

  Lemma keep_length k (l : list hchanges) : (length (keep_prefix k l) <= length l)%nat.
  Proof.
    induction l as [|e r IH]; simpl; auto. destruct (k <? hc_height e); simpl; lia.
  Qed.

  Lemma evicted_eq g h E : g_log g = E ++ h_changes h -> evicted g h = E.
  Proof.
    intros H. unfold evicted. rewrite H, app_length.
    replace (length E + length (h_changes h) - length (h_changes h))%nat with (length E) by lia.
    rewrite firstn_app, Nat.sub_diag, firstn_O, app_nil_r. apply firstn_all.
  Qed.

  (* invariant after either rollback *)
  Lemma rollback_post s0 g h s k E s' :
    Inv s0 g (h, s) -> k < h_height h -> g_log g = E ++ h_changes h -> all_le k E ->
    s' = commit_entries (keep_prefix k (g_log g)) s0 ->
    Inv s0 (G (keep_prefix k (g_log g)) (g_pend g) [] false k k)
        (Hist (h_cap h) k (keep_prefix k (h_changes h)) (h_cached h) [] k, s').
  Proof.
    intros I Hk HE HEk Hs'.
    pose proof (keep_drop k (g_log g)) as KD.
    pose proof (i_sorted I) as Hs. rewrite <- KD, heights_app in Hs. apply ssorted_app in Hs.
    pose proof (i_good I) as Hg. rewrite <- KD in Hg. apply log_good_app in Hg.
    pose proof (keep_le k (g_log g)) as KL.
    constructor; simpl; auto; try tauto.
    - exists E. rewrite HE. apply keep_app_le. exact HEk.
    - pose proof (i_h32 I). simpl in *. lia.
    - lia.
    - pose proof (i_cached I) as C. simpl in C. destruct (h_cached h); auto.
      destruct C; split; auto. lia.
    - intros C; discriminate.
    - pose proof (i_cap I) as C. simpl in C. pose proof (keep_length k (h_changes h)). lia.
    - unfold ideal. simpl. rewrite (keep_all KL). exact Hs'.
  Qed.

  Arguments rollback_post {s0 g h s k E s'} _ _ _ _ _.

  Lemma contiguous_facts h : contiguous h ->
    distinct_heights (h_changes h) = length (h_changes h) /\
    N.of_nat (length (h_changes h)) <= h_height h.
  Proof.
    intros [a [Ha [Hh He]]]. split; [|lia].
    apply distinct_nodup. rewrite Hh. apply iotaN_nodup.
  Qed.

  Lemma seek_inv s0 g st k :
    Inv s0 g st -> pre s0 g st (OSeekTo k) ->
    exists st', res_state (seek_to k st) = Some st' /\ Inv s0 (gstep (OSeekTo k) g st) st'.
  Proof.
    intros I P. destruct st as [h s]. simpl in P. destruct P as [GT [Hc Hk]].
    destruct (contiguous_facts h Hc) as [Hdist Hlen].
    pose proof (i_h32 I) as H32. pose proof (i_seek I) as Hsk. simpl in H32, Hsk.
    pose proof (tx_false I GT) as TX.
    pose proof (i_state I) as St. simpl in St. unfold ideal in St. rewrite TX, (i_pos I) in St. simpl in St.
    destruct (i_log I) as [E HE]. simpl in HE.
    pose proof (i_top I) as Ht. simpl in Ht.
    assert (KT : keep_prefix (h_height h) (g_log g) = g_log g) by (apply keep_all, Ht).
    set (len := length (h_changes h)) in *.
    assert (Hlim : sub32 (h_height h) (N.of_nat (distinct_heights (h_changes h))) = h_height h - N.of_nat len).
    { rewrite Hdist. apply sub32_small; auto. }
    unfold gstep.
    assert (R : (k <? h_height h - N.of_nat len) = true /\ seek_to k (h, s) = RErr (h, s) \/
                (k <? h_height h - N.of_nat len) = false /\
                seek_to k (h, s) = ROk (Hist (h_cap h) (h_height h) (h_changes h) (h_cached h) (h_temp h) k,
                                        commit_entries (keep_prefix k (g_log g)) s0)).
    { unfold seek_to. rewrite Hlim. destruct (k <? h_height h - N.of_nat len) eqn:EL; [left; auto|right].
      split; auto. apply N.ltb_ge in EL. fold len.
      assert (Hkt : k <= h_height h) by (destruct Hk as [[_ ?]| ->]; lia).
      destruct (N.eq_dec (h_seek h) (h_height h)) as [Es|Ns].
      - (* seeking back from the best height *)
        rewrite Es. replace (0 <=? Z.of_N (h_height h) - Z.of_N k)%Z with true by lia.
        replace (Z.of_nat len <? Z.of_N (h_height h) - Z.of_N k)%Z with false by lia.
        do 2 f_equal.
        replace (Z.to_nat (Z.of_nat len - (Z.of_N (h_height h) - Z.of_N k)))
          with (len - N.to_nat (h_height h - k))%nat by lia.
        pose proof (i_sorted I) as Hs. rewrite HE in Hs, Ht.
        destruct Hc as [a [Ha [Hh Hea]]].
        destruct (split_at E (h_changes h) (h_height h) k Hs Ht Hkt) as [K _].
        { right. exists a. fold len. repeat split; auto. lia. }
        fold len in K. set (p := (len - N.to_nat (h_height h - k))%nat) in *.
        assert (Hsplit : g_log g = (E ++ firstn p (h_changes h)) ++ skipn p (h_changes h)).
        { rewrite <- app_assoc, firstn_skipn. exact HE. }
        rewrite HE, K. rewrite St, Es, KT.
        pose proof (i_good I) as Hg. rewrite Hsplit in Hg.
        apply log_good_app in Hg. destruct Hg as [_ Hg].
        rewrite Hsplit, commit_entries_app. apply rollback_commit. exact Hg.
      - (* seeking forward to the best height *)
        destruct Hk as [[? _]|Hk]; [contradiction|]. subst k.
        replace (0 <=? Z.of_N (h_seek h) - Z.of_N (h_height h))%Z with false by lia.
        do 2 f_equal.
        destruct (pos_split I) as [A [HA KA]]. simpl in HA, KA.
        assert (Hd : (N.to_nat (h_height h - h_seek h) <= len)%nat).
        { destruct (i_d I) as [e|[_ e]]; simpl in e; [contradiction|]. fold len in e. lia. }
        unfold commit_from.
        replace (0 <=? Z.of_nat len + (Z.of_N (h_seek h) - Z.of_N (h_height h)))%Z with true by lia.
        replace (Z.to_nat (Z.of_nat len + (Z.of_N (h_seek h) - Z.of_N (h_height h))))
          with (len - N.to_nat (h_height h - h_seek h))%nat by lia.
        rewrite KT, St, KA. rewrite HA.
        rewrite commit_entries_app. reflexivity. }
    destruct R as [[EL R]|[EL R]]; rewrite R; simpl.
    - exists (h, s). split; auto.
    - eexists; split; [reflexivity|]. apply N.ltb_ge in EL.
      assert (Hkt : k <= h_height h) by (destruct Hk as [[_ ?]| ->]; lia).
      destruct I as [I1 I2 I3 I4 I5 I6 I7 I8 I9 I10 I11 I12 I13 I14]; simpl in *.
      constructor; simpl; auto.
      + right. split; [exact Hc|]. fold len. lia.
      + intros C. rewrite TX in C. discriminate.
      + unfold ideal. simpl. rewrite TX. reflexivity.
  Qed.

  Lemma rollback_seek_inv s0 g st k :
    Inv s0 g st -> pre s0 g st (ORollbackSeekTo k) ->
    exists st', res_state (rollback_seek_to k st) = Some st' /\
                Inv s0 (gstep (ORollbackSeekTo k) g st) st'.
  Proof.
    intros I P. destruct st as [h s]. simpl in P. unfold rollback_seek_to, gstep.
    rewrite (i_gtop I). simpl.
    destruct (h_height h <=? k) eqn:EK.
    - exists (h, s). split; auto.
    - apply N.leb_gt in EK. destruct P as [P|[Psk GT]]; [lia|].
      eexists; split; [reflexivity|].
      destruct (i_log I) as [E HE]. simpl in HE.
      pose proof (i_sorted I) as Hs. pose proof (i_top I) as Ht. simpl in Ht. rewrite HE in Hs, Ht.
      assert (Hkt : k <= h_height h) by lia.
      destruct (i_d I) as [e|[[a [Ha [Hh Hea]]] Hd]]; simpl in *; [lia|].
      destruct (split_at E (h_changes h) (h_height h) k Hs Ht Hkt) as [K _].
      { right. exists a. repeat split; auto. lia. }
      assert (HEk : all_le k E).
      { pose proof (keep_le k (E ++ h_changes h)) as KL. rewrite K in KL.
        apply Forall_app in KL. tauto. }
      apply (rollback_post I EK HE HEk).
      pose proof (i_state I) as St. simpl in St. rewrite St. unfold ideal.
      rewrite (tx_false I GT), (i_pos I). simpl. rewrite Psk. reflexivity.
  Qed.

  Lemma rollback_inv s0 g st k :
    Inv s0 g st -> pre s0 g st (ORollbackTo k) ->
    exists st', res_state (rollback_to k st) = Some st' /\
                Inv s0 (gstep (ORollbackTo k) g st) st'.
  Proof.
    intros I P. destruct st as [h s]. simpl in P. unfold rollback_to, gstep.
    rewrite (i_gtop I). simpl.
    destruct (h_height h <=? k) eqn:EK.
    - exists (h, s). split; auto.
    - apply N.leb_gt in EK. destruct P as [P|[Psk [GT HEk]]]; [lia|].
      eexists; split; [reflexivity|].
      destruct (i_log I) as [E HE]. simpl in HE.
      rewrite (evicted_eq g h E HE) in HEk.
      apply (rollback_post I EK HE HEk).
      rewrite (temp_base I GT).
      pose proof (i_sorted I) as Hs. rewrite HE, heights_app in Hs. apply ssorted_app in Hs.
      destruct Hs as [_ [Hsc _]].
      rewrite (rb_filter k (h_changes h) _ Hsc).
      assert (KT : keep_prefix (h_height h) (g_log g) = g_log g) by (apply keep_all, (i_top I)).
      rewrite (i_pos I). simpl. rewrite Psk, KT.
      rewrite HE, (keep_app_le k E _ HEk).
      pose proof (i_good I) as Hg. rewrite HE in Hg.
      rewrite <- (keep_drop k (h_changes h)) in Hg. rewrite app_assoc in Hg.
      apply log_good_app in Hg. destruct Hg as [_ Hg].
      rewrite <- (keep_drop k (h_changes h)) at 2. rewrite app_assoc, commit_entries_app.
      apply rollback_commit. exact Hg.
  Qed.

  Theorem step_inv s0 g st o :
    Inv s0 g st -> pre s0 g st o ->
    exists st', res_state (step o st) = Some st' /\ Inv s0 (gstep o g st) st'.
  Proof.
    destruct o; simpl step.
    - apply append_inv.
    - apply commit_inv.
    - apply seek_inv.
    - apply rollback_seek_inv.
    - apply rollback_inv.
  Qed.

  Arguments step_inv {s0 g st o} _ _.

  (* ------------------------------------------------------------ op sequences *)
  Fixpoint valid (s0 : S) (ops : list (op S)) (g : ghost) (st : history * S) : Prop :=
    match ops with
    | [] => True
    | o :: r => pre s0 g st o /\
                match res_state (step o st) with
                | Some st' => valid s0 r (gstep o g st) st'
                | None => False
                end
    end.

  Fixpoint grun (ops : list (op S)) (g : ghost) (st : history * S) : ghost :=
    match ops with
    | [] => g
    | o :: r => match res_state (step o st) with
                | Some st' => grun r (gstep o g st) st'
                | None => g
                end
    end.

  Lemma run_cons o r st :
    run (o :: r) st = match res_state (step o st) return option (history * S) with Some st' => run r st' | None => None end.
  Proof. simpl. destruct (step o st); reflexivity. Qed.

  Theorem run_inv s0 ops : forall g st,
    Inv s0 g st -> valid s0 ops g st ->
    exists st', run ops st = Some st' /\ Inv s0 (grun ops g st) st'.
  Proof.
    induction ops as [|o r IH]; intros g st I V.
    - exists st. split; auto.
    - destruct V as [P V]. destruct (step_inv I P) as [st' [E I']].
      rewrite run_cons. simpl grun. rewrite E in *. apply IH; auto.
  Qed.

  Lemma run_app ops1 ops2 st :
    run (ops1 ++ ops2) st = match run ops1 st return option (history * S) with Some st' => run ops2 st' | None => None end.
  Proof.
    revert st; induction ops1 as [|o r IH]; intros st; [reflexivity|].
    rewrite <- app_comm_cons, !run_cons. destruct (res_state (step o st)); auto.
  Qed.

  Lemma valid_app s0 ops1 ops2 : forall g st st',
    run ops1 st = Some st' ->
    (valid s0 (ops1 ++ ops2) g st <-> valid s0 ops1 g st /\ valid s0 ops2 (grun ops1 g st) st').
  Proof.
    induction ops1 as [|o r IH]; intros g st st' R.
    - simpl in *. inversion R; subst. tauto.
    - rewrite run_cons in R. simpl. destruct (res_state (step o st)) as [st1|]; [|discriminate].
      rewrite (IH _ _ _ R). tauto.
  Qed.

  Lemma grun_app ops1 ops2 : forall g st st',
    run ops1 st = Some st' -> grun (ops1 ++ ops2) g st = grun ops2 (grun ops1 g st) st'.
  Proof.
    induction ops1 as [|o r IH]; intros g st st' R.
    - simpl in *. inversion R; subst. reflexivity.
    - rewrite run_cons in R. simpl. destruct (res_state (step o st)) as [st1|]; [|discriminate].
      apply IH; auto.
  Qed.

  Lemma inv0 cap s0 : Inv s0 g0 (new_history cap, s0).
  Proof.
    constructor; simpl; auto.
    - exists []. reflexivity.
    - constructor.
    - lia.
    - lia.
    - intros C; discriminate.
    - lia.
  Qed.

  (* Main refinement theorem: a protocol-respecting sequence from a fresh
     history never panics and leaves exactly the state the reference machine
     shows. *)
  Theorem history_refines cap s0 ops :
    valid s0 ops g0 (new_history cap, s0) ->
    exists h s, run ops (new_history cap, s0) = Some (h, s) /\
                Inv s0 (grun ops g0 (new_history cap, s0)) (h, s) /\
                s = ideal s0 (grun ops g0 (new_history cap, s0)).
  Proof.
    intros V. destruct (run_inv s0 ops g0 _ (inv0 cap s0) V) as [[h s] [R I]].
    exists h, s. split; [exact R|]. split; [exact I|]. apply (i_state I).
  Qed.

  (* rollback_exact *)
  Theorem rollback_exact cap s0 ops k :
    let st0 := (new_history cap, s0) in
    valid s0 (ops ++ [ORollbackTo k]) g0 st0 ->
    exists h s, run (ops ++ [ORollbackTo k]) st0 = Some (h, s) /\
      (k < g_top (grun ops g0 st0) ->
       s = commit_entries (keep_prefix k (g_log (grun ops g0 st0))) s0 /\ h_height h = k).
  Proof.
    intros st0 V.
    destruct (history_refines cap s0 _ V) as [h [s [R [I E]]]]. fold st0 in R, I, E.
    exists h, s. split; auto. intros Hk.
    rewrite run_app in R. destruct (run ops st0) as [st1|] eqn:R1; [|discriminate].
    rewrite (grun_app ops [ORollbackTo k] g0 st0 st1 R1) in E, I. simpl in E, I.
    assert (RS : exists st2, res_state (rollback_to k st1) = Some st2).
    { destruct st1 as [h1 s1]. unfold rollback_to. destruct (h_height h1 <=? k); eexists; reflexivity. }
    destruct RS as [st2 RS]. rewrite RS in E, I.
    apply N.leb_gt in Hk. rewrite Hk in E, I. unfold ideal in E. simpl in E.
    rewrite (keep_all (keep_le k _)) in E. split; auto.
    pose proof (i_gtop I) as T. simpl in T. auto.
  Qed.

  (* what SeekTo returns *)
  Lemma seek_spec s0 g h s k :
    Inv s0 g (h, s) -> pre s0 g (h, s) (OSeekTo k) ->
    let len := N.of_nat (length (h_changes h)) in
    (k < h_height h - len /\ seek_to k (h, s) = RErr (h, s)) \/
    (h_height h - len <= k /\
     seek_to k (h, s) = ROk (Hist (h_cap h) (h_height h) (h_changes h) (h_cached h) (h_temp h) k,
                             commit_entries (keep_prefix k (g_log g)) s0)).
  Proof.
    intros I P len.
    destruct (step_inv (o := OSeekTo k) I P) as [st' [E I']].
    simpl in E, I'. simpl in P. destruct P as [GT [Hc Hk]].
    destruct (contiguous_facts h Hc) as [Hdist Hlen].
    pose proof (i_h32 I) as H32. simpl in H32.
    pose proof (tx_false I GT) as TX.
    assert (Hlim : sub32 (h_height h) (N.of_nat (distinct_heights (h_changes h))) = h_height h - len).
    { rewrite Hdist. apply sub32_small; auto. }
    revert E I'. unfold seek_to. rewrite Hlim.
    destruct (k <? h_height h - len) eqn:EL.
    - intros _ _. left. split; auto. apply N.ltb_lt; auto.
    - apply N.ltb_ge in EL. intros E I'. right. split; auto.
      destruct (0 <=? Z.of_N (h_seek h) - Z.of_N k)%Z.
      + destruct (Z.of_nat (length (h_changes h)) <? Z.of_N (h_seek h) - Z.of_N k)%Z; [discriminate|].
        simpl in E, I'. inversion E; subst st'. do 2 f_equal.
        pose proof (i_state I') as St. simpl in St. rewrite St. unfold ideal. simpl. rewrite TX. reflexivity.
      + simpl in E, I'. inversion E; subst st'. do 2 f_equal.
        pose proof (i_state I') as St. simpl in St. rewrite St. unfold ideal. simpl. rewrite TX. reflexivity.
  Qed.

  Arguments seek_spec {s0 g h s k} _ _.

  (* seek_roundtrip: from an un-seeked contiguous history, seeking to any
     height within the limit shows the state of that height, and seeking back
     to the best height restores state and history exactly. *)
  Theorem seek_roundtrip cap s0 ops h s k :
    let st0 := (new_history cap, s0) in
    valid s0 ops g0 st0 -> run ops st0 = Some (h, s) ->
    h_temp h = [] -> contiguous h -> h_seek h = h_height h ->
    h_height h - N.of_nat (length (h_changes h)) <= k <= h_height h ->
    exists h1 s1,
      seek_to k (h, s) = ROk (h1, s1) /\
      s1 = commit_entries (keep_prefix k (g_log (grun ops g0 st0))) s0 /\
      seek_to (h_height h) (h1, s1) = ROk (h, s).
  Proof.
    intros st0 V R HT Hc Hs Hk.
    destruct (run_inv s0 ops g0 st0 (inv0 cap s0) V) as [st' [R' I]].
    rewrite R in R'. inversion R'; subst st'. clear R'.
    set (g := grun ops g0 st0) in *.
    assert (GT : g_temp g = []) by (rewrite <- (i_temp I); exact HT).
    assert (P1 : pre s0 g (h, s) (OSeekTo k)).
    { simpl. repeat split; auto. left. split; auto. lia. }
    destruct (seek_spec I P1) as [[C _]|[_ E1]]; [simpl in C; lia|].
    eexists; eexists. split; [exact E1|]. split; [reflexivity|].
    destruct (step_inv (o := OSeekTo k) I P1) as [st1 [E I1]].
    change (step (OSeekTo k) (h, s)) with (seek_to k (h, s)) in E.
    rewrite E1 in E. simpl in E. inversion E; subst st1. clear E.
    unfold gstep in I1. rewrite E1 in I1.
    set (h1 := Hist (h_cap h) (h_height h) (h_changes h) (h_cached h) (h_temp h) k) in *.
    set (g1 := G (g_log g) (g_pend g) (g_temp g) (g_tx g) k (g_top g)) in *.
    assert (P2 : pre s0 g1 (h1, commit_entries (keep_prefix k (g_log g)) s0) (OSeekTo (h_height h))).
    { simpl. repeat split; auto. }
    destruct (seek_spec I1 P2) as [[C _]|[_ E2]]; [simpl in C; lia|].
    rewrite E2. simpl. f_equal. f_equal.
    - destruct h; simpl in *. subst. reflexivity.
    - pose proof (i_state I) as St. simpl in St. rewrite St. unfold ideal.
      rewrite (tx_false I GT), (i_pos I). simpl. rewrite Hs. reflexivity.
  Qed.

  (* ---- seeks do not influence anything but the position ---- *)
  Definition is_seek (o : op S) : bool := match o with OSeekTo _ => true | _ => false end.
  Definition no_seeks (ops : list (op S)) : list (op S) := filter (fun o => negb (is_seek o)) ops.

  Definition gproj (g : ghost) := (g_log g, g_pend g, g_temp g, g_tx g, g_top g).

  Lemma gstep_proj o g1 g2 st1 st2 :
    is_seek o = false -> gproj g1 = gproj g2 -> gproj (gstep o g1 st1) = gproj (gstep o g2 st2).
  Proof.
    intros Ho E. unfold gproj in E. inversion E as [[E1 E2 E3 E4 E5]].
    destruct o; try discriminate; unfold gstep, gproj; simpl.
    - destruct (height =? 0); simpl; congruence.
    - rewrite E3. destruct (g_temp g2); simpl; congruence.
    - rewrite E5. destruct (g_top g2 <=? height); simpl; congruence.
    - rewrite E5. destruct (g_top g2 <=? height); simpl; congruence.
  Qed.

  Lemma gstep_seek_proj k g st : gproj (gstep (OSeekTo k) g st) = gproj g.
  Proof. unfold gstep. destruct (seek_to k st); reflexivity. Qed.

  Lemma grun_proj s0 ops : forall g1 g2 st1 st2,
    gproj g1 = gproj g2 ->
    valid s0 ops g1 st1 -> valid s0 (no_seeks ops) g2 st2 ->
    gproj (grun ops g1 st1) = gproj (grun (no_seeks ops) g2 st2).
  Proof.
    induction ops as [|o r IH]; intros g1 g2 st1 st2 E V1 V2; [exact E|].
    simpl in V1. destruct V1 as [_ V1]. simpl grun at 1.
    destruct (res_state (step o st1)) as [st1'|] eqn:R1; [|contradiction].
    unfold no_seeks in *. simpl filter in *. destruct (is_seek o) eqn:Ho; simpl negb in *; cbv iota in *.
    - destruct o; try discriminate. apply IH; auto. rewrite gstep_seek_proj. exact E.
    - simpl in V2. destruct V2 as [_ V2]. simpl grun.
      destruct (res_state (step o st2)) as [st2'|] eqn:R2; [|contradiction].
      apply IH; auto. apply gstep_proj; auto.
  Qed.

  Lemma step_unseeked o h s h' s' :
    is_seek o = false -> h_seek h = h_height h ->
    res_state (step o (h, s)) = Some (h', s') -> h_seek h' = h_height h'.
  Proof.
    intros Ho Hs. destruct o; try discriminate; simpl.
    - unfold append. destruct (height =? 0); [intros E; inversion E; subst; auto|].
      destruct (h_cached h) as [hc|].
      + destruct (negb (height =? hc_height hc)); simpl; [discriminate|intros E; inversion E; subst; auto].
      + destruct (negb (h_height h =? 0) && (height <? h_height h)); simpl;
          [discriminate|intros E; inversion E; subst; auto].
    - unfold commit. destruct (h_temp h); simpl; intros E; inversion E; subst; auto.
    - unfold rollback_seek_to. destruct (h_height h <=? height); simpl; intros E; inversion E; subst; auto.
    - unfold rollback_to. destruct (h_height h <=? height); simpl; intros E; inversion E; subst; auto.
  Qed.

  Lemma run_unseeked ops : forall h s h' s',
    forallb (fun o => negb (is_seek o)) ops = true -> h_seek h = h_height h ->
    run ops (h, s) = Some (h', s') -> h_seek h' = h_height h'.
  Proof.
    induction ops as [|o r IH]; intros h s h' s' F Hs R.
    - simpl in R. inversion R; subst; auto.
    - simpl in F. apply andb_true_iff in F. destruct F as [Fo F]. apply negb_true_iff in Fo.
      rewrite run_cons in R. destruct (res_state (step o (h, s))) as [[h1 s1]|] eqn:E; [|discriminate].
      apply (IH h1 s1 h' s' F); [|exact R]. apply (step_unseeked o h s h1 s1 Fo Hs E).
  Qed.

  Lemma no_seeks_forallb ops : forallb (fun o => negb (is_seek o)) (no_seeks ops) = true.
  Proof.
    unfold no_seeks. apply forallb_forall. intros x Hx. apply filter_In in Hx. tauto.
  Qed.

  (* seek_then_commit_eq: a sequence with seeks in it that ends un-seeked
     (e.g. with a commit) leaves the same state as the same sequence without
     the seeks. *)
  Theorem seek_then_commit_eq cap s0 ops h s h' s' :
    let st0 := (new_history cap, s0) in
    valid s0 ops g0 st0 -> valid s0 (no_seeks ops) g0 st0 ->
    run ops st0 = Some (h, s) -> run (no_seeks ops) st0 = Some (h', s') ->
    h_seek h = h_height h ->
    s = s' /\ h_height h = h_height h'.
  Proof.
    intros st0 V V' R R' Hs.
    destruct (run_inv s0 ops g0 st0 (inv0 cap s0) V) as [x [Rx I]].
    rewrite R in Rx; inversion Rx; subst x; clear Rx.
    destruct (run_inv s0 _ g0 st0 (inv0 cap s0) V') as [x [Rx I']].
    rewrite R' in Rx; inversion Rx; subst x; clear Rx.
    pose proof (grun_proj s0 ops g0 g0 st0 st0 eq_refl V V') as E.
    unfold gproj in E. inversion E as [[E1 E2 E3 E4 E5]].
    assert (Hs' : h_seek h' = h_height h').
    { eapply (run_unseeked (no_seeks ops)); [apply no_seeks_forallb| |exact R']. reflexivity. }
    pose proof (i_gtop I) as T. pose proof (i_gtop I') as T'. simpl in T, T'.
    split; [|congruence].
    pose proof (i_state I) as St. pose proof (i_state I') as St'. simpl in St, St'.
    rewrite St, St'. unfold ideal.
    rewrite (i_pos I), (i_pos I'). simpl. rewrite Hs, Hs', <- T, <- T', E1, E3, E4, E5. reflexivity.
  Qed.

  (* capacity *)
  Lemma step_cap o (h : history) s (h' : history) s' : res_state (step o (h, s)) = Some (h', s') -> h_cap h' = h_cap h.
  Proof.
    destruct o; simpl.
    - unfold append. destruct (height =? 0); [intros E; inversion E; subst; auto|].
      destruct (h_cached h) as [hc|].
      + destruct (negb (height =? hc_height hc)); simpl; [discriminate|intros E; inversion E; subst; auto].
      + destruct (negb (h_height h =? 0) && (height <? h_height h)); simpl;
          [discriminate|intros E; inversion E; subst; auto].
    - unfold commit. destruct (h_temp h); simpl; intros E; inversion E; subst; auto.
    - unfold seek_to. destruct (height <? _); simpl; [intros E; inversion E; subst; auto|].
      destruct (0 <=? _)%Z; [destruct (_ <? _)%Z|]; simpl; try discriminate; intros E; inversion E; subst; auto.
    - unfold rollback_seek_to. destruct (h_height h <=? height); simpl; intros E; inversion E; subst; auto.
    - unfold rollback_to. destruct (h_height h <=? height); simpl; intros E; inversion E; subst; auto.
  Qed.

  Lemma run_cap ops : forall (h : history) s (h' : history) s', run ops (h, s) = Some (h', s') -> h_cap h' = h_cap h.
  Proof.
    induction ops as [|o r IH]; intros h s h' s' R.
    - simpl in R. inversion R; subst; auto.
    - rewrite run_cons in R. destruct (res_state (step o (h, s))) as [[h1 s1]|] eqn:E; [|discriminate].
      rewrite (IH _ _ _ _ R). eapply step_cap; eauto.
  Qed.

  Theorem capacity cap s0 ops (h : history) s :
    valid s0 ops g0 (new_history cap, s0) -> run ops (new_history cap, s0) = Some (h, s) ->
    (Z.of_nat (distinct_heights (h_changes h)) <= Z.max cap 1)%Z /\
    distinct_heights (h_changes h) = length (h_changes h).
  Proof.
    intros V R. destruct (run_inv s0 ops g0 _ (inv0 cap s0) V) as [x [Rx I]].
    rewrite R in Rx; inversion Rx; subst x; clear Rx.
    assert (D : distinct_heights (h_changes h) = length (h_changes h)).
    { apply distinct_nodup, ssorted_nodup. destruct (i_log I) as [E HE]. simpl in HE.
      pose proof (i_sorted I) as Hs. rewrite HE, heights_app in Hs. apply ssorted_app in Hs. tauto. }
    split; auto. rewrite D. pose proof (i_cap I) as C. simpl in C.
    rewrite (run_cap ops _ _ _ _ R) in C. exact C.
  Qed.

  (* ------------------------------------------------------------ sufficient conditions for good entries *)
  Fixpoint inv_each (cs : list change) (s : S) : Prop :=
    match cs with
    | [] => True
    | c :: r => c_undo c (c_do c s) = s /\ inv_each r (c_do c s)
    end.

  Definition undos_commute (cs : list change) : Prop :=
    forall c1 c2, In c1 cs -> In c2 cs -> forall x, c_undo c1 (c_undo c2 x) = c_undo c2 (c_undo c1 x).

  Lemma undo_rev_inv cs : forall s, inv_each cs s -> undo_rev cs (do_all cs s) = s.
  Proof.
    induction cs as [|c r IH]; intros s H; simpl in *; auto.
    destruct H as [H1 H2]. unfold do_all in *. simpl. unfold undo_rev in *. rewrite (IH _ H2). exact H1.
  Qed.

  Lemma undo_fwd_push (c : change) (r : list change) : (forall c2, In c2 r -> forall x : S, c_undo c (c_undo c2 x) = c_undo c2 (c_undo c x)) ->
    forall x, undo_fwd r (c_undo c x) = c_undo c (undo_fwd r x).
  Proof.
    induction r as [|c2 r IH]; intros H x; simpl; auto.
    unfold undo_fwd in *. simpl. rewrite <- (H c2 (or_introl eq_refl)).
    apply IH. intros; apply H; right; auto.
  Qed.

  Lemma undo_fwd_rev cs : undos_commute cs -> forall x, undo_fwd cs x = undo_rev cs x.
  Proof.
    induction cs as [|c r IH]; intros H x; simpl; auto.
    change (undo_fwd (c :: r) x) with (undo_fwd r (c_undo c x)).
    rewrite undo_fwd_push.
    - change (undo_rev (c :: r) x) with (c_undo c (undo_rev r x)). f_equal. apply IH.
      intros c1 c2 H1 H2. apply H; right; auto.
    - intros c2 H2. apply H; [left|right]; auto.
  Qed.

  (* rollback_exact_commuting: if every undo inverts its do where it was
     executed and the undos of one height commute, the height is good *)
  Lemma good_entry_commuting k cs s : inv_each cs s -> undos_commute cs -> good_entry (HC k cs) s.
  Proof.
    intros H C. unfold good_entry, hc_rollback, hc_commit, undo_order. simpl.
    rewrite undo_fwd_rev by exact C. apply undo_rev_inv. exact H.
  Qed.

  Lemma good_entry_single k c s : c_undo c (c_do c s) = s -> good_entry (HC k [c]) s.
  Proof. intros H. exact H. Qed.

  Lemma good_entry_empty k s : good_entry (HC k []) s.
  Proof. reflexivity. Qed.

End Proofs.

Arguments good_entry {S} _ _.
Arguments log_good {S} _ _.
Arguments inv_each {S} _ _.
Arguments undos_commute {S} _.
Arguments ideal {S} _ _.
Arguments gstep {S} _ _ _.
Arguments pre {S} _ _ _ _.
Arguments Inv {S} _ _ _.
Arguments valid {S} _ _ _ _.
Arguments grun {S} _ _ _.
Arguments res_state {S} _.
Arguments contiguous {S} _.
Arguments evicted {S} _ _.
Arguments no_seeks {S} _.
Arguments g_log {S} _.
Arguments g_top {S} _.
Arguments g_pos {S} _.

(* ------------------------------------------------------------------ *)
(* Refutations of the unrestricted statements (state = Z).            *)

Definition zc (f g : Z -> Z) : change Z := Change f g.
Definition zadd (d : Z) : change Z := zc (fun x => (x + d)%Z) (fun x => (x - d)%Z).

(* (a) two changes at one height, each undo inverting its do where it was
   executed: x:0->1 (undo x=0), x:1->2 (undo x=1).  RollbackTo leaves 1. *)
Lemma rollback_exact_refuted :
  exists (cs : list (change Z)) (s0 : Z),
    inv_each cs s0 /\
    exists h s, run (map (OAppend 1) cs ++ [OCommit 1; ORollbackTo 0]) (new_history 10, s0) = Some (h, s) /\
                s <> s0 /\ s = 1%Z.
Proof.
  exists [zc (fun _ => 1%Z) (fun _ => 0%Z); zc (fun _ => 2%Z) (fun _ => 1%Z)], 0%Z.
  split; [simpl; auto|].
  eexists; eexists. split; [vm_compute; reflexivity|]. split; [discriminate|reflexivity].
Qed.

Definition commits_1_4 : list (op Z) :=
  [OAppend 1 (zadd 10); OCommit 1; OAppend 2 (zadd 100); OCommit 2;
   OAppend 3 (zadd 1000); OCommit 3; OAppend 4 (zadd 10000); OCommit 4].

Definition final_state (ops : list (op Z)) : option Z :=
  match run ops (new_history 10, 0%Z) with Some (_, s) => Some s | None => None end.

(* (b) seek across a height gap: commits at 5, 10, 20 (+5, +10, +20), SeekTo 17
   is accepted and leaves 0; the state of height 17 is 15. *)
Lemma seek_gap_refuted :
  final_state [OAppend 5 (zadd 5); OCommit 5; OAppend 10 (zadd 10); OCommit 10;
               OAppend 20 (zadd 20); OCommit 20; OSeekTo 17] = Some 0%Z /\
  final_state [OAppend 5 (zadd 5); OCommit 5; OAppend 10 (zadd 10); OCommit 10] = Some 15%Z.
Proof. split; vm_compute; reflexivity. Qed.

(* (g) SeekTo from a position that is already seeked indexes from the end of
   the entries again: 1..4 committed, SeekTo 3 then SeekTo 2 undoes height 4
   twice. The state of height 2 is 110. *)
Lemma seek_from_seeked_refuted :
  final_state (commits_1_4 ++ [OSeekTo 3; OSeekTo 2]) = Some (-8890)%Z /\
  final_state (firstn 4 commits_1_4) = Some 110%Z.
Proof. split; vm_compute; reflexivity. Qed.

(* (d) RollbackTo while seeked undoes entries that are already undone. *)
Lemma rollback_while_seeked_refuted :
  final_state (commits_1_4 ++ [OSeekTo 2; ORollbackTo 1]) = Some (-10990)%Z /\
  final_state (firstn 2 commits_1_4) = Some 10%Z.
Proof. split; vm_compute; reflexivity. Qed.

(* (e) SeekTo above the best height re-executes the newest entries. *)
Lemma seek_above_best_refuted :
  final_state (commits_1_4 ++ [OSeekTo 6]) = Some 22110%Z /\
  final_state commits_1_4 = Some 11110%Z.
Proof. split; vm_compute; reflexivity. Qed.

(* Non-vacuity: protocol-respecting traces — several changes per height,
   eviction (capacity 3), a seek round trip and a rollback; and a temporary
   change executed and undone by the next block. *)
Definition demo_ops : list (op Z) :=
  [OAppend 1 (zadd 10); OAppend 1 (zadd 1); OCommit 1;
   OAppend 2 (zadd 100); OCommit 2; OAppend 3 (zadd 1000); OCommit 3;
   OAppend 4 (zadd 10000); OCommit 4;
   OSeekTo 2; OSeekTo 4;
   ORollbackTo 3].

Definition demo_temp_ops : list (op Z) :=
  [OAppend 1 (zadd 10); OCommit 1; OAppend 0 (zadd 7); OCommit 2; OAppend 2 (zadd 100); OCommit 2].

Lemma valid_cons_intro (S : Type) (s0 : S) o r g st st' g' :
  pre s0 g st o -> res_state (step o st) = Some st' -> gstep o g st = g' ->
  valid s0 r g' st' -> valid s0 (o :: r) g st.
Proof. intros P E G V. simpl. split; auto. rewrite E, G. exact V. Qed.

(* (closures are kept folded: Z.add / Z.sub are not unfolded under binders) *)
Ltac vnext tac :=
  eapply valid_cons_intro;
  [ simpl; tac | cbv -[Z.add Z.sub]; reflexivity | cbv -[Z.add Z.sub]; reflexivity | ].

Ltac easy_pre :=
  repeat split; auto; try lia;
  try (unfold good_entry, hc_rollback, hc_commit, undo_order, undo_fwd, do_all; simpl; lia).

Lemma demo_valid : valid 0%Z demo_ops (g0 Z) (new_history 3, 0%Z).
Proof.
  unfold demo_ops, g0, new_history.
  do 9 (vnext easy_pre).
  (* SeekTo 2, SeekTo 4: entries 2,3,4 are held (1 was evicted) *)
  vnext ltac:(split; [reflexivity|split; [exists 2%N; repeat split; lia|left; split; [reflexivity|lia]]]).
  vnext ltac:(split; [reflexivity|split; [exists 2%N; repeat split; lia|right; reflexivity]]).
  (* RollbackTo 3: not seeked, no temporary changes, the evicted entry is height 1 *)
  vnext ltac:(right; split; [reflexivity|split; [left; reflexivity|]];
              unfold evicted; simpl; repeat constructor; simpl; lia).
  exact Logic.I.
Qed.

Lemma demo_temp_valid : valid 0%Z demo_temp_ops (g0 Z) (new_history 3, 0%Z).
Proof.
  unfold demo_temp_ops, g0, new_history.
  do 6 (vnext easy_pre).
  exact Logic.I.
Qed.

Lemma demo_result :
  final_state demo_ops = Some 1111%Z /\
  match run demo_ops (new_history 3, 0%Z) with
  | Some (h, _) => heights (h_changes h) = [2; 3]%N /\ h_height h = 3%N
  | None => False
  end /\
  final_state (firstn 4 demo_temp_ops) = Some 17%Z /\ final_state demo_temp_ops = Some 110%Z.
Proof.
  split; [vm_compute; reflexivity|]. split; [vm_compute; split; reflexivity|].
  split; vm_compute; reflexivity.
Qed.
