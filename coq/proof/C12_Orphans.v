(* C12: the positive orphan theorem.  If every delivered block is sane and
   valid, declared heights are consistent, ids identify blocks and the number
   of deliveries does not exceed the orphan cap (so nothing is ever evicted;
   no wall clock in the model), then after ANY delivery order no orphan is left
   behind: an orphan's parent is never indexed, every delivered block is either
   indexed or in the pool, and every delivered block whose ancestors were all
   delivered is indexed. *)
From Coq Require Import ZArith NArith Bool List Lia.
From ELA Require Import model.Chain proof.C12_Struct proof.C12_Chain.
Import ListNotations.
Local Open Scope Z_scope.

(* hypotheses on the set of delivered blocks *)
Record blocks_ok (U : list block) : Prop := mkBlocksOk {
  bo_valid : forall b, In b U -> b_valid b = true;
  bo_sane : forall b, In b U -> sane_ok b = true;
  bo_h1 : forall b, In b U -> b_parent b = 0%N -> b_height b = 1;
  bo_hs : forall b b', In b U -> In b' U -> b_id b' = b_parent b -> b_height b = b_height b' + 1;
  bo_nz : forall b, In b U -> b_id b <> 0%N
}.

(* all ancestors of b were delivered *)
Inductive rooted (U : list block) : block -> Prop :=
| rooted_gen b : In b U -> b_parent b = 0%N -> rooted U b
| rooted_step b b' : In b U -> In b' U -> b_id b' = b_parent b -> rooted U b' -> rooted U b.

Section Orphans.
  Variable p : params.
  Variable U : list block.
  Hypothesis HU : blocks_ok U.

  Record TInv (s : state) : Prop := mkTInv {
    t_s : SInv s;
    t_av : AV s;
    t_idx : forall n, In n (index s) ->
            (n = genesis) \/ (In (n_blk n) U /\ n_height n = b_height (n_blk n));
    t_orph : forall o, In o (orphans s) -> In o U;
    t_fresh : forall o, In o (orphans s) -> has_id (b_id o) (index s) = false
  }.

  Definition OInv (s : state) : Prop :=
    forall o, In o (orphans s) -> has_id (b_parent o) (index s) = false.

  Lemma genesis_id0 s n : TInv s -> In n (index s) -> n_id n = 0%N -> n = genesis.
  Proof.
    intros T Hn E. destruct (t_idx _ T n Hn) as [->|[Hu _]]; auto.
    exfalso. apply (bo_nz _ HU _ Hu). exact E.
  Qed.

  (* accepting a good fresh block whose parent is indexed never fails *)
  Lemma accept_ok s b :
    TInv s -> In b U -> has_id (b_id b) (index s) = false ->
    (In b (orphans s) \/ is_orphan s (b_id b) = false) ->
    has_id (b_parent b) (index s) = true ->
    exists s1 inm n, maybe_accept p b s = (s1, Some inm) /\
      n_blk n = b /\ n_height n = b_height b /\ index s1 = index s ++ [n] /\
      orphans s1 = orphans s /\ SInv s1 /\ AV s1.
  Proof.
    intros T Hb Hf Ho Hp.
    destruct (maybe_accept p b s) as [s1 r] eqn:MA.
    assert (HS1 : SInv s1) by (eapply SInv_accept; eauto; apply (t_s _ T)).
    pose proof (AV_accept p s b (t_av _ T) (bo_valid _ HU _ Hb)) as HA1. rewrite MA in HA1. simpl in HA1.
    pose proof (maybe_accept_frame _ _ _ _ _ MA) as [EO F].
    unfold maybe_accept in MA.
    destruct (lookup_has _ _ Hp) as [pn L]. rewrite L in MA.
    pose proof (lookup_some _ _ _ L) as [Lin Lid].
    assert (Eh : b_height b = n_height pn + 1).
    { destruct (t_idx _ T pn Lin) as [->|[Hu Hh]].
      - simpl. apply (bo_h1 _ HU _ Hb). rewrite <- Lid. reflexivity.
      - rewrite Hh. apply (bo_hs _ HU); auto. }
    assert (Eb : (b_height b =? n_height pn + 1) = true) by (apply Z.eqb_eq; exact Eh).
    rewrite Eb in MA. simpl in MA.
    pose proof (AV_cbc p s (mkNode b (n_height pn + 1) (n_worksum pn + b_work b)) (t_av _ T)
                  (bo_valid _ HU _ Hb)) as [_ Hnn].
    rewrite MA in Hnn. simpl in Hnn.
    destruct r as [inm|]; [|congruence].
    destruct F as [[_ C]|[[n [En EI]] _]]; [discriminate|].
    pose proof (cbc_frame _ _ _ _ _ MA) as [_ [[_ C]|EI2]]; [discriminate|].
    exists s1, inm, (mkNode b (n_height pn + 1) (n_worksum pn + b_work b)).
    split; [reflexivity|]. split; [reflexivity|]. split; [simpl; lia|]. split; [exact EI2|].
    split; [exact EO|]. split; assumption.
  Qed.

  Lemma TInv_after_accept s b s1 n :
    TInv s -> In b U -> n_blk n = b -> n_height n = b_height b ->
    index s1 = index s ++ [n] -> orphans s1 = orphans s -> SInv s1 -> AV s1 ->
    (forall o, In o (orphans s) -> b_id o <> b_id b) -> TInv s1.
  Proof.
    intros T Hb En Eh EI EO HS1 HA1 Hne. split; auto.
    - intros m Hm. rewrite EI in Hm. apply in_app_iff in Hm. destruct Hm as [Hm|[<-|[]]].
      + apply (t_idx _ T); auto.
      + right. rewrite En. auto.
    - intros o Ho. rewrite EO in Ho. apply (t_orph _ T); auto.
    - intros o Ho. rewrite EO in Ho. rewrite EI, has_id_app, (t_fresh _ T o Ho). simpl.
      rewrite orb_false_r. apply N.eqb_neq. unfold n_id. rewrite En. intro E. apply (Hne o Ho). auto.
  Qed.

  Lemma TInv_drop id s : TInv s -> TInv (drop_orphan id s).
  Proof.
    intros [A B C D E]. split; simpl; auto.
    - apply SInv_drop; auto.
    - intros o Ho. apply D. eapply remove_orphan_in; eauto.
    - intros o Ho. apply E. eapply remove_orphan_in; eauto.
  Qed.

  Lemma remove_orphan_len id os o : In o os -> b_id o = id ->
    S (length (remove_orphan id os)) = length os.
  Proof.
    induction os as [|a os IH]; simpl; [tauto|].
    intros Hin E. destruct (N.eqb (b_id a) id) eqn:Ea; auto.
    destruct Hin as [->|Hin].
    - apply N.eqb_neq in Ea. congruence.
    - simpl. rewrite IH; auto.
  Qed.

  Lemma remove_orphan_keep id os o : In o os -> b_id o <> id -> In o (remove_orphan id os).
  Proof.
    induction os as [|a os IH]; simpl; [tauto|].
    intros [->|Hin] Hne.
    - destruct (N.eqb (b_id o) id) eqn:E; [apply N.eqb_eq in E; congruence|simpl; auto].
    - destruct (N.eqb (b_id a) id); simpl; auto.
  Qed.

  (* the ProcessOrphans loop: with every parent-indexed orphan pending in the
     queue and enough fuel, it ends without error and leaves no orphan behind *)
  Lemma po_complete fuel : forall q s,
    TInv s ->
    (forall o, In o (orphans s) -> has_id (b_parent o) (index s) = true -> In (b_parent o) q) ->
    (forall h, In h q -> has_id h (index s) = true) ->
    (2 * length (orphans s) + length q < fuel)%nat ->
    let r := process_orphans p fuel q s in
    snd r = true /\ TInv (fst r) /\ OInv (fst r) /\
    (forall id, has_id id (index s) = true -> has_id id (index (fst r)) = true) /\
    (forall o, In o (orphans s) -> In o (orphans (fst r)) \/ has_id (b_id o) (index (fst r)) = true) /\
    (length (orphans (fst r)) <= length (orphans s))%nat.
  Proof.
    induction fuel as [|f IH]; intros q s T J HQ Hf; [lia|].
    simpl. destruct q as [|h q].
    - simpl. split; [reflexivity|]. split; [exact T|]. split; [|split; [auto|split; [auto|lia]]].
      intros o Ho. destruct (has_id (b_parent o) (index s)) eqn:E; auto. destruct (J o Ho E).
    - destruct (find (fun o => N.eqb (b_parent o) h) (orphans s)) as [o|] eqn:F.
      + apply find_some in F. destruct F as [Ho Ep]. apply N.eqb_eq in Ep.
        assert (Hpar : has_id (b_parent o) (index s) = true) by (rewrite Ep; apply HQ; simpl; auto).
        destruct (accept_ok s o T (t_orph _ T o Ho) (t_fresh _ T o Ho) (or_introl Ho) Hpar)
          as (s1 & inm & n & MA & En & Eh & EI & EO & HS1 & HA1).
        rewrite MA.
        assert (ON : NoDup (map b_id (orphans s))) by apply (s_on _ (t_s _ T)).
        (* TInv of s1 is needed only after dropping o: prove it on the dropped state *)
        set (s2 := drop_orphan (b_id o) s1).
        assert (T2 : TInv s2).
        { split.
          - apply SInv_drop; auto.
          - destruct HA1 as [A1 A2]. split; auto.
          - intros m Hm. simpl in Hm. rewrite EI in Hm. apply in_app_iff in Hm.
            destruct Hm as [Hm|[<-|[]]].
            + apply (t_idx _ T); auto.
            + right. rewrite En. split; auto. apply (t_orph _ T); auto.
          - intros o' Ho'. simpl in Ho'. rewrite EO in Ho'. apply remove_orphan_in in Ho'.
            apply (t_orph _ T); auto.
          - intros o' Ho'. simpl in Ho'. rewrite EO in Ho'.
            pose proof (remove_orphan_neq _ _ _ ON Ho') as Hne.
            apply remove_orphan_in in Ho'. simpl. rewrite EI, has_id_app, (t_fresh _ T o' Ho').
            simpl. rewrite orb_false_r. apply N.eqb_neq. unfold n_id. rewrite En. auto. }
        assert (Hlen : S (length (orphans s2)) = length (orphans s)).
        { simpl. rewrite EO. eapply remove_orphan_len; eauto. }
        destruct (IH (h :: q ++ [b_id o]) s2 T2) as (R1 & R2 & R3 & R4 & R5 & R6).
        * intros o' Ho' Hp'. simpl in Ho', Hp'. rewrite EO in Ho'.
          apply remove_orphan_in in Ho'. rewrite EI, has_id_app in Hp'.
          apply orb_true_iff in Hp'. destruct Hp' as [Hp'|Hp'].
          -- destruct (J o' Ho' Hp') as [<-|Hq]; simpl; auto. right. apply in_app_iff. auto.
          -- simpl in Hp'. rewrite orb_false_r in Hp'. apply N.eqb_eq in Hp'.
             unfold n_id in Hp'. rewrite En in Hp'. right. apply in_app_iff. right. simpl. auto.
        * intros h' Hh'. simpl. rewrite EI, has_id_app.
          destruct Hh' as [<-|Hh'].
          -- rewrite HQ; simpl; auto.
          -- apply in_app_iff in Hh'. destruct Hh' as [Hh'|[<-|[]]].
             ++ rewrite HQ; simpl; auto.
             ++ simpl. unfold n_id. rewrite En, N.eqb_refl, orb_true_r. reflexivity.
        * simpl length in *. rewrite app_length. simpl. lia.
        * split; [exact R1|]. split; [exact R2|]. split; [exact R3|]. split; [|split].
          -- intros id Hid. apply R4. simpl. rewrite EI, has_id_app, Hid. reflexivity.
          -- intros o' Ho'. destruct (N.eq_dec (b_id o') (b_id o)) as [E|Ne].
             ++ right. apply R4. simpl. rewrite EI, has_id_app. simpl. unfold n_id.
                rewrite En, E, N.eqb_refl, orb_true_r. reflexivity.
             ++ apply R5. simpl. rewrite EO. apply remove_orphan_keep; auto.
          -- lia.
      + destruct (IH q s T) as (R1 & R2 & R3 & R4 & R5 & R6); auto.
        * intros o Ho Hp. destruct (J o Ho Hp) as [E|Hq]; auto.
          exfalso. pose proof (find_none _ _ F o Ho) as Fn. simpl in Fn.
          rewrite <- E, N.eqb_refl in Fn. discriminate.
        * intros h' Hh'. apply HQ. simpl; auto.
        * simpl in Hf. lia.
        * split; [exact R1|]. split; [exact R2|]. split; [exact R3|]. split; [exact R4|]. split; [exact R5|exact R6].
  Qed.

  (* delivered blocks: D is the prefix processed so far *)
  Definition Delivered (D : list block) (s : state) : Prop :=
    (forall b, In b D -> has_id (b_id b) (index s) = true \/ In b (orphans s)) /\
    (length (orphans s) <= length D)%nat.

  Hypothesis ids_inj : forall b b', In b U -> In b' U -> b_id b = b_id b' -> b = b'.

  Lemma step_ok D s b :
    In b U -> (forall d, In d D -> In d U) -> (S (length D) <= p_cap p)%nat ->
    TInv s -> OInv s -> Delivered D s ->
    let s' := fst (process_block p s b) in
    TInv s' /\ OInv s' /\ Delivered (D ++ [b]) s'.
  Proof.
    intros Hb HD Hcap T O [Dl Dn]. unfold process_block.
    destruct (block_exists s (b_id b)) eqn:HE.
    { simpl. split; [exact T|]. split; [exact O|]. split.
      - intros d Hd. apply in_app_iff in Hd. destruct Hd as [Hd|[<-|[]]]; auto.
      - rewrite app_length. simpl. lia. }
    destruct (is_orphan s (b_id b)) eqn:HO.
    { simpl. split; [exact T|]. split; [exact O|]. split.
      - intros d Hd. apply in_app_iff in Hd. destruct Hd as [Hd|[<-|[]]]; auto.
        right. unfold is_orphan in HO. apply existsb_exists in HO. destruct HO as [o [Ho E]].
        apply N.eqb_eq in E. assert (o = b) by (apply ids_inj; auto; apply (t_orph _ T); auto).
        subst; auto.
      - rewrite app_length. simpl. lia. }
    rewrite (bo_sane _ HU _ Hb). cbv [negb].
    unfold block_exists in *.
    destruct (has_id (b_parent b) (index s)) eqn:HP; cbv [negb].
    2:{ (* orphan: no eviction under the cap *)
      assert (Hlt : Nat.ltb (p_cap p) (length (orphans s) + 1) = false) by (apply Nat.ltb_ge; lia).
      simpl. unfold add_orphan. rewrite Hlt.
      split; [split; simpl|split; [intros o; simpl|split; simpl]].
      - pose proof (SInv_add_orphan p b s (t_s _ T) HO HE) as X. unfold add_orphan in X. rewrite Hlt in X. exact X.
      - apply (t_av _ T).
      - apply (t_idx _ T).
      - intros o Ho. apply in_app_iff in Ho. destruct Ho as [Ho|[<-|[]]]; auto. apply (t_orph _ T); auto.
      - intros o Ho. apply in_app_iff in Ho. destruct Ho as [Ho|[<-|[]]]; auto. apply (t_fresh _ T); auto.
      - intros Ho. apply in_app_iff in Ho. destruct Ho as [Ho|[<-|[]]]; auto.
      - intros d Hd. apply in_app_iff in Hd. destruct Hd as [Hd|[<-|[]]].
        + destruct (Dl d Hd); auto. right. apply in_app_iff. auto.
        + right. apply in_app_iff. simpl. auto.
      - rewrite !app_length. simpl. lia. }
    destruct (accept_ok s b T Hb HE (or_intror HO) HP)
      as (s1 & inm & n & MA & En & Eh & EI & EO & HS1 & HA1).
    rewrite MA.
    assert (Hne : forall o, In o (orphans s) -> b_id o <> b_id b).
    { apply is_orphan_false. exact HO. }
    pose proof (TInv_after_accept s b s1 n T Hb En Eh EI EO HS1 HA1 Hne) as T1.
    destruct (po_complete (2 * length (orphans s1) + 2) [b_id b] s1 T1) as (R1 & R2 & R3 & R4 & R5 & R6).
    - intros o Ho Hp. rewrite EO in Ho. rewrite EI, has_id_app, (O o Ho) in Hp. simpl in Hp.
      rewrite orb_false_r in Hp. apply N.eqb_eq in Hp. unfold n_id in Hp. rewrite En in Hp. simpl. auto.
    - intros h [<-|[]]. rewrite EI, has_id_app. simpl. unfold n_id. rewrite En, N.eqb_refl, orb_true_r. reflexivity.
    - simpl. lia.
    - destruct (process_orphans p (2 * length (orphans s1) + 2) [b_id b] s1) as [s2 ok].
      simpl in *. subst ok. simpl. split; [exact R2|]. split; [exact R3|]. split.
      + intros d Hd. apply in_app_iff in Hd. destruct Hd as [Hd|[<-|[]]].
        * destruct (Dl d Hd) as [H|H].
          -- left. apply R4. rewrite EI, has_id_app, H. reflexivity.
          -- rewrite <- EO in H. destruct (R5 d H); auto.
        * left. apply R4. rewrite EI, has_id_app. simpl. unfold n_id. rewrite En, N.eqb_refl, orb_true_r. reflexivity.
      + rewrite app_length. simpl. rewrite EO in R6. lia.
  Qed.
End Orphans.

Lemma TInv_init U : TInv U init.
Proof.
  split; simpl.
  - apply SInv_init.
  - split; [|reflexivity]. intros n [<-|[]]. reflexivity.
  - intros n [<-|[]]. auto.
  - intros o [].
  - intros o [].
Qed.

Lemma run_orphans p U (HU : blocks_ok U)
  (ids_inj : forall b b', In b U -> In b' U -> b_id b = b_id b' -> b = b') :
  forall bs D s,
    (forall b, In b bs -> In b U) -> (forall d, In d D -> In d U) ->
    (length D + length bs <= p_cap p)%nat ->
    TInv U s -> OInv s -> Delivered D s ->
    TInv U (run p s bs) /\ OInv (run p s bs) /\ Delivered (D ++ bs) (run p s bs).
Proof.
  induction bs as [|b bs IH]; simpl; intros D s Hbs HD Hcap T O Dv.
  - rewrite app_nil_r. auto.
  - destruct (step_ok p U HU ids_inj D s b) as (T' & O' & D'); auto. lia.
    destruct (IH (D ++ [b]) (fst (process_block p s b))) as (A & B & C); auto.
    + intros d Hd. apply in_app_iff in Hd. destruct Hd as [Hd|[<-|[]]]; auto.
    + rewrite app_length. simpl. lia.
    + rewrite <- app_assoc in C. simpl in C. auto.
Qed.

(* the statement used by props/C12.v *)
Theorem orphans_connected p bs :
  blocks_ok bs ->
  (forall b b', In b bs -> In b' bs -> b_id b = b_id b' -> b = b') ->
  (length bs <= p_cap p)%nat ->
  let s := run p init bs in
  (forall o, In o (orphans s) -> has_id (b_parent o) (index s) = false) /\
  (forall b, In b bs -> has_id (b_id b) (index s) = true \/ In b (orphans s)) /\
  (forall b, rooted bs b -> has_id (b_id b) (index s) = true).
Proof.
  intros HU Hinj Hcap.
  destruct (run_orphans p bs HU Hinj bs [] init) as (T & O & [Dl _]); auto.
  - intros d [].
  - apply TInv_init.
  - intros o [].
  - split; [intros b []|simpl; lia].
  - simpl in *. split; [exact O|]. split; [exact Dl|].
    induction 1 as [b Hb Hp|b b' Hb Hb' Ep Hr IHr].
    + destruct (Dl b Hb) as [H|H]; auto. specialize (O b H). rewrite Hp in O.
      pose proof (wf_idx _ (b_wf _ (proj1 (run_BInv p bs)))) as Hidx.
      apply idx_ok_genesis in Hidx. apply has_id_in in Hidx. simpl in Hidx.
      change (n_id genesis) with 0%N in Hidx. congruence.
    + destruct (Dl b Hb) as [H|H]; auto. specialize (O b H). rewrite <- Ep in O. congruence.
Qed.

(* example data for the non-vacuity Example of props/C12.v *)
Definition exb (id par : N) (h : Z) : block := mkBlock id par h 1 true true false false.
Definition ex_blocks : list block := [exb 13 12 3; exb 12 11 2; exb 1 0 1; exb 2 1 2; exb 11 0 1].

Lemma ex_blocks_ok : blocks_ok ex_blocks.
Proof.
  split; unfold ex_blocks, exb; intros; simpl in *;
    repeat match goal with H : _ \/ _ |- _ => destruct H end;
    subst; simpl in *; try reflexivity; try discriminate; try tauto.
Qed.

Lemma ex_rooted : Forall (rooted ex_blocks) ex_blocks.
Proof.
  assert (I1 : forall b, In b ex_blocks -> In b ex_blocks) by auto.
  assert (R1 : rooted ex_blocks (exb 1 0 1)) by (apply rooted_gen; [unfold ex_blocks; simpl; tauto|reflexivity]).
  assert (R11 : rooted ex_blocks (exb 11 0 1)) by (apply rooted_gen; [unfold ex_blocks; simpl; tauto|reflexivity]).
  assert (R2 : rooted ex_blocks (exb 2 1 2)).
  { apply rooted_step with (b' := exb 1 0 1); auto; unfold ex_blocks; simpl; tauto. }
  assert (R12 : rooted ex_blocks (exb 12 11 2)).
  { apply rooted_step with (b' := exb 11 0 1); auto; unfold ex_blocks; simpl; tauto. }
  assert (R13 : rooted ex_blocks (exb 13 12 3)).
  { apply rooted_step with (b' := exb 12 11 2); auto; unfold ex_blocks; simpl; tauto. }
  unfold ex_blocks at 2. repeat (apply Forall_cons; [assumption|]). apply Forall_nil.
Qed.
