(* C17 basic lemmas: reachable crash states of a trace, batches, rollback of contiguous directories *)
From Coq Require Import NArith ZArith Bool Lia List.
From ELA Require Import model.C18_Flat proof.C18_Bytes proof.C18_Flat model.C17_Crash.
Import ListNotations.
Local Open Scope N_scope.

(* ------------------------------------------------------------ reach *)

Definition reach (tr : list step) (D0 D : durable) : Prop :=
  exists k m, D = apply_steps (crash_at k m tr) D0.

Lemma apply_steps_app t1 t2 D : apply_steps (t1 ++ t2) D = apply_steps t2 (apply_steps t1 D).
Proof. apply fold_left_app. Qed.

Definition is_append (s : step) : Prop := exists f o d, s = SAppend f o d.

Lemma reach_nil D0 D : reach [] D0 D -> D = D0.
Proof. intros (k & m & ->). unfold crash_at. rewrite firstn_nil. destruct k; reflexivity. Qed.

Lemma reach_cons s t D0 D : reach (s :: t) D0 D ->
  (~ is_append s /\ D = D0) \/
  (exists f o d m, s = SAppend f o d /\ D = apply_step D0 (SAppend f o (firstn m d))) \/
  reach t (apply_step D0 s) D.
Proof.
  intros (k & m & ->). destruct k as [|k].
  - unfold crash_at; simpl. destruct s; try (left; split; [intros (?&?&?&?); discriminate|reflexivity]).
    right; left. now exists f, off, data, m.
  - right; right. exists k, m. reflexivity.
Qed.

Lemma reach_step s t D0 D : reach t (apply_step D0 s) D -> reach (s :: t) D0 D.
Proof. intros (k & m & ->). now exists (S k), m. Qed.
Lemma reach_start s t D0 : ~ is_append s -> reach (s :: t) D0 D0.
Proof.
  intros H. exists 0%nat, 0%nat. unfold crash_at; simpl.
  destruct s; try reflexivity. exfalso; apply H; now exists f, off, data.
Qed.
Lemma reach_nil_refl D0 : reach [] D0 D0.
Proof. exists 0%nat, 0%nat. reflexivity. Qed.
Lemma reach_torn f o d m t D0 : reach (SAppend f o d :: t) D0 (apply_step D0 (SAppend f o (firstn m d))).
Proof. exists 0%nat, m. reflexivity. Qed.

Lemma reach_app t1 : forall t2 D0 D,
  reach (t1 ++ t2) D0 D -> reach t1 D0 D \/ reach t2 (apply_steps t1 D0) D.
Proof.
  induction t1 as [|s t1 IH]; intros t2 D0 D H.
  - now right.
  - simpl in H. destruct (reach_cons _ _ _ _ H) as [[Hn ->]|[(f & o & d & m & -> & ->)|H']].
    + left. now apply reach_start.
    + left. apply reach_torn.
    + destruct (IH _ _ _ H') as [H1|H2].
      * left. now apply reach_step.
      * now right.
Qed.

Lemma reach_marks_only tr D0 D :
  Forall (fun s => exists p, s = SMark p \/ exists f, s = SSync f) tr -> reach tr D0 D -> D = D0.
Proof.
  revert D0. induction tr as [|s t IH]; intros D0 Hall H.
  - now apply reach_nil.
  - inversion Hall as [|? ? Hs Ht]; subst.
    destruct (reach_cons _ _ _ _ H) as [[_ ->]|[(f & o & d & m & -> & _)|H']]; auto.
    + destruct Hs as (p & [Hp|(f' & Hp)]); discriminate.
    + assert (apply_step D0 s = D0) as E by (destruct Hs as (p & [->|(f' & ->)]); reflexivity).
      rewrite E in H'. now apply IH.
Qed.
Lemma apply_marks_only tr D0 :
  Forall (fun s => exists p, s = SMark p \/ exists f, s = SSync f) tr -> apply_steps tr D0 = D0.
Proof.
  revert D0. induction tr as [|s t IH]; intros D0 Hall; [reflexivity|].
  inversion Hall as [|? ? Hs Ht]; subst. simpl.
  assert (apply_step D0 s = D0) as -> by (destruct Hs as (p & [->|(f' & ->)]); reflexivity).
  now apply IH.
Qed.

(* ------------------------------------------------------------ batches *)

Lemma key_eqb_refl k : key_eqb k k = true.
Proof. destruct k; simpl; auto; apply N.eqb_refl. Qed.
Lemma key_eqb_eq a b : key_eqb a b = true -> a = b.
Proof. destruct a, b; simpl; try discriminate; auto; intros H; apply N.eqb_eq in H; now subst. Qed.

Lemma lookup_app b1 b2 k :
  lookup (b1 ++ b2) k = match lookup b1 k with Some v => Some v | None => lookup b2 k end.
Proof. induction b1 as [|[k' v] b1 IH]; simpl; auto. destruct (key_eqb k' k); auto. Qed.
Lemma apply_batch_app b1 b2 s k : apply_batch (b1 ++ b2) s k = apply_batch b1 (apply_batch b2 s) k.
Proof. unfold apply_batch. rewrite lookup_app. destruct (lookup b1 k); reflexivity. Qed.

Lemma lookup_ops_other ops k : (forall x, k <> KMeta x) -> lookup (ops_batch ops) k = None.
Proof.
  intros H. unfold ops_batch. induction ops as [|op ops IH] using rev_ind; simpl; auto.
  rewrite map_app, rev_app_distr. cbn [map rev app lookup fst snd].
  destruct (key_eqb (KMeta (fst op)) k) eqn:E; auto. apply key_eqb_eq in E. exfalso; eapply H; eauto.
Qed.
Lemma lookup_ops_meta ops s x :
  match lookup (ops_batch ops) (KMeta x) with Some v => v | None => s x end = meta_apply s ops x.
Proof.
  unfold ops_batch, meta_apply. induction ops as [|op ops IH] using rev_ind; simpl; auto.
  rewrite map_app, rev_app_distr, fold_left_app. cbn [map rev app lookup fst snd fold_left key_eqb].
  rewrite (N.eqb_sym x). destruct (fst op =? x); auto.
Qed.

(* ------------------------------------------------------------ directories under rollback *)

Lemma strip_none_some (xs : list bytes) : strip_none (map Some xs ++ [None]) = map Some xs.
Proof.
  unfold strip_none. rewrite rev_app_distr. cbn [rev app strip_rev].
  destruct xs as [|y ys] using rev_ind; [reflexivity|].
  rewrite map_app, rev_app_distr. cbn [map rev app strip_rev].
  now rewrite rev_involutive.
Qed.

Lemma del_file_last a x : del_file (map Some (a ++ [x])) (N.of_nat (length a)) = map Some a.
Proof.
  unfold del_file. rewrite get_file_active, Nat2N.id, map_app. cbn [map].
  rewrite set_nth_last. apply strip_none_some.
Qed.

Lemma del_down_spec b : forall a, a <> [] ->
  del_down (map Some (a ++ b)) (N.of_nat (length a + length b) - 1) (N.of_nat (length a) - 1) (length b)
  = (map Some a, true).
Proof.
  induction b as [|x b IH] using rev_ind; intros a Ha.
  - simpl. now rewrite app_nil_r.
  - rewrite app_length. cbn [length]. rewrite Nat.add_1_r. cbn [del_down].
    assert (length a <> 0)%nat by (destruct a; simpl; congruence).
    replace (N.of_nat (length a) - 1 <? N.of_nat (length a + S (length b)) - 1) with true
      by (symmetry; apply N.ltb_lt; lia).
    replace (N.of_nat (length a + S (length b)) - 1) with (N.of_nat (length (a ++ b)))
      by (rewrite app_length; lia).
    rewrite app_assoc, get_file_active, del_file_last.
    replace (N.of_nat (length (a ++ b)) - 1) with (N.of_nat (length a + length b) - 1)
      by (rewrite app_length; lia).
    now apply IH.
Qed.

Lemma truncate_prefix d suf : truncate (d ++ suf) (len d) = d.
Proof.
  unfold truncate. rewrite takeN_app_exact, len_app.
  replace (len d - (len d + len suf)) with 0 by lia. apply app_nil_r.
Qed.
Lemma truncate_0 x : truncate x 0 = [].
Proof. exact (truncate_prefix [] x). Qed.

Lemma cursor_lt_neq f o cf co :
  cursor_lt (f, o) (cf, co) = true -> (cf =? f) && (co =? o) = false.
Proof.
  unfold cursor_lt; simpl. intros H. apply andb_false_iff.
  apply orb_true_iff in H. destruct H as [H|H].
  - left. apply N.eqb_neq. apply N.ltb_lt in H. lia.
  - apply andb_true_iff in H. destruct H as [_ H]. right. apply N.eqb_neq. apply N.ltb_lt in H. lia.
Qed.

Lemma rollback_spec a x b co o :
  (N.of_nat (length a + length b) =? N.of_nat (length a)) && (co =? o) = false ->
  handle_rollback (mkstore (map Some (a ++ x :: b)) (N.of_nat (length a + length b)) co) (N.of_nat (length a)) o
  = mkstore (map Some (a ++ [truncate x o])) (N.of_nat (length a)) o.
Proof.
  intros Hne. unfold handle_rollback. cbn [s_file s_off s_files]. rewrite Hne.
  replace (N.to_nat (N.of_nat (length a + length b) - N.of_nat (length a))) with (length b) by lia.
  pose proof (del_down_spec b (a ++ [x]) ltac:(intro E; apply app_eq_nil in E; destruct E; discriminate)) as Hd.
  rewrite app_length in Hd. cbn [length] in Hd.
  replace (N.of_nat (length a + 1 + length b) - 1) with (N.of_nat (length a + length b)) in Hd by lia.
  replace (N.of_nat (length a + 1) - 1) with (N.of_nat (length a)) in Hd by lia.
  rewrite <- app_assoc in Hd. cbn [app] in Hd. rewrite Hd.
  unfold ensure_file. rewrite !get_file_active. unfold set_file.
  rewrite Nat2N.id, map_app. cbn [map]. rewrite set_nth_last. rewrite map_app. reflexivity.
Qed.
