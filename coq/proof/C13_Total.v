(* C13 — the unconditional form: connect-then-disconnect of a validated block
   runs to completion and restores the state.  Proofs only. *)
From Coq Require Import List NArith Bool Permutation.
From ELA Require Import model.Ledger proof.Ledger_unspent proof.C06_Ledger proof.C13_Ledger
  proof.Ledger_addr proof.Ledger_addr_inv proof.C13_Full proof.C13_Progress.
Import ListNotations.
Local Open Scope N_scope.

Theorem disconnect_connect_total s c b :
  inv2 s c -> c <> [] -> valid_block s b -> b_prev b = s_tip s ->
  (forall b', In b' c -> b_height b' < b_height b) ->
  (forall t, In t (b_txs b) -> t_cb t = false -> refs_known s t = true) ->
  exists s1 s2, save_block s b = Ok s1 /\ rollback_block cfg_fixed s1 b = Ok s2 /\
    obs_eq s2 s /\ (forall a h, Permutation (s_addr s2 a h) (s_addr s a h)) /\ inv2 s2 c.
Proof.
  intros I2 Hne V Htip Hh Hk.
  destruct (save_block_ok s c b (i2_inv _ _ I2) V Htip Hk) as [s1 Hs].
  destruct (rollback_after_save_ok cfg_fixed s c b s1 (i2_inv _ _ I2) V Hk Hs) as [s2 Hr].
  exists s1, s2. split; [exact Hs|]. split; [exact Hr|].
  exact (disconnect_connect_full s c b s1 s2 I2 Hne V Hh Hs Hr).
Qed.
