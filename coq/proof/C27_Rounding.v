(* C27: the two float sub-expressions over an ABSTRACT rounding function.

   Go evaluates   ibcr  = Floor(R(R(R(r) * 1/4) / R(n)))
                  share = Floor(R(R(x) * R(R(R(r) - R(R(r) * 1/4)) / R(T))))
   where every arithmetic operation is the exact rational operation followed
   by binary64 rounding R.  This file proves, for ANY R : Q -> Q that is
   monotone, maps 0 to 0 and satisfies R a <= 2a on a >= 0 (binary64
   round-to-nearest does, by far, below overflow), the three facts the
   structural theorem needs: 0 <= ibcr <= r, and 0 <= share x <= 32 r for
   0 <= x <= T.  No exactness assumption is needed. *)
From Coq Require Import ZArith QArith Qround Lia Lqa List.
From ELA Require Import lib.GoFloat model.C27_Reward proof.C27_Reward.
Local Open Scope Q_scope.

Section AbsRound.
  Variable R : Q -> Q.
  Hypothesis Rmono : forall a b, a <= b -> R a <= R b.
  Hypothesis R0 : R 0 == 0.
  Hypothesis Rle : forall a, 0 <= a -> R a <= 2 * a.
  Hypothesis Rge : forall a, 0 <= a -> a <= 2 * R a.

  Lemma Rnonneg : forall a, 0 <= a -> 0 <= R a.
  Proof. intros a H. rewrite <- R0. apply Rmono. exact H. Qed.

  Definition fr (r : Z) : Q := R (inject_Z r).
  Definition conf (r : Z) : Q := R (fr r * (1 # 4)).
  Definition top (r : Z) : Q := R (fr r - conf r).
  Definition rpv (r T : Z) : Q := R (top r / R (inject_Z T)).
  Definition share_abs (r T x : Z) : Z := Qfloor (R (R (inject_Z x) * rpv r T)).
  Definition ibcr_abs (r n : Z) : Z := Qfloor (R (conf r / R (inject_Z n))).

  Lemma inj_nonneg : forall z, (0 <= z)%Z -> 0 <= inject_Z z.
  Proof. intros z H. change 0 with (inject_Z 0). rewrite <- Zle_Qle. exact H. Qed.

  Lemma fr_bounds : forall r, (0 <= r)%Z -> 0 <= fr r /\ fr r <= 2 * inject_Z r.
  Proof. intros r H. pose proof (inj_nonneg r H). split. apply Rnonneg; assumption. apply Rle; assumption. Qed.

  Lemma conf_bounds : forall r, (0 <= r)%Z -> 0 <= conf r /\ conf r <= fr r * (1 # 2).
  Proof.
    intros r H. destruct (fr_bounds r H) as [F0 F1]. unfold conf.
    assert (0 <= fr r * (1 # 4)) by lra.
    split. apply Rnonneg; assumption.
    pose proof (Rle _ H0). lra.
  Qed.

  Lemma top_bounds : forall r, (0 <= r)%Z -> 0 <= top r /\ top r <= 4 * inject_Z r.
  Proof.
    intros r H. destruct (fr_bounds r H) as [F0 F1]. destruct (conf_bounds r H) as [C0 C1].
    unfold top. assert (0 <= fr r - conf r) by lra. split. apply Rnonneg; assumption.
    pose proof (Rle _ H0). lra.
  Qed.

  Lemma div_nonneg : forall a d, 0 <= a -> 0 < d -> 0 <= a / d.
  Proof. intros a d Ha Hd. apply Qle_shift_div_l. exact Hd. lra. Qed.

  Lemma div_bound : forall a lo d, 0 <= a -> 0 < lo -> lo <= d -> a / d <= a / lo.
  Proof.
    intros a lo d Ha Hlo Hd. assert (0 < d) by lra.
    apply Qle_shift_div_r. exact H.
    assert (E : a == a / lo * lo) by (field; lra).
    rewrite E at 1. apply Qmult_le_l_nonneg || idtac.
    pose proof (div_nonneg a lo Ha Hlo) as Hq.
    setoid_replace (a / lo * d) with (a / lo * lo + a / lo * (d - lo)) by ring.
    assert (0 <= a / lo * (d - lo)) by (apply Qmult_le_0_compat; lra).
    lra.
  Qed.

  Lemma den_bounds : forall T, (0 < T)%Z -> inject_Z T * (1 # 2) <= R (inject_Z T) /\ 0 < inject_Z T.
  Proof.
    intros T H. assert (0 < inject_Z T) by (change 0 with (inject_Z 0); rewrite <- Zlt_Qlt; exact H).
    split; [| exact H0]. pose proof (Rge (inject_Z T) ltac:(lra)). lra.
  Qed.

  Lemma rpv_bounds : forall r T, (0 <= r)%Z -> (0 < T)%Z ->
    0 <= rpv r T /\ rpv r T <= 16 * inject_Z r / inject_Z T.
  Proof.
    intros r T Hr HT. destruct (top_bounds r Hr) as [T0 T1]. destruct (den_bounds T HT) as [D0 D1].
    set (d := R (inject_Z T)) in *. assert (Hd : 0 < d) by lra.
    pose proof (div_nonneg (top r) d T0 Hd) as Q0.
    unfold rpv. fold d. split. apply Rnonneg; exact Q0.
    pose proof (Rle _ Q0) as Q1.
    assert (Hlo : 0 < inject_Z T * (1 # 2)) by lra.
    pose proof (div_bound (top r) _ d T0 Hlo D0) as Q2.
    assert (Q3 : top r / (inject_Z T * (1 # 2)) <= 8 * inject_Z r / inject_Z T).
    { apply Qle_shift_div_r. exact Hlo.
      setoid_replace (8 * inject_Z r / inject_Z T * (inject_Z T * (1 # 2))) with (4 * inject_Z r) by (field; lra).
      exact T1. }
    setoid_replace (16 * inject_Z r / inject_Z T) with (2 * (8 * inject_Z r / inject_Z T)) by (field; lra).
    lra.
  Qed.

  Lemma share_abs_bounds : forall r T x, (0 <= r)%Z -> (0 < T)%Z -> (0 <= x <= T)%Z ->
    (0 <= share_abs r T x <= 64 * r)%Z.
  Proof.
    intros r T x Hr HT [Hx0 Hx1]. destruct (rpv_bounds r T Hr HT) as [P0 P1].
    destruct (den_bounds T HT) as [_ D1].
    pose proof (inj_nonneg x Hx0) as X0. pose proof (inj_nonneg r Hr) as R0'.
    assert (X1 : inject_Z x <= inject_Z T) by (rewrite <- Zle_Qle; exact Hx1).
    pose proof (Rnonneg _ X0) as FX0. pose proof (Rle _ X0) as FX1.
    assert (M0 : 0 <= R (inject_Z x) * rpv r T) by (apply Qmult_le_0_compat; assumption).
    assert (M1 : R (inject_Z x) * rpv r T <= 2 * inject_Z T * (16 * inject_Z r / inject_Z T)).
    { apply Qmult_le_compat_nonneg; split; (assumption || lra). }
    assert (M2 : 2 * inject_Z T * (16 * inject_Z r / inject_Z T) == 32 * inject_Z r) by (field; lra).
    pose proof (Rnonneg _ M0) as S0. pose proof (Rle _ M0) as S1.
    unfold share_abs. split.
    - change 0%Z with (Qfloor (inject_Z 0)). apply Qfloor_resp_le. exact S0.
    - rewrite <- (Qfloor_Z (64 * r)). apply Qfloor_resp_le.
      rewrite inject_Z_mult. change (inject_Z 64) with 64. lra.
  Qed.

  Lemma ibcr_abs_bounds : forall r n, (0 <= r)%Z -> (0 < n)%Z -> (0 <= ibcr_abs r n <= 4 * r)%Z.
  Proof.
    intros r n Hr Hn. destruct (conf_bounds r Hr) as [C0 C1]. destruct (fr_bounds r Hr) as [F0 F1].
    destruct (den_bounds n Hn) as [D0 D1]. set (d := R (inject_Z n)) in *. assert (Hd : 0 < d) by lra.
    pose proof (div_nonneg (conf r) d C0 Hd) as Q0. pose proof (Rle _ Q0) as Q1.
    assert (Hlo : 0 < inject_Z n * (1 # 2)) by lra.
    pose proof (div_bound (conf r) _ d C0 Hlo D0) as Q2.
    assert (N1 : 1 <= inject_Z n) by (change 1 with (inject_Z 1); rewrite <- Zle_Qle; lia).
    assert (Q3 : conf r / (inject_Z n * (1 # 2)) <= 2 * inject_Z r).
    { apply Qle_shift_div_r. exact Hlo.
      assert (0 <= inject_Z r * (inject_Z n - 1)) by (apply Qmult_le_0_compat; [apply inj_nonneg; exact Hr | lra]).
      setoid_replace (2 * inject_Z r * (inject_Z n * (1 # 2))) with (inject_Z r + inject_Z r * (inject_Z n - 1)) by ring.
      lra. }
    unfold ibcr_abs. fold d. split.
    - change 0%Z with (Qfloor (inject_Z 0)). apply Qfloor_resp_le. apply Rnonneg. exact Q0.
    - rewrite <- (Qfloor_Z (4 * r)). apply Qfloor_resp_le.
      rewrite inject_Z_mult. change (inject_Z 4) with 4. lra.
  Qed.
End AbsRound.

Local Open Scope Z_scope.

Lemma exact_none_indep : forall i sh i' sh' s v a,
  exact_of i sh s v a = None -> exact_of i' sh' s v a = None.
Proof.
  intros i sh i' sh' s v a. unfold exact_of. destruct v.
  - destruct (a_in_map a); discriminate.
  - destruct (a_in_map a); discriminate.
  - destruct (a_in_map a); discriminate.
  - destruct (a_crc a); [| discriminate].
    destruct (negb (a_elected a)); [discriminate |].
    destruct (a_nodpk a); [| discriminate].
    destruct (a_prodhash a); [discriminate | reflexivity].
Qed.

(* Distribution under structural hypotheses on the inputs, for the expressions
   evaluated with any rounding R that is monotone, fixes 0 and stays within a
   factor 2 of its argument. *)
Lemma abs_rounding_ok : forall (R : Q -> Q),
  (forall a b, (a <= b)%Q -> (R a <= R b)%Q) -> (R 0 == 0)%Q ->
  (forall a, (0 <= a)%Q -> (R a <= 2 * a)%Q) -> (forall a, (0 <= a)%Q -> (a <= 2 * R a)%Q) ->
  forall s v reward m change,
  0 <= reward <= max_int64 -> 0 < s_total s -> 0 < count_of s v ->
  (forall k x, In (k, x) (s_votes s) -> 0 <= x <= s_total s) ->
  (forall a, In a (s_arbs s) -> exact_of 0 (fun _ => 0) s v a <> None) ->
  (Z.of_nat (length (s_arbs s)) + Z.of_nat (n_extra s v)) * (4 * reward) +
  (Z.of_nat (length (s_arbs s)) + Z.of_nat (length (s_cands s))) * (64 * reward) <= max_int64 ->
  guard reward (dist_version (ibcr_abs R reward (count_of s v)) (share_abs R reward (s_total s)) s v reward)
    = ROk m change ->
  0 <= change /\
  paid (ibcr_abs R reward (count_of s v)) (share_abs R reward (s_total s)) s v reward = reward - change /\
  0 <= paid (ibcr_abs R reward (count_of s v)) (share_abs R reward (s_total s)) s v reward /\
  (forall k x, In (k, x) m -> 0 <= x) /\
  sum_map m <= credited (ibcr_abs R reward (count_of s v)) (share_abs R reward (s_total s)) s v reward.
Proof.
  intros R Rm R0 Rl Rg s v reward m change Hr HT Hn Hv Hp Hf Hg.
  apply (structural_ok _ _ s v reward (s_total s) (4 * reward) (64 * reward) m change); try assumption; try lia.
  - apply ibcr_abs_bounds; (assumption || lia).
  - intros x Hx. apply share_abs_bounds; (assumption || lia).
  - intros a Ha E. apply (Hp a Ha). eapply exact_none_indep. exact E.
Qed.

(* ------------------------------------------------------------------ binary64 rounding on Q (executable) *)

(* round to nearest, ties to even, 53-bit significand, unbounded exponent
   (no overflow / underflow: the values met here lie between 2^-70 and 2^70) *)
Definition pow2Q (k : Z) : Q :=
  if 0 <=? k then inject_Z (2 ^ k) else 1 # Z.to_pos (2 ^ (- k)).

Definition R64pos (q : Q) : Q :=
  let e0 := Z.log2 (Qnum q) - Z.log2 (Zpos (Qden q)) in
  let e := if Qle_bool (pow2Q e0) q then e0 else e0 - 1 in
  let scaled := (q * pow2Q (52 - e))%Q in
  let f := Qfloor scaled in
  let rem := (scaled - inject_Z f)%Q in
  let m := match Qcompare rem (1 # 2) with
           | Lt => f
           | Gt => f + 1
           | Eq => if Z.even f then f else f + 1
           end in
  (inject_Z m * pow2Q (e - 52))%Q.

Definition R64 (q : Q) : Q :=
  match Qcompare q 0 with
  | Eq => 0%Q
  | Gt => R64pos q
  | Lt => (- R64pos (- q))%Q
  end.

Example R64_ex :
  Qeq_bool (R64 (3 # 10)) (5404319552844595 # 18014398509481984) = true /\
  Qeq_bool (R64 (inject_Z 9007199254740993)) (inject_Z 9007199254740992) = true /\
  Qeq_bool (R64 (inject_Z 9007199254740995)) (inject_Z 9007199254740996) = true /\
  Qeq_bool (R64 (1 # 3)) (6004799503160661 # 18014398509481984) = true.
Proof. vm_compute. repeat split; reflexivity. Qed.

(* TEST bridge used by corr/C27_corr.v: Go's expressions on primitive floats
   agree with "exact rational operation, then R64" *)
Definition go_matches_R64 (reward count total : Z) (xs : list Z) : bool :=
  (go_ibcr reward count =? ibcr_abs R64 reward count) &&
  forallb (fun x => go_share reward total x =? share_abs R64 reward total x) xs.
