(* C12 lemmas: the active chain is a valid parent-linked path to genesis after
   every run; unless a reorganisation failed half-way the tip is the
   first-connected node of maximal cumulative work among those not refused by
   the irreversibility guard. *)
From Coq Require Import ZArith NArith Bool List Lia.
From ELA Require Import model.Chain proof.C12_Struct.
Import ListNotations.
Local Open Scope Z_scope.

(* ------------------------------------------------------------------ *)
(* definitions *)

Definition rel (n pn : node) : Prop :=
  n_parent n = n_id pn /\ n_height n = n_height pn + 1 /\
  n_worksum n = n_worksum pn + b_work (n_blk n).

(* the index is a tree rooted at genesis: every node was appended with its
   parent already present *)
Inductive idx_ok : list node -> Prop :=
| idx_gen : idx_ok [genesis]
| idx_snoc idx n pn : idx_ok idx -> lookup (n_parent n) idx = Some pn -> rel n pn ->
                      idx_ok (idx ++ [n]).

(* a valid parent-linked path, tip first, ending in genesis *)
Inductive chain : list node -> Prop :=
| chain_gen : chain [genesis]
| chain_cons n m rest : chain (m :: rest) -> rel n m -> b_valid (n_blk n) = true ->
                        chain (n :: m :: rest).

(* [att] is a parent-linked path growing from [anc] *)
Fixpoint onto (anc : node) (att : list node) : Prop :=
  match att with
  | [] => True
  | a :: r => rel a anc /\ onto a r
  end.

Record wf (s : state) : Prop := mkWf {
  wf_idx : idx_ok (index s);
  wf_chain : chain (main s);
  wf_sub : forall m, In m (main s) -> In m (index s)
}.

(* ------------------------------------------------------------------ *)
(* index facts *)

Lemma idx_ok_parent idx : idx_ok idx -> forall n, In n idx ->
  n = genesis \/ exists pn, lookup (n_parent n) idx = Some pn /\ rel n pn.
Proof.
  induction 1 as [|idx n pn Hok IH L R]; intros x Hx.
  - destruct Hx as [<-|[]]. auto.
  - apply in_app_iff in Hx. destruct Hx as [Hx|[<-|[]]].
    + destruct (IH x Hx) as [->|[px [Lx Rx]]]; auto.
      right. exists px. split; auto. apply lookup_app_l. exact Lx.
    + right. exists pn. split; auto. apply lookup_app_l. exact L.
Qed.

Lemma idx_ok_height idx : idx_ok idx -> forall n, In n idx ->
  0 <= n_height n /\ (n_height n = 0 -> n = genesis).
Proof.
  induction 1 as [|idx n pn Hok IH L R]; intros x Hx.
  - destruct Hx as [<-|[]]. simpl. split; auto. lia.
  - apply in_app_iff in Hx. destruct Hx as [Hx|[<-|[]]]; auto.
    apply lookup_some in L. destruct L as [Lin _].
    destruct (IH pn Lin) as [H0 _]. destruct R as (_ & Rh & _). split; lia.
Qed.

Lemma idx_ok_genesis idx : idx_ok idx -> In genesis idx.
Proof. induction 1; simpl; auto. apply in_app_iff; auto. Qed.

(* ------------------------------------------------------------------ *)
(* chain facts *)

Lemma chain_genesis mn : chain mn -> In genesis mn.
Proof. induction 1; simpl in *; auto. Qed.

Lemma chain_nonempty mn : chain mn -> exists t rest, mn = t :: rest.
Proof. destruct 1; eauto. Qed.

Lemma chain_suffix l1 : forall a rest, chain (l1 ++ a :: rest) -> chain (a :: rest).
Proof.
  induction l1 as [|x l1 IH]; simpl; intros a rest H; auto.
  inversion H as [E|n m r Hc Hr Hv [E1 E2]].
  - destruct l1; discriminate.
  - apply IH. rewrite <- E2. exact Hc.
Qed.

Lemma chain_valid mn : chain mn -> forall n, In n mn -> b_valid (n_blk n) = true.
Proof.
  induction 1; intros x Hx.
  - destruct Hx as [<-|[]]. reflexivity.
  - destruct Hx as [<-|Hx]; auto.
Qed.

Lemma skipn_len_app {A} (l1 l2 : list A) : skipn (length l1) (l1 ++ l2) = l2.
Proof. induction l1; simpl; auto. Qed.

(* ------------------------------------------------------------------ *)
(* getReorganizeNodes *)

Lemma walk_spec idx mn :
  idx_ok idx -> NoDup (map n_id idx) -> In genesis mn -> (forall m, In m mn -> In m idx) ->
  forall fuel n acc, In n idx -> (Z.to_nat (n_height n) < fuel)%nat -> onto n acc ->
  exists pre anc, walk fuel idx mn n acc = (pre ++ acc, anc) /\ In anc mn /\
    onto anc (pre ++ acc) /\
    (forall a, In a pre -> In a idx /\ has_id (n_id a) mn = false) /\
    ((pre = [] /\ anc = n) \/ exists pre', pre = pre' ++ [n]).
Proof.
  intros Hok ND Hg Hsub. induction fuel as [|f IH]; intros n acc Hn Hf Hon; [lia|].
  simpl. destruct (has_id (n_id n) mn) eqn:Hm.
  - exists [], n. simpl. split; [reflexivity|]. split; [|split; [exact Hon|split; [intros x []|left; auto]]].
    apply has_id_true in Hm. destruct Hm as [m [Hmin E]].
    assert (m = n) by (eapply nodup_same_id; eauto). subst. auto.
  - destruct (idx_ok_parent _ Hok n Hn) as [->|[pn [L R]]].
    + exfalso. rewrite (has_id_in _ _ Hg) in Hm. discriminate.
    + rewrite L. pose proof (lookup_some _ _ _ L) as [Lin _].
      destruct (idx_ok_height _ Hok pn Lin) as [Hp0 _].
      destruct (IH pn (n :: acc) Lin) as (pre0 & anc & W & Hanc & Honto & Hpre & _).
      { destruct R as (_ & Rh & _). rewrite Rh in Hf. rewrite Z2Nat.inj_add in Hf; lia. }
      { simpl. auto. }
      exists (pre0 ++ [n]), anc. rewrite <- app_assoc. simpl.
      split; [exact W|]. split; [exact Hanc|]. split; [exact Honto|]. split; [|right; eauto].
      intros x Hx. apply in_app_iff in Hx. destruct Hx as [Hx|[<-|[]]]; auto.
Qed.

Lemma det_spec mn a : has_id a mn = true ->
  exists anc rest, mn = det_nodes mn a ++ anc :: rest /\ n_id anc = a.
Proof.
  induction mn as [|n rest IH]; simpl; [discriminate|].
  destruct (N.eqb (n_id n) a) eqn:E; simpl.
  - intros _. exists n, rest. apply N.eqb_eq in E. auto.
  - intros H. destruct rest as [|m r]; [discriminate|].
    destruct (IH H) as (anc & rest' & E1 & E2). exists anc, rest'.
    split; auto. simpl. rewrite E1 at 1. reflexivity.
Qed.

(* ------------------------------------------------------------------ *)
(* reorganizeChain *)

Lemma attach_all_spec p att : forall s, chain (main s) -> onto (tip s) att ->
  chain (main (fst (attach_all p att s))) /\
  (forall m, In m (main (fst (attach_all p att s))) -> In m att \/ In m (main s)) /\
  (snd (attach_all p att s) = true -> main (fst (attach_all p att s)) = rev att ++ main s) /\
  (exists k, main (fst (attach_all p att s)) = rev (firstn k att) ++ main s).
Proof.
  induction att as [|a att IH]; simpl; intros s Hch Hon.
  - repeat split; auto. exists O. reflexivity.
  - destruct Hon as [Hr Hon]. destruct (b_valid (n_blk a)) eqn:V; simpl.
    + destruct (chain_nonempty _ Hch) as (t & rest & Em).
      destruct (IH (push_main p s a)) as (C1 & C2 & C3 & [k C4]).
      * simpl. rewrite Em. constructor; auto. rewrite <- Em. exact Hch.
        unfold tip in Hr. rewrite Em in Hr. exact Hr.
      * exact Hon.
      * repeat split; auto.
        -- intros m Hm. destruct (C2 m Hm) as [H|H]; auto. simpl in H. destruct H as [<-|H]; auto.
        -- intros Hok. rewrite (C3 Hok). simpl. rewrite <- app_assoc. reflexivity.
        -- exists (S k). rewrite C4. simpl. rewrite <- app_assoc. reflexivity.
    + repeat split; auto. discriminate. exists O. reflexivity.
Qed.

Lemma reorganize_spec p det att s anc rest s' ok :
  chain (main s) -> main s = det ++ anc :: rest -> onto anc att ->
  reorganize p det att s = (s', ok) ->
  chain (main s') /\
  (forall m, In m (main s') -> In m att \/ In m (anc :: rest)) /\
  (ok = true -> main s' = rev att ++ anc :: rest) /\
  (exists k, main s' = rev (firstn k att) ++ anc :: rest).
Proof.
  intros Hch Em Hon. unfold reorganize.
  destruct (detach_n_index (length det) s) as (_ & _ & _ & _ & Dm).
  rewrite Em, skipn_len_app in Dm.
  pose proof (attach_all_spec p att (detach_n (length det) s)) as A.
  rewrite Dm in A.
  destruct (attach_all p att (detach_n (length det) s)) as [s1 ok1]. simpl in A.
  intros E. inversion E; subst. simpl.
  apply A.
  - rewrite Em in Hch. eapply chain_suffix; eauto.
  - unfold tip. rewrite Dm. exact Hon.
Qed.

(* ------------------------------------------------------------------ *)
(* wf is an invariant *)

Lemma wf_init : wf init.
Proof. split; simpl; auto; constructor. Qed.

Lemma wf_core s s' : same_core s s' -> wf s -> wf s'.
Proof. intros (A & B & _) [X Y Z]. split; rewrite ?A, ?B; auto. Qed.

Lemma wf_add_index s n pn : wf s -> lookup (n_parent n) (index s) = Some pn -> rel n pn ->
  wf (add_index n s).
Proof.
  intros [X Y Z] L R. split; simpl; auto.
  - econstructor; eauto.
  - intros m Hm. apply in_app_iff. auto.
Qed.

Lemma nodup_add_index s n : NoDup (map n_id (index s)) -> has_id (n_id n) (index s) = false ->
  NoDup (map n_id (index s ++ [n])).
Proof.
  intros ND Hf. rewrite map_app. simpl. apply NoDup_app_snoc; auto.
  intros Hin. apply in_map_iff in Hin. destruct Hin as [m [E Hm]].
  rewrite has_id_false in Hf. apply (Hf m Hm). exact E.
Qed.

(* the part of SInv used by reorg_nodes_spec is the NoDup of the index only *)
Lemma reorg_nodes_spec' s n :
  NoDup (map n_id (index s)) -> wf s -> In n (index s) ->
  forall det att, get_reorganize_nodes s n = (det, att) ->
  exists anc rest, main s = det ++ anc :: rest /\ onto anc att /\
    (forall a, In a att -> In a (index s)) /\
    (has_id (n_id n) (main s) = false -> exists att', att = att' ++ [n]).
Proof.
  intros ND [Hidx Hch Hsub] Hn det att. unfold get_reorganize_nodes.
  destruct (walk_spec (index s) (main s) Hidx ND (chain_genesis _ Hch) Hsub
              (S (Z.to_nat (n_height n))) n [] Hn (Nat.lt_succ_diag_r _) I)
    as (pre & anc & W & Hanc & Honto & Hpre & Hlast).
  rewrite W. rewrite app_nil_r in *. intros E. inversion E; subst.
  destruct (det_spec (main s) (n_id anc) (has_id_in _ _ Hanc)) as (anc' & rest & E1 & E2).
  assert (anc' = anc).
  { eapply nodup_same_id; [apply ND| | |auto]; apply Hsub; auto.
    rewrite E1. apply in_app_iff. simpl; auto. }
  subst anc'. exists anc, rest. repeat split; auto.
  - intros a Ha. apply (Hpre a Ha).
  - intros Hm. destruct Hlast as [[-> ->]|[pre' ->]]; eauto.
    rewrite (has_id_in _ _ Hanc) in Hm. discriminate.
Qed.

Lemma main_fresh s n : wf s -> has_id (n_id n) (index s) = false -> has_id (n_id n) (main s) = false.
Proof.
  intros [_ _ Z] Hf. apply has_id_false. intros m Hm. rewrite has_id_false in Hf. apply Hf. auto.
Qed.

Lemma tip_in s : wf s -> In (tip s) (main s).
Proof.
  intros [_ Y _]. destruct (chain_nonempty _ Y) as (t & r & E). unfold tip. rewrite E. simpl; auto.
Qed.

Lemma tip_is_parent s n pn : NoDup (map n_id (index s)) -> wf s ->
  lookup (n_parent n) (index s) = Some pn -> n_parent n = n_id (tip s) -> pn = tip s.
Proof.
  intros ND W L E. pose proof (lookup_some _ _ _ L) as [Lin Lid].
  eapply nodup_same_id; eauto. apply (wf_sub _ W). apply tip_in; auto. congruence.
Qed.

Lemma wf_cbc p s n pn :
  NoDup (map n_id (index s)) -> wf s -> has_id (n_id n) (index s) = false ->
  lookup (n_parent n) (index s) = Some pn -> rel n pn ->
  wf (fst (connect_best_chain p n s)).
Proof.
  intros ND W Hf L R. unfold connect_best_chain.
  destruct (N.eqb (n_parent n) (n_id (tip s))) eqn:Et.
  - apply N.eqb_eq in Et. destruct (b_valid (n_blk n)) eqn:V; simpl; auto.
    assert (pn = tip s) by (eapply tip_is_parent; eauto). subst pn.
    destruct W as [X Y Z]. split; simpl.
    + econstructor; eauto.
    + destruct (chain_nonempty _ Y) as (t & r & E). unfold tip in R. rewrite E in *.
      constructor; auto.
    + intros m [<-|Hm]; apply in_app_iff; simpl; auto.
  - pose proof (wf_add_index s n pn W L R) as W1.
    destruct (n_worksum n <=? n_worksum (tip (add_index n s))); simpl; auto.
    destruct (get_reorganize_nodes (add_index n s) n) as [det att] eqn:G.
    destruct (is_irreversible _ _ _ _ _); simpl.
    + destruct W1 as [X Y Z]. split; auto.
    + destruct (reorg_nodes_spec' (add_index n s) n) with (det := det) (att := att)
        as (anc & rest & Em & Hon & Hin & _); auto.
      { simpl. apply nodup_add_index; auto. }
      { simpl. apply in_app_iff; simpl; auto. }
      destruct (reorganize p det att (add_index n s)) as [s2 ok] eqn:Rg. simpl.
      pose proof (reorganize_frame _ _ _ _ _ _ Rg) as (F1 & _).
      destruct (reorganize_spec _ _ _ _ _ _ _ _ (wf_chain _ W1) Em Hon Rg) as (C1 & C2 & _).
      split; auto.
      * rewrite F1. apply (wf_idx _ W1).
      * intros m Hm. rewrite F1. destruct (C2 m Hm) as [H|H]; auto.
        apply (wf_sub _ W1). rewrite Em. apply in_app_iff. auto.
Qed.

Lemma wf_accept p s b :
  SInv s -> wf s -> has_id (b_id b) (index s) = false -> wf (fst (maybe_accept p b s)).
Proof.
  intros HS W Hf. unfold maybe_accept.
  destruct (lookup (b_parent b) (index s)) as [pn|] eqn:L; simpl; auto.
  destruct (b_height b =? n_height pn + 1) eqn:Eh; simpl; auto.
  eapply wf_cbc; eauto.
  - apply (s_in _ HS).
  - pose proof (lookup_some _ _ _ L) as [_ Lid]. unfold rel, n_parent; simpl; auto.
Qed.

(* ------------------------------------------------------------------ *)
(* the tip has the most work unless a switch failed or the guard refused *)

Definition okw (s : state) (strict : bool) (n : node) : Prop :=
  (if strict then n_worksum n < n_worksum (tip s) else n_worksum n <= n_worksum (tip s))
  \/ In (n_id n) (refused s).

(* first-connected maximum: nodes indexed before the tip have strictly less
   work, nodes indexed after it have at most as much (or were refused) *)
Definition best_inv (s : state) : Prop :=
  exists pre post, index s = pre ++ tip s :: post /\
    (forall n, In n pre -> okw s true n) /\ (forall n, In n post -> okw s false n).

Definition pos_work (s : state) : Prop := forall n, In n (index s) -> n = genesis \/ 0 < b_work (n_blk n).

Record BInv (s : state) : Prop := mkBInv {
  b_wf : wf s;
  b_pos : pos_work s;
  b_best : no_failed_switch s = true -> best_inv s
}.

Lemma no_failed_cons e s l : evlog s = e :: l ->
  no_failed_switch s = negb (reorg_failed e) && negb (existsb reorg_failed l).
Proof. unfold no_failed_switch. intros ->. simpl. apply negb_orb. Qed.

Lemma best_new_tip s s' n :
  best_inv s -> n_worksum (tip s) < n_worksum n ->
  index s' = index s ++ [n] -> tip s' = n -> refused s' = refused s -> best_inv s'.
Proof.
  intros (pre & post & E & Hpre & Hpost) Hlt Ei Et Er.
  exists (pre ++ tip s :: post), []. rewrite Et, Ei, E. split; [reflexivity|]. split; [|intros ? []].
  intros m Hm. unfold okw in *. rewrite Et, Er.
  apply in_app_iff in Hm. destruct Hm as [Hm|[<-|Hm]].
  - destruct (Hpre m Hm) as [H|H]; auto. left. lia.
  - left. lia.
  - destruct (Hpost m Hm) as [H|H]; auto. left. lia.
Qed.

Lemma best_side s s' n :
  best_inv s -> n_worksum n <= n_worksum (tip s) \/ In (n_id n) (refused s') ->
  index s' = index s ++ [n] -> tip s' = tip s -> (forall x, In x (refused s) -> In x (refused s')) ->
  best_inv s'.
Proof.
  intros (pre & post & E & Hpre & Hpost) Hle Ei Et Er.
  exists pre, (post ++ [n]). rewrite Et, Ei, E. rewrite <- app_assoc. split; [reflexivity|].
  unfold okw in *. rewrite Et. split.
  - intros m Hm. destruct (Hpre m Hm); auto.
  - intros m Hm. apply in_app_iff in Hm. destruct Hm as [Hm|[<-|[]]]; auto.
    destruct (Hpost m Hm); auto.
Qed.

Lemma tip_push p s n : tip (push_main p s n) = n.
Proof. reflexivity. Qed.

Lemma BInv_cbc p s n pn :
  NoDup (map n_id (index s)) -> BInv s -> has_id (n_id n) (index s) = false ->
  lookup (n_parent n) (index s) = Some pn -> rel n pn -> 0 < b_work (n_blk n) ->
  BInv (fst (connect_best_chain p n s)).
Proof.
  intros ND [W PW B] Hf L R Hw.
  pose proof (wf_cbc p s n pn ND W Hf L R) as W'.
  assert (PW1 : pos_work (add_index n s)).
  { intros m Hm. simpl in Hm. apply in_app_iff in Hm. destruct Hm as [Hm|[<-|[]]]; auto. }
  unfold connect_best_chain in *.
  destruct (N.eqb (n_parent n) (n_id (tip s))) eqn:Et.
  - apply N.eqb_eq in Et. destruct (b_valid (n_blk n)) eqn:V; simpl in *.
    2:{ split; auto. }
    split; auto. intros NF.
    assert (pn = tip s) by (eapply tip_is_parent; eauto). subst pn.
    apply best_new_tip with (s := s) (n := n); try reflexivity.
    + apply B. exact NF.
    + destruct R as (_ & _ & Rw). lia.
  - destruct (n_worksum n <=? n_worksum (tip (add_index n s))) eqn:Ew; simpl in *.
    + split; auto. intros NF. apply Z.leb_le in Ew.
      apply best_side with (s := s) (n := n); try reflexivity; auto.
    + apply Z.leb_gt in Ew.
      destruct (get_reorganize_nodes (add_index n s) n) as [det att] eqn:G.
      destruct (is_irreversible _ _ _ _ _); simpl in *.
      * split; auto. intros NF.
        apply best_side with (s := s) (n := n); try reflexivity.
        -- apply B. unfold no_failed_switch in *. simpl in NF. exact NF.
        -- right. simpl. auto.
        -- intros x Hx. simpl. auto.
      * destruct (reorg_nodes_spec' (add_index n s) n) with (det := det) (att := att)
          as (anc & rest & Em & Hon & Hin & Hlast); auto.
        { simpl. apply nodup_add_index; auto. }
        { apply wf_add_index with (pn := pn); auto. }
        { simpl. apply in_app_iff; simpl; auto. }
        destruct (reorganize p det att (add_index n s)) as [s2 ok] eqn:Rg. simpl in *.
        pose proof (reorganize_frame _ _ _ _ _ _ Rg) as (F1 & _ & F3 & e & F4 & F5).
        split; auto.
        { intros m Hm. rewrite F1 in Hm. auto. }
        intros NF. rewrite (no_failed_cons e s2 _ F4) in NF. apply andb_true_iff in NF.
        destruct NF as [NF1 NF2]. rewrite F5, negb_involutive in NF1. subst ok.
        assert (Wa : wf (add_index n s)) by (apply wf_add_index with (pn := pn); auto).
        destruct (reorganize_spec _ _ _ _ _ _ _ _ (wf_chain _ Wa) Em Hon Rg) as (_ & _ & C3 & _).
        specialize (C3 eq_refl).
        destruct Hlast as [att' ->]. { apply main_fresh; auto. }
        apply best_new_tip with (s := s) (n := n).
        -- apply B. exact NF2.
        -- exact Ew.
        -- rewrite F1. reflexivity.
        -- unfold tip. rewrite C3, rev_app_distr. reflexivity.
        -- rewrite F3. reflexivity.
Qed.

Lemma BInv_init : BInv init.
Proof.
  split.
  - apply wf_init.
  - intros n [<-|[]]. auto.
  - intros _. exists [], []. simpl. split; auto. split; intros ? [].
Qed.

Lemma BInv_core s s' : same_core s s' -> BInv s -> BInv s'.
Proof.
  intros C [W PW B]. pose proof C as (A1 & A2 & A3 & A4 & A5). split.
  - eapply wf_core; eauto.
  - unfold pos_work. rewrite A1. auto.
  - unfold no_failed_switch, best_inv, okw, tip in *. rewrite A1, A2, A4, A5. auto.
Qed.

Lemma BInv_accept p s b :
  SInv s -> BInv s -> 0 < b_work b -> has_id (b_id b) (index s) = false ->
  has_id (b_parent b) (index s) = true -> BInv (fst (maybe_accept p b s)).
Proof.
  intros HS HB Hw Hf _. unfold maybe_accept.
  destruct (lookup (b_parent b) (index s)) as [pn|] eqn:L; simpl; auto.
  destruct (b_height b =? n_height pn + 1) eqn:Eh; simpl; auto.
  eapply BInv_cbc; eauto.
  - apply (s_in _ HS).
  - pose proof (lookup_some _ _ _ L) as [_ Lid]. unfold rel, n_parent; simpl; auto.
Qed.

Lemma sane_pos b : sane_ok b = true -> 0 < b_work b.
Proof. unfold sane_ok. intros H. apply andb_true_iff in H. destruct H as [_ H]. apply Z.ltb_lt in H. exact H. Qed.

Theorem run_BInv p bs : BInv (run p init bs) /\ SInv (run p init bs).
Proof.
  destruct (run_pres p BInv BInv_core (fun b => 0 < b_work b)
              (fun s b HS HB Hw Hf Hp => BInv_accept p s b HS HB Hw Hf Hp) bs) with (s := init)
    as (A & B & _); auto.
  - apply Forall_forall. intros b _. apply sane_pos.
  - apply SInv_init.
  - apply BInv_init.
  - intros o [].
Qed.

(* ------------------------------------------------------------------ *)
(* statements used by props/C12.v *)

(* the active chain is a parent-linked path of valid blocks from the tip to genesis *)
Definition active_chain_valid (s : state) : Prop :=
  chain (main s) /\ forall n, In n (main s) -> b_valid (n_blk n) = true.

Lemma active_chain_valid_run p bs : active_chain_valid (run p init bs).
Proof.
  destruct (run_BInv p bs) as [[W _ _] _]. split.
  - apply (wf_chain _ W).
  - apply chain_valid. apply (wf_chain _ W).
Qed.

Lemma best_unless_failed_switch p bs :
  no_failed_switch (run p init bs) = true -> best_inv (run p init bs).
Proof. destruct (run_BInv p bs) as [[_ _ B] _]. exact B. Qed.

(* the guard is the only reason for a refusal *)
Definition refusals_justified (p : params) (s : state) : Prop :=
  forall id cur d l, In (EvRefused id cur d l) (evlog s) -> exists dpos, is_irreversible p dpos l cur d = true.

(* ------------------------------------------------------------------ *)
(* all delivered blocks valid => no reorganisation fails *)

Definition AV (s : state) : Prop :=
  (forall n, In n (index s) -> b_valid (n_blk n) = true) /\ no_failed_switch s = true.

Lemma walk_in idx mn : forall fuel n acc, In n idx -> (forall a, In a acc -> In a idx) ->
  forall a, In a (fst (walk fuel idx mn n acc)) -> In a idx.
Proof.
  induction fuel as [|f IH]; simpl; intros n acc Hn Hacc a; auto.
  destruct (has_id (n_id n) mn); simpl; auto.
  destruct (lookup (n_parent n) idx) as [pn|] eqn:L; simpl; auto.
  apply IH.
  - apply lookup_some in L. tauto.
  - intros x [<-|Hx]; auto.
Qed.

Lemma attach_all_valid p att : forall s,
  (forall a, In a att -> b_valid (n_blk a) = true) -> snd (attach_all p att s) = true.
Proof.
  induction att as [|a att IH]; simpl; intros s H; auto.
  rewrite H by auto. apply IH. auto.
Qed.

Lemma reorganize_valid p det att s :
  (forall a, In a att -> b_valid (n_blk a) = true) -> snd (reorganize p det att s) = true.
Proof.
  intros H. unfold reorganize.
  pose proof (attach_all_valid p att (detach_n (length det) s) H) as A.
  destruct (attach_all p att (detach_n (length det) s)) as [s1 ok]. simpl in *. exact A.
Qed.

Lemma AV_cbc p s n : AV s -> b_valid (n_blk n) = true ->
  AV (fst (connect_best_chain p n s)) /\ snd (connect_best_chain p n s) <> None.
Proof.
  intros [Hv Hnf] Vn. unfold connect_best_chain.
  assert (Hv1 : forall m, In m (index s ++ [n]) -> b_valid (n_blk m) = true).
  { intros m Hm. apply in_app_iff in Hm. destruct Hm as [Hm|[<-|[]]]; auto. }
  destruct (N.eqb (n_parent n) (n_id (tip s))).
  - rewrite Vn. simpl. split; [split; auto|discriminate].
  - destruct (n_worksum n <=? n_worksum (tip (add_index n s))); simpl.
    + split; [split; auto|discriminate].
    + unfold get_reorganize_nodes.
      destruct (walk (S (Z.to_nat (n_height n))) (index (add_index n s)) (main (add_index n s)) n [])
        as [att anc] eqn:Wk.
      assert (Hatt : forall a, In a att -> b_valid (n_blk a) = true).
      { intros a Ha. apply Hv1. change (index s ++ [n]) with (index (add_index n s)).
        apply (walk_in (index (add_index n s)) (main (add_index n s)) (S (Z.to_nat (n_height n))) n []).
        - apply in_app_iff; simpl; auto.
        - intros ? [].
        - rewrite Wk. exact Ha. }
      destruct (is_irreversible _ _ _ _ _); simpl.
      * split; [split; auto|discriminate].
      * match goal with |- context [reorganize ?a ?b ?c ?d] =>
          pose proof (reorganize_valid a b c d Hatt) as Rv;
          destruct (reorganize a b c d) as [s2 ok] eqn:Rg end.
        simpl in Rv. subst ok. simpl.
        pose proof (reorganize_frame _ _ _ _ _ _ Rg) as (F1 & _ & _ & e & F4 & F5).
        split; [split|discriminate].
        -- rewrite F1. exact Hv1.
        -- rewrite (no_failed_cons e s2 _ F4). rewrite F5. simpl. exact Hnf.
Qed.

Lemma AV_accept p s b : AV s -> b_valid b = true -> AV (fst (maybe_accept p b s)).
Proof.
  intros HA Vb. unfold maybe_accept.
  destruct (lookup (b_parent b) (index s)) as [pn|]; simpl; auto.
  destruct (negb (b_height b =? n_height pn + 1)); simpl; auto.
  apply AV_cbc; auto.
Qed.

Lemma AV_core s s' : same_core s s' -> AV s -> AV s'.
Proof.
  intros (A1 & _ & _ & _ & A5) [H1 H2]. unfold AV, no_failed_switch in *. rewrite A1, A5. auto.
Qed.

Lemma all_valid_no_failed_switch p bs :
  Forall (fun b => b_valid b = true) bs -> no_failed_switch (run p init bs) = true.
Proof.
  intros Hbs.
  destruct (run_pres p AV AV_core (fun b => b_valid b = true)
              (fun s b _ HA Vb _ _ => AV_accept p s b HA Vb) bs) with (s := init)
    as (_ & [_ B] & _); auto.
  - eapply Forall_impl; [|exact Hbs]. auto.
  - apply SInv_init.
  - split; [|reflexivity]. intros n [<-|[]]. reflexivity.
  - intros o [].
Qed.

