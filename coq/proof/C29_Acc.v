(* C29 proofs, part 4: the used-amount field never falls below the budgets
   committed (no double release), and the reserve covers what owners can still
   withdraw. *)
From Coq Require Import ZArith Bool List Lia Permutation Sorted.
From ELA Require Import model.C29_Budget proof.C29_Budget proof.C29_Inv proof.C29_Thm.
Import ListNotations.
Local Open Scope Z_scope.

Definition canceled (s : Z) : bool := (s =? CRCanceled) || (s =? VoterCanceled) || (s =? Aborted).
Definition closed (s : Z) : bool := (s =? Terminated) || (s =? Finished).

(* what a proposal still binds of the committee's funds: nothing once cancelled,
   the stages that became withdrawable once terminated / finished, everything
   otherwise (stages already paid included) *)
Definition commit_p (p : prop) : Z :=
  if canceled (p_status p) then 0
  else if closed (p_status p) then msum (p_wable p) else total (p_budgets p).
Definition csum (m : list (Z * prop)) : Z := fold_right (fun kp a => commit_p (snd kp) + a) 0 m.
Definition committed (S : st) : Z := csum (props S).

(* what must stay reserved: unpaid withdrawable stages of closed proposals,
   every unpaid stage of live ones *)
Definition unpaid (p : prop) : Z :=
  fold_right (fun b a => if mmem (b_stage b) (p_wn p) then a else b_amt b + a) 0 (p_budgets p).
Definition reserve_p (p : prop) : Z :=
  if canceled (p_status p) then 0
  else if closed (p_status p) then avail p else unpaid p.
Definition reserve (S : st) : Z := fold_right (fun kp a => reserve_p (snd kp) + a) 0 (props S).

Lemma mget_lt_none : forall A k (m : list (Z * A)), Forall (fun x => k < x) (keys m) -> mget k m = None.
Proof.
  induction m as [|[a b] r IH]; simpl; intros H; auto. inversion H; subst.
  destruct (k =? a) eqn:E; [apply Z.eqb_eq in E; lia|auto].
Qed.

Lemma csum_mset : forall k v m, ssorted (keys m) ->
  csum (mset k v m) = csum m - (match mget k m with Some o => commit_p o | None => 0 end) + commit_p v.
Proof.
  induction m as [|[a b] r IH]; simpl; intros Hs; [lia|].
  inversion Hs as [|? ? Hs' Hf]; subst.
  destruct (k <? a) eqn:E1; simpl.
  - apply Z.ltb_lt in E1. destruct (k =? a) eqn:E2; [apply Z.eqb_eq in E2; lia|].
    rewrite mget_lt_none; [lia|]. eapply Forall_impl; [|exact Hf]. simpl; intros; lia.
  - destruct (k =? a) eqn:E2; simpl; [lia|]. rewrite IH; auto. lia.
Qed.

Lemma msum_mset : forall k v (m : list (Z * Z)), ssorted (keys m) ->
  msum (mset k v m) = msum m - (match mget k m with Some o => o | None => 0 end) + v.
Proof.
  induction m as [|[a b] r IH]; simpl; intros Hs; [lia|].
  inversion Hs as [|? ? Hs' Hf]; subst.
  destruct (k <? a) eqn:E1; simpl.
  - apply Z.ltb_lt in E1. destruct (k =? a) eqn:E2; [apply Z.eqb_eq in E2; lia|].
    rewrite mget_lt_none; [lia|]. eapply Forall_impl; [|exact Hf]. simpl; intros; lia.
  - destruct (k =? a) eqn:E2; simpl; [lia|]. rewrite IH; auto. lia.
Qed.

(* ---- budgets split into withdrawable and unused *)
Definition in_wable (p : prop) (b : budget) : bool := mmem (b_stage b) (p_wable p).
Definition wsum (p : prop) : Z := msum (map (fun b => (b_stage b, b_amt b)) (filter (in_wable p) (p_budgets p))).

Lemma total_split : forall p, total (p_budgets p) = wsum p + unused_of p false.
Proof.
  intros p. unfold wsum, unused_of, total, in_wable. induction (p_budgets p) as [|b r IH]; simpl in *; [lia|].
  destruct (mmem (b_stage b) (p_wable p)); simpl in *; lia.
Qed.

Definition good_wb (p : prop) : Prop :=
  NoDup (map b_stage (p_budgets p)) /\ nonneg (p_budgets p) /\
  ssorted (keys (p_wable p)) /\ incl (p_wable p) (bp p).

Lemma good_wb_of : forall p, good_prop p -> good_wb p.
Proof. intros p [a b c d e f]. repeat split; auto. Qed.

Lemma wable_le_wsum : forall p, good_wb p -> msum (p_wable p) <= wsum p.
Proof.
  intros p (Gn & Gnn & Gs & Gb). unfold wsum. apply sum_incl.
  - apply NoDup_keys_NoDup, sorted_NoDup, Gs.
  - intros [s a] Hin. pose proof (Gb _ Hin) as Hb. unfold bp in Hb.
    apply in_map_iff in Hb as [b [Hb1 Hb2]]. apply in_map_iff. exists b. split; auto.
    apply filter_In. split; auto. unfold in_wable. injection Hb1 as <- _.
    apply mmem_true. unfold keys. apply in_map_iff. now exists (b_stage b, a).
  - intros x Hx. apply in_map_iff in Hx as [b [<- Hb]]. simpl. apply filter_In in Hb as [Hb _].
    unfold nonneg in Gnn. rewrite Forall_forall in Gnn. auto.
Qed.

Lemma K1 : forall p, good_wb p -> msum (p_wable p) + unused_of p false <= total (p_budgets p).
Proof. intros p G. rewrite total_split. pose proof (wable_le_wsum p G). lia. Qed.

Lemma unused_true_le : forall p, nonneg (p_budgets p) -> unused_of p true <= unused_of p false.
Proof.
  intros p. unfold unused_of. induction 1 as [|b r Hb _ IH]; simpl in *; [lia|].
  destruct (b_type b =? FinalPayment); simpl in *; destruct (mmem _ _); lia.
Qed.

(* the first final-payment budget, when not yet withdrawable, is part of the
   full unused amount but not of the amount released by a finalisation *)
Lemma unused_final_gap : forall p b, nonneg (p_budgets p) ->
  first_budget (fun b => b_type b =? FinalPayment) (p_budgets p) = Some b ->
  mmem (b_stage b) (p_wable p) = false ->
  unused_of p true + b_amt b <= unused_of p false.
Proof.
  intros p b. unfold unused_of. induction 1 as [|x r Hx Hr IH]; simpl; intros Hf Hm; [discriminate|].
  destruct (b_type x =? FinalPayment) eqn:E; simpl.
  - injection Hf as ->. rewrite Hm.
    assert (fold_right (fun b a => if true && (b_type b =? FinalPayment) then a
              else if mmem (b_stage b) (p_wable p) then a else b_amt b + a) 0 r <=
            fold_right (fun b a => if false && (b_type b =? FinalPayment) then a
              else if mmem (b_stage b) (p_wable p) then a else b_amt b + a) 0 r); [|simpl in *; lia].
    clear -Hr. induction Hr as [|y r Hy _ IH]; simpl in *; [lia|].
    destruct (b_type y =? FinalPayment); simpl in *; destruct (mmem _ _); lia.
  - specialize (IH Hf Hm). destruct (mmem (b_stage x) (p_wable p)); simpl in *; lia.
Qed.

(* ---- effect of the tracking closure on what the proposal binds *)
Lemma status_track_do : forall ty stage h p,
  p_status (track_do ty stage h p) =
  if ty =? TProgress then p_status p else if ty =? TRejected then p_status p
  else if ty =? TTerminated then Terminated else if ty =? TFinalized then Finished else p_status p.
Proof.
  intros. unfold track_do. destruct (ty =? TProgress).
  { repeat match goal with
           | |- context [if ?c then _ else _] => destruct c
           | |- context [match ?c with Some _ => _ | None => _ end] => destruct c
           end; reflexivity. }
  destruct (ty =? TRejected).
  { repeat match goal with |- context [if ?c then _ else _] => destruct c end; reflexivity. }
  destruct (ty =? TTerminated); [reflexivity|].
  destruct (ty =? TFinalized); [|reflexivity].
  destruct (first_budget _ _); reflexivity.
Qed.

Lemma wable_track_terminated : forall stage h p, p_wable (track_do TTerminated stage h p) = p_wable p.
Proof. reflexivity. Qed.

Lemma wable_track_finalized : forall stage h p,
  p_wable (track_do TFinalized stage h p) =
  match first_budget (fun b => b_type b =? FinalPayment) (p_budgets p) with
  | Some b => mset (b_stage b) (b_amt b) (p_wable p)
  | None => p_wable p
  end.
Proof. intros. unfold track_do. simpl. destruct (first_budget _ _); reflexivity. Qed.

Lemma track_commit : forall ty stage h p,
  good_wb p -> p_status p = VoterAgreed ->
  commit_p (track_do ty stage h p) + track_unused ty p <= commit_p p.
Proof.
  intros ty stage h p G Hst. pose proof G as (Gn & Gnn & Gs & Gb).
  assert (Hc : commit_p p = total (p_budgets p)) by (unfold commit_p; rewrite Hst; reflexivity).
  rewrite Hc. unfold commit_p, track_unused. rewrite status_track_do, budgets_track_do.
  destruct (ty =? TProgress) eqn:E1.
  { apply Z.eqb_eq in E1; subst. rewrite Hst. simpl. lia. }
  destruct (ty =? TRejected) eqn:E2.
  { apply Z.eqb_eq in E2; subst. rewrite Hst. simpl. lia. }
  destruct (ty =? TTerminated) eqn:E3.
  { apply Z.eqb_eq in E3; subst. simpl. apply K1; auto. }
  destruct (ty =? TFinalized) eqn:E4; [|rewrite Hst; simpl; lia].
  apply Z.eqb_eq in E4; subst. rewrite wable_track_finalized.
  change (canceled Finished) with false. change (closed Finished) with true. cbv iota.
  change (TFinalized =? TTerminated) with false. change (TFinalized =? TFinalized) with true. cbv iota.
  pose proof (K1 p G) as HK. pose proof (unused_true_le p Gnn) as Hle.
  destruct (first_budget (fun b => b_type b =? FinalPayment) (p_budgets p)) as [b|] eqn:Eb; [|lia].
  rewrite msum_mset by exact Gs.
  destruct (mget (b_stage b) (p_wable p)) as [o|] eqn:Eo.
  - assert (o = b_amt b); [|lia].
    apply first_budget_In in Eb as [Hin _].
    eapply keys_fun with (m := bp p).
    + rewrite keys_bp. exact Gn.
    + apply Gb. apply mget_In. exact Eo.
    + unfold bp. apply in_map_iff. now exists b.
  - pose proof (unused_final_gap p b Gnn Eb) as Hg.
    assert (mmem (b_stage b) (p_wable p) = false) by (unfold mmem; now rewrite Eo).
    specialize (Hg H). lia.
Qed.

(* ---- the fold over a block, relative to the state S0 before it *)
Definition tp (t : tx) : list Z := match t with TTrack p _ _ => [p] | _ => [] end.
Definition rp (t : tx) : list Z := match t with TReg p _ => [p] | _ => [] end.

Definition AccMid (S0 : st) (tl rl : list Z) (S : st) : Prop :=
  ssorted (keys (props S)) /\
  (forall pid p0, mget pid (props S0) = Some p0 -> ~ In pid tl ->
     exists p, mget pid (props S) = Some p /\ p_status p = p_status p0 /\
               p_wable p = p_wable p0 /\ p_budgets p = p_budgets p0) /\
  (forall pid, mget pid (props S0) = None -> ~ In pid rl -> mget pid (props S) = None).

Definition tx_pre2 (S0 : st) (t : tx) : Prop :=
  match t with
  | TReg pid _ => mget pid (props S0) = None
  | TTrack pid _ _ => forall p0, mget pid (props S0) = Some p0 -> p_status p0 = VoterAgreed
  | _ => True
  end.

Definition gap (S : st) : Z := used S - committed S.

Lemma committed_upd : forall S pid f p, ssorted (keys (props S)) -> mget pid (props S) = Some p ->
  committed (upd_prop S pid f) = committed S - commit_p p + commit_p (f p).
Proof.
  intros S pid f p Hs Hp. unfold committed, upd_prop. rewrite Hp. simpl. rewrite csum_mset, Hp; auto.
Qed.

Lemma sorted_upd : forall S pid f, ssorted (keys (props S)) -> ssorted (keys (props (upd_prop S pid f))).
Proof.
  intros. unfold upd_prop. destruct (mget pid (props S)); auto. simpl. now apply mset_sorted.
Qed.

(* a closure that keeps status, withdrawable map and budgets of its proposal *)
Lemma AccMid_keep : forall S0 tl rl S pid f,
  (forall p, p_status (f p) = p_status p /\ p_wable (f p) = p_wable p /\ p_budgets (f p) = p_budgets p) ->
  AccMid S0 tl rl S ->
  AccMid S0 tl rl (upd_prop S pid f) /\ committed (upd_prop S pid f) = committed S /\
  used (upd_prop S pid f) = used S.
Proof.
  intros S0 tl rl S pid f Hf (A1 & A2 & A3). split; [|split].
  - split; [now apply sorted_upd|]. split.
    + intros q p0 H0 Hn. destruct (A2 _ _ H0 Hn) as (p & Hp & a & b & c).
      rewrite mget_upd_prop. destruct (q =? pid) eqn:E.
      * apply Z.eqb_eq in E; subst. rewrite Hp. simpl. destruct (Hf p) as (x & y & z).
        exists (f p). repeat split; congruence.
      * exists p. auto.
    + intros q H0 Hn. rewrite mget_upd_prop. destruct (q =? pid) eqn:E; [|auto].
      apply Z.eqb_eq in E; subst. now rewrite (A3 _ H0 Hn).
  - destruct (mget pid (props S)) as [p|] eqn:Ep.
    + rewrite (committed_upd S pid f p A1 Ep). unfold commit_p.
      destruct (Hf p) as (-> & -> & ->). lia.
    + unfold upd_prop. now rewrite Ep.
  - apply used_upd_prop.
Qed.

Lemma AccMid_step : forall S0 h tl rl S t,
  Inv S0 -> AccMid S0 tl rl S -> tx_pre2 S0 t -> NoDup (tl ++ tp t) -> NoDup (rl ++ rp t) ->
  AccMid S0 (tl ++ tp t) (rl ++ rp t) (apply_tx S0 h S t) /\ gap S <= gap (apply_tx S0 h S t).
Proof.
  intros S0 h tl rl S t I0 A Hpre Ht Hr. unfold gap.
  destruct t as [pid bs|pid m v|pid amt|pid ty stage|pid amt]; simpl tp in *; simpl rp in *;
    rewrite ?app_nil_r in *; simpl apply_tx.
  - (* TReg *)
    simpl in Hpre. destruct A as (A1 & A2 & A3).
    assert (Hnot : ~ In pid rl) by (now apply nodup_app_notin).
    pose proof (A3 _ Hpre Hnot) as Hnone.
    split.
    + split; [simpl; now apply mset_sorted|]. split.
      * intros q p0 H0 Hn. destruct (A2 _ _ H0 Hn) as (p & Hp & rest). exists p. split; auto.
        simpl. rewrite mget_mset. destruct (q =? pid) eqn:E; auto. apply Z.eqb_eq in E; subst. congruence.
      * intros q H0 Hn. simpl. rewrite mget_mset. destruct (q =? pid) eqn:E.
        -- apply Z.eqb_eq in E; subst. exfalso. apply Hn. apply in_or_app. right. now left.
        -- apply A3; auto. intro. apply Hn. apply in_or_app. now left.
    + unfold committed. simpl. rewrite csum_mset, Hnone; auto.
      assert (commit_p (new_prop bs h) = total bs) by reflexivity. lia.
  - (* TReview *)
    destruct (mmem pid (props S0)); [|split; [exact A|lia]].
    destruct (AccMid_keep S0 tl rl S pid (fun p => with_votes p (mset m v (p_votes p))) ltac:(intros; repeat split) A)
      as (A' & Hc & Hu). split; auto. rewrite Hc, Hu. lia.
  - (* TVoteReject *)
    destruct (mget pid (props S0)); [|split; [exact A|lia]].
    destruct (_ =? CRAgreed); [|split; [exact A|lia]].
    destruct (AccMid_keep S0 tl rl S pid (fun p => with_reject p (p_reject p + amt)) ltac:(intros; repeat split) A)
      as (A' & Hc & Hu). split; auto. rewrite Hc, Hu. lia.
  - (* TTrack *)
    destruct (mget pid (props S0)) as [p0|] eqn:E0.
    2:{ split; [|lia]. destruct A as (A1 & A2 & A3). split; auto. split; auto.
        intros q q0 H0 Hn. apply A2; auto. intro. apply Hn. apply in_or_app. now left. }
    assert (Hnot : ~ In pid tl) by (now apply nodup_app_notin).
    destruct A as (A1 & A2 & A3).
    destruct (A2 _ _ E0 Hnot) as (p & Hp & Hs & Hw & Hb).
    pose proof (Hpre _ E0) as Hva. simpl in Hpre.
    assert (Hfalse : (ty =? TTerminated) && ((p_status p0 =? Terminated) || (p_status p0 =? Finished)) = false).
    { rewrite Hva. simpl. apply andb_false_r. }
    rewrite Hfalse.
    destruct I0 as [I1 _]. destruct (I1 _ _ E0) as [G0 _].
    assert (G : good_wb p).
    { destruct G0 as [g1 g2 g3 g4 g5 g6]. unfold good_wb, nonneg, bp in *. rewrite Hb, Hw. repeat split; auto. }
    split.
    + split; [simpl; now apply sorted_upd|]. split.
      * intros q q0 H0 Hn. assert (q <> pid) by (intros ->; apply Hn; apply in_or_app; right; now left).
        assert (~ In q tl) by (intro; apply Hn; apply in_or_app; now left).
        destruct (A2 _ _ H0 H1) as (pq & Hq & rest). exists pq. split; auto.
        simpl. rewrite mget_upd_prop. apply Z.eqb_neq in H. now rewrite H.
      * intros q H0 Hn. simpl. rewrite mget_upd_prop. destruct (q =? pid) eqn:E; [|auto].
        apply Z.eqb_eq in E; subst. congruence.
    + set (X := upd_prop S pid (track_do ty stage h)).
      assert (Hcm : committed (add_used X (- track_unused ty p0)) = committed X) by reflexivity.
      assert (Hus : used (add_used X (- track_unused ty p0)) = used X - track_unused ty p0) by (simpl; lia).
      rewrite Hcm, Hus. unfold X. rewrite (committed_upd S pid _ p A1 Hp).
      destruct (used_upd_prop S pid (track_do ty stage h)) as [-> _].
      pose proof (track_commit ty stage h p G (eq_trans Hs Hva)) as HT.
      assert (track_unused ty p = track_unused ty p0).
      { unfold track_unused, unused_of. rewrite Hw, Hb. reflexivity. }
      lia.
  - (* TWithdraw *)
    destruct (mget pid (props S0)); [|split; [exact A|lia]].
    assert (Hf : forall p, p_status (withdraw_do (outstanding p) p) = p_status p) by reflexivity.
    destruct (AccMid_keep S0 tl rl S pid (withdraw_do (outstanding p)) ltac:(intros; repeat split) A)
      as (A' & Hc & Hu).
    split.
    + destruct A' as (a & b & c). split; auto.
    + unfold committed in *. simpl. rewrite Hc, Hu. lia.
Qed.

Lemma AccMid_init : forall S0, ssorted (keys (props S0)) -> AccMid S0 [] [] S0.
Proof.
  intros S0 Hs. split; auto. split.
  - intros pid p0 H _. exists p0. auto.
  - auto.
Qed.

Lemma AccMid_fold : forall S0 h, Inv S0 -> ssorted (keys (props S0)) -> forall l,
  Forall (tx_pre2 S0) l -> NoDup (track_pids l) -> NoDup (reg_pids l) ->
  AccMid S0 (track_pids l) (reg_pids l) (fold_left (apply_tx S0 h) l S0) /\
  gap S0 <= gap (fold_left (apply_tx S0 h) l S0).
Proof.
  intros S0 h I0 Hs l. induction l as [|t l IH] using rev_ind; intros Hf Ht Hr.
  - simpl. split; [now apply AccMid_init|lia].
  - rewrite fold_left_app. simpl. unfold track_pids, reg_pids in *. rewrite !flat_map_app in *. simpl in *.
    rewrite !app_nil_r in *.
    apply Forall_app in Hf as [Hf1 Hf2]. inversion Hf2; subst.
    destruct (IH Hf1 (nodup_app_l _ _ _ Ht) (nodup_app_l _ _ _ Hr)) as [A Hg].
    destruct (AccMid_step S0 h _ _ _ t I0 A H1) as [A' Hg']; auto.
    split; [exact A'|lia].
Qed.

Lemma commit_update_prop : forall C h thr p,
  commit_p (fst (update_prop C h thr p)) = commit_p p - snd (update_prop C h thr p).
Proof.
  intros. unfold update_prop.
  destruct (p_status p =? Registered) eqn:E1.
  { apply Z.eqb_eq in E1. destruct (_ <=? h); [|simpl; lia].
    destruct (_ <=? _); unfold commit_p; simpl; rewrite E1; simpl; lia. }
  destruct (p_status p =? CRAgreed) eqn:E2; [|simpl; lia].
  apply Z.eqb_eq in E2. destruct (_ <=? h); [|simpl; lia].
  destruct (thr <=? _); unfold commit_p; simpl.
  - rewrite E2. simpl. lia.
  - destruct (first_budget _ _); simpl; rewrite E2; simpl; lia.
Qed.

Lemma update_all_gap : forall C h thr S,
  gap (update_all C h thr S) = gap S /\ keys (props (update_all C h thr S)) = keys (props S).
Proof.
  intros. unfold gap, committed, update_all; simpl. rewrite map_map. simpl. split.
  - induction (props S) as [|kp r IH]; simpl; [lia|].
    rewrite commit_update_prop. lia.
  - unfold keys. rewrite !map_map. simpl. reflexivity.
Qed.

Lemma check_all_pre2 : forall C S0 b pu, check_all C S0 pu b = true -> Forall (tx_pre2 S0) b.
Proof.
  induction b as [|t r IH]; simpl; intros pu H; [constructor|].
  apply andb_true_iff in H as [H1 H2]. constructor; [|eapply IH; eauto].
  destruct t; simpl; auto; simpl in H1.
  - apply andb_true_iff in H1 as [Ha _]. unfold mmem in Ha. destruct (mget pid (props S0)); [discriminate|reflexivity].
  - intros p0 Hp. rewrite Hp in H1. destruct (p_status p0 =? VoterAgreed) eqn:E; [now apply Z.eqb_eq in E|discriminate].
Qed.

(* ---- the reserve *)
Lemma msum_filter_le : forall (f : Z * Z -> bool) m, (forall x, In x m -> 0 <= snd x) -> msum (filter f m) <= msum m.
Proof.
  induction m as [|x r IH]; simpl; intros H; [lia|].
  assert (0 <= snd x) by (apply H; now left).
  assert (msum (filter f r) <= msum r) by (apply IH; intros; apply H; now right).
  destruct (f x); simpl; lia.
Qed.

Lemma unpaid_le_total : forall p, nonneg (p_budgets p) -> unpaid p <= total (p_budgets p).
Proof.
  intros p. unfold unpaid, total. induction 1 as [|b r Hb _ IH]; simpl in *; [lia|].
  destruct (mmem _ _); lia.
Qed.

Lemma reserve_p_le : forall p, good_prop p -> reserve_p p <= commit_p p.
Proof.
  intros p G. unfold reserve_p, commit_p. destruct (canceled _); [lia|].
  destruct (closed _).
  - unfold avail, outstanding. apply msum_filter_le. intros x Hx.
    apply (gp_wb p G) in Hx. unfold bp in Hx. apply in_map_iff in Hx as [b [<- Hb]]. simpl.
    pose proof (gp_nn p G) as Hn. rewrite Forall_forall in Hn. auto.
  - apply unpaid_le_total, G.
Qed.

Lemma sorted_In_mget : forall A k (v : A) m, ssorted (keys m) -> In (k, v) m -> mget k m = Some v.
Proof.
  induction m as [|[a b] r IH]; simpl; intros Hs Hin; [contradiction|].
  inversion Hs as [|? ? Hs' Hf]; subst. destruct Hin as [Hin|Hin].
  - injection Hin as -> ->. now rewrite Z.eqb_refl.
  - destruct (k =? a) eqn:E; [|auto]. apply Z.eqb_eq in E; subst.
    rewrite Forall_forall in Hf. assert (a < a); [|lia]. apply Hf. unfold keys. apply in_map_iff. now exists (a, v).
Qed.

Lemma reserve_le_committed : forall S, Inv S -> ssorted (keys (props S)) -> reserve S <= committed S.
Proof.
  intros S [I1 _] Hs. unfold reserve, committed, csum.
  assert (H : forall kp, In kp (props S) -> good_prop (snd kp)).
  { intros [k p] Hin. simpl. apply (I1 k p). now apply sorted_In_mget. }
  clear I1 Hs. induction (props S) as [|kp r IH]; simpl; [lia|].
  pose proof (reserve_p_le (snd kp) (H kp (or_introl eq_refl))).
  assert (fold_right (fun kp a => reserve_p (snd kp) + a) 0 r <= fold_right (fun kp a => commit_p (snd kp) + a) 0 r).
  { apply IH. intros; apply H; now right. }
  lia.
Qed.

Section Acc.
Variable C : cfg.
Variable sortf : list tx -> list tx.
Hypothesis Hperm : forall l, Permutation l (sortf l).

Definition Inv3 (U : Z) (S : st) : Prop := Inv S /\ ssorted (keys (props S)) /\ U <= gap S.

Lemma Inv3_step : forall U S blk, Inv3 U S -> Inv3 U (step C sortf S blk).
Proof.
  intros U S [thr b] (I & Hs & Hg). unfold step; simpl. destruct (block_ok C S b) eqn:Eok; [|split; [exact I|split; [exact Hs|exact Hg]]].
  split; [now apply Inv_apply_block|].
  unfold block_ok in Eok. apply andb_true_iff in Eok as [Hd Hc].
  unfold dup_ok in Hd. apply andb_true_iff in Hd as [Hd _]. apply andb_true_iff in Hd as [Hr Ht].
  apply nodupb_NoDup in Hr. apply nodupb_NoDup in Ht.
  pose proof (check_all_pre2 _ _ _ _ Hc) as Hpre.
  assert (Hpre' : Forall (tx_pre2 S) (sortf b)) by (eapply Permutation_Forall; [apply Hperm|exact Hpre]).
  assert (Ht' : NoDup (track_pids (sortf b))).
  { eapply Permutation_NoDup; [|exact Ht]. unfold track_pids. apply Permutation_flat_map. apply Hperm. }
  assert (Hr' : NoDup (reg_pids (sortf b))).
  { eapply Permutation_NoDup; [|exact Hr]. unfold reg_pids. apply Permutation_flat_map. apply Hperm. }
  unfold apply_block. set (h := height S + 1).
  destruct (AccMid_fold S h I Hs (sortf b) Hpre' Ht' Hr') as [(A1 & _) Hg'].
  destruct (update_all_gap C h thr (fold_left (apply_tx S h) (sortf b) S)) as [G1 G2].
  split.
  - simpl. change (ssorted (keys (props (update_all C h thr (fold_left (apply_tx S h) (sortf b) S))))).
    rewrite G2. exact A1.
  - change (U <= gap (update_all C h thr (fold_left (apply_tx S h) (sortf b) S))). lia.
Qed.

Lemma Inv3_run : forall U bs S, Inv3 U S -> Inv3 U (run C sortf S bs).
Proof. induction bs as [|b r IH]; simpl; intros; auto. apply IH. now apply Inv3_step. Qed.

(* no double release: the used amount always covers the initial amount plus
   everything the proposals still bind *)
Lemma used_covers_commitments : forall a b c d bs,
  b + committed (run C sortf (init a b c d) bs) <= used (run C sortf (init a b c d) bs).
Proof.
  intros. assert (H : Inv3 b (init a b c d)).
  { split; [apply Inv_init|]. split; [constructor|]. unfold gap, committed; simpl. lia. }
  destruct (Inv3_run b bs _ H) as (_ & _ & Hg). unfold gap in Hg. lia.
Qed.

(* the reserve covers what owners can still withdraw (closed proposals) and
   every unpaid stage of live ones *)
Lemma reserve_covered : forall a b c d bs, 0 <= b ->
  reserve (run C sortf (init a b c d) bs) <= used (run C sortf (init a b c d) bs).
Proof.
  intros a b c d bs Hb. assert (H : Inv3 b (init a b c d)).
  { split; [apply Inv_init|]. split; [constructor|]. unfold gap, committed; simpl. lia. }
  destruct (Inv3_run b bs _ H) as (I & Hs & Hg). unfold gap in Hg.
  pose proof (reserve_le_committed _ I Hs). lia.
Qed.

End Acc.
