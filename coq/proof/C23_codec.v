(* C23 lemmas: the key-frame codecs are lawful, map bytes are not canonical but
   decoding is insensitive to the entry order, restore-then-continue. *)
From Coq Require Import List NArith Bool Lia Permutation Sorted.
From ELA Require Import lib.Bytes lib.VarInt lib.C23_codec model.C23_KeyFrame.
Import ListNotations.
Local Open Scope N_scope.

Ltac codec_tac :=
  repeat first
    [ apply c_pair_ok | apply c_map_ok | apply c_set_ok | apply c_list_ok | apply c_uint_ok
    | apply c_bool_ok | apply c_varuint_ok | apply c_fixed_ok | apply c_varbytes_ok | apply c_unit_ok ].

Lemma votes_lock_ok : codec_ok votes_lock.
Proof. unfold votes_lock, u64, u32. codec_tac. Qed.

Lemma detailed_vote_ok : codec_ok detailed_vote.
Proof. unfold detailed_vote, h168, h256, u32, u8. repeat first [apply votes_lock_ok | progress codec_tac]. Qed.

Lemma producer_info_ok : codec_ok producer_info.
Proof. unfold producer_info, c_string, u64, u32. codec_tac. Qed.

Lemma producer_ok : codec_ok producer.
Proof.
  unfold producer, m168, m256, h168, u8, u32, u64.
  repeat first [ apply producer_info_ok | apply detailed_vote_ok | apply c_pair_ok | apply c_map_ok
               | apply c_uint_ok | apply c_bool_ok | apply c_fixed_ok ].
Qed.

Lemma reward_data_ok : codec_ok reward_data.
Proof. unfold reward_data, m168, h168, u64. codec_tac. Qed.

Lemma dpos_state_key_frame_ok : codec_ok dpos_state_key_frame.
Proof.
  unfold dpos_state_key_frame, smap, sset, set168, set256, m168, m256, nft_info, output_info,
    c_string, h168, h256, u8, u32, u64.
  repeat first [ apply producer_ok | apply votes_lock_ok | apply c_pair_ok | apply c_map_ok | apply c_set_ok
               | apply c_list_ok | apply c_uint_ok | apply c_bool_ok | apply c_fixed_ok | apply c_varbytes_ok | apply c_unit_ok ].
Qed.

Lemma cr_member_ok : codec_ok cr_member.
Proof. unfold cr_member, cr_info_unsigned, c_string, h168, u8, u32, u64. codec_tac. Qed.

Lemma cr_key_frame_ok : codec_ok cr_key_frame.
Proof.
  unfold cr_key_frame, members, proposal_result, sset, m168, c_string, h168, h256, u16, u32, u64.
  repeat first [ apply cr_member_ok | apply c_pair_ok | apply c_map_ok | apply c_set_ok | apply c_list_ok
               | apply c_uint_ok | apply c_bool_ok | apply c_fixed_ok | apply c_varbytes_ok | apply c_varuint_ok | apply c_unit_ok ].
Qed.

Lemma cr_candidate_ok : codec_ok cr_candidate.
Proof. unfold cr_candidate, cr_info_unsigned, c_string, h168, u8, u32, u64. codec_tac. Qed.

Lemma cr_state_key_frame_ok : codec_ok cr_state_key_frame.
Proof.
  unfold cr_state_key_frame, candidates, deposit_info, smap, sset, m168, c_string, h168, u64.
  repeat first [ apply cr_candidate_ok | apply votes_lock_ok | apply c_pair_ok | apply c_map_ok | apply c_set_ok
               | apply c_list_ok | apply c_uint_ok | apply c_fixed_ok | apply c_varbytes_ok | apply c_varuint_ok
               | apply c_unit_ok ].
Qed.

(* ---- generic consequences of [codec_ok] *)

Section Generic.
  Context {S : Type} (c : codec S) (Hc : codec_ok c).

  Lemma roundtrip_any_order : forall x wire rest,
    wf c x -> encs c x wire -> dec c (wire ++ rest) = Some (x, rest).
  Proof. intros. apply (dec_encs c Hc); auto. Qed.

  Lemma roundtrip_canonical : forall x, wf c x -> dec c (enc c x) = Some (x, []).
  Proof. intros x W. rewrite <- (app_nil_r (enc c x)). apply (dec_enc c Hc); auto. Qed.

  Lemma restore_encs : forall x wire, wf c x -> encs c x wire -> restore c wire = Some x.
  Proof.
    intros x wire W E. unfold restore. rewrite <- (app_nil_r wire).
    rewrite (dec_encs c Hc x wire [] W E). reflexivity.
  Qed.

  (* two wf values with a common encoding are equal: nothing is lost *)
  Lemma encs_injective : forall x y wire, wf c x -> wf c y -> encs c x wire -> encs c y wire -> x = y.
  Proof.
    intros x y wire Wx Wy Ex Ey.
    pose proof (restore_encs x wire Wx Ex) as R1. pose proof (restore_encs y wire Wy Ey) as R2.
    congruence.
  Qed.

  Context {B : Type} (step : S -> B -> S).

  (* a node restored from the checkpoint taken after [b1] and fed [b2] reaches the
     state of a node that processed [b1 ++ b2] without restarting *)
  Lemma restore_then_continue : forall s0 b1 b2 wire,
    wf c (run step s0 b1) -> encs c (run step s0 b1) wire ->
    option_map (fun s => run step s b2) (restore c wire) = Some (run step s0 (b1 ++ b2)).
  Proof.
    intros s0 b1 b2 wire W E. rewrite (restore_encs _ _ W E). simpl.
    unfold run. rewrite fold_left_app. reflexivity.
  Qed.
End Generic.

(* ---- Go map iteration order *)

Section MapOrder.
  Context {K V : Type} (o : ord K) (ck : codec K) (cv : codec V)
          (Hk : codec_ok ck) (Hv : codec_ok cv).

  (* writing the entries of m in ANY order l is an encoding of m *)
  Lemma encs_any_order : forall m l, wf (c_map o ck cv) m -> Permutation l m ->
    encs (c_map o ck cv) m (enc (c_list (c_pair ck cv)) l).
  Proof.
    intros m l [W S] P. exists l. split; auto.
    apply (enc_encs _ (c_list_ok _ (c_pair_ok _ _ Hk Hv))).
    destruct W as [W1 W2]. split.
    - rewrite Forall_forall in *. intros e I. apply W1. apply (Permutation_in _ P); auto.
    - rewrite (Permutation_length P). auto.
  Qed.

  (* decoding does not depend on the order the entries were written in *)
  Lemma decode_order_insensitive : forall m l1 l2 rest,
    wf (c_map o ck cv) m -> Permutation l1 m -> Permutation l2 m ->
    dec (c_map o ck cv) (enc (c_list (c_pair ck cv)) l1 ++ rest) =
    dec (c_map o ck cv) (enc (c_list (c_pair ck cv)) l2 ++ rest).
  Proof.
    intros m l1 l2 rest W P1 P2. pose proof (c_map_ok o ck cv Hk Hv) as H.
    rewrite (dec_encs _ H m _ rest W (encs_any_order m l1 W P1)).
    rewrite (dec_encs _ H m _ rest W (encs_any_order m l2 W P2)). reflexivity.
  Qed.
End MapOrder.

(* the bytes of a map with two entries are not canonical: both orders are
   encodings of the same value and they differ *)
Definition two_entries : list (bytes * N) := [([97], 1); ([98], 2)].

Lemma map_bytes_not_canonical :
  exists b1 b2, encs (smap u64) two_entries b1 /\ encs (smap u64) two_entries b2 /\ b1 <> b2 /\
                dec (smap u64) b1 = Some (two_entries, []) /\ dec (smap u64) b2 = Some (two_entries, []).
Proof.
  assert (W : wf (smap u64) two_entries).
  { unfold smap, two_entries. cbn [wf c_map]. split.
    - cbn [wf c_list c_pair c_string c_varbytes u64 c_uint fst snd]. split.
      + repeat constructor; cbn [fst snd length]; unfold max_var_string; vm_compute; try discriminate; auto.
      + vm_compute. reflexivity.
    - repeat constructor. }
  exists (enc (c_list (c_pair c_string u64)) two_entries),
         (enc (c_list (c_pair c_string u64)) (rev two_entries)).
  split; [|split; [|split; [|split]]].
  - apply encs_any_order; unfold c_string, u64; auto with codec.
  - apply encs_any_order; unfold c_string, u64; auto with codec.
    unfold two_entries. simpl. apply perm_swap.
  - vm_compute. discriminate.
  - vm_compute. reflexivity.
  - vm_compute. reflexivity.
Qed.

(* ---- a concrete, non-trivial, well-formed DPoS key frame (non-vacuity of the
   hypotheses of the round-trip theorems): two node-owner keys, one pending
   producer with a nested detailed-vote map, votes, vote rights, deposit
   outputs with a Fixed64 of -1, withdrawable entries, all scalars non-zero *)
Definition h21 (x : N) : bytes := repeat x 21.
Definition h32 (x : N) : bytes := repeat x 32.

Definition ty {A} (c : codec A) : Type := A.

Definition ex_producer : ty producer :=
  (([2;1;1], ([3;1;1], ([110;49], ([117], (7, ([110], (9, [5;5]))))))),
   (1, (2, (100, (0, (0, (0, (0, (5, (6, (7,
   ([(h21 1, [(h32 2, (h21 1, (h32 2, (100, (0, (1, [([3;1;1], (50, 1000))]))))))])],
   ([], (500, (600, (h21 9, (true, (1, (2, (3, (4, (5, false)))))))))))))))))))))).

Definition ex_skf : ty dpos_state_key_frame :=
  ([([97], [98]); ([99], [100])], ([], ([], ([([111;49], ex_producer)], ([], ([], ([], ([], ([], ([],
   ([([118], tt)], ([], ([(h21 1, 42)], ([], ([], ([([100], 18446744073709551615)], ([], ([], ([],
   ([(h32 1, (h21 33, 12345))], ([], ([(h32 3, (h21 33, 1))], ([], ([], ([], ([], ([],
   ([120], (1, (2, (3, (4, (1, (5, (true, (false, (true, (false, (6, (7, (8, 4294967295))))))))))))))))))))))))))))))))))))))))).

Ltac wf_tac :=
  repeat match goal with
  | |- _ /\ _ => split
  | |- True => exact I
  | |- Forall _ [] => constructor
  | |- Forall _ (_ :: _) => constructor
  | |- StronglySorted _ [] => constructor
  | |- StronglySorted _ (_ :: _) => constructor
  | |- klt _ _ _ => vm_compute; reflexivity
  | |- (_ < _)%N => vm_compute; reflexivity
  | |- (_ <= _)%N => vm_compute; discriminate
  | |- @eq nat _ _ => vm_compute; reflexivity
  | |- _ => progress cbn [wf c_pair c_map c_set c_list c_uint c_bool c_varuint c_fixed c_varbytes c_unit c_string fst snd
                          dpos_state_key_frame producer producer_info detailed_vote votes_lock nft_info output_info
                          smap sset m168 m256 set168 set256 u8 u16 u32 u64 h168 h256 ex_skf ex_producer]
  end.

Lemma ex_skf_wf : wf dpos_state_key_frame ex_skf.
Proof. wf_tac. Qed.

Lemma ex_skf_roundtrip :
  dec dpos_state_key_frame (enc dpos_state_key_frame ex_skf) = Some (ex_skf, []) /\
  (300 <? N.of_nat (length (enc dpos_state_key_frame ex_skf))) = true.
Proof. vm_compute. split; reflexivity. Qed.
