(* C14: queryable views agree with the ledger.  The unspent and tx index parts
   come from the C06 invariant; here: zero-value outputs never enter a
   per-address list (for every history, without any validity assumption), and
   the balance is the sum over the list. *)
From Coq Require Import List ZArith NArith Bool Lia.
From ELA Require Import model.Ledger proof.Ledger_base proof.Ledger_unspent proof.C06_Ledger.
Import ListNotations.
Local Open Scope N_scope.

Definition nz (l : list utxo) : Prop := Forall (fun u => u_val u <> 0%Z) l.
Definition nz_state (s : state) : Prop := forall a h, nz (s_addr s a h).
Definition okloc (loc : alocal) : Prop := Forall (fun kv => nz (snd kv)) loc.

Lemma aset_ok loc k v : okloc loc -> nz v -> okloc (aset akey_eqb loc k v).
Proof.
  unfold okloc. induction loc as [|[a x] r IH]; simpl; intros H Hv.
  - constructor; [exact Hv|constructor].
  - inversion H; subst. destruct (akey_eqb a k); constructor; auto.
Qed.

Lemma alookup_ok loc k v : okloc loc -> alookup akey_eqb loc k = Some v -> nz v.
Proof.
  unfold okloc. induction loc as [|[a x] r IH]; simpl; intros H E; [discriminate|].
  inversion H; subst. destruct (akey_eqb a k); [inversion E; subst; assumption|auto].
Qed.

Lemma aget_ok db loc k : (forall a h, nz (db a h)) -> okloc loc -> nz (aget db loc k).
Proof.
  intros Hdb Hl. unfold aget. destruct (alookup akey_eqb loc k) eqn:E; [eapply alookup_ok; eauto|apply Hdb].
Qed.

Lemma swap_pop_u_in l t i : forall x, In x (swap_pop_u l t i) -> In x l.
Proof.
  induction l as [|a r IH]; simpl; intros x H; [contradiction|].
  destruct (utxo_is t i a).
  - destruct r as [|b r']; [contradiction|]. right.
    eapply Permutation.Permutation_in; [apply (last_removelast_perm (b :: r') a); discriminate|exact H].
  - destruct H as [<-|H]; [now left|right; now apply IH].
Qed.

Lemma swap_pop_u_ok l t i : nz l -> nz (swap_pop_u l t i).
Proof.
  unfold nz. rewrite !Forall_forall. intros H x Hx. apply H. eapply swap_pop_u_in; eauto.
Qed.

Lemma nz_snoc l u : nz l -> u_val u <> 0%Z -> nz (l ++ [u]).
Proof. intros H Hu. apply Forall_app. split; [exact H|constructor; [exact Hu|constructor]]. Qed.

Lemma connect_outs_ok db tid h outs : forall loc i, (forall a h, nz (db a h)) -> okloc loc -> okloc (utxo_connect_outs db loc tid h i outs).
Proof.
  induction outs as [|o r IH]; intros loc i Hdb Hl; simpl; [exact Hl|]. apply IH; [exact Hdb|].
  destruct (Z.eqb_spec (o_val o) 0); [exact Hl|]. apply aset_ok; [exact Hl|]. apply nz_snoc; [now apply aget_ok|exact n].
Qed.

Lemma connect_tx_ok fetch db h t : forall st loc', (forall a h, nz (db a h)) ->
  (forall loc, st = Ok loc -> okloc loc) -> utxo_connect_tx fetch db h st t = Ok loc' -> okloc loc'.
Proof.
  intros st loc' Hdb Hst H. unfold utxo_connect_tx in H. destruct st as [loc| |]; simpl in H; try discriminate.
  specialize (Hst loc eq_refl). pose proof (connect_outs_ok db (t_id t) h (t_outs t) loc 0 Hdb Hst) as H1.
  destruct (t_cb t); [inversion H; subst; exact H1|].
  revert H H1. generalize (utxo_connect_outs db loc (t_id t) h 0 (t_outs t)). generalize (t_ins t).
  intros ins. assert (G : forall (r : res alocal), (forall l, r = Ok l -> okloc l) ->
     fold_left (fun r0 (op : outpoint) => bind r0 (fun l => match fetch (fst op) with
        | Some (rh, rt) => match nth_error (t_outs rt) (N.to_nat (snd op)) with
                           | Some ro => Ok (aset akey_eqb l (o_addr ro, rh) (swap_pop_u (aget db l (o_addr ro, rh)) (fst op) (snd op)))
                           | None => Panic end
        | None => Err end)) ins r = Ok loc' -> okloc loc').
  { induction ins as [|op r IH]; intros r0 Hr0 H; simpl in H; [now apply Hr0|].
    eapply IH; [|exact H]. intros l El. destruct r0 as [l0| |]; simpl in El; try discriminate.
    destruct (fetch (fst op)) as [[rh rt]|]; try discriminate.
    destruct (nth_error (t_outs rt) (N.to_nat (snd op))); try discriminate. inversion El; subst.
    apply aset_ok; [now apply Hr0|]. apply swap_pop_u_ok. apply aget_ok; [exact Hdb|now apply Hr0]. }
  intros l0 H H1. eapply G; [|exact H]. intros l El. inversion El; subst. exact H1.
Qed.

Lemma awriteback_ok loc : forall db, (forall a h, nz (db a h)) -> okloc loc -> forall a h, nz (awriteback db loc a h).
Proof.
  unfold awriteback. induction loc as [|[k v] r IH]; intros db Hdb Hl a h; simpl; [apply Hdb|].
  inversion Hl; subst. apply IH; [|assumption]. intros a0 h0. unfold upd2. destruct ((a0 =? fst k) && (h0 =? snd k)); [assumption|apply Hdb].
Qed.

Lemma fold_res_ok {T} (step : res alocal -> T -> res alocal) (Hstep : forall st x loc', (forall loc, st = Ok loc -> okloc loc) -> step st x = Ok loc' -> okloc loc')
  (Herr : forall x, step Err x = Err) (Hpanic : forall x, step Panic x = Panic) xs :
  forall st loc', (forall loc, st = Ok loc -> okloc loc) -> fold_left step xs st = Ok loc' -> okloc loc'.
Proof.
  induction xs as [|x r IH]; intros st loc' Hst H; simpl in H; [now apply Hst|].
  eapply IH; [|exact H]. intros loc E. eapply Hstep; eauto.
Qed.

Lemma utxo_connect_ok fetch db b db' : (forall a h, nz (db a h)) -> utxo_connect fetch db b = Ok db' -> forall a h, nz (db' a h).
Proof.
  intros Hdb H. unfold utxo_connect in H.
  destruct (fold_left (utxo_connect_tx fetch db (b_height b)) (b_txs b) (Ok [])) as [loc| |] eqn:E; simpl in H; try discriminate.
  inversion H; subst. apply awriteback_ok; [exact Hdb|].
  eapply (fold_res_ok (utxo_connect_tx fetch db (b_height b))); [| | | |exact E]; try reflexivity.
  - intros st x loc' Hst Hx. eapply connect_tx_ok; eauto.
  - intros loc0 E0. inversion E0; subst. constructor.
Qed.

Lemma reset_outs_ok (outs : list output) (h : N) : forall loc, okloc loc ->
  okloc (fold_left (fun l o => aset akey_eqb l (o_addr o, h) []) outs loc).
Proof. induction outs as [|o r IH]; intros l0 Hl0; simpl; [exact Hl0|]. apply IH. apply aset_ok; [exact Hl0|constructor]. Qed.

Lemma disconnect_tx_ok fetch db h t : forall st loc', (forall a h, nz (db a h)) ->
  (forall loc, st = Ok loc -> okloc loc) -> utxo_disconnect_tx fetch db h st t = Ok loc' -> okloc loc'.
Proof.
  intros st loc' Hdb Hst H. unfold utxo_disconnect_tx in H. destruct st as [loc| |]; simpl in H; try discriminate.
  specialize (Hst loc eq_refl).
  assert (H1 : okloc (fold_left (fun l o => aset akey_eqb l (o_addr o, h) []) (t_outs t) loc)).
  { now apply reset_outs_ok. }
  destruct (t_cb t); [inversion H; subst; exact H1|].
  revert H H1. generalize (fold_left (fun l o => aset akey_eqb l (o_addr o, h) []) (t_outs t) loc). generalize (t_ins t).
  intros ins. induction ins as [|op r IH]; intros l0 H H1; simpl in H; [inversion H; subst; exact H1|].
  destruct (fetch (fst op)) as [[rh rt]|] eqn:Ef; simpl in H.
  2:{ exfalso. clear -H. induction r; simpl in H; [discriminate|auto]. }
  destruct (nth_error (t_outs rt) (N.to_nat (snd op))) as [ro|] eqn:En; simpl in H.
  2:{ exfalso. clear -H. induction r; simpl in H; [discriminate|auto]. }
  destruct (Z.eqb_spec (o_val ro) 0).
  - eapply IH; [exact H|exact H1].
  - eapply IH; [exact H|]. apply aset_ok; [exact H1|]. apply nz_snoc; [now apply aget_ok|exact n].
Qed.

Lemma utxo_disconnect_ok fetch db b db' : (forall a h, nz (db a h)) -> utxo_disconnect fetch db b = Ok db' -> forall a h, nz (db' a h).
Proof.
  intros Hdb H. unfold utxo_disconnect in H.
  destruct (fold_left (utxo_disconnect_tx fetch db (b_height b)) (b_txs b) (Ok [])) as [loc| |] eqn:E; simpl in H; try discriminate.
  inversion H; subst. apply awriteback_ok; [exact Hdb|].
  eapply (fold_res_ok (utxo_disconnect_tx fetch db (b_height b))); [| | | |exact E]; try reflexivity.
  - intros st x loc' Hst Hx. eapply disconnect_tx_ok; eauto.
  - intros loc0 E0. inversion E0; subst. constructor.
Qed.

Theorem save_block_nz s b s' : nz_state s -> save_block s b = Ok s' -> nz_state s'.
Proof.
  intros Hn H. destruct (save_block_fields _ _ _ H) as [_ [_ [_ [_ Fa]]]]. intros a h. eapply utxo_connect_ok; [|exact Fa]. exact Hn.
Qed.
Theorem rollback_block_nz cf s b s' : nz_state s -> rollback_block cf s b = Ok s' -> nz_state s'.
Proof.
  intros Hn H. destruct (rollback_block_fields _ _ _ _ H) as [_ [_ [_ [_ Fa]]]]. intros a h. eapply utxo_disconnect_ok; [|exact Fa]. exact Hn.
Qed.

Theorem history_nz cf mat h : forall st, nz_state (fst st) -> nz_state (fst (history_run cf mat st h)).
Proof.
  induction h as [|e r IH]; intros st H; simpl; [exact H|]. apply IH. destruct st as [s c]. destruct e as [b|]; simpl.
  - unfold connect. destruct (block_sanity_ok b && block_context_ok cf mat (chain_height c) s b && (b_prev b =? s_tip s) && (b_height b =? chain_height c + 1)); [|exact H].
    destruct (save_block s b) eqn:E; simpl; try exact H. eapply save_block_nz; eauto.
  - destruct (rev c) as [|b [|b2 r0]]; try exact H. destruct (rollback_block cf s b) eqn:E; simpl; try exact H. eapply rollback_block_nz; eauto.
Qed.

Theorem no_zero_value_in_addr_list cf mat h g s0 :
  init_state g = Ok s0 ->
  forall addr heights u, In u (q_utxos (fst (history_run cf mat (s0, [g]) h)) addr heights) -> u_val u <> 0%Z.
Proof.
  intros Hi addr heights u Hu.
  assert (H0 : nz_state s0).
  { unfold init_state in Hi. eapply save_block_nz; [|exact Hi]. intros a h0. constructor. }
  pose proof (history_nz cf mat h (s0, [g]) H0) as Hn. unfold q_utxos in Hu. apply in_flat_map in Hu.
  destruct Hu as [ht [_ Hu]]. specialize (Hn addr ht). unfold nz in Hn. rewrite Forall_forall in Hn. now apply Hn.
Qed.

Theorem balance_is_sum s addr heights :
  q_balance s addr heights = fold_right (fun u a => (u_val u + a)%Z) 0%Z (q_utxos s addr heights).
Proof.
  unfold q_balance. generalize (q_utxos s addr heights). intros l.
  assert (G : forall acc, fold_left (fun a u => (a + u_val u)%Z) l acc = (acc + fold_right (fun u a => (u_val u + a)%Z) 0%Z l)%Z).
  { induction l as [|u r IH]; intros acc; simpl; [lia|]. rewrite IH. lia. }
  rewrite G. lia.
Qed.

(* tx lookup: found exactly for the ids of the active chain *)
Theorem tx_lookup_exact mat st h : inv (fst st) (snd st) /\ snd st <> [] ->
  let '(s, c) := history_run cfg_fixed mat st h in
  forall t, q_tx s t <> None <-> In t (map t_id (chain_txs c)).
Proof.
  intros H. pose proof (history_inv mat h st H) as [I _].
  destruct (history_run cfg_fixed mat st h) as [s c]. intros t. unfold q_tx.
  simpl in I. pose proof (inv_txidx _ _ I t) as E. unfold cids, ids in E.
  destruct (s_txidx s t) as [[ht x]|]; simpl.
  - split; [intros _|intros _; discriminate].
    destruct (in_dec N.eq_dec t (map t_id (chain_txs c))) as [Hin|Hn]; [exact Hin|]. apply E in Hn. discriminate.
  - split; [intros Hc; now elim Hc|]. intros Hin Hc. now apply (proj1 E eq_refl).
Qed.
