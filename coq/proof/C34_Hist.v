(* C34 — every pool operation keeps the invariant; histories. *)
From Coq Require Import ZArith NArith Bool List Lia Permutation Sorted Arith String.
From ELA Require Import model.C34_Pool proof.C34_FeeList proof.C34_Inv.
Import ListNotations.
Local Open Scope Z_scope.

Definition shrink (m' m : list (skey * N)) : Prop :=
  (forall e, In e m' -> In e m) /\ (NoDup (map fst m) -> NoDup (map fst m')).

Lemma shrink_refl m : shrink m m.
Proof. split; auto. Qed.

Lemma shrink_trans a b c : shrink a b -> shrink b c -> shrink a c.
Proof. intros [H1 H2] [H3 H4]. split; auto. Qed.

Lemma shrink_del k m : shrink (slot_del k m) m.
Proof.
  split.
  - intros e He. apply In_slot_del in He. tauto.
  - intros H. unfold slot_del. apply NoDup_map_filter. exact H.
Qed.

Lemma fold_shrink {A} (f : list (skey * N) -> A -> list (skey * N)) :
  (forall m a, shrink (f m a) m) -> forall l m, shrink (fold_left f l m) m.
Proof.
  intros Hf. induction l as [|a l IH]; simpl; intros m; [apply shrink_refl|].
  eapply shrink_trans; [apply IH|apply Hf].
Qed.

Section Hist.
  Variable rlt : Z * Z -> Z * Z -> bool.
  Hypothesis rlt_irrefl : forall a, rlt a a = false.
  Hypothesis rlt_trans : forall a b c, rlt a b = true -> rlt b c = true -> rlt a c = true.
  Hypothesis rlt_negtrans : forall a b c, rlt a b = false -> rlt b c = false -> rlt a c = false.
  Variable U : N -> txinfo.
  Variable tbl : list slot_desc.
  Hypothesis size_ok : forall h, 0 < t_size (U h) < two32.

  Notation keys := (keys_of U tbl).
  Notation weak := (weak rlt U tbl).
  Notation consistent := (consistent rlt U tbl).
  Notation indexed := (indexed U tbl).
  Notation do_remove := (do_remove rlt U tbl).
  Notation stable := (stable rlt U tbl).

  Let Hrm_weak := do_remove_weak rlt rlt_irrefl rlt_negtrans U tbl size_ok.
  Let Hrm_cons := do_remove_consistent rlt rlt_irrefl rlt_negtrans U tbl size_ok.

  Lemma st_weak : stable weak.
  Proof. intros x p. apply Hrm_weak. Qed.
  Lemma st_cons : stable consistent.
  Proof. intros x p. apply Hrm_cons. Qed.

  Lemma st_incl l : stable (fun q => forall y, In y (p_txs q) -> In y l).
  Proof.
    intros x p Hp y Hy. rewrite do_remove_txs in Hy.
    destruct (memN x (p_txs p)); [apply In_delN in Hy as [Hy _]|]; auto.
  Qed.

  Lemma remove_keys_shrink b m : shrink (remove_keys U tbl b m) m.
  Proof. unfold remove_keys. apply fold_shrink. intros; apply shrink_del. Qed.

  Lemma weak_shrink p sm : weak p -> shrink sm (p_slots p) ->
    weak (mkPool (p_txs p) (p_fees p) (p_total p) (p_max p) sm (p_used p)).
  Proof.
    intros [Hnd Hwf Hsound Hfun Hdisj Hperm Hsorted Htotal Hmax Hmaxr Hused] [Hs1 Hs2].
    constructor; simpl; auto.
  Qed.

  (* ---------------------------------------------------------- append *)

  Lemma append_consistent h rej limit p :
    consistent p -> consistent (fst (append rlt U tbl h rej limit p)).
  Proof.
    intros Hc. unfold append. cbv zeta.
    destruct (t_type (U h) =? ty_record_sponsor)%N; [exact Hc|].
    set (pa := if (t_type (U h) =? ty_appropriation)%N
               then purge rlt U tbl (fun x => (t_type (U x) =? ty_rectify)%N) p else p).
    assert (Ha : consistent pa).
    { unfold pa. destruct (t_type (U h) =? ty_appropriation)%N; [|exact Hc].
      apply purge_stable; [apply st_cons|exact Hc]. }
    clearbody pa. clear Hc p.
    destruct (memN h (p_txs pa)) eqn:Em; [exact Ha|].
    destruct (t_type (U h) =? ty_coinbase)%N; [exact Ha|].
    destruct (negb (ctx U rej limit h (p_used pa))); [exact Ha|].
    set (pb := if is_scpow U h
               then purge rlt U tbl (fun x => is_scpow U x && (t_gen (U x) =? t_gen (U h))%N) pa
               else pa).
    assert (Hb : consistent pb /\ forall y, In y (p_txs pb) -> In y (p_txs pa)).
    { unfold pb. destruct (is_scpow U h); [|split; [exact Ha|auto]]. split.
      - apply purge_stable; [apply st_cons|exact Ha].
      - apply (purge_stable rlt U tbl (fun q => forall y, In y (p_txs q) -> In y (p_txs pa)));
          [apply st_incl|auto]. }
    destruct Hb as [Hb Hincl]. clearbody pb.
    destruct (negb (verify_tx U tbl h (p_slots pb))) eqn:Ev; [exact Hb|].
    destruct (over_size pb (t_size (U h))) eqn:Eo; [exact Hb|].
    apply negb_false_iff in Ev.
    assert (Hnin : ~ In h (p_txs pb)).
    { intros Hin. apply Hincl in Hin. apply memN_In in Hin. congruence. }
    pose proof (add_consistent rlt rlt_irrefl rlt_trans rlt_negtrans U tbl size_ok h pb Hb Hnin Ev Eo) as H.
    cbv zeta in H. destruct H as [Eok Hcons].
    destruct (do_add rlt U tbl h _) as [p2 o]. simpl in *. subst o. exact Hcons.
  Qed.

  (* ---------------------------------------------------------- clean *)

  Lemma clean_block_tx_weak p b : weak p -> weak (clean_block_tx rlt U tbl p b).
  Proof.
    intros Hw. unfold clean_block_tx.
    destruct (t_type (U b) =? ty_coinbase)%N; [exact Hw|].
    destruct (is_direct U b).
    { destruct (memN b (p_txs p)); [apply Hrm_weak|]; exact Hw. }
    destruct (negb (t_refok (U b))); [exact Hw|].
    match goal with |- weak (mkPool (p_txs ?q) _ _ _ _ _) => set (p1 := q) end.
    assert (H1 : weak p1) by (apply fold_get_stable; [apply st_weak|exact Hw]).
    apply weak_shrink; [exact H1|apply remove_keys_shrink].
  Qed.

  Lemma clean_cancel_one_weak cr k q x : weak q -> weak (clean_cancel_one rlt U tbl cr k q x).
  Proof.
    intros Hw. unfold clean_cancel_one.
    destruct (t_type (U x) =? ty_transfer)%N.
    { destruct (existsb _ _); [apply Hrm_weak|]; exact Hw. }
    destruct (_ && _); [|exact Hw].
    apply weak_shrink; [apply Hrm_weak; exact Hw|].
    apply fold_shrink. intros m nm. apply fold_shrink. intros m' kk.
    unfold del_named. destruct (find_slot nm tbl); [apply shrink_del|apply shrink_refl].
  Qed.

  Lemma fold_weak {A} (f : pool -> A -> pool) l p :
    (forall q a, weak q -> weak (f q a)) -> weak p -> weak (fold_left f l p).
  Proof.
    intros Hf. revert p; induction l as [|a l IH]; simpl; intros p Hp; [exact Hp|].
    apply IH. apply Hf. exact Hp.
  Qed.

  Lemma clean_submitted_weak blk d p : weak p -> weak (clean_submitted rlt U tbl blk d p).
  Proof.
    intros Hw. unfold clean_submitted, clean_canceled.
    apply fold_weak.
    - intros q b Hq.
      assert (H1 : weak (if (t_type (U b) =? ty_cancel_producer)%N
                         then fold_left (clean_cancel_one rlt U tbl false (t_subject (U b))) (p_txs q) q
                         else q)).
      { destruct (_ =? _)%N; [|exact Hq]. apply fold_weak; [|exact Hq].
        intros; apply clean_cancel_one_weak; assumption. }
      destruct (t_type (U b) =? ty_unregister_cr)%N; [|exact H1].
      apply fold_weak; [|exact H1]. intros; apply clean_cancel_one_weak; assumption.
    - apply purge_stable; [apply st_weak|].
      apply fold_weak; [|exact Hw]. intros; apply clean_block_tx_weak; assumption.
  Qed.

  (* ---------------------------------------------------------- check-and-clean *)

  Definition check_step (rej : list N) (limit : Z) (st : pool * Z) (h : N) : pool * Z :=
    let '(q, used) := st in
    if ctx U rej limit h used
    then (q, if is_prop U h then i64 (used + t_budget (U h)) else used)
    else (do_remove h q, used).

  Lemma check_fold p rej limit : forall vis q used done,
    weak q ->
    (forall y, In y (p_txs q) -> In y (p_txs p)) ->
    (forall x k, In x (p_txs q) -> In (k, x) (p_slots p) -> In (k, x) (p_slots q)) ->
    (forall x, In x done -> In x (p_txs q) -> exists u, ctx U rej limit x u = true) ->
    let r := fold_left (check_step rej limit) vis (q, used) in
    weak (fst r) /\
    (forall y, In y (p_txs (fst r)) -> In y (p_txs p)) /\
    (forall x k, In x (p_txs (fst r)) -> In (k, x) (p_slots p) -> In (k, x) (p_slots (fst r))) /\
    (forall x, In x (done ++ vis) -> In x (p_txs (fst r)) -> exists u, ctx U rej limit x u = true).
  Proof.
    induction vis as [|h vis IH]; intros q used done Hw Hincl Hslots Hdone.
    - simpl. rewrite app_nil_r.
      split; [exact Hw|split; [exact Hincl|split; [exact Hslots|exact Hdone]]].
    - simpl. destruct (ctx U rej limit h used) eqn:Ec.
      + specialize (IH q (if is_prop U h then i64 (used + t_budget (U h)) else used) (done ++ [h])
                       Hw Hincl Hslots).
        rewrite <- app_assoc in IH. simpl in IH. apply IH.
        intros x Hx Hxq. apply in_app_or in Hx as [Hx|[<-|[]]]; [auto|eauto].
      + specialize (IH (do_remove h q) used (done ++ [h])).
        rewrite <- app_assoc in IH. simpl in IH. apply IH.
        * apply Hrm_weak. exact Hw.
        * intros y Hy. apply Hincl. revert Hy. apply (st_incl (p_txs q) h q). auto.
        * intros x k Hx Hk. rewrite do_remove_txs in Hx. rewrite do_remove_slots.
          destruct (memN h (p_txs q)) eqn:Em; [|auto].
          apply memN_In in Em. apply In_delN in Hx as [Hx Hne].
          rewrite (remove_keys_held rlt U tbl q h Hw Em). apply In_fold_del.
          split; [auto|]. simpl. intros Hkh. apply Hne.
          destruct (w_sound _ _ _ q Hw k x (Hslots x k Hx Hk)) as [_ Hkx].
          eapply (w_disj _ _ _ q Hw); eassumption.
        * intros x Hx Hxq. rewrite do_remove_txs in Hxq.
          apply in_app_or in Hx as [Hx|[<-|[]]].
          -- apply Hdone; [exact Hx|].
             destruct (memN h (p_txs q)); [apply In_delN in Hxq as [Hxq _]|]; exact Hxq.
          -- destruct (memN h (p_txs q)) eqn:Em.
             ++ apply In_delN in Hxq as [_ Hne]. congruence.
             ++ apply memN_In in Hxq. congruence.
  Qed.

  Lemma visit_all order p x : In x (p_txs p) -> In x (visit order p).
  Proof.
    intros Hx. unfold visit. apply in_or_app. destruct (memN x order) eqn:Em.
    - left. apply filter_In. split; [apply memN_In; exact Em|apply memN_In; exact Hx].
    - right. apply filter_In. split; [exact Hx|rewrite Em; reflexivity].
  Qed.

  Lemma check_clean_fold order rej limit p :
    check_clean rlt U tbl order rej limit p =
    fst (fold_left (check_step rej limit) (visit order p) (p, 0)).
  Proof. reflexivity. Qed.

  (* checkAndCleanAllTransactions restores the full invariant when every held
     transaction the chain still accepts has all its keys indexed *)
  Lemma check_clean_consistent order rej limit p :
    weak p ->
    (forall x u, In x (p_txs p) -> ctx U rej limit x u = true -> indexed p x) ->
    consistent (check_clean rlt U tbl order rej limit p).
  Proof.
    intros Hw Hacc. rewrite check_clean_fold.
    pose proof (check_fold p rej limit (visit order p) p 0 [] Hw (fun y H => H)
                  (fun x k _ H => H) (fun x H => match H with end)) as H.
    cbv zeta in H. destruct H as (H1 & H2 & H3 & H4). split; [exact H1|].
    intros x Hx k Hk. apply H3; [exact Hx|].
    destruct (H4 x (visit_all order p x (H2 x Hx)) Hx) as [u Hu].
    apply (Hacc x u (H2 x Hx) Hu k Hk).
  Qed.

  (* ---------------------------------------------------------- histories *)

  Definition op_ok (o : op) (p : pool) : Prop :=
    match o with
    | OConnect blk d order rej limit =>
        let q := clean_submitted rlt U tbl blk d p in
        forall x u, In x (p_txs q) -> ctx U rej limit x u = true -> indexed q x
    | OClean _ _ => False
    | _ => True
    end.

  Fixpoint admissible (ops : list op) (p : pool) : Prop :=
    match ops with
    | [] => True
    | o :: r => op_ok o p /\ admissible r (step rlt U tbl p o)
    end.

  Lemma step_consistent o p : consistent p -> op_ok o p -> consistent (step rlt U tbl p o).
  Proof.
    intros Hc Hok. destruct o as [h rej limit|h|blk d|order rej limit|blk d order rej limit]; simpl in *.
    - apply append_consistent. exact Hc.
    - apply remove_api_stable; [apply st_cons|exact Hc].
    - destruct Hok.
    - destruct Hc as [Hw Hidx]. apply check_clean_consistent; [exact Hw|].
      intros x u Hx _. apply Hidx. exact Hx.
    - apply check_clean_consistent; [|exact Hok].
      apply clean_submitted_weak. apply Hc.
  Qed.

  Lemma run_consistent ops : forall p, consistent p -> admissible ops p ->
    consistent (run rlt U tbl ops p).
  Proof.
    induction ops as [|o ops IH]; intros p Hc Hadm; [exact Hc|].
    simpl in *. destruct Hadm as [Hok Hadm]. apply IH; [|exact Hadm].
    apply step_consistent; assumption.
  Qed.

  (* ---------------------------------------------------------- what the invariant says *)

  Lemma no_shared_key p a b k : consistent p ->
    In a (p_txs p) -> In b (p_txs p) -> In k (keys a) -> In k (keys b) -> a = b.
  Proof. intros [Hw _]. apply (w_disj _ _ _ p Hw). Qed.

  Lemma input_key_in s h o : inputs_slot tbl = Some s -> applies tbl s (t_type (U h)) = true ->
    In o (t_ins (U h)) -> In (s, o) (keys h).
  Proof.
    intros Es Ea Ho. unfold keys_of, input_keys. apply in_or_app. right.
    rewrite Es, Ea. apply in_map_iff. exists o. auto.
  Qed.

  Lemma no_shared_outpoint p a b s o : consistent p ->
    inputs_slot tbl = Some s ->
    applies tbl s (t_type (U a)) = true -> applies tbl s (t_type (U b)) = true ->
    In a (p_txs p) -> In b (p_txs p) -> In o (t_ins (U a)) -> In o (t_ins (U b)) -> a = b.
  Proof.
    intros Hc Es Ea Eb Ha Hb Hoa Hob.
    apply (no_shared_key p a b (s, o) Hc Ha Hb); apply input_key_in; assumption.
  Qed.

  Lemma index_exact p : consistent p ->
    NoDup (map fst (p_slots p)) /\
    forall k h, In (k, h) (p_slots p) <-> In h (p_txs p) /\ In k (keys h).
  Proof.
    intros [Hw Hidx]. split; [apply (w_fun _ _ _ p Hw)|]. intros k h. split.
    - apply (w_sound _ _ _ p Hw).
    - intros [Hh Hk]. apply Hidx; assumption.
  Qed.

  Lemma fee_order_exact p : consistent p ->
    NoDup (p_txs p) /\ Permutation (map (item_of U) (p_txs p)) (p_fees p) /\
    fee_sorted rlt (p_fees p).
  Proof.
    intros [Hw _]. repeat split; [apply (w_nodup _ _ _ p Hw)|apply (w_perm _ _ _ p Hw)|apply (w_sorted _ _ _ p Hw)].
  Qed.

  Lemma size_exact p : consistent p ->
    p_total p = sum_sizes U (p_txs p) /\ p_total p <= p_max p.
  Proof. intros [Hw _]. split; [apply (w_total _ _ _ p Hw)|apply (w_max _ _ _ p Hw)]. Qed.

  Lemma budget_exact p : consistent p ->
    p_used p = i64 (sum_budget U (p_txs p)) /\
    (- two63 <= sum_budget U (p_txs p) < two63 -> p_used p = sum_budget U (p_txs p)).
  Proof.
    intros [Hw _]. pose proof (w_used _ _ _ p Hw) as E. split; [exact E|].
    intros Hr. rewrite E. unfold i64. rewrite Z.mod_small; unfold two63, two64 in *; lia.
  Qed.

  (* ---------------------------------------------------------- dead eviction code *)

  (* appendToTxPool written without the eviction loop of AddTx *)
  Definition append_noevict (h : N) (rej : list N) (limit : Z) (p : pool) : pool * outcome :=
    let ty := t_type (U h) in
    if (ty =? ty_record_sponsor)%N then (p, Reject) else
    let p := if (ty =? ty_appropriation)%N
             then purge rlt U tbl (fun x => (t_type (U x) =? ty_rectify)%N) p else p in
    if memN h (p_txs p) then (p, Reject) else
    if (ty =? ty_coinbase)%N then (p, Reject) else
    if negb (ctx U rej limit h (p_used p)) then (p, Reject) else
    let p := if is_scpow U h
             then purge rlt U tbl (fun x => is_scpow U x && (t_gen (U x) =? t_gen (U h))%N) p else p in
    if negb (verify_tx U tbl h (p_slots p)) then (p, Reject) else
    if over_size p (t_size (U h)) then (p, Reject) else
    (mkPool (if memN h (p_txs p) then p_txs p else p_txs p ++ [h])
            (fee_insert rlt (item_of U h) (p_fees p)) (u64 (p_total p + size32 U h))
            (p_max p) (append_keys U tbl h (p_slots p))
            (if is_prop U h then i64 (p_used p + t_budget (U h)) else p_used p), Ok).

  Lemma eviction_unreachable h rej limit p :
    append rlt U tbl h rej limit p = append_noevict h rej limit p.
  Proof.
    unfold append, append_noevict. cbv zeta.
    destruct (t_type (U h) =? ty_record_sponsor)%N; [reflexivity|].
    set (pa := if (t_type (U h) =? ty_appropriation)%N then _ else p). clearbody pa.
    destruct (memN h (p_txs pa)); [reflexivity|].
    destruct (t_type (U h) =? ty_coinbase)%N; [reflexivity|].
    destruct (negb (ctx U rej limit h (p_used pa))); [reflexivity|].
    set (pb := if is_scpow U h then _ else pa). clearbody pb.
    destruct (negb (verify_tx U tbl h (p_slots pb))); [reflexivity|].
    destruct (over_size pb (t_size (U h))) eqn:Eo; [reflexivity|].
    rewrite do_add_not_over.
    - reflexivity.
    - simpl. rewrite (size32_eq U size_ok). exact Eo.
    - rewrite (size32_eq U size_ok). apply size_ok.
  Qed.
End Hist.
