(* C04: the descriptor interpreter round-trips.
   roundtrip : wt f c v -> decode f c (encode f c v ++ rest) = Ok (v, rest)
   decode_wt : decode f c bs = Ok (v, rest) -> wt f c v   (input bytes < 256)
   both by induction on the descriptor; the element loop by induction on the
   list of elements / the fuel. *)
From Coq Require Import NArith PeanoNat List Lia Bool.
From ELA Require Import lib.GoSem lib.Bytes lib.VarInt model.C02_Fmt proof.C02_BytesFacts proof.C02_Safe.
Import ListNotations.
Local Open Scope N_scope.

Lemma take_app_len : forall n h t, length h = n -> take n (h ++ t) = Some (h, t).
Proof. intros. subst. apply take_app. Qed.

Lemma write_cnt_length : forall ck n, N.of_nat (cnt_bytes ck) <= len (write_cnt ck n).
Proof.
  intros. destruct ck; cbn [write_cnt cnt_bytes]; unfold len.
  - pose proof (varint_enc_length n). lia.
  - rewrite le_enc_length. lia.
Qed.

Lemma len_app : forall a b, len (a ++ b) = len a + len b.
Proof. intros. unfold len. rewrite app_length. lia. Qed.

(* encodings are at least as long as the static minimum *)
Lemma encode_minsz : forall f c v, wt f c v = true -> minsz f <= len (encode f c v).
Proof.
  induction f; intros cx v W; destruct v; cbn [wt] in W; try discriminate;
    cbn [encode minsz]; unfold len in *.
  all: try (simpl length; lia).
  all: try (pose proof (N.le_min_l (minsz f1) (minsz f2)); pose proof (N.le_min_r (minsz f1) (minsz f2));
            destruct (sel i cx =? n); [specialize (IHf1 cx _ W)|specialize (IHf2 cx _ W)]; lia).
  all: try (pose proof (N.le_min_l (minsz f1) (minsz f2)); pose proof (N.le_min_r (minsz f1) (minsz f2));
            destruct (n <=? sel i cx); [specialize (IHf1 cx _ W)|specialize (IHf2 cx _ W)]; lia).
  all: try apply N.le_0_l.
  - (* FU *) rewrite le_enc_length. lia.
  - (* FFix *) apply Nat.eqb_eq in W. lia.
  - (* FVarUint *) pose proof (varint_enc_length n). lia.
  - (* FVarBytes *) rewrite app_length. pose proof (varint_enc_length (N.of_nat (length b))). lia.
  - (* FSeq *) apply andb_true_iff in W. destruct W as [W1 W2].
    specialize (IHf1 _ _ W1). specialize (IHf2 _ _ W2). rewrite app_length. lia.
  - (* FCounted *) rewrite app_length. pose proof (write_cnt_length c (N.of_nat (length l))). unfold len in H. lia.
  - (* FTag *) apply andb_true_iff in W. destruct W as [_ W2]. specialize (IHf _ _ W2).
    rewrite app_length, le_enc_length. lia.
Qed.

Lemma read_write_cnt : forall ck n t, n < cnt_lim ck ->
  read_cnt ck (write_cnt ck n ++ t) = Some (n, t).
Proof.
  intros ck n t H. destruct ck; cbn [read_cnt write_cnt cnt_lim] in *.
  - apply varint_dec_enc. exact H.
  - rewrite take_app_len by apply le_enc_length. rewrite le_val_enc by exact H. reflexivity.
Qed.

Section Loop.
  Variable de : bytes -> dres.
  Variable enc : value -> bytes.
  Variable ic : N.

  Lemma loop_roundtrip : forall vs fuel rest,
    (length vs < fuel)%nat ->
    (forall v, In v vs -> forall r, fst (de (enc v ++ r)) = Ok (v, r)) ->
    fst (loop de ic fuel (N.of_nat (length vs)) (flat_map enc vs ++ rest)) = Ok (vs, rest).
  Proof.
    induction vs as [|v vs IH]; intros fuel rest HF HD.
    - destruct fuel; simpl; reflexivity.
    - destruct fuel; [simpl in HF; lia|].
      cbn [loop]. replace (N.of_nat (length (v :: vs)) =? 0) with false
        by (symmetry; apply N.eqb_neq; simpl length; lia).
      cbn [flat_map]. rewrite <- app_assoc.
      pose proof (HD v (or_introl eq_refl) (flat_map enc vs ++ rest)) as D.
      destruct (de (enc v ++ flat_map enc vs ++ rest)) as [r m]. simpl in D. subst r.
      replace (N.of_nat (length (v :: vs)) - 1) with (N.of_nat (length vs)) by (simpl length; lia).
      assert (HF' : (length vs < fuel)%nat) by (simpl in HF; lia).
      specialize (IH fuel rest HF' (fun v' I => HD v' (or_intror I))).
      destruct (loop de ic fuel (N.of_nat (length vs)) (flat_map enc vs ++ rest)) as [r' m'].
      simpl in IH. subst r'. reflexivity.
  Qed.
End Loop.

Lemma flat_map_len : forall (enc : value -> bytes) vs,
  (forall v, In v vs -> (1 <= length (enc v))%nat) -> (length vs <= length (flat_map enc vs))%nat.
Proof.
  induction vs; intros H; simpl; [lia|]. rewrite app_length.
  pose proof (H a (or_introl eq_refl)). specialize (IHvs (fun v I => H v (or_intror I))). lia.
Qed.

Lemma varint_enc_cons : forall n, exists b tl, varint_enc n = b :: tl.
Proof.
  intros. unfold varint_enc. destruct (n <? 253); [eauto|]. destruct (n <=? 65535); [eauto|].
  destruct (n <=? 4294967295); eauto.
Qed.

Lemma unvn_map : forall vs,
  forallb (fun v => match v with VN n => n <? 256 | _ => false end) vs = true ->
  map VN (map (fun v => match v with VN n => n | _ => 0 end) vs) = vs.
Proof.
  induction vs; intros H; simpl; auto. simpl in H. apply andb_true_iff in H. destruct H as [H1 H2].
  destruct a; try discriminate. rewrite IHvs by auto. reflexivity.
Qed.

Lemma starts_varint_enc : forall f c v rest, starts_varint f = true -> wt f c v = true ->
  exists n t, varint_dec (encode f c v ++ rest) = Some (n, t).
Proof.
  induction f; intros cx v rest S W; cbn [starts_varint] in S; try discriminate.
  - destruct v; cbn [wt] in W; try discriminate. apply andb_true_iff in W. destruct W as [W1 _].
    cbn [encode]. rewrite <- app_assoc. eapply IHf1; eauto.
  - destruct c; try discriminate. destruct v; cbn [wt] in W; try discriminate.
    repeat (apply andb_true_iff in W; destruct W as [W ?]). apply N.ltb_lt in W.
    cbn [encode write_cnt]. rewrite <- app_assoc. eexists. eexists. apply varint_dec_enc. exact W.
Qed.

Lemma ms_norm_idem : forall x v, x < 18446744073709551616 -> ms_norm x = Some v ->
  v < 18446744073709551616 /\ ms_norm v = Some v.
Proof.
  unfold ms_norm. intros x v X H.
  destruct (x <? 9223372036854775808) eqn:C.
  - destruct (0 <? x mod 1000000) eqn:M; [discriminate|]. inversion H; subst. rewrite C, M. auto.
  - apply N.ltb_ge in C.
    assert (Hv := f_equal (fun o => match o with Some a => a | None => 0 end) H). cbv beta iota in Hv.
    rewrite <- Hv. clear Hv H v.
    set (D := 18446744073709551616 - x).
    pose proof (N.div_mod D 1000000) as DM. pose proof (N.mod_lt D 1000000) as ML.
    set (r := D mod 1000000) in *. set (q := D / 1000000) in *.
    assert (XR : x + r <= 18446744073709551616) by (unfold D in *; lia).
    destruct (N.eq_dec (x + r) 18446744073709551616) as [E|E].
    + rewrite E. rewrite N.mod_same by lia. split; [lia|reflexivity].
    + rewrite (N.mod_small (x + r)) by lia. split; [lia|].
      replace (x + r <? 9223372036854775808) with false by (symmetry; apply N.ltb_ge; lia).
      assert (Z : (18446744073709551616 - (x + r)) mod 1000000 = 0).
      { replace (18446744073709551616 - (x + r)) with (q * 1000000) by (unfold D in *; lia).
        apply N.mod_mul. lia. }
      rewrite Z, N.add_0_r, N.mod_small by lia. reflexivity.
Qed.

Theorem roundtrip : forall f, wf_alloc f = true -> forall c v rest,
  wt f c v = true -> fst (decode f c (encode f c v ++ rest)) = Ok (v, rest).
Proof.
  induction f; intros WF cx v rest W; destruct v; cbn [wt] in W; try discriminate;
    cbn [encode decode].
  all: try (cbn [wf_alloc] in WF; apply andb_true_iff in WF; destruct WF as [WF1 WF2];
            destruct (sel i cx =? n); [apply IHf1|apply IHf2]; assumption).
  all: try (cbn [wf_alloc] in WF; apply andb_true_iff in WF; destruct WF as [WF1 WF2];
            destruct (n <=? sel i cx); [apply IHf1|apply IHf2]; assumption).
  - (* FUnit *) reflexivity.
  - (* FU *) apply N.ltb_lt in W. rewrite take_app_len by apply le_enc_length.
    rewrite le_val_enc by exact W. reflexivity.
  - (* FBool *) apply N.ltb_lt in W. simpl app.
    assert (n = 0 \/ n = 1) as [E|E] by lia; subst n; destruct k; reflexivity.
  - (* FFix *) apply Nat.eqb_eq in W. rewrite take_app_len by exact W. reflexivity.
  - (* FVarUint *) apply N.ltb_lt in W. rewrite varint_dec_enc by exact W. reflexivity.
  - (* FVarBytes *) apply andb_true_iff in W. destruct W as [W1 W2]. apply N.leb_le in W1. apply N.ltb_lt in W2.
    rewrite <- app_assoc. rewrite varint_dec_enc by exact W2.
    replace (max <? N.of_nat (length b)) with false by (symmetry; apply N.ltb_ge; lia).
    rewrite take_N_app. reflexivity.
  - (* FTimeMs *) apply andb_true_iff in W. destruct W as [W1 W2]. apply N.ltb_lt in W1.
    rewrite take_app_len by apply le_enc_length. rewrite le_val_enc by exact W1.
    destruct (ms_norm n) as [m|]; [|discriminate]. apply N.eqb_eq in W2. subst m. reflexivity.
  - (* FTailU8List *) apply andb_true_iff in W. destruct W as [W1 W2]. apply N.ltb_lt in W1.
    rewrite <- app_assoc.
    destruct (varint_enc_cons (N.of_nat (length l))) as [b0 [tl E]].
    pose proof (varint_dec_enc (N.of_nat (length l))
                  (map (fun v => match v with VN n => n | _ => 0 end) l ++ rest) W1) as VD.
    rewrite E in *. cbn [app]. cbn [app] in VD. rewrite VD.
    pose proof (take_upto_app (map (fun v => match v with VN n => n | _ => 0 end) l) rest) as TU.
    rewrite map_length in TU. rewrite TU. rewrite unvn_map by exact W2. reflexivity.
  - (* FSwallowHead *)
    cbn [wf_alloc] in WF. apply andb_true_iff in WF. destruct WF as [WF SV].
    apply andb_true_iff in W. destruct W as [W1 W2]. apply N.eqb_eq in W1. subst t.
    change (1 =? 0) with false. cbv iota.
    destruct (starts_varint_enc f cx v rest SV W2) as [n0 [t0 VD]]. rewrite VD.
    specialize (IHf WF cx v rest W2).
    destruct (decode f cx (encode f cx v ++ rest)) as [r m]. simpl in IHf. subst r. reflexivity.
  - (* FSkipOpt *) reflexivity.
  - (* FSeq *) cbn [wf_alloc] in WF. apply andb_true_iff in WF. destruct WF as [WF1 WF2].
    apply andb_true_iff in W. destruct W as [W1 W2]. rewrite <- app_assoc.
    specialize (IHf1 WF1 cx v1 (encode f2 cx v2 ++ rest) W1).
    destruct (decode f1 cx (encode f1 cx v1 ++ encode f2 cx v2 ++ rest)) as [r m]. simpl in IHf1. subst r.
    specialize (IHf2 WF2 cx v2 rest W2).
    destruct (decode f2 cx (encode f2 cx v2 ++ rest)) as [r' m']. simpl in IHf2. subst r'. reflexivity.
  - (* FCounted *)
    cbn [wf_alloc] in WF. repeat (apply andb_true_iff in WF; destruct WF as [WF ?]).
    rename H into WP, H0 into We, H1 into Wm. apply N.leb_le in Wm.
    repeat (apply andb_true_iff in W; destruct W as [W ?]).
    rename H into Wall, H0 into Wms, H1 into Wint, H2 into Wb. apply N.ltb_lt in W.
    rewrite <- app_assoc. rewrite read_write_cnt by exact W.
    set (n := N.of_nat (length l)) in *.
    replace (match bound with Some b => b <? n | None => false end) with false
      by (destruct bound; auto; symmetry; apply N.ltb_ge; apply N.leb_le; exact Wb).
    replace (match p with NoPre => false | _ => negb (makeslice_ok n esz) end) with false
      by (destruct p; auto; rewrite Wms; reflexivity).
    replace (if asint && (max_int <? n) then 0 else n) with n
      by (destruct asint; auto; apply N.leb_le in Wint;
          replace (max_int <? n) with false by (symmetry; apply N.ltb_ge; lia); reflexivity).
    rewrite forallb_forall in Wall.
    assert (LEN : (length l < S (length (flat_map (encode f cx) l ++ rest)))%nat).
    { rewrite app_length.
      assert ((length l <= length (flat_map (encode f cx) l))%nat).
      { apply flat_map_len. intros v I. pose proof (encode_minsz f cx v (Wall v I)). unfold len in H. lia. }
      lia. }
    pose proof (loop_roundtrip (decode f cx) (encode f cx) (iter_cost p esz) l _ rest LEN
                  (fun v I r => IHf We cx v r (Wall v I))) as L.
    fold n in L.
    destruct (loop (decode f cx) (iter_cost p esz) (S (length (flat_map (encode f cx) l ++ rest))) n
                (flat_map (encode f cx) l ++ rest)) as [r m]. simpl in L. subst r. reflexivity.
  - (* FTag *)
    cbn [wf_alloc] in WF. apply andb_true_iff in W. destruct W as [W1 W2]. apply N.ltb_lt in W1.
    rewrite <- app_assoc. rewrite take_app_len by apply le_enc_length.
    assert (TV : tagv nz (le_enc w t) = t).
    { unfold tagv. destruct nz.
      - rewrite le_val_enc by lia. assert (t = 0 \/ t = 1) as [E|E] by lia; subst t; reflexivity.
      - apply le_val_enc. exact W1. }
    rewrite TV. specialize (IHf WF (t :: cx) v rest W2).
    destruct (decode f (t :: cx) (encode f (t :: cx) v ++ rest)) as [r m]. simpl in IHf. subst r. reflexivity.
Qed.

(* ------------------------------------------------------------------------
   decoded values are well typed (so they re-encode and decode to themselves) *)

Lemma bytes_ok_take : forall n bs h t, bytes_ok bs = true -> take n bs = Some (h, t) ->
  bytes_ok h = true /\ bytes_ok t = true.
Proof.
  intros n bs h t B T. apply take_len in T. destruct T as [_ E]. subst bs.
  rewrite bytes_ok_app in B. apply andb_true_iff in B. exact B.
Qed.

Lemma bytes_ok_take_N : forall n bs h t, bytes_ok bs = true -> take_N n bs = Some (h, t) ->
  bytes_ok t = true.
Proof.
  intros n bs h t B T. apply take_N_spec in T. destruct T as [E _]. subst bs.
  rewrite bytes_ok_app in B. apply andb_true_iff in B. apply B.
Qed.

Lemma bytes_ok_varint : forall bs v t, bytes_ok bs = true -> varint_dec bs = Some (v, t) ->
  v < 18446744073709551616 /\ bytes_ok t = true.
Proof.
  intros bs v t B D. destruct (varint_enc_dec bs v t B D) as [V E]. split; [exact V|].
  subst bs. rewrite bytes_ok_app in B. apply andb_true_iff in B. apply B.
Qed.

Lemma read_cnt_ok : forall ck bs n t, bytes_ok bs = true -> read_cnt ck bs = Some (n, t) ->
  n < cnt_lim ck /\ bytes_ok t = true.
Proof.
  intros ck bs n t B R. destruct ck; cbn [read_cnt cnt_lim] in *.
  - eapply bytes_ok_varint; eauto.
  - destruct (take w bs) as [[h t']|] eqn:T; [|discriminate]. inversion R; subst.
    destruct (bytes_ok_take _ _ _ _ B T) as [Bh Bt]. split; [|exact Bt].
    apply take_len in T. destruct T as [L _]. rewrite <- L. apply le_val_bound. exact Bh.
Qed.

Section LoopWt.
  Variable de : bytes -> dres.
  Variable ic : N.
  Variable P : value -> bool.
  Hypothesis de_ok : forall bs v rest m, bytes_ok bs = true -> de bs = (Ok (v, rest), m) ->
    P v = true /\ bytes_ok rest = true.

  Lemma loop_wt : forall fuel k bs vs rest m, bytes_ok bs = true ->
    loop de ic fuel k bs = (Ok (vs, rest), m) -> forallb P vs = true /\ bytes_ok rest = true.
  Proof.
    induction fuel; intros k bs vs rest m B L; simpl in L.
    - destruct (k =? 0); [|discriminate]. inversion L; subst. auto.
    - destruct (k =? 0); [inversion L; subst; auto|].
      destruct (de bs) as [[[v r1]| |] m1] eqn:D; try discriminate.
      destruct (de_ok _ _ _ _ B D) as [Pv B1].
      destruct (loop de ic fuel (k - 1) r1) as [[[vs1 r2]| |] m2] eqn:L1; try discriminate.
      inversion L; subst. destruct (IHfuel _ _ _ _ _ B1 L1) as [A1 A2].
      split; [simpl; rewrite Pv, A1; reflexivity|exact A2].
  Qed.
End LoopWt.

Theorem decode_wt : forall f, nodrop f = true -> forall c bs v rest m,
  bytes_ok bs = true -> decode f c bs = (Ok (v, rest), m) ->
  wt f c v = true /\ bytes_ok rest = true.
Proof.
  induction f; intros ND cx bs v rest m B D; cbn [decode] in D; cbn [nodrop] in ND.
  - (* FUnit *) inversion D; subst. auto.
  - (* FFail *) discriminate.
  - (* FU *) destruct (take w bs) as [[h t]|] eqn:T; [|discriminate]. inversion D; subst.
    destruct (bytes_ok_take _ _ _ _ B T) as [Bh Bt]. split; [|exact Bt].
    cbn [wt]. apply N.ltb_lt. apply take_len in T. destruct T as [L _]. rewrite <- L.
    apply le_val_bound. exact Bh.
  - (* FBool *) destruct bs as [|b t]; [discriminate|]. inversion D; subst.
    simpl in B. apply andb_true_iff in B. destruct B as [_ Bt]. split; [|exact Bt].
    cbn [wt]. destruct k; [destruct (b =? 0)|destruct (b =? 1)]; reflexivity.
  - (* FFix *) destruct (take n bs) as [[h t]|] eqn:T; [|discriminate]. inversion D; subst.
    destruct (bytes_ok_take _ _ _ _ B T) as [Bh Bt]. split; [|exact Bt].
    cbn [wt]. apply take_len in T. destruct T as [L _]. apply Nat.eqb_eq. exact L.
  - (* FVarUint *) destruct (varint_dec bs) as [[n t]|] eqn:V; [|discriminate]. inversion D; subst.
    destruct (bytes_ok_varint _ _ _ B V) as [Vn Bt]. split; [|exact Bt]. cbn [wt]. apply N.ltb_lt. exact Vn.
  - (* FDropVarUint *) discriminate.
  - (* FVarBytes *) destruct (varint_dec bs) as [[n t]|] eqn:V; [|discriminate].
    destruct (bytes_ok_varint _ _ _ B V) as [Vn Bt].
    destruct (max <? n) eqn:M; [discriminate|]. apply N.ltb_ge in M.
    destruct (take_N n t) as [[h t']|] eqn:T; [|discriminate]. inversion D; subst.
    split; [|eapply bytes_ok_take_N; eauto].
    apply take_N_length in T. destruct T as [_ L]. cbn [wt]. rewrite L.
    apply andb_true_iff. split; [apply N.leb_le; exact M|apply N.ltb_lt; exact Vn].
  - (* FTimeMs *) destruct (take 8 bs) as [[h t]|] eqn:T; [|discriminate].
    destruct (bytes_ok_take _ _ _ _ B T) as [Bh Bt].
    destruct (ms_norm (le_val h)) as [v0|] eqn:MS; [|discriminate]. inversion D; subst.
    split; [|exact Bt]. cbn [wt].
    assert (LB : le_val h < 18446744073709551616).
    { apply take_len in T. destruct T as [L _]. pose proof (le_val_bound h Bh) as LB. rewrite L in LB. exact LB. }
    destruct (ms_norm_idem _ _ LB MS) as [V1 V2]. rewrite V2.
    apply andb_true_iff. split; [apply N.ltb_lt; exact V1|apply N.eqb_refl].
  - (* FTailU8List *) destruct bs as [|b0 bs0]; [inversion D; subst; auto|].
    destruct (varint_dec (b0 :: bs0)) as [[n t]|] eqn:V;
      [|destruct bs0; [destruct (253 <=? b0)|]; try discriminate; inversion D; subst; auto].
    destruct (bytes_ok_varint _ _ _ B V) as [Vn Bt].
    destruct (take_upto t n) as [h t'] eqn:T. inversion D; subst.
    apply take_upto_spec in T. destruct T as [T1 T2]. subst t.
    rewrite bytes_ok_app in Bt. apply andb_true_iff in Bt. destruct Bt as [Bh Bt'].
    split; [|exact Bt']. cbn [wt]. rewrite map_length. apply andb_true_iff. split; [apply N.ltb_lt; lia|].
    clear - Bh. induction h; simpl; auto. simpl in Bh. apply andb_true_iff in Bh. destruct Bh as [H1 H2].
    rewrite H1. simpl. auto.
  - (* FSwallowHead *) discriminate.
  - (* FSkipOpt *) destruct bs as [|b t]; inversion D; subst; [auto|].
    simpl in B. apply andb_true_iff in B. destruct B as [_ Bt]. auto.
  - (* FSeq *) apply andb_true_iff in ND. destruct ND as [N1 N2].
    destruct (decode f1 cx bs) as [[[va r1]| |] ma] eqn:D1; try discriminate.
    destruct (IHf1 N1 _ _ _ _ _ B D1) as [W1 B1].
    destruct (decode f2 cx r1) as [[[vb r2]| |] mb] eqn:D2; try discriminate.
    destruct (IHf2 N2 _ _ _ _ _ B1 D2) as [W2 B2]. inversion D; subst.
    split; [cbn [wt]; rewrite W1, W2; reflexivity|exact B2].
  - (* FCounted *)
    destruct (read_cnt c bs) as [[n r0]|] eqn:R; [|discriminate].
    destruct (read_cnt_ok _ _ _ _ B R) as [Nl B0].
    destruct (match bound with Some b => b <? n | None => false end) eqn:BD; [discriminate|].
    destruct (match p with NoPre => false | _ => negb (makeslice_ok n esz) end) eqn:MS; [discriminate|].
    destruct (loop (decode f cx) (iter_cost p esz) (S (length r0)) (if asint && (max_int <? n) then 0 else n) r0)
      as [[[vs r1]| |] ml] eqn:L; try discriminate.
    inversion D; subst.
    destruct (loop_wt (decode f cx) (iter_cost p esz) (wt f cx)
               (fun bs0 v0 rest0 m0 B' D' => IHf ND cx bs0 v0 rest0 m0 B' D') _ _ _ _ _ _ B0 L) as [WA B1].
    split; [|exact B1].
    apply loop_length in L. cbn [wt]. rewrite WA, andb_true_r.
    destruct (asint && (max_int <? n)) eqn:AI.
    + (* the int(count) < 0 case: zero iterations *)
      rewrite L.
      assert (E1 : (0 <? cnt_lim c) = true)
        by (apply N.ltb_lt; destruct c; [reflexivity|apply pow256_pos]).
      assert (E2 : match bound with Some b => 0 <=? b | None => true end = true)
        by (destruct bound; auto; apply N.leb_le; lia).
      assert (E3 : (if asint then 0 <=? max_int else true) = true) by (destruct asint; reflexivity).
      assert (E4 : match p with NoPre => true | _ => makeslice_ok 0 esz end = true)
        by (destruct p; auto; unfold makeslice_ok; rewrite N.mul_0_l; reflexivity).
      rewrite E1, E2, E3, E4. reflexivity.
    + rewrite L.
      replace (n <? cnt_lim c) with true by (symmetry; apply N.ltb_lt; exact Nl).
      replace (match bound with Some b => n <=? b | None => true end) with true
        by (destruct bound; auto; symmetry; apply N.leb_le; apply N.ltb_ge in BD; exact BD).
      replace (if asint then n <=? max_int else true) with true
        by (destruct asint; auto; simpl in AI; symmetry; apply N.leb_le; apply N.ltb_ge in AI; exact AI).
      destruct p; [reflexivity| |]; apply negb_false_iff in MS; rewrite MS; reflexivity.
  - (* FTag *)
    destruct (take w bs) as [[h t]|] eqn:T; [|discriminate].
    destruct (bytes_ok_take _ _ _ _ B T) as [Bh Bt].
    destruct (decode f (tagv nz h :: cx) t) as [[[v0 r0]| |] m0] eqn:D0; try discriminate.
    destruct (IHf ND _ _ _ _ _ Bt D0) as [W0 B0]. inversion D; subst.
    split; [|exact B0]. cbn [wt]. rewrite W0, andb_true_r. apply N.ltb_lt.
    apply take_len in T. destruct T as [L _]. pose proof (le_val_bound h Bh) as LB. rewrite L in LB.
    pose proof (pow256_pos w). unfold tagv. destruct nz; [|exact LB].
    destruct (le_val h =? 0) eqn:Z; [apply N.eqb_eq in Z|apply N.eqb_neq in Z]; lia.
  - (* FCase *) apply andb_true_iff in ND. destruct ND as [N1 N2]. cbn [wt].
    destruct (sel i cx =? n); [eapply IHf1|eapply IHf2]; eauto.
  - (* FCaseGe *) apply andb_true_iff in ND. destruct ND as [N1 N2]. cbn [wt].
    destruct (n <=? sel i cx); [eapply IHf1|eapply IHf2]; eauto.
Qed.

(* a decoded value re-encodes to bytes that decode to the same value *)
Theorem reencode_stable : forall f, wf_alloc f = true -> nodrop f = true -> forall c bs v rest m,
  bytes_ok bs = true -> decode f c bs = (Ok (v, rest), m) ->
  forall rest', fst (decode f c (encode f c v ++ rest')) = Ok (v, rest').
Proof.
  intros f WF ND c bs v rest m B D rest'. apply roundtrip; [exact WF|].
  eapply decode_wt; eauto.
Qed.
