(* C23, program-level tie: the checker of model/C23_Fields.v is sound, and its
   evaluation on the table regenerated from the Go source (gen/C23_fields.v). *)
From Coq Require Import List String Bool.
From ELA Require Import model.C23_Fields gen.C23_fields.
Import ListNotations.
Local Open Scope string_scope.

Lemma pair_eqb_eq a b : pair_eqb a b = true -> a = b.
Proof.
  destruct a, b. unfold pair_eqb. simpl. intros H. apply andb_true_iff in H. destruct H as [H1 H2].
  apply String.eqb_eq in H1, H2. subst. reflexivity.
Qed.

Lemma mem_In p l : mem p l = true -> In p l.
Proof.
  unfold mem. intros H. apply existsb_exists in H. destruct H as [q [I E]].
  apply pair_eqb_eq in E. subst. exact I.
Qed.

(* what [covered] means *)
Lemma covered_sound f : covered f = true ->
  (f_ser f = true /\ f_deser f = true) \/ In (f_struct f, f_name f) (map fst allow_list).
Proof.
  unfold covered, persisted, allowed. intros H. apply orb_true_iff in H. destruct H as [H|H].
  - left. apply andb_true_iff in H. exact H.
  - right. apply mem_In in H. exact H.
Qed.

Lemma table_sound (t : list field) :
  forallb (fun f => covered f || known_gap f) t = true ->
  forall f, In f t ->
    (f_ser f = true /\ f_deser f = true) \/
    In (f_struct f, f_name f) (map fst allow_list) \/
    In (f_struct f, f_name f) known_gaps.
Proof.
  intros H f I. rewrite forallb_forall in H. specialize (H f I).
  apply orb_true_iff in H. destruct H as [H|H].
  - apply covered_sound in H. tauto.
  - right. right. apply mem_In in H. exact H.
Qed.

(* ---- evaluation on the regenerated table *)

(* every field of every checkpoint / key-frame struct in the current source is
   written by Serialize and read back by Deserialize, or is deliberately not
   persisted (allow-list), or is the recorded txpool defect *)
Lemma gen_all_fields_covered :
  forall f, In f table ->
    (f_ser f = true /\ f_deser f = true) \/
    In (f_struct f, f_name f) (map fst allow_list) \/
    In (f_struct f, f_name f) known_gaps.
Proof. apply table_sound. vm_compute. reflexivity. Qed.

Definition field_eqb (a b : field) : bool :=
  String.eqb (f_struct a) (f_struct b) && String.eqb (f_name a) (f_name b) &&
  Bool.eqb (f_ser a) (f_ser b) && Bool.eqb (f_deser a) (f_deser b).

Lemma field_eqb_eq a b : field_eqb a b = true -> a = b.
Proof.
  destruct a, b. unfold field_eqb. simpl. intros H.
  repeat (apply andb_true_iff in H; destruct H as [H ?]).
  apply String.eqb_eq in H. apply String.eqb_eq in H2.
  apply Bool.eqb_prop in H1. apply Bool.eqb_prop in H0. subst. reflexivity.
Qed.

Lemma In_by_eqb f t : existsb (field_eqb f) t = true -> In f t.
Proof.
  intros H. apply existsb_exists in H. destruct H as [g [I E]].
  apply field_eqb_eq in E. subst. exact I.
Qed.

(* the recorded defect is real: txnList is written and never read back *)
Lemma gen_txnlist_refuted :
  exists f, In f table /\ f_struct f = "mempool.txPoolCheckpoint" /\ f_name f = "txnList" /\
            f_ser f = true /\ f_deser f = false /\ covered f = false.
Proof.
  exists (mkfield "mempool.txPoolCheckpoint" "txnList" true false).
  split; [apply In_by_eqb; vm_compute; reflexivity|].
  repeat split.
Qed.

Lemma gen_orders_agree : forallb order_ok orders = true.
Proof. vm_compute. reflexivity. Qed.

Lemma gen_anchors_present : forallb (anchor_present table) anchors = true.
Proof. vm_compute. reflexivity. Qed.

Lemma gen_oracle_skip_allowed : forallb (fun p => mem p (map fst allow_list)) oracle_skip = true.
Proof. vm_compute. reflexivity. Qed.

(* the allow-list and the gap list are not stale: each entry names a field that
   exists in the table and is indeed not persisted *)
Lemma gen_allow_list_exact :
  forallb (fun p => existsb (fun f => pair_eqb (key f) p && negb (persisted f)) table)
          (map fst allow_list ++ known_gaps) = true.
Proof. vm_compute. reflexivity. Qed.
