(* C08 — proofs about the partial-merkle-tree model, for an arbitrary parent
   function H2 on an arbitrary hash type with decidable equality. *)
From Coq Require Import List Bool Arith NArith Lia.
From ELA Require Import model.C07_Merkle proof.C07_Merkle model.C08_PMT.
Import ListNotations.

Section PMTProofs.
  Variable hash : Type.
  Variable hash_eq_dec : forall a b : hash, {a = b} + {a <> b}.
  Variable H2 : hash -> hash -> hash.
  Variable h0 : hash.

  Notation level := (level hash H2).
  Notation iter_level := (iter_level hash H2).
  Notation collision := (collision hash H2).
  Notation heqb := (heqb hash hash_eq_dec).

  (* ------------------------------------------------------------ arithmetic *)
  Lemma pow2_pos h : 0 < 2 ^ h.
  Proof. induction h; simpl; lia. Qed.

  Definition cdiv (n h : nat) : nat := (n + 2 ^ h - 1) / 2 ^ h.

  Lemma cdiv_0 n : cdiv n 0 = n.
  Proof. unfold cdiv. change (2 ^ 0) with 1. rewrite Nat.div_1_r. lia. Qed.

  (* ceil(n / 2^h) characterised: the least w with n <= w * 2^h *)
  Lemma cdiv_spec n h w : cdiv n h <= w <-> n <= w * 2 ^ h.
  Proof.
    unfold cdiv. pose proof (pow2_pos h) as P. set (a := 2 ^ h) in *.
    split; intros HH.
    - pose proof (Nat.div_mod (n + a - 1) a ltac:(lia)) as E.
      pose proof (Nat.mod_upper_bound (n + a - 1) a ltac:(lia)) as B.
      assert (a * ((n + a - 1) / a) <= a * w) by (apply Nat.mul_le_mono_l; lia). lia.
    - assert (LT : (n + a - 1) / a < S w); [|lia].
      apply Nat.div_lt_upper_bound; [lia|]. lia.
  Qed.

  Lemma cdiv_lt n h p : p < cdiv n h <-> p * 2 ^ h < n.
  Proof. pose proof (cdiv_spec n h p). lia. Qed.

  Lemma cdiv_S n h : cdiv n (S h) = Nat.div2 (S (cdiv n h)).
  Proof.
    apply Nat.le_antisymm.
    - apply cdiv_spec. rewrite Nat.pow_succ_r'.
      assert (cdiv n h <= 2 * Nat.div2 (S (cdiv n h))).
      { pose proof (Nat.div2_odd (S (cdiv n h))) as D.
        destruct (Nat.odd (S (cdiv n h))); simpl Nat.b2n in D; lia. }
      pose proof (proj1 (cdiv_spec n h (cdiv n h)) (le_n _)). nia.
    - assert (HH : forall w, cdiv n (S h) <= w -> Nat.div2 (S (cdiv n h)) <= w).
      { intros w Hw. apply cdiv_spec in Hw. rewrite Nat.pow_succ_r' in Hw.
        assert (cdiv n h <= 2 * w) by (apply cdiv_spec; lia).
        pose proof (Nat.div2_odd (S (cdiv n h))) as D.
        destruct (Nat.odd (S (cdiv n h))); simpl Nat.b2n in D; lia. }
      apply HH. lia.
  Qed.

  Lemma cdiv_child n h p : p < cdiv n (S h) <-> 2 * p < cdiv n h.
  Proof. rewrite !cdiv_lt, Nat.pow_succ_r'. lia. Qed.

  (* ------------------------------------------------------------ rows of the tree *)
  Lemma iter_level_length l h : length (iter_level h l) = cdiv (length l) h.
  Proof.
    revert l. induction h; intros l.
    - simpl. symmetry. apply cdiv_0.
    - rewrite (iter_level_S hash H2), (level_length hash H2), IHh, cdiv_S. reflexivity.
  Qed.

  Lemma nth_level (L : list hash) : forall p, p < length (level L) ->
    nth p (level L) h0 =
    H2 (nth (2 * p) L h0) (if 2 * p + 1 <? length L then nth (2 * p + 1) L h0 else nth (2 * p) L h0).
  Proof.
    induction L using (list_ind2 hash); intros p Hp; simpl in Hp.
    - lia.
    - assert (p = 0) by lia. subst. reflexivity.
    - destruct p as [|p].
      + reflexivity.
      + simpl level. simpl nth at 1. rewrite IHL by lia.
        replace (2 * S p) with (S (S (2 * p))) by lia.
        replace (S (S (2 * p)) + 1) with (S (S (2 * p + 1))) by lia.
        simpl nth. simpl length.
        destruct (2 * p + 1 <? length L) eqn:E1; destruct (S (S (2 * p + 1)) <? S (S (length L))) eqn:E2;
          try reflexivity; apply Nat.ltb_lt in E1 || apply Nat.ltb_ge in E1;
          apply Nat.ltb_lt in E2 || apply Nat.ltb_ge in E2; lia.
  Qed.

  Section WithBlock.
    Variable txs : list hash.
    Notation n := (length txs).
    Notation width := (width hash txs).
    Notation calc_hash := (calc_hash hash H2 h0 txs).

    Lemma width_cdiv h : width h = cdiv n h.
    Proof. reflexivity. Qed.

    Lemma calc_hash_S h p : calc_hash (S h) p =
      H2 (calc_hash h (2 * p)) (if 2 * p + 1 <? width h then calc_hash h (2 * p + 1) else calc_hash h (2 * p)).
    Proof. reflexivity. Qed.

    (* CalcHash(h, pos) is the pos-th node of the h-th row of the C07 tree *)
    Lemma calc_hash_row h : forall p, p < width h -> calc_hash h p = nth p (iter_level h txs) h0.
    Proof.
      induction h; intros p Hp.
      - reflexivity.
      - rewrite (iter_level_S hash H2). rewrite nth_level.
        2:{ rewrite <- (iter_level_S hash H2), iter_level_length. exact Hp. }
        rewrite iter_level_length. rewrite width_cdiv in Hp. apply cdiv_child in Hp.
        rewrite calc_hash_S, width_cdiv.
        rewrite IHh by (rewrite width_cdiv; lia).
        destruct (2 * p + 1 <? cdiv n h) eqn:E; [|reflexivity].
        apply Nat.ltb_lt in E. rewrite IHh by (rewrite width_cdiv; lia). reflexivity.
    Qed.

    (* equal siblings in a duplicate-free block exhibit a collision *)
    Lemma sib_eq_collision h p : NoDup txs -> 2 * p + 1 < width h ->
      calc_hash h (2 * p) = calc_hash h (2 * p + 1) -> collision.
    Proof.
      intros ND Hp E.
      destruct (nodup_iter hash hash_eq_dec H2 h _ ND) as [NL|C]; [|exact C].
      rewrite !calc_hash_row in E by lia.
      assert (L : length (iter_level h txs) = width h) by apply iter_level_length.
      rewrite NoDup_nth with (d := h0) in NL.
      specialize (NL (2 * p) (2 * p + 1) ltac:(lia) ltac:(lia) E). lia.
    Qed.

    (* ---------------------------------------------------------- list segments *)
    Definition seg {A} (l : list A) (h p : nat) : list A := firstn (2 ^ h) (skipn (p * 2 ^ h) l).

    Lemma firstn_plus {A} a : forall b (l : list A), firstn (a + b) l = firstn a l ++ firstn b (skipn a l).
    Proof.
      induction a; intros b l; simpl; [reflexivity|].
      destruct l; simpl; [now rewrite firstn_nil|]. now rewrite IHa.
    Qed.

    Lemma skipn_plus {A} k : forall a (l : list A), skipn a (skipn k l) = skipn (k + a) l.
    Proof.
      induction k; intros a l; simpl; [reflexivity|].
      destruct l; simpl; [now rewrite skipn_nil|]. apply IHk.
    Qed.

    Lemma seg_S {A} (l : list A) h p : seg l (S h) p = seg l h (2 * p) ++ seg l h (2 * p + 1).
    Proof.
      unfold seg. rewrite Nat.pow_succ_r'.
      replace (2 * 2 ^ h) with (2 ^ h + 2 ^ h) by lia.
      rewrite firstn_plus, skipn_plus. f_equal; f_equal; f_equal; lia.
    Qed.

    Lemma seg_length {A} (l : list A) h p : length (seg l h p) = Nat.min (2 ^ h) (length l - p * 2 ^ h).
    Proof. unfold seg. now rewrite firstn_length, skipn_length. Qed.

    Lemma seg_0 {A} (l : list A) p d : p < length l -> seg l 0 p = [nth p l d].
    Proof.
      unfold seg. change (2 ^ 0) with 1. rewrite Nat.mul_1_r. revert p.
      induction l; intros p Hp; simpl in Hp; [lia|].
      destruct p; simpl; [reflexivity|]. apply IHl. lia.
    Qed.

    Lemma seg_beyond {A} (l : list A) h p : length l <= p * 2 ^ h -> seg l h p = [].
    Proof. intros HL. unfold seg. rewrite skipn_all2 by exact HL. apply firstn_nil. Qed.

    Lemma matched_app a : forall c b d, length a = length c ->
      matched hash (a ++ b) (c ++ d) = matched hash a c ++ matched hash b d.
    Proof.
      induction a; intros [|x c] b d HL; try discriminate; simpl; [reflexivity|].
      destruct x; simpl; rewrite IHa by (simpl in HL; lia); reflexivity.
    Qed.

    Lemma matched_none a : forall c, existsb (fun b => b) c = false -> matched hash a c = [].
    Proof.
      induction a; intros [|x c] HE; simpl in *; try reflexivity.
      destruct x; simpl in HE; [discriminate|]. auto.
    Qed.

    Lemma matched_nil_r a : matched hash a [] = [].
    Proof. destruct a; reflexivity. Qed.

    Lemma matched_in a : forall c x, In x (matched hash a c) -> In x a.
    Proof.
      induction a; intros [|b c] x HI; simpl in *; try contradiction.
      destruct b; simpl in HI; [destruct HI; auto|]; right; eauto.
    Qed.

    (* ---------------------------------------------------------- completeness *)
    Section WithPattern.
      Variable mt : list bool.
      Hypothesis Hmt : length mt = n.
      Notation build := (build hash H2 h0 txs mt).
      Notation covers := (covers mt).
      Notation parse := (parse hash hash_eq_dec H2 n).

      Definition matched_seg (h p : nat) : list hash := matched hash (seg txs h p) (seg mt h p).

      Lemma matched_seg_S h p : matched_seg (S h) p = matched_seg h (2 * p) ++ matched_seg h (2 * p + 1).
      Proof.
        unfold matched_seg. rewrite !seg_S. apply matched_app.
        rewrite !seg_length, Hmt. reflexivity.
      Qed.

      Lemma matched_seg_top h : n <= 2 ^ h -> matched_seg h 0 = matched hash txs mt.
      Proof.
        intros HL. unfold matched_seg, seg. simpl. rewrite !firstn_all2 by lia. reflexivity.
      Qed.

      Lemma build_S h p : build (S h) p =
        if covers (S h) p then
          let '(b1, x1) := build h (2 * p) in
          if 2 * p + 1 <? width h then
            let '(b2, x2) := build h (2 * p + 1) in (true :: b1 ++ b2, x1 ++ x2)
          else (true :: b1, x1)
        else ([false], [calc_hash (S h) p]).
      Proof. reflexivity. Qed.

      Lemma seg_beyond_matched h p : n <= p * 2 ^ h -> matched_seg h p = [].
      Proof. intros HL. unfold matched_seg. rewrite (seg_beyond txs) by exact HL. reflexivity. Qed.

      Lemma parse_build_node : NoDup txs -> forall h p, p < width h -> forall eb eh,
        parse h p (fst (build h p) ++ eb) (snd (build h p) ++ eh)
          = Some (calc_hash h p, matched_seg h p, eb, eh) \/ collision.
      Proof.
        intros ND. induction h; intros p Hp eb eh.
        - left. simpl. rewrite width_cdiv, cdiv_0 in Hp.
          unfold matched_seg. rewrite (seg_0 txs p h0) by lia. rewrite (seg_0 mt p false) by lia.
          unfold C08_PMT.covers. fold (seg mt 0 p). rewrite (seg_0 mt p false) by lia.
          simpl. rewrite orb_false_r. destruct (nth p mt false); reflexivity.
        - assert (Hp' : 2 * p < width h) by (rewrite width_cdiv in *; apply cdiv_child; exact Hp).
          rewrite build_S. destruct (covers (S h) p) eqn:EC.
          2:{ left. simpl. unfold matched_seg. rewrite matched_none; [reflexivity|exact EC]. }
          destruct (IHh (2 * p) Hp') with (eb := eb) (eh := eh) as [_|C]; [|right; exact C].
          destruct (build h (2 * p)) as [b1 x1] eqn:E1.
          destruct (2 * p + 1 <? width h) eqn:ER.
          + apply Nat.ltb_lt in ER.
            destruct (build h (2 * p + 1)) as [b2 x2] eqn:E2.
            destruct (IHh (2 * p) Hp' (b2 ++ eb) (x2 ++ eh)) as [P1|C]; [|right; exact C].
            destruct (IHh (2 * p + 1) ER eb eh) as [P2|C]; [|right; exact C].
            rewrite E1 in P1. rewrite E2 in P2. simpl fst in *. simpl snd in *.
            destruct (hash_eq_dec (calc_hash h (2 * p)) (calc_hash h (2 * p + 1))) as [EQ|NE].
            { right. eapply sib_eq_collision; eauto. }
            left. cbn [fst snd app]. rewrite <- !app_assoc.
            change (parse (S h) p (true :: b1 ++ b2 ++ eb) (x1 ++ x2 ++ eh)) with
              (match parse h (2 * p) (b1 ++ b2 ++ eb) (x1 ++ x2 ++ eh) with
               | None => None
               | Some (l, ml, bits2, hs2) =>
                 if 2 * p + 1 <? pwidth n h then
                   match parse h (2 * p + 1) bits2 hs2 with
                   | None => None
                   | Some (r, mr, bits3, hs3) =>
                     if heqb l r then None else Some (H2 l r, ml ++ mr, bits3, hs3)
                   end
                 else Some (H2 l l, ml, bits2, hs2)
               end).
            rewrite P1. change (pwidth n h) with (width h).
            replace (2 * p + 1 <? width h) with true by (symmetry; apply Nat.ltb_lt; exact ER).
            rewrite P2. unfold C08_PMT.heqb. destruct (hash_eq_dec _ _) as [EQ|_]; [contradiction|].
            rewrite calc_hash_S, matched_seg_S.
            replace (2 * p + 1 <? width h) with true by (symmetry; apply Nat.ltb_lt; exact ER).
            reflexivity.
          + destruct (IHh (2 * p) Hp' eb eh) as [P1|C]; [|right; exact C].
            rewrite E1 in P1. simpl fst in *. simpl snd in *.
            left. cbn [fst snd app].
            change (parse (S h) p (true :: b1 ++ eb) (x1 ++ eh)) with
              (match parse h (2 * p) (b1 ++ eb) (x1 ++ eh) with
               | None => None
               | Some (l, ml, bits2, hs2) =>
                 if 2 * p + 1 <? pwidth n h then
                   match parse h (2 * p + 1) bits2 hs2 with
                   | None => None
                   | Some (r, mr, bits3, hs3) =>
                     if heqb l r then None else Some (H2 l r, ml ++ mr, bits3, hs3)
                   end
                 else Some (H2 l l, ml, bits2, hs2)
               end).
            rewrite P1. change (pwidth n h) with (width h). rewrite ER.
            rewrite calc_hash_S, matched_seg_S, ER.
            rewrite (seg_beyond_matched h (2 * p + 1)), app_nil_r; [reflexivity|].
            apply Nat.ltb_ge in ER. rewrite width_cdiv in ER.
            pose proof (cdiv_lt n h (2 * p + 1)). lia.
      Qed.
    End WithPattern.

    (* ---------------------------------------------------------- tree height *)
    Notation tree_height := (tree_height hash txs).

    Lemma height_from_small fuel : forall h, n <= 2 ^ (h + fuel) ->
      width (height_from hash txs fuel h) <= 1.
    Proof.
      induction fuel; intros h HL; simpl.
      - rewrite Nat.add_0_r in HL. rewrite width_cdiv. apply cdiv_spec. lia.
      - destruct (width h <=? 1) eqn:E; [apply Nat.leb_le in E; exact E|].
        apply IHfuel. replace (S h + fuel) with (h + S fuel) by lia. exact HL.
    Qed.

    Lemma height_from_min fuel : forall h j, h <= j < height_from hash txs fuel h -> 1 < width j.
    Proof.
      induction fuel; intros h j HJ; simpl in HJ; [lia|].
      destruct (width h <=? 1) eqn:E; [lia|]. apply Nat.leb_gt in E.
      destruct (Nat.eq_dec j h) as [->|NE]; [exact E|]. apply (IHfuel (S h)). lia.
    Qed.

    Lemma height_from_le fuel : forall h, height_from hash txs fuel h <= h + fuel.
    Proof.
      induction fuel; intros h; simpl; [lia|].
      destruct (width h <=? 1); [lia|]. specialize (IHfuel (S h)). lia.
    Qed.

    Lemma tree_height_small : n <= 2 ^ tree_height.
    Proof.
      assert (W : width tree_height <= 1).
      { apply height_from_small. simpl. pose proof (Nat.pow_gt_lin_r 2 n ltac:(lia)). lia. }
      rewrite width_cdiv in W. apply cdiv_spec in W. lia.
    Qed.

    Lemma width_pos h : txs <> [] -> 0 < width h.
    Proof.
      intros NE. rewrite width_cdiv. apply cdiv_lt. destruct txs; [congruence|simpl; lia].
    Qed.

    (* the top of the partial tree is the merkle root of C07 (crypto.ComputeRoot) *)
    Lemma root_fuel_iter k : forall l f x,
      (forall j, j < k -> 2 <= length (iter_level j l)) -> iter_level k l = [x] -> k <= f ->
      root_fuel hash H2 f l = Some x.
    Proof.
      induction k; intros l f x Hmin HI Hf.
      - simpl in HI. subst l. destruct f; reflexivity.
      - pose proof (Hmin 0 ltac:(lia)) as H0. simpl in H0.
        destruct l as [|a [|b t]]; simpl in H0; try lia.
        destruct f as [|f]; [lia|].
        change (root_fuel hash H2 f (level (a :: b :: t)) = Some x).
        apply IHk; [|exact HI|lia].
        intros j Hj. apply (Hmin (S j)). lia.
    Qed.

    Theorem calc_root_merkle : txs <> [] ->
      merkle_root hash H2 txs = Some (calc_hash tree_height 0).
    Proof.
      intros NE. unfold C07_Merkle.merkle_root.
      apply root_fuel_iter with (k := tree_height).
      - intros j Hj. rewrite iter_level_length, <- width_cdiv.
        apply (height_from_min n 0 j). unfold C08_PMT.tree_height in Hj. lia.
      - assert (L : length (iter_level tree_height txs) = 1).
        { rewrite iter_level_length, <- width_cdiv.
          assert (width tree_height <= 1).
          { apply height_from_small. simpl. pose proof (Nat.pow_gt_lin_r 2 n ltac:(lia)). lia. }
          pose proof (width_pos tree_height NE). lia. }
        rewrite calc_hash_row by (apply width_pos; exact NE).
        destruct (iter_level tree_height txs) as [|y [|? ?]]; simpl in L; try lia. reflexivity.
      - pose proof (height_from_le n 0). unfold C08_PMT.tree_height. lia.
    Qed.

    (* ---------------------------------------------------------- soundness (claimed count = real count) *)
    Notation parse := (parse hash hash_eq_dec H2 n).

    Lemma parse_sound_node : forall h p bits hs x ms b' h', p < width h ->
      parse h p bits hs = Some (x, ms, b', h') -> x = calc_hash h p ->
      Forall (fun m => In m (seg txs h p)) ms \/ collision.
    Proof.
      induction h; intros p bits hs x ms b' h' Hp HP HX.
      - left. destruct bits as [|b bits1]; [discriminate|]. simpl in HP.
        destruct hs as [|y hs1]; [discriminate|]. injection HP as <- <- _ _.
        rewrite width_cdiv, cdiv_0 in Hp. rewrite (seg_0 txs p h0) by exact Hp.
        subst y. simpl. destruct b; repeat constructor.
      - destruct bits as [|b bits1]; [discriminate|].
        assert (Hp' : 2 * p < width h) by (rewrite width_cdiv in *; apply cdiv_child; exact Hp).
        change (parse (S h) p (b :: bits1) hs) with
          (if b then
            match parse h (2 * p) bits1 hs with
            | None => None
            | Some (l, ml, bits2, hs2) =>
              if 2 * p + 1 <? pwidth n h then
                match parse h (2 * p + 1) bits2 hs2 with
                | None => None
                | Some (r, mr, bits3, hs3) =>
                  if heqb l r then None else Some (H2 l r, ml ++ mr, bits3, hs3)
                end
              else Some (H2 l l, ml, bits2, hs2)
            end
          else match hs with [] => None | x :: hs1 => Some (x, [], bits1, hs1) end) in HP.
        destruct b.
        2:{ left. destruct hs; [discriminate|]. injection HP as _ <- _ _. constructor. }
        destruct (parse h (2 * p) bits1 hs) as [[[[l ml] bits2] hs2]|] eqn:PL; [|discriminate].
        change (pwidth n h) with (width h) in HP. rewrite calc_hash_S in HX.
        destruct (2 * p + 1 <? width h) eqn:ER.
        + apply Nat.ltb_lt in ER.
          destruct (parse h (2 * p + 1) bits2 hs2) as [[[[r mr] bits3] hs3]|] eqn:PR; [|discriminate].
          destruct (heqb l r); [discriminate|]. injection HP as <- <- _ _.
          destruct (h2_inj hash hash_eq_dec H2 _ _ _ _ HX) as [[EL ERt]|C]; [|right; exact C].
          destruct (IHh _ _ _ _ _ _ _ Hp' PL EL) as [FL|C]; [|right; exact C].
          destruct (IHh _ _ _ _ _ _ _ ER PR ERt) as [FR|C]; [|right; exact C].
          left. rewrite seg_S. apply Forall_app. split; eapply Forall_impl; try eassumption;
            intros a Ha; simpl in Ha; apply in_or_app; auto.
        + injection HP as <- <- _ _.
          destruct (h2_inj hash hash_eq_dec H2 _ _ _ _ HX) as [[EL _]|C]; [|right; exact C].
          destruct (IHh _ _ _ _ _ _ _ Hp' PL EL) as [FL|C]; [|right; exact C].
          left. rewrite seg_S. eapply Forall_impl; try eassumption.
          intros a Ha; simpl in Ha; apply in_or_app; auto.
    Qed.

    (* Soundness for an arbitrary claimed transaction count [n'] (the header
       does not commit to the count): parser height [hp] against real height [hr]. *)
    Lemma parse_sound_any n' : NoDup txs -> forall hp hr p bits hs x ms b' h', p < width hr ->
      C08_PMT.parse hash hash_eq_dec H2 n' hp p bits hs = Some (x, ms, b', h') -> x = calc_hash hr p ->
      Forall (fun m => In m txs \/ exists a b, m = H2 a b) ms \/ collision \/ leaf_is_node hash H2 txs.
    Proof.
      intros ND. induction hp; intros hr p bits hs x ms b' h' Hp HP HX.
      - left. destruct bits as [|b bits1]; [discriminate|]. simpl in HP.
        destruct hs as [|y hs1]; [discriminate|]. injection HP as <- <- _ _. subst y.
        destruct b; [|constructor]. constructor; [|constructor].
        destruct hr.
        + left. apply nth_In. rewrite width_cdiv, cdiv_0 in Hp. exact Hp.
        + right. rewrite calc_hash_S. eauto.
      - destruct bits as [|b bits1]; [discriminate|].
        change (C08_PMT.parse hash hash_eq_dec H2 n' (S hp) p (b :: bits1) hs) with
          (if b then
            match C08_PMT.parse hash hash_eq_dec H2 n' hp (2 * p) bits1 hs with
            | None => None
            | Some (l, ml, bits2, hs2) =>
              if 2 * p + 1 <? pwidth n' hp then
                match C08_PMT.parse hash hash_eq_dec H2 n' hp (2 * p + 1) bits2 hs2 with
                | None => None
                | Some (r, mr, bits3, hs3) =>
                  if heqb l r then None else Some (H2 l r, ml ++ mr, bits3, hs3)
                end
              else Some (H2 l l, ml, bits2, hs2)
            end
          else match hs with [] => None | x :: hs1 => Some (x, [], bits1, hs1) end) in HP.
        destruct b.
        2:{ left. destruct hs; [discriminate|]. injection HP as _ <- _ _. constructor. }
        destruct (C08_PMT.parse hash hash_eq_dec H2 n' hp (2 * p) bits1 hs) as [[[[l ml] bits2] hs2]|] eqn:PL;
          [|discriminate].
        destruct hr as [|hr].
        { (* the real node is a transaction, the message expands it *)
          right. right. exists (nth p txs h0).
          assert (HI : In (nth p txs h0) txs) by (apply nth_In; rewrite width_cdiv, cdiv_0 in Hp; exact Hp).
          simpl in HX.
          destruct (2 * p + 1 <? pwidth n' hp).
          - destruct (C08_PMT.parse hash hash_eq_dec H2 n' hp (2 * p + 1) bits2 hs2) as [[[[r mr] bits3] hs3]|];
              [|discriminate].
            destruct (heqb l r); [discriminate|]. injection HP as <- _ _ _. eauto.
          - injection HP as <- _ _ _. eauto. }
        assert (Hp' : 2 * p < width hr) by (rewrite width_cdiv in *; apply cdiv_child; exact Hp).
        rewrite calc_hash_S in HX.
        destruct (2 * p + 1 <? pwidth n' hp) eqn:EP.
        + destruct (C08_PMT.parse hash hash_eq_dec H2 n' hp (2 * p + 1) bits2 hs2) as [[[[r mr] bits3] hs3]|] eqn:PR;
            [|discriminate].
          unfold C08_PMT.heqb in HP. destruct (hash_eq_dec l r) as [|NLR]; [discriminate|].
          injection HP as <- <- _ _.
          destruct (h2_inj hash hash_eq_dec H2 _ _ _ _ HX) as [[EL ERt]|C]; [|right; left; exact C].
          destruct (2 * p + 1 <? width hr) eqn:ER.
          * apply Nat.ltb_lt in ER.
            destruct (IHhp _ _ _ _ _ _ _ _ Hp' PL EL) as [FL|A]; [|right; exact A].
            destruct (IHhp _ _ _ _ _ _ _ _ ER PR ERt) as [FR|A]; [|right; exact A].
            left. apply Forall_app. split; assumption.
          * exfalso. congruence.
        + injection HP as <- <- _ _.
          destruct (h2_inj hash hash_eq_dec H2 _ _ _ _ HX) as [[EL ERt]|C]; [|right; left; exact C].
          destruct (2 * p + 1 <? width hr) eqn:ER.
          * apply Nat.ltb_lt in ER. right. left.
            apply (sib_eq_collision hr p ND ER). congruence.
          * destruct (IHhp _ _ _ _ _ _ _ _ Hp' PL EL) as [FL|A]; [|right; exact A].
            left. exact FL.
    Qed.

    Lemma seg_incl {A} (l : list A) h p x : In x (seg l h p) -> In x l.
    Proof.
      unfold seg. intros HI.
      rewrite <- (firstn_skipn (p * 2 ^ h) l). apply in_or_app. right.
      rewrite <- (firstn_skipn (2 ^ h) (skipn (p * 2 ^ h) l)). apply in_or_app. left. exact HI.
    Qed.

    (* ---------------------------------------------------------- merkle branch *)
    Fixpoint shr (levels i : nat) : nat :=
      match levels with O => i | S l => shr l (Nat.div2 i) end.

    Lemma shr_width levels : forall h i, i < width h -> shr levels i < width (levels + h).
    Proof.
      induction levels; intros h i Hi; simpl; [exact Hi|].
      replace (S (levels + h)) with (levels + S h) by lia. apply IHlevels.
      rewrite width_cdiv in *. apply cdiv_child.
      pose proof (Nat.div2_odd i). destruct (Nat.odd i); simpl Nat.b2n in *; lia.
    Qed.

    Lemma odd_sd x : N.odd (N.succ_double x) = true.
    Proof. destruct x; reflexivity. Qed.
    Lemma odd_d x : N.odd (N.double x) = false.
    Proof. destruct x; reflexivity. Qed.

    Lemma branch_eval_node levels : forall h i, i < width h ->
      eval_branch hash H2 (calc_hash h i)
                  (fst (branch hash H2 h0 txs levels h i)) (snd (branch hash H2 h0 txs levels h i))
      = calc_hash (levels + h) (shr levels i).
    Proof.
      induction levels; intros h i Hi; [reflexivity|].
      assert (Hk : Nat.div2 i < width (S h)).
      { rewrite width_cdiv in *. apply cdiv_child.
        pose proof (Nat.div2_odd i). destruct (Nat.odd i); simpl Nat.b2n in *; lia. }
      specialize (IHlevels (S h) (Nat.div2 i) Hk).
      replace (S levels + h) with (levels + S h) by lia.
      change (shr (S levels) i) with (shr levels (Nat.div2 i)). rewrite <- IHlevels.
      simpl branch. destruct (branch hash H2 h0 txs levels (S h) (Nat.div2 i)) as [rest idx].
      pose proof (Nat.div2_odd i) as D. rewrite <- Nat.negb_odd.
      rewrite (calc_hash_S h (Nat.div2 i)).
      destruct (Nat.odd i) eqn:EO; simpl negb; simpl Nat.b2n in D; cbv iota.
      - cbn [fst snd eval_branch]. rewrite odd_sd, N.div2_succ_double.
        replace (i - 1) with (2 * Nat.div2 i) by lia.
        replace (2 * Nat.div2 i + 1) with i by lia.
        replace (i <? width h) with true by (symmetry; apply Nat.ltb_lt; exact Hi). reflexivity.
      - replace (2 * Nat.div2 i + 1) with (i + 1) by lia.
        replace (2 * Nat.div2 i) with i by lia.
        destruct (i + 1 <? width h) eqn:ER; cbn [fst snd eval_branch].
        + rewrite odd_d, N.div2_double. reflexivity.
        + rewrite odd_sd, N.div2_succ_double. reflexivity.
    Qed.
  End WithBlock.

  (* ------------------------------------------------------------ flag packing *)
  Lemma byte_roundtrip c : length c <= 8 ->
    bits_of_byte (byte_of_bits c 1) = c ++ repeat false (8 - length c).
  Proof.
    intros HL.
    destruct c as [|b0 [|b1 [|b2 [|b3 [|b4 [|b5 [|b6 [|b7 [|? ?]]]]]]]]]; simpl in HL; try lia;
      repeat match goal with b : bool |- _ => destruct b end; reflexivity.
  Qed.

  Lemma unpack_pack fuel : forall bs, length bs <= fuel ->
    exists pad, unpack_flags (pack fuel bs) = bs ++ pad.
  Proof.
    induction fuel; intros bs HL.
    - destruct bs; [exists []; reflexivity|simpl in HL; lia].
    - destruct bs as [|b bs']; [exists []; reflexivity|].
      remember (b :: bs') as l eqn:El.
      assert (E : pack (S fuel) l = byte_of_bits (firstn 8 l) 1 :: pack fuel (skipn 8 l))
        by (subst l; reflexivity).
      rewrite E. unfold unpack_flags. cbn [flat_map]. fold (unpack_flags (pack fuel (skipn 8 l))).
      rewrite byte_roundtrip by (rewrite firstn_length; lia).
      destruct (IHfuel (skipn 8 l)) as [pad HP].
      { rewrite skipn_length. subst l. simpl length in *. lia. }
      rewrite HP. destruct (le_lt_dec 8 (length l)) as [GE|LT].
      + rewrite firstn_length, Nat.min_l by lia. rewrite Nat.sub_diag. simpl repeat.
        exists pad. rewrite app_nil_r, app_assoc, firstn_skipn. reflexivity.
      + rewrite skipn_all2 by lia. rewrite firstn_all2 by lia.
        exists ((repeat false (8 - length l) ++ []) ++ pad). rewrite !app_assoc. reflexivity.
  Qed.

  (* ------------------------------------------------------------ top-level theorems *)
  Lemma pheight_from_eq txs fuel : forall h,
    pheight_from (length txs) fuel h = height_from hash txs fuel h.
  Proof. induction fuel; intros h; simpl; [reflexivity|]. rewrite IHfuel. reflexivity. Qed.

  Lemma pheight_eq txs : pheight (length txs) = tree_height hash txs.
  Proof. apply pheight_from_eq. Qed.

  Lemma build_bits_nonempty txs mt h p : fst (build hash H2 h0 txs mt h p) <> [].
  Proof.
    destruct h; [simpl; discriminate|]. rewrite build_S.
    destruct (covers mt (S h) p); [|simpl; discriminate].
    destruct (build hash H2 h0 txs mt h (2 * p)) as [b1 x1].
    destruct (2 * p + 1 <? width hash txs h); [|simpl; discriminate].
    destruct (build hash H2 h0 txs mt h (2 * p + 1)) as [b2 x2]. simpl; discriminate.
  Qed.

  (* Completeness and exactness: the merkle block built for any match pattern
     verifies against the block's merkle root and yields exactly the matched ids. *)
  Theorem parse_build txs mt r : NoDup txs -> length mt = length txs ->
    merkle_root hash H2 txs = Some r ->
    let bh := build hash H2 h0 txs mt (tree_height hash txs) 0 in
    parse_top hash hash_eq_dec H2 (length txs) r (pack_flags (fst bh)) (snd bh)
      = Some (matched hash txs mt) \/ collision.
  Proof.
    intros ND Hmt HR bh.
    assert (NE : txs <> []) by (intros ->; discriminate).
    rewrite (calc_root_merkle txs NE) in HR. injection HR as <-.
    destruct (unpack_pack (length (fst bh)) (fst bh) (le_n _)) as [pad HU].
    destruct (parse_build_node txs mt Hmt ND (tree_height hash txs) 0 (width_pos txs _ NE) pad [])
      as [P|C]; [|right; exact C].
    left. unfold parse_top.
    assert (length txs =? 0 = false) as -> by (apply Nat.eqb_neq; destruct txs; [congruence|simpl; lia]).
    assert (length (pack_flags (fst bh)) =? 0 = false) as ->.
    { apply Nat.eqb_neq. unfold pack_flags. pose proof (build_bits_nonempty txs mt (tree_height hash txs) 0) as NB.
      fold bh in NB. destruct (fst bh); [congruence|]. simpl. lia. }
    simpl orb. cbv iota. unfold pack_flags. rewrite HU, pheight_eq.
    fold bh in P. rewrite app_nil_r in P. rewrite P.
    unfold C08_PMT.heqb. destruct (hash_eq_dec _ _) as [_|NQ]; [|congruence].
    rewrite matched_seg_top; [reflexivity|..]; first [exact Hmt|apply tree_height_small].
  Qed.

  (* Soundness (for the true transaction count): whatever message verifies
     against the block's merkle root, the ids it yields are ids of the block. *)
  Theorem parse_sound txs r flags hs ms :
    merkle_root hash H2 txs = Some r ->
    parse_top hash hash_eq_dec H2 (length txs) r flags hs = Some ms ->
    Forall (fun m => In m txs) ms \/ collision.
  Proof.
    intros HR HP.
    assert (NE : txs <> []) by (intros ->; discriminate).
    rewrite (calc_root_merkle txs NE) in HR. injection HR as <-.
    unfold parse_top in HP.
    destruct ((length txs =? 0) || (length flags =? 0)); [discriminate|].
    rewrite pheight_eq in HP.
    destruct (parse hash hash_eq_dec H2 (length txs) (tree_height hash txs) 0 (unpack_flags flags) hs)
      as [[[[x ms'] b'] h']|] eqn:PP; [|discriminate].
    unfold C08_PMT.heqb in HP. destruct (hash_eq_dec x _) as [EQ|_]; [|discriminate].
    injection HP as <-.
    destruct (parse_sound_node txs _ _ _ _ _ _ _ _ (width_pos txs _ NE) PP EQ) as [F|C]; [|right; exact C].
    left. eapply Forall_impl; [|exact F]. intros a Ha. simpl in Ha. eapply seg_incl; eauto.
  Qed.

  (* Soundness for any claimed count: whatever count, flags and hashes the
     message carries, if it verifies against the block's merkle root then every
     id it yields is an id of the block or an interior-node hash, or an anomaly
     (collision; a transaction id of the block that is an interior node) is exhibited. *)
  Theorem parse_sound_any_count txs n' r flags hs ms : NoDup txs ->
    merkle_root hash H2 txs = Some r ->
    parse_top hash hash_eq_dec H2 n' r flags hs = Some ms ->
    Forall (fun m => In m txs \/ exists a b, m = H2 a b) ms
    \/ collision \/ leaf_is_node hash H2 txs.
  Proof.
    intros ND HR HP.
    assert (NE : txs <> []) by (intros ->; discriminate).
    rewrite (calc_root_merkle txs NE) in HR. injection HR as <-.
    unfold parse_top in HP.
    destruct ((n' =? 0) || (length flags =? 0)); [discriminate|].
    destruct (parse hash hash_eq_dec H2 n' (pheight n') 0 (unpack_flags flags) hs)
      as [[[[x ms'] b'] h']|] eqn:PP; [|discriminate].
    unfold C08_PMT.heqb in HP. destruct (hash_eq_dec x _) as [EQ|_]; [|discriminate].
    injection HP as <-.
    exact (parse_sound_any txs n' ND _ _ _ _ _ _ _ _ _ (width_pos txs _ NE) PP EQ).
  Qed.

  (* The merkle branch of transaction i evaluates to the block's merkle root. *)
  Theorem branch_eval txs i r : i < length txs ->
    merkle_root hash H2 txs = Some r ->
    let b := branch hash H2 h0 txs (tree_height hash txs) 0 i in
    eval_branch hash H2 (nth i txs h0) (fst b) (snd b) = r.
  Proof.
    intros Hi HR b.
    assert (NE : txs <> []) by (intros ->; discriminate).
    rewrite (calc_root_merkle txs NE) in HR. injection HR as <-.
    assert (Hw : i < width hash txs 0) by (rewrite width_cdiv, cdiv_0; exact Hi).
    pose proof (branch_eval_node txs (tree_height hash txs) 0 i Hw) as E.
    change (calc_hash hash H2 h0 txs 0 i) with (nth i txs h0) in E. fold b in E. rewrite E.
    rewrite Nat.add_0_r.
    pose proof (shr_width txs (tree_height hash txs) 0 i Hw) as SW. rewrite Nat.add_0_r in SW.
    assert (W : width hash txs (tree_height hash txs) <= 1).
    { rewrite width_cdiv. apply cdiv_spec. pose proof (tree_height_small txs). lia. }
    replace (shr (tree_height hash txs) i) with 0 by lia. reflexivity.
  Qed.
End PMTProofs.
