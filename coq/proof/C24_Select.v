(* C24 — lemmas about model/C24_Select.v. *)
From Coq Require Import ZArith List Bool Lia Sorting.Sorted Sorting.Permutation.
From ELA Require Import model.C24_Select.
Import ListNotations.
Local Open Scope Z_scope.

Section World.
  Variable G : Type.
  Variable g_seed : Z -> G -> G.
  Variable g_intn : Z -> G -> Z * G.
  Variable draw : Z -> Z -> Z.

  (* the repaired selection: whatever the other goroutines do to the global
     source, and whatever state it is in, the answer is [select] of the chain
     data *)
  Lemma select_local_is_select : forall between g hash8 voted unclaimed normal cands,
    fst (select_local G g_seed g_intn draw between g hash8 voted unclaimed normal cands)
    = select draw hash8 voted unclaimed normal cands.
  Proof. reflexivity. Qed.

  Lemma select_local_schedule_independent : forall b1 b2 g1 g2 hash8 voted unclaimed normal cands,
    fst (select_local G g_seed g_intn draw b1 g1 hash8 voted unclaimed normal cands)
    = fst (select_local G g_seed g_intn draw b2 g2 hash8 voted unclaimed normal cands).
  Proof. reflexivity. Qed.

  (* ... and it leaves the global source to the others *)
  Lemma select_local_global_untouched : forall g hash8 voted unclaimed normal cands,
    snd (select_local G g_seed g_intn draw [] g hash8 voted unclaimed normal cands) = g.
  Proof. reflexivity. Qed.

  (* the selection as it was: if the generator's draw after one foreign draw
     differs from its first draw (true of Go's generator: harness witness),
     then the answer depends on the schedule *)
  Lemma select_global_schedule_dependent : forall g bs voted unclaimed normal cands n k,
    cand_n voted unclaimed normal cands = Some n ->
    fst (g_intn n (g_seed (le64 bs) g)) <> fst (g_intn n (snd (g_intn k (g_seed (le64 bs) g)))) ->
    fst (select_global G g_seed g_intn [] g (Some bs) voted unclaimed normal cands)
    <> fst (select_global G g_seed g_intn [OIntn k] g (Some bs) voted unclaimed normal cands).
  Proof.
    intros g bs voted unclaimed normal cands n k Hn Hd. unfold select_global. rewrite Hn. simpl.
    destruct (g_intn n (g_seed (le64 bs) g)) as [i1 g1] eqn:E1.
    destruct (g_intn n (snd (g_intn k (g_seed (le64 bs) g)))) as [i2 g2] eqn:E2.
    simpl in *. intro H. inversion H. contradiction.
  Qed.
End World.

(* ---- producer ordering *)

Definition R (a b : prod) : Prop := before a b = true.

Lemma before_trans a b c : R a b -> R b c -> R a c.
Proof.
  unfold R, before. destruct a as [va ka], b as [vb kb], c as [vc kc]; simpl.
  destruct (Z.eqb_spec va vb), (Z.eqb_spec vb vc), (Z.eqb_spec va vc); rewrite ?Z.ltb_lt; lia.
Qed.

Lemma before_asym a b : R a b -> R b a -> False.
Proof.
  unfold R, before. destruct a as [va ka], b as [vb kb]; simpl.
  destruct (Z.eqb_spec va vb), (Z.eqb_spec vb va); rewrite ?Z.ltb_lt; lia.
Qed.

Lemma before_total a b : snd a <> snd b -> before a b = false -> R b a.
Proof.
  unfold R, before. destruct a as [va ka], b as [vb kb]; simpl.
  destruct (Z.eqb_spec va vb), (Z.eqb_spec vb va); rewrite ?Z.ltb_lt, ?Z.ltb_ge; lia.
Qed.

Lemma insert_perm x l : Permutation (insert x l) (x :: l).
Proof.
  induction l as [|y r IH]; simpl; [reflexivity|].
  destruct (before y x); [|reflexivity].
  rewrite IH. apply perm_swap.
Qed.

Lemma sort_perm l : Permutation (sort_producers l) l.
Proof.
  induction l as [|x r IH]; simpl; [constructor|].
  rewrite insert_perm. constructor. exact IH.
Qed.

Lemma insert_sorted x l :
  (forall y, In y l -> snd y <> snd x) ->
  StronglySorted R l -> StronglySorted R (insert x l).
Proof.
  intros Hne Hs. induction Hs as [|y r Hs IH Hall]; simpl.
  - repeat constructor.
  - destruct (before y x) eqn:E.
    + constructor.
      * apply IH. intros z Hz. apply Hne. right; exact Hz.
      * rewrite Forall_forall in *. intros z Hz.
        apply (Permutation_in _ (insert_perm x r)) in Hz. destruct Hz as [<-|Hz]; [exact E|auto].
    + assert (Hxy : R x y) by (apply before_total; [apply Hne; left; reflexivity|exact E]).
      constructor; [constructor; assumption|].
      constructor; [exact Hxy|].
      rewrite Forall_forall in *. intros z Hz. eapply before_trans; [exact Hxy|auto].
Qed.

Lemma sort_sorted l : NoDup (map snd l) -> StronglySorted R (sort_producers l).
Proof.
  induction l as [|x r IH]; simpl; intros Hnd; [constructor|].
  inversion Hnd as [|k ks Hnotin Hnd']; subst.
  apply insert_sorted; [|apply IH, Hnd'].
  intros y Hy Heq. apply Hnotin. rewrite <- Heq.
  apply in_map. apply (Permutation_in _ (sort_perm r)), Hy.
Qed.

Lemma sorted_perm_eq : forall l1 l2,
  StronglySorted R l1 -> StronglySorted R l2 -> Permutation l1 l2 -> l1 = l2.
Proof.
  induction l1 as [|a r IH]; intros l2 H1 H2 Hp.
  - apply Permutation_nil in Hp. now subst.
  - destruct l2 as [|b s]; [apply Permutation_sym, Permutation_nil in Hp; discriminate|].
    inversion H1 as [|? ? Hr Ha]; inversion H2 as [|? ? Hs Hb]; subst.
    rewrite Forall_forall in Ha, Hb.
    assert (a = b).
    { assert (Hin1 : In a (b :: s)) by (eapply Permutation_in; [exact Hp|left; reflexivity]).
      assert (Hin2 : In b (a :: r)) by (eapply Permutation_in; [apply Permutation_sym, Hp|left; reflexivity]).
      destruct Hin1 as [->|Hin1]; [reflexivity|]. destruct Hin2 as [->|Hin2]; [reflexivity|].
      exfalso. eapply before_asym; [apply Ha, Hin2|apply Hb, Hin1]. }
    subst b. f_equal. apply IH; try assumption. eapply Permutation_cons_inv, Hp.
Qed.

(* the order of the arbiters does not depend on the order in which producers
   were inserted into (or are iterated out of) the activity map *)
Lemma sort_insertion_independent l l' :
  Permutation l l' -> NoDup (map snd l) -> sort_producers l = sort_producers l'.
Proof.
  intros Hp Hnd. apply sorted_perm_eq.
  - apply sort_sorted, Hnd.
  - apply sort_sorted. eapply Permutation_NoDup; [apply Permutation_map, Hp|exact Hnd].
  - rewrite sort_perm, sort_perm. exact Hp.
Qed.

Lemma NoDup_map_filter {A B} (g : A -> B) (f : A -> bool) l :
  NoDup (map g l) -> NoDup (map g (filter f l)).
Proof.
  induction l as [|x r IH]; simpl; intros H; [constructor|].
  inversion H as [|? ? Hn Hr]; subst.
  destruct (f x); simpl; [|auto].
  constructor; [|auto]. intro Hin. apply Hn.
  apply in_map_iff in Hin. destruct Hin as [y [Hy Hin]].
  apply filter_In in Hin. rewrite <- Hy. apply in_map, Hin.
Qed.

Lemma sorted_voted_insertion_independent l l' :
  Permutation l l' -> NoDup (map snd l) -> sorted_voted l = sorted_voted l'.
Proof.
  intros Hp Hnd. unfold sorted_voted. apply sort_insertion_independent.
  - clear Hnd. induction Hp; simpl.
    + constructor.
    + destruct (0 <? fst x); [constructor|]; assumption.
    + destruct (0 <? fst x), (0 <? fst y); try reflexivity; try apply perm_swap.
    + etransitivity; eassumption.
  - apply NoDup_map_filter, Hnd.
Qed.

(* ---- integer-valued float sums are exact, hence independent of the order *)
Section Rights.
  Variable round : Z -> Z.
  Hypothesis round_exact : forall z, Z.abs z <= 2 ^ 53 -> round z = z.

  Lemma abs_sum_nonneg l : 0 <= abs_sum l.
  Proof. induction l; simpl; lia. Qed.

  Lemma fold_fadd_exact : forall l a,
    Z.abs a + abs_sum l <= 2 ^ 53 -> fold_left (fadd round) l a = a + zsum l.
  Proof.
    induction l as [|x r IH]; intros a Hb; simpl in *.
    - lia.
    - pose proof (abs_sum_nonneg r).
      unfold fadd at 2. rewrite round_exact by lia. rewrite IH by lia. lia.
  Qed.

  Lemma zsum_abs l : Z.abs (zsum l) <= abs_sum l.
  Proof. induction l; simpl; lia. Qed.

  Lemma abs_sum_app l r : abs_sum (l ++ r) = abs_sum l + abs_sum r.
  Proof. induction l; simpl; lia. Qed.

  Lemma zsum_app l r : zsum (l ++ r) = zsum l + zsum r.
  Proof. induction l; simpl; lia. Qed.

  Lemma vote_rights_from_exact : forall stakes a,
    Z.abs a + abs_sum (concat stakes) <= 2 ^ 53 ->
    vote_rights_from round a stakes = a + zsum (concat stakes).
  Proof.
    unfold vote_rights_from.
    induction stakes as [|l r IH]; intros a Hb; simpl in *.
    - lia.
    - rewrite abs_sum_app in Hb. pose proof (abs_sum_nonneg l). pose proof (abs_sum_nonneg (concat r)).
      pose proof (zsum_abs l).
      assert (Hin : inner_total round l = zsum l).
      { unfold inner_total. rewrite fold_fadd_exact; simpl; lia. }
      rewrite Hin. unfold fadd at 2. rewrite round_exact by lia.
      rewrite IH by lia. rewrite zsum_app. lia.
  Qed.

  Lemma vote_rights_exact stakes :
    abs_sum (concat stakes) <= 2 ^ 53 -> vote_rights round stakes = zsum (concat stakes).
  Proof. intros Hb. unfold vote_rights. rewrite vote_rights_from_exact; simpl; lia. Qed.

  Lemma zsum_perm l l' : Permutation l l' -> zsum l = zsum l'.
  Proof. induction 1; simpl; lia. Qed.

  Lemma abs_sum_perm l l' : Permutation l l' -> abs_sum l = abs_sum l'.
  Proof. induction 1; simpl; lia. Qed.

  (* whatever order the two nested maps are walked in *)
  Lemma vote_rights_order_independent stakes stakes' :
    Permutation (concat stakes) (concat stakes') ->
    abs_sum (concat stakes) <= 2 ^ 53 ->
    vote_rights round stakes = vote_rights round stakes'.
  Proof.
    intros Hp Hb. rewrite !vote_rights_exact; auto.
    - apply zsum_perm, Hp.
    - rewrite <- (abs_sum_perm _ _ Hp). exact Hb.
  Qed.
End Rights.
