(* C25 proofs: two-thirds quorum of distinct current arbiters (model/C25_Confirm.v). *)
From Coq Require Import ZArith List Bool Lia.
From ELA Require Import model.C25_Confirm.
Import ListNotations.
Local Open Scope Z_scope.

(* ------------------------------------------------------------------ majority *)

Lemma all_range_spec : forall k lo f, all_range k lo f = true ->
  forall x, lo <= x < lo + 2 ^ Z.of_nat k -> f x = true.
Proof.
  induction k; intros lo f H x Hx; simpl in H.
  - replace x with lo by (simpl in Hx; lia). assumption.
  - apply andb_prop in H. destruct H as [H1 H2].
    rewrite Nat2Z.inj_succ, Z.pow_succ_r in Hx by lia.
    destruct (Z_lt_le_dec x (lo + 2 ^ Z.of_nat k)).
    + apply (IHk lo); auto. lia.
    + apply (IHk (lo + 2 ^ Z.of_nat k)); auto. lia.
Qed.

Lemma majority_sweep : all_range 16 0 (fun n => majority n =? 2 * n / 3) = true.
Proof. vm_compute. reflexivity. Qed.

Lemma majority_is_floor : forall n, 0 <= n < 65536 -> majority n = 2 * n / 3.
Proof.
  intros n Hn. apply Z.eqb_eq.
  apply (all_range_spec 16 0 (fun n => majority n =? 2 * n / 3) majority_sweep).
  change (2 ^ Z.of_nat 16) with 65536. lia.
Qed.

(* ------------------------------------------------------------------ lists *)

Lemma is_arbiter_in : forall arbs k, is_arbiter arbs k = true -> In k (map a_key arbs).
Proof.
  intros arbs k H. unfold is_arbiter in H. apply existsb_exists in H.
  destruct H as [a [Ha Hk]]. apply andb_prop in Hk. destruct Hk as [_ Hk].
  apply Z.eqb_eq in Hk. subst k. apply in_map. assumption.
Qed.

Lemma arbiters_count_nonempty : forall arbs fb, arbs <> [] ->
  arbiters_count arbs fb = Z.of_nat (length arbs).
Proof. intros [|a l] fb H; [congruence|reflexivity]. Qed.

Section Sound.
  Variable pverify : Z -> Z -> Z -> bool.
  Variable vverify : Z -> Z -> bool -> Z -> bool.

  (* what a vote must satisfy to count towards the quorum *)
  Definition good_vote (arbs : list arbiter) (p : proposal) (v : vote) : Prop :=
    v_accept v = true /\ v_hash v = p_hash p /\
    vverify (v_signer v) (p_hash p) true (v_sig v) = true /\
    In (v_signer v) (map a_key arbs).

  Lemma vote_ok_good : forall arbs p v,
    vote_ok vverify p v = true -> is_arbiter arbs (v_signer v) = true -> good_vote arbs p v.
  Proof.
    intros arbs p v H Ha. unfold vote_ok in H.
    apply andb_prop in H. destruct H as [H Hs]. apply andb_prop in H. destruct H as [Hacc Hh].
    apply Z.eqb_eq in Hh. unfold good_vote. rewrite Hacc, Hh in Hs.
    repeat split; auto using is_arbiter_in.
  Qed.

  Lemma confirm_sound : forall arbs fb c,
    Z.of_nat (length arbs) < 65536 ->
    confirm_check pverify vverify arbs fb c = true ->
    let p := c_prop c in
    let n := Z.of_nat (length arbs) in
    exists S : list Z,
      NoDup S /\ incl S (map a_key arbs) /\ 2 * n / 3 < Z.of_nat (length S) /\
      (forall k, In k S -> exists v, In v (c_votes c) /\ v_signer v = k /\ good_vote arbs p v) /\
      (forall v, In v (c_votes c) -> good_vote arbs p v) /\
      In (p_sponsor p) (map a_key arbs) /\
      pverify (p_sponsor p) (p_hash p) (p_sig p) = true.
  Proof.
    intros arbs fb c Hn H p n. unfold confirm_check in H.
    apply andb_prop in H. destruct H as [Hs Hc].
    unfold confirm_sanity in Hs. apply andb_prop in Hs. destruct Hs as [Hp Hv].
    unfold confirm_context in Hc. apply andb_prop in Hc. destruct Hc as [Hc Hva].
    apply andb_prop in Hc. destruct Hc as [Hm Hsp].
    rewrite forallb_forall in Hv, Hva.
    assert (Hall : forall v, In v (c_votes c) -> good_vote arbs p v)
      by (intros v Hin; apply vote_ok_good; auto).
    assert (Hne : arbs <> []) by (intro E; subst arbs; simpl in Hsp; discriminate).
    rewrite arbiters_count_nonempty in Hm by assumption.
    apply Z.ltb_lt in Hm. rewrite majority_is_floor in Hm by lia.
    exists (distinct_signers (c_votes c)).
    split; [apply NoDup_nodup|].
    split.
    { intros k Hk. unfold distinct_signers in Hk. apply nodup_In in Hk.
      apply in_map_iff in Hk. destruct Hk as [v [<- Hv']]. apply filter_In in Hv'.
      apply is_arbiter_in, Hva. tauto. }
    split; [exact Hm|].
    split.
    { intros k Hk. unfold distinct_signers in Hk. apply nodup_In in Hk.
      apply in_map_iff in Hk. destruct Hk as [v [Hkv Hv']]. apply filter_In in Hv'.
      exists v. split; [tauto|]. split; [assumption|]. apply Hall; tauto. }
    split; [exact Hall|].
    split; [apply is_arbiter_in; exact Hsp|exact Hp].
  Qed.
End Sound.

(* ------------------------------------------------------------------ quorum intersection *)

Definition inter (A B : list Z) : list Z := filter (fun x => if in_dec Z.eq_dec x B then true else false) A.
Definition diff (A B : list Z) : list Z := filter (fun x => if in_dec Z.eq_dec x B then false else true) A.

Lemma inter_diff_length : forall A B, length A = (length (inter A B) + length (diff A B))%nat.
Proof.
  induction A as [|a A IH]; intros B; simpl; [reflexivity|].
  destruct (in_dec Z.eq_dec a B); simpl; rewrite (IH B); lia.
Qed.

Lemma inter_spec : forall A B x, In x (inter A B) <-> In x A /\ In x B.
Proof.
  intros. unfold inter. rewrite filter_In. destruct (in_dec Z.eq_dec x B); intuition congruence.
Qed.

Lemma diff_spec : forall A B x, In x (diff A B) <-> In x A /\ ~ In x B.
Proof.
  intros. unfold diff. rewrite filter_In. destruct (in_dec Z.eq_dec x B); intuition congruence.
Qed.

Lemma NoDup_app_disjoint : forall (l1 l2 : list Z), NoDup l1 -> NoDup l2 ->
  (forall x, In x l1 -> ~ In x l2) -> NoDup (l1 ++ l2).
Proof.
  induction l1 as [|a l1 IH]; intros l2 H1 H2 Hd; simpl; auto.
  inversion H1; subst. constructor.
  - intro Hin. apply in_app_or in Hin. destruct Hin as [Hin|Hin]; [contradiction|].
    apply (Hd a); simpl; auto.
  - apply IH; auto. intros x Hx. apply Hd. simpl; auto.
Qed.

Lemma union_bound : forall U A B, NoDup A -> NoDup B -> incl A U -> incl B U ->
  (length (diff A B) + length B <= length U)%nat.
Proof.
  intros U A B HA HB IA IB. rewrite <- app_length.
  apply NoDup_incl_length.
  - apply NoDup_app_disjoint; auto.
    + unfold diff. apply NoDup_filter. assumption.
    + intros x Hx. apply diff_spec in Hx. tauto.
  - intros x Hx. apply in_app_or in Hx. destruct Hx as [Hx|Hx]; auto.
    apply diff_spec in Hx. apply IA. tauto.
Qed.

Lemma quorum_intersection : forall U A B : list Z,
  NoDup A -> NoDup B -> incl A U -> incl B U ->
  let n := Z.of_nat (length U) in
  2 * n / 3 < Z.of_nat (length A) -> 2 * n / 3 < Z.of_nat (length B) ->
  n < 3 * Z.of_nat (length (inter A B)).
Proof.
  intros U A B HA HB IA IB n QA QB.
  pose proof (union_bound U A B HA HB IA IB) as Hu.
  pose proof (inter_diff_length A B) as Hp.
  assert (0 <= n) by (unfold n; lia).
  assert (2 * n < 3 * Z.of_nat (length A)) by (pose proof (Z.div_mod (2 * n) 3); pose proof (Z.mod_pos_bound (2 * n) 3); lia).
  assert (2 * n < 3 * Z.of_nat (length B)) by (pose proof (Z.div_mod (2 * n) 3); pose proof (Z.mod_pos_bound (2 * n) 3); lia).
  unfold n in *. lia.
Qed.

(* Two accepted confirmations over the same arbiter set share more than a
   third of the arbiters, each of which validly signed both proposals. *)
Lemma two_confirms_intersect : forall pverify vverify arbs fb c1 c2,
  Z.of_nat (length arbs) < 65536 ->
  confirm_check pverify vverify arbs fb c1 = true ->
  confirm_check pverify vverify arbs fb c2 = true ->
  exists I : list Z,
    NoDup I /\ incl I (map a_key arbs) /\ Z.of_nat (length arbs) < 3 * Z.of_nat (length I) /\
    forall k, In k I ->
      (exists v, In v (c_votes c1) /\ v_signer v = k /\ good_vote vverify arbs (c_prop c1) v) /\
      (exists v, In v (c_votes c2) /\ v_signer v = k /\ good_vote vverify arbs (c_prop c2) v).
Proof.
  intros pverify vverify arbs fb c1 c2 Hn H1 H2.
  destruct (confirm_sound pverify vverify arbs fb c1 Hn H1) as [S1 (N1 & I1 & Q1 & W1 & _)].
  destruct (confirm_sound pverify vverify arbs fb c2 Hn H2) as [S2 (N2 & I2 & Q2 & W2 & _)].
  exists (inter S1 S2). repeat split.
  - unfold inter. apply NoDup_filter. assumption.
  - intros x Hx. apply inter_spec in Hx. apply I1. tauto.
  - pose proof (quorum_intersection (map a_key arbs) S1 S2 N1 N2 I1 I2) as Q.
    rewrite map_length in Q. apply Q; assumption.
  - apply W1. apply inter_spec in H. tauto.
  - apply W2. apply inter_spec in H. tauto.
Qed.
