(* C36 — lemmas about model/C36_Access.v. *)
From Coq Require Import List Bool String NArith PArith Lia.
From ELA Require Import lib.Graph proof.Graph model.C36_Access.
Import ListNotations.
Local Open Scope string_scope.

Section Access.
  Variable split_host : string -> option string.
  Variable parse_ip : string -> option (bool * string).
  Variable basic_auth : string -> string -> string.
  Variable H : string -> string.

  Definition address_authorised (remote : string) (whitelist : list string) : Prop :=
    exists host loopback ipstr,
      split_host remote = Some host /\ parse_ip host = Some (loopback, ipstr) /\
      (loopback = true \/ In "0.0.0.0" whitelist \/ In ipstr whitelist).

  (* credentials: none configured, or the first Authorization value is the
     configured Basic credential — or a SHA-256 collision with it *)
  Definition credential_authorised (user pass : string) (hdrs : list string) : Prop :=
    (user = "" /\ pass = "") \/
    exists h rest, hdrs = h :: rest /\
      (h = basic_auth user pass \/ (h <> basic_auth user pass /\ H h = H (basic_auth user pass))).

  Lemma client_allowed_sound remote wl :
    client_allowed split_host parse_ip remote wl = true -> address_authorised remote wl.
  Proof.
    unfold client_allowed, address_authorised.
    destruct (split_host remote) as [host|] eqn:E1; [|discriminate].
    destruct (parse_ip host) as [[lb ip]|] eqn:E2; [|discriminate].
    intros Hc. exists host, lb, ip. split; [reflexivity|]. split; [exact E2|].
    destruct lb; [left; reflexivity|right].
    apply existsb_exists in Hc. destruct Hc as [c [Hin Hc]].
    apply orb_prop in Hc. destruct Hc as [Hc|Hc]; apply String.eqb_eq in Hc; subst; auto.
  Qed.

  Lemma client_allowed_complete remote wl :
    address_authorised remote wl -> client_allowed split_host parse_ip remote wl = true.
  Proof.
    unfold client_allowed, address_authorised.
    intros [host [lb [ip [-> [-> Hc]]]]].
    destruct lb; [reflexivity|].
    destruct Hc as [Hc|[Hc|Hc]]; [discriminate| |];
      apply existsb_exists; eexists; (split; [exact Hc|]);
      rewrite String.eqb_refl; auto using orb_true_r.
  Qed.

  Lemma check_auth_sound user pass hdrs :
    check_auth basic_auth H user pass hdrs = true -> credential_authorised user pass hdrs.
  Proof.
    unfold check_auth, credential_authorised.
    destruct (String.eqb user pass && Nat.eqb (String.length user) 0) eqn:E.
    - intros _. left. apply andb_prop in E. destruct E as [E1 E2].
      apply String.eqb_eq in E1. apply PeanoNat.Nat.eqb_eq in E2.
      destruct user; [|discriminate]. subst. auto.
    - destruct hdrs as [|h rest]; [discriminate|]. intros Hc. right.
      exists h, rest. split; [reflexivity|]. apply String.eqb_eq in Hc.
      destruct (string_dec h (basic_auth user pass)); [left|right]; auto.
  Qed.

  (* a request reaches method dispatch only if the address is authorised and
     the credential is authorised (and it is a POST with an accepted content type) *)
  Lemma served_implies_authorised remote wl user pass is_post ctype_ok hdrs :
    handle split_host parse_ip basic_auth H remote wl user pass is_post ctype_ok hdrs = Dispatched ->
    address_authorised remote wl /\ credential_authorised user pass hdrs /\ is_post = true /\ ctype_ok = true.
  Proof.
    unfold handle.
    destruct (client_allowed split_host parse_ip remote wl) eqn:E1; simpl; [|discriminate].
    destruct is_post; simpl; [|discriminate].
    destruct ctype_ok; simpl; [|discriminate].
    destruct (check_auth basic_auth H user pass hdrs) eqn:E2; simpl; [|discriminate].
    intros _. auto using client_allowed_sound, check_auth_sound.
  Qed.

  (* conversely nothing else is refused at this stage *)
  Lemma authorised_is_served remote wl user pass hdrs :
    address_authorised remote wl ->
    check_auth basic_auth H user pass hdrs = true ->
    handle split_host parse_ip basic_auth H remote wl user pass true true hdrs = Dispatched.
  Proof.
    intros Ha Hc. unfold handle. rewrite (client_allowed_complete _ _ Ha), Hc. reflexivity.
  Qed.
End Access.

(* ---- service-level gate *)
Lemma gate_refuses g l cfg :
  (g <= l)%N -> (l < cfg)%N -> gate_runs g cfg = false.
Proof. unfold gate_runs. intros. apply negb_false_iff, N.ltb_lt. lia. Qed.

Lemma gate_runs_iff g cfg : gate_runs g cfg = true <-> (cfg <= g)%N.
Proof. unfold gate_runs. rewrite negb_true_iff, N.ltb_ge. tauto. Qed.

Lemma gate_le_spec g l : gate_le g l = true -> exists g', g = Some g' /\ (g' <= l)%N.
Proof. destruct g as [g'|]; simpl; [|discriminate]. intros Hl. exists g'. split; [reflexivity|apply N.leb_le, Hl]. Qed.

Lemma required_gated_sound hs :
  required_gated_b hs = true ->
  forall m n g l, In (m, n, g) hs -> lookup m required = Some l ->
    exists g', g = Some g' /\ (g' <= l)%N.
Proof.
  unfold required_gated_b. rewrite forallb_forall. intros Hall m n g l Hin Hl.
  specialize (Hall _ Hin). cbv beta iota in Hall. rewrite Hl in Hall. apply gate_le_spec, Hall.
Qed.

Lemma sinks_gated_sound gr sinks hs :
  sinks_gated_b gr sinks hs = true ->
  forall m n g s l, In (m, n, g) hs -> In (s, l) sinks -> reachable gr n s ->
    exists g', g = Some g' /\ (g' <= l)%N.
Proof.
  unfold sinks_gated_b. rewrite forallb_forall. intros Hall m n g s l Hin Hs Hr.
  specialize (Hall _ Hin). cbv beta iota in Hall.
  match type of Hall with context [reach_set ?a ?b] => destruct (reach_set a b) as [R|] eqn:HR end;
    [|discriminate].
  rewrite forallb_forall in Hall. specialize (Hall _ Hs). cbv beta in Hall. simpl fst in Hall. simpl snd in Hall.
  rewrite (reach_set_complete _ _ _ HR n s (or_introl eq_refl) Hr) in Hall.
  apply gate_le_spec, Hall.
Qed.
