(* C04: typed transaction / header / block codecs round-trip; the hash ignores
   programs.  Built on the generic descriptor theorems of proof/C04_Roundtrip.v
   and the inverse pair (x_v, x_of) between records and DSL values. *)
From Coq Require Import NArith PeanoNat List Lia Bool.
From ELA Require Import lib.GoSem lib.Bytes lib.VarInt model.C02_Fmt model.C02_Descr model.C04_Codec proof.C02_Registry
  proof.C02_BytesFacts proof.C02_Safe proof.C04_Roundtrip.
Import ListNotations.
Local Open Scope N_scope.

(* ---- traverse *)
Lemma traverse_map : forall A B (f : A -> option B) (g : B -> A) l,
  (forall b, f (g b) = Some b) -> traverse f (map g l) = Some l.
Proof. induction l; intros H; simpl; auto. rewrite H, IHl by auto. reflexivity. Qed.

Lemma traverse_map_in : forall A B (f : A -> option B) (g : B -> A) l,
  (forall b, In b l -> f (g b) = Some b) -> traverse f (map g l) = Some l.
Proof.
  induction l; intros H; simpl; auto.
  rewrite (H a (or_introl eq_refl)), IHl by (intros; apply H; right; auto). reflexivity.
Qed.

Lemma traverse_inv : forall A B (f : A -> option B) (g : B -> A),
  (forall a b, f a = Some b -> g b = a) ->
  forall l l', traverse f l = Some l' -> map g l' = l.
Proof.
  intros A B f g H. induction l; intros l' T; simpl in T.
  - inversion T. reflexivity.
  - destruct (f a) eqn:E; [|discriminate]. destruct (traverse f l) eqn:E2; [|discriminate].
    inversion T; subst. simpl. rewrite (H _ _ E), (IHl _ eq_refl). reflexivity.
Qed.

Lemma traverse_inv_P : forall A B (f : A -> option B) (g : B -> A) (P : B -> Prop),
  (forall a b, f a = Some b -> g b = a /\ P b) ->
  forall l l', traverse f l = Some l' -> map g l' = l /\ Forall P l'.
Proof.
  intros A B f g P H. induction l; intros l' T; simpl in T.
  - inversion T. split; [reflexivity|constructor].
  - destruct (f a) eqn:E; [|discriminate]. destruct (traverse f l) eqn:E2; [|discriminate].
    inversion T; subst. destruct (H _ _ E) as [H1 H2]. destruct (IHl _ eq_refl) as [I1 I2].
    split; [simpl; rewrite H1, I1; reflexivity|constructor; auto].
Qed.

(* ---- leaf conversions are mutually inverse *)
Lemma attr_of_v : forall a, attr_of (attr_v a) = Some a.
Proof. destruct a; reflexivity. Qed.
Lemma attr_v_of : forall v a, attr_of v = Some a -> attr_v a = v.
Proof. intros v a H. destruct v; try discriminate. destruct v; try discriminate. inversion H. reflexivity. Qed.

Lemma input_of_v : forall a, input_of (input_v a) = Some a.
Proof. destruct a as [[h i] s]; reflexivity. Qed.
Lemma input_v_of : forall v a, input_of v = Some a -> input_v a = v.
Proof.
  intros v a H. destruct v; try discriminate. destruct v1; try discriminate. destruct v2; try discriminate.
  destruct v2_1; try discriminate. destruct v2_2; try discriminate. inversion H. reflexivity.
Qed.

Lemma output_of_v : forall a, output_of (output_v a) = Some a.
Proof. destruct a as [a x l h [[t p]|]]; reflexivity. Qed.
Lemma output_v_of : forall v a, output_of v = Some a -> output_v a = v.
Proof.
  intros v a H. destruct v; try discriminate. destruct v1; try discriminate. destruct v2; try discriminate.
  destruct v2_1; try discriminate. destruct v2_2; try discriminate. destruct v2_2_1; try discriminate.
  destruct v2_2_2; try discriminate.
  - inversion H. reflexivity.
  - destruct v2_2_2_1; try discriminate. destruct v2_2_2_2; try discriminate. inversion H. reflexivity.
Qed.

Lemma program_of_v : forall a, program_of (program_v a) = Some a.
Proof. destruct a; reflexivity. Qed.
Lemma program_v_of : forall v a, program_of v = Some a -> program_v a = v.
Proof.
  intros v a H. destruct v; try discriminate. destruct v1; try discriminate. destruct v2; try discriminate.
  inversion H. reflexivity.
Qed.

(* ---- transactions *)
Lemma body_of_v : forall t ps, body_of (t_version t) (t_type t) (body_v t) ps = Some (set_programs t ps).
Proof.
  intros t ps. unfold body_of, body_v.
  rewrite (traverse_map _ _ attr_of attr_v _ attr_of_v), (traverse_map _ _ input_of input_v _ input_of_v),
          (traverse_map _ _ output_of output_v _ output_of_v).
  destruct t; reflexivity.
Qed.

Lemma tx_of_v : forall t, version_ok t = true -> tx_of (tx_v t) = Some t.
Proof.
  intros t V. unfold tx_of, tx_v, programs_v.
  rewrite (traverse_map _ _ program_of program_v _ program_of_v).
  unfold version_ok in V. unfold txu_v. destruct (9 <=? t_version t) eqn:E.
  - assert (S : set_programs t (t_programs t) = t) by (destruct t; reflexivity).
    pose proof (body_of_v t (t_programs t)) as B. rewrite S in B. unfold body_v in *. rewrite E. exact B.
  - simpl in V. rewrite orb_false_r in V. apply N.eqb_eq in V.
    pose proof (body_of_v t (t_programs t)) as B. rewrite V in B.
    assert (S : set_programs t (t_programs t) = t) by (destruct t; reflexivity). rewrite S in B.
    unfold body_v in *. exact B.
Qed.

Lemma body_v_of : forall ver ty v ps t, body_of ver ty v ps = Some t ->
  body_v t = v /\ t_version t = ver /\ t_type t = ty /\ t_programs t = ps.
Proof.
  intros ver ty v ps t H. unfold body_of in H.
  destruct v; try discriminate. destruct v; try discriminate. destruct v2; try discriminate.
  destruct v2_1; try discriminate. destruct v2_2; try discriminate. destruct v2_2_1; try discriminate.
  destruct v2_2_2; try discriminate. destruct v2_2_2_1; try discriminate. destruct v2_2_2_2; try discriminate.
  destruct (traverse attr_of l) eqn:A; [|discriminate].
  destruct (traverse input_of l0) eqn:I; [|discriminate].
  destruct (traverse output_of l1) eqn:O; [|discriminate].
  inversion H; subst. unfold body_v. simpl.
  rewrite (traverse_inv _ _ attr_of attr_v attr_v_of _ _ A),
          (traverse_inv _ _ input_of input_v input_v_of _ _ I),
          (traverse_inv _ _ output_of output_v output_v_of _ _ O). auto.
Qed.

Lemma tx_v_of : forall v t, tx_of v = Some t -> tx_v t = v /\ version_ok t = true.
Proof.
  intros v t H. unfold tx_of in H. destruct v; try discriminate. destruct v2; try discriminate.
  destruct (traverse program_of l) as [progs|] eqn:P; [|discriminate].
  pose proof (traverse_inv _ _ program_of program_v program_v_of _ _ P) as PM.
  destruct v1; try discriminate. destruct v1; try discriminate. destruct v1; try discriminate.
  - (* legacy: VTag ty (VTag p (VPair x y)) *)
    apply body_v_of in H. destruct H as [B [V [T PS]]].
    unfold tx_v, txu_v, version_ok, programs_v. rewrite V, B, T, PS, PM. auto.
  - (* version >= 9 *)
    destruct (9 <=? t0) eqn:E; [|discriminate].
    apply body_v_of in H. destruct H as [B [V [T PS]]].
    unfold tx_v, txu_v, version_ok, programs_v. rewrite V, B, T, PS, PM, E. rewrite orb_true_r. auto.
Qed.

Lemma tx_fmt_wf : wf_alloc tx_fmt = true /\ nodrop tx_fmt = true.
Proof. vm_compute. auto. Qed.
Lemma block_fmt_wf : wf_alloc block_fmt = true /\ nodrop block_fmt = true.
Proof. vm_compute. auto. Qed.
Lemma header_fmt_wf : wf_alloc header_fmt = true /\ nodrop header_fmt = true.
Proof. vm_compute. auto. Qed.
(* the only registered descriptors whose decoded values are not all re-encodable
   are the two that swallow a decode error (dpos ConsensusStatus / ResponseConsensus) *)
Lemma not_nodrop_ids : filter (fun i => negb (nodrop (fmt_of i))) format_ids = [400; 421].
Proof. vm_compute. reflexivity. Qed.

Theorem decode_encode_tx : forall t rest, wf_tx t = true ->
  decode_tx (encode_tx t ++ rest) = Ok (t, rest).
Proof.
  intros t rest W. unfold wf_tx in W. apply andb_true_iff in W. destruct W as [V W].
  unfold decode_tx, encode_tx, lift.
  pose proof (roundtrip tx_fmt (proj1 tx_fmt_wf) [] (tx_v t) rest W) as R.
  destruct (decode tx_fmt [] (encode tx_fmt [] (tx_v t) ++ rest)) as [r m]. simpl in R. subst r.
  rewrite (tx_of_v t V). reflexivity.
Qed.

(* what decodes is well formed, re-encodes, and decodes to itself *)
Theorem decoded_tx_stable : forall bs t rest, bytes_ok bs = true ->
  decode_tx bs = Ok (t, rest) ->
  wf_tx t = true /\ decode_tx (encode_tx t) = Ok (t, []).
Proof.
  intros bs t rest B D. unfold decode_tx, lift in D.
  destruct (decode tx_fmt [] bs) as [[[v r]| |] m] eqn:E; try discriminate.
  destruct (tx_of v) as [t'|] eqn:T; [|discriminate]. inversion D; subst.
  destruct (tx_v_of _ _ T) as [TV VO].
  destruct (decode_wt tx_fmt (proj2 tx_fmt_wf) [] bs v rest m B E) as [W _].
  assert (WF : wf_tx t = true) by (unfold wf_tx; rewrite VO, TV, W; reflexivity).
  split; [exact WF|].
  pose proof (decode_encode_tx t [] WF) as R. rewrite app_nil_r in R. exact R.
Qed.

Theorem redecoded_same_hash : forall bs t rest, bytes_ok bs = true ->
  decode_tx bs = Ok (t, rest) ->
  forall t' r', decode_tx (encode_tx t) = Ok (t', r') ->
  t' = t /\ forall H, tx_hash H t' = tx_hash H t.
Proof.
  intros bs t rest B D t' r' D'. destruct (decoded_tx_stable bs t rest B D) as [_ S].
  rewrite S in D'. inversion D'; subst. auto.
Qed.

(* ---- the hash ignores programs *)
Theorem encode_tx_split : forall t, encode_tx t = encode_unsigned t ++ encode_programs (t_programs t).
Proof. reflexivity. Qed.

Theorem hash_ignores_programs : forall (H : bytes -> bytes) t ps,
  tx_hash H (set_programs t ps) = tx_hash H t.
Proof. intros. destruct t. reflexivity. Qed.

Theorem unsigned_ignores_programs : forall t ps, encode_unsigned (set_programs t ps) = encode_unsigned t.
Proof. intros. destruct t. reflexivity. Qed.

Theorem serialization_splits : forall t ps,
  encode_tx (set_programs t ps) = encode_unsigned t ++ encode_programs ps.
Proof. intros t ps. rewrite encode_tx_split, unsigned_ignores_programs. destruct t; reflexivity. Qed.

(* ---- versions 1..8 are not representable: they are written like version 0 *)
Definition ambiguous_tx : tx := mkTx 3 2 0 VUnit [] [] [] 0 [].
Lemma version_type_ambiguity :
  version_ok ambiguous_tx = false /\
  encode_tx ambiguous_tx = encode_tx (mkTx 0 2 0 VUnit [] [] [] 0 []) /\
  decode_tx (encode_tx ambiguous_tx) = Ok (mkTx 0 2 0 VUnit [] [] [] 0 [], []).
Proof. vm_compute. auto. Qed.

(* ---- header and block *)
Lemma header_of_v : forall h, header_of (header_v h) = Some h.
Proof. destruct h; reflexivity. Qed.

Theorem decode_encode_header : forall h rest, wf_header h = true ->
  decode_header (encode_header h ++ rest) = Ok (h, rest).
Proof.
  intros h rest W. unfold decode_header, encode_header, lift.
  pose proof (roundtrip header_fmt (proj1 header_fmt_wf) [] (header_v h) rest W) as R.
  destruct (decode header_fmt [] (encode header_fmt [] (header_v h) ++ rest)) as [r m]. simpl in R. subst r.
  rewrite header_of_v. reflexivity.
Qed.

Theorem decode_encode_block : forall b rest, wf_block b = true ->
  decode_block (encode_block b ++ rest) = Ok (b, rest).
Proof.
  intros b rest W. unfold wf_block in W. apply andb_true_iff in W. destruct W as [V W].
  unfold decode_block, encode_block, lift.
  pose proof (roundtrip block_fmt (proj1 block_fmt_wf) [] (block_v b) rest W) as R.
  destruct (decode block_fmt [] (encode block_fmt [] (block_v b) ++ rest)) as [r m]. simpl in R. subst r.
  unfold block_of, block_v. rewrite header_of_v.
  rewrite forallb_forall in V.
  rewrite (traverse_map_in _ _ tx_of tx_v (b_txs b) (fun t I => tx_of_v t (V t I))).
  destruct b; reflexivity.
Qed.

Lemma header_v_of : forall v h, header_of v = Some h -> header_v h = v.
Proof.
  intros v h H. unfold header_of in H.
  repeat match type of H with
  | match ?x with _ => _ end = _ => destruct x; try discriminate
  end.
  inversion H. reflexivity.
Qed.

Theorem decoded_block_stable : forall bs b rest, bytes_ok bs = true ->
  decode_block bs = Ok (b, rest) ->
  wf_block b = true /\ decode_block (encode_block b) = Ok (b, []).
Proof.
  intros bs b rest B D. unfold decode_block, lift in D.
  destruct (decode block_fmt [] bs) as [[[v r]| |] m] eqn:E; try discriminate.
  destruct (block_of v) as [b'|] eqn:T; [|discriminate]. inversion D; subst.
  destruct (decode_wt block_fmt (proj2 block_fmt_wf) [] bs v rest m B E) as [W _].
  unfold block_of in T. destruct v; try discriminate. destruct v2; try discriminate.
  destruct (header_of v1) as [h|] eqn:HH; [|discriminate].
  destruct (traverse tx_of l) as [ts|] eqn:TT; [|discriminate]. inversion T; subst.
  destruct (traverse_inv_P _ _ tx_of tx_v (fun t => version_ok t = true) tx_v_of _ _ TT) as [M F].
  assert (WF : wf_block (mkBlock h ts) = true).
  { unfold wf_block, block_v. cbn [b_header b_txs]. rewrite (header_v_of _ _ HH), M, W, andb_true_r.
    apply forallb_forall. rewrite Forall_forall in F. exact F. }
  split; [exact WF|].
  pose proof (decode_encode_block _ [] WF) as R. rewrite app_nil_r in R. exact R.
Qed.

(* ---- every registered descriptor (all payloads, output payloads, messages) *)
Lemma registry_roundtrip : forall id, In id format_ids -> forall c v rest,
  wt (fmt_of id) c v = true ->
  fst (decode (fmt_of id) c (encode (fmt_of id) c v ++ rest)) = Ok (v, rest).
Proof.
  intros id I. apply roundtrip.
  pose proof C02_Registry.all_formats_wf as W. rewrite forallb_forall in W. apply W.
  unfold all_formats. apply in_map. exact I.
Qed.

Lemma registry_stable : forall id, In id format_ids -> id <> 400 -> id <> 421 -> forall c bs v rest m,
  bytes_ok bs = true -> decode (fmt_of id) c bs = (Ok (v, rest), m) ->
  wt (fmt_of id) c v = true /\
  fst (decode (fmt_of id) c (encode (fmt_of id) c v)) = Ok (v, []).
Proof.
  intros id I N1 N2 c bs v rest m B D.
  assert (IF : In (fmt_of id) all_formats) by (unfold all_formats; apply in_map; exact I).
  pose proof C02_Registry.all_formats_wf as W. rewrite forallb_forall in W. specialize (W _ IF).
  assert (N : nodrop (fmt_of id) = true).
  { destruct (nodrop (fmt_of id)) eqn:E; [reflexivity|exfalso].
    assert (IN : In id (filter (fun i => negb (nodrop (fmt_of i))) format_ids))
      by (apply filter_In; split; [exact I|rewrite E; reflexivity]).
    rewrite not_nodrop_ids in IN. simpl in IN. destruct IN as [IN|[IN|[]]]; congruence. }
  destruct (decode_wt _ N c bs v rest m B D) as [WT _]. split; [exact WT|].
  pose proof (roundtrip _ W c v [] WT) as R. rewrite app_nil_r in R. exact R.
Qed.

(* a concrete well-formed transaction: version 9 TransferAsset, one attribute,
   one input, one output with the default payload, one program *)
Definition sample_tx : tx :=
  mkTx 9 2 0 VUnit [(0, [1;2;3])] [(repeat 7 32, 1, 4294967295)]
       [mkOutput (repeat 5 32) 100000000 0 (repeat 18 21) (Some (0, VUnit))] 0
       [([64; 1; 2], [33; 2; 172])].
Lemma sample_tx_wf : wf_tx sample_tx = true /\ length (encode_tx sample_tx) = 128%nat.
Proof. vm_compute. auto. Qed.
