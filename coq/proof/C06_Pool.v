(* C06, mempool clause: the input slot keeps the pool free of shared outpoints
   under every sequence of append / remove / clean-submitted / check-all. *)
From Coq Require Import List ZArith NArith Bool Lia.
From ELA Require Import model.Ledger proof.Ledger_base proof.Ledger_unspent proof.C06_Ledger.
Import ListNotations.
Local Open Scope N_scope.

Record pinv (p : pool) : Prop := mkPinv {
  pi_ids : NoDup (ids (p_txs p));
  pi_inputs : NoDup (pool_inputs p);
  pi_slot : forall op h, In (op, h) (p_slot p) <-> exists x, In x (p_txs p) /\ t_id x = h /\ In op (t_ins x) }.

Lemma pinv_empty : pinv empty_pool.
Proof.
  constructor; simpl; try constructor.
  - intros [].
  - intros [x [[] _]].
Qed.

Lemma flat_nodup_unique {A B} (f : A -> list B) l x y a :
  NoDup (flat_map f l) -> In x l -> In y l -> In a (f x) -> In a (f y) -> x = y.
Proof.
  induction l as [|z r IH]; simpl; intros Hnd Hx Hy Hax Hay; [contradiction|].
  assert (Hz : NoDup (f z) /\ NoDup (flat_map f r) /\ forall b, In b (f z) -> ~ In b (flat_map f r)).
  { clear -Hnd. induction (f z) as [|c l0 IHl]; simpl in *.
    - split; [constructor|]. split; [exact Hnd|]. intros b [].
    - inversion Hnd as [|? ? Hn Hr]; subst. destruct (IHl Hr) as [A1 [A2 A3]]. split; [|split; [exact A2|]].
      + constructor; [|exact A1]. intros H. apply Hn. apply in_or_app. now left.
      + intros b [<-|Hb]; [intros H; apply Hn; apply in_or_app; now right|now apply A3]. }
  destruct Hz as [_ [Hr Hdisj]].
  destruct Hx as [->|Hx], Hy as [->|Hy]; auto.
  - exfalso. apply (Hdisj a Hax). apply in_flat_map. exists y. auto.
  - exfalso. apply (Hdisj a Hay). apply in_flat_map. exists x. auto.
Qed.

Lemma nodup_map_filter {A B} (f : A -> B) g l : NoDup (map f l) -> NoDup (map f (filter g l)).
Proof.
  induction l as [|x r IH]; simpl; intros H; [constructor|]. inversion H as [|? ? Hn Hr]; subst.
  destruct (g x); simpl; [|now apply IH]. constructor; [|now apply IH].
  intros Hin. apply Hn. apply in_map_iff in Hin. destruct Hin as [y [E Hy]]. apply filter_In in Hy.
  rewrite <- E. apply in_map. tauto.
Qed.

Lemma nodup_flat_filter {A B} (f : A -> list B) g l : NoDup (flat_map f l) -> NoDup (flat_map f (filter g l)).
Proof.
  induction l as [|x r IH]; simpl; intros H; [constructor|].
  assert (Hr : NoDup (flat_map f r)) by (clear -H; induction (f x); simpl in *; [exact H|inversion H; auto]).
  destruct (g x); simpl; [|now apply IH].
  apply NoDup_app_intro.
  - clear -H. induction (f x) as [|c l0 IHl]; simpl in *; [constructor|]. inversion H as [|? ? Hn Hr]; subst.
    constructor; [|now apply IHl]. intros Hc. apply Hn. apply in_or_app. now left.
  - now apply IH.
  - intros b Hb Hin. apply in_flat_map in Hin. destruct Hin as [y [Hy Hby]]. apply filter_In in Hy.
    clear IH Hr. induction (f x) as [|c l0 IHl]; simpl in *; [contradiction|]. inversion H as [|? ? Hn Hr]; subst.
    destruct Hb as [<-|Hb]; [|now apply IHl]. apply Hn. apply in_or_app. right. apply in_flat_map. exists y. tauto.
Qed.

Lemma find_id_some (txs : list tx) h x : In x txs -> t_id x = h -> exists y, find (fun z => t_id z =? h) txs = Some y /\ In y txs /\ t_id y = h.
Proof.
  intros Hx E. destruct (find (fun z => t_id z =? h) txs) as [y|] eqn:F.
  - apply find_some in F. destruct F as [Hy Ey]. apply N.eqb_eq in Ey. exists y. auto.
  - exfalso. apply (find_none _ _ F) in Hx. apply N.eqb_neq in Hx. contradiction.
Qed.

(* ---- removal *)
Lemma pool_remove_inv p t : pinv p -> pinv (pool_remove p t) /\
  (forall e, In e (p_slot (pool_remove p t)) -> In e (p_slot p)) /\
  (forall x, In x (p_txs p) -> t_id x = t_id t -> forall op, In op (t_ins x) -> forall h, ~ In (op, h) (p_slot (pool_remove p t))).
Proof.
  intros I. unfold pool_remove. destruct (find (fun x => t_id x =? t_id t) (p_txs p)) as [x|] eqn:F.
  - apply find_some in F. destruct F as [Hx Ex]. apply N.eqb_eq in Ex. split; [|split].
    + constructor; simpl.
      * apply nodup_map_filter. apply (pi_ids _ I).
      * unfold pool_inputs. simpl. apply nodup_flat_filter. apply (pi_inputs _ I).
      * intros op h. unfold slot_remove_keys. rewrite filter_In. simpl. rewrite (pi_slot _ I). split.
        -- intros [[y [Hy [Ey Hop]]] Hk]. exists y. split; [|auto]. apply filter_In. split; [exact Hy|].
           apply negb_true_iff. apply N.eqb_neq. intros E. apply negb_true_iff in Hk.
           assert (y = x) by (eapply ids_unique; eauto using (pi_ids _ I)). subst y.
           assert (existsb (op_eqb op) (t_ins x) = true) by (now apply existsb_op_in). congruence.
        -- intros [y [Hy [Ey Hop]]]. apply filter_In in Hy. destruct Hy as [Hy Hne]. split; [exists y; auto|].
           apply negb_true_iff. destruct (existsb (op_eqb op) (t_ins x)) eqn:Ex'; [|reflexivity]. exfalso.
           apply existsb_op_in in Ex'. assert (x = y) by (eapply flat_nodup_unique; eauto using (pi_inputs _ I)). subst y.
           apply negb_true_iff in Hne. now rewrite N.eqb_refl in Hne.
    + intros e He. simpl in He. unfold slot_remove_keys in He. apply filter_In in He. tauto.
    + intros y Hy Ey op Hop h Hin. simpl in Hin. unfold slot_remove_keys in Hin. apply filter_In in Hin. destruct Hin as [_ Hk].
      simpl in Hk. assert (y = x) by (eapply ids_unique; eauto using (pi_ids _ I); congruence). subst y.
      apply negb_true_iff in Hk. assert (existsb (op_eqb op) (t_ins x) = true) by (now apply existsb_op_in). congruence.
  - split; [exact I|]. split; [auto|]. intros x Hx Ex. exfalso. apply (find_none _ _ F) in Hx. apply N.eqb_neq in Hx. contradiction.
Qed.

(* ---- SideChainPow replacement *)
Lemma pool_remove_txs_sub p t x : In x (p_txs (pool_remove p t)) -> In x (p_txs p).
Proof.
  unfold pool_remove. destruct (find (fun y => t_id y =? t_id t) (p_txs p)); [|auto].
  simpl. intros H. apply filter_In in H. tauto.
Qed.

Lemma pool_replace_fold_inv (p : pool) (g : N) (l : list tx) : forall q, pinv q -> (forall x, In x (p_txs q) -> In x (p_txs p)) ->
  pinv (fold_left (fun p0 x => if same_pow g x then pool_remove p0 x else p0) l q) /\
  forall x, In x (p_txs (fold_left (fun p0 x => if same_pow g x then pool_remove p0 x else p0) l q)) -> In x (p_txs p).
Proof.
  induction l as [|y r IH]; intros q Iq Sq; simpl; [split; assumption|].
  apply IH.
  - destruct (same_pow g y); [apply (pool_remove_inv q y Iq)|exact Iq].
  - intros x Hx. destruct (same_pow g y); [apply Sq; eapply pool_remove_txs_sub; exact Hx|now apply Sq].
Qed.

Lemma pool_replace_pow_inv p t : pinv p ->
  pinv (pool_replace_pow p t) /\ forall x, In x (p_txs (pool_replace_pow p t)) -> In x (p_txs p).
Proof.
  intros I. unfold pool_replace_pow. destruct (t_side t); try (split; [exact I|auto]).
  apply pool_replace_fold_inv; auto.
Qed.

(* ---- append *)
Lemma pool_append_inv mat cur s p t : pinv p -> pinv (fst (pool_append mat cur s p t)).
Proof.
  intros I0. unfold pool_append. destruct (existsb (fun x => t_id x =? t_id t) (p_txs p)) eqn:Edup; [exact I0|].
  destruct (tx_sanity_ok t && tx_context_ok mat cur s t) eqn:G; [|exact I0].
  destruct (pool_replace_pow_inv p t I0) as [I Hsub]. set (p1 := pool_replace_pow p t) in *.
  destruct (negb (existsb (slot_has p1) (t_ins t))) eqn:Gslot; [|exact I].
  rewrite andb_true_iff in G. destruct G as [Gs _]. simpl.
  assert (Hdf : NoDup (t_ins t)).
  { unfold tx_sanity_ok in Gs. rewrite !andb_true_iff in Gs. destruct Gs as [_ Gd]. now apply (dup_free_NoDup op_eqb op_eqb_eq). }
  assert (Hnew : ~ In (t_id t) (ids (p_txs p1))).
  { intros Hin. unfold ids in Hin. apply in_map_iff in Hin. destruct Hin as [x [E Hx]]. apply Hsub in Hx.
    assert (existsb (fun x => t_id x =? t_id t) (p_txs p) = true) by (apply existsb_exists; exists x; split; [exact Hx|now apply N.eqb_eq]). congruence. }
  assert (Hfree : forall op, In op (t_ins t) -> ~ In op (pool_inputs p1)).
  { intros op Hop Hin. unfold pool_inputs in Hin. apply in_flat_map in Hin. destruct Hin as [x [Hx Hox]].
    apply negb_true_iff in Gslot. assert (existsb (slot_has p1) (t_ins t) = true); [|congruence].
    apply existsb_exists. exists op. split; [exact Hop|]. unfold slot_has. apply existsb_exists. exists (op, t_id x).
    split; [apply (pi_slot _ I); exists x; auto|now apply op_eqb_eq]. }
  constructor; simpl.
  - unfold ids. rewrite map_app. simpl. apply NoDup_snoc; [apply (pi_ids _ I)|exact Hnew].
  - unfold pool_inputs. simpl. rewrite flat_map_app. simpl. rewrite app_nil_r.
    apply NoDup_app_intro; [apply (pi_inputs _ I)|exact Hdf|]. intros op Hin Hop. now apply (Hfree op Hop).
  - intros op h. rewrite in_app_iff, (pi_slot _ I), in_map_iff. split.
    + intros [[x [Hx R]]|[op' [E Hop]]].
      * exists x. split; [apply in_or_app; now left|exact R].
      * inversion E; subst. exists t. split; [apply in_or_app; right; now left|auto].
    + intros [x [Hx [E Hop]]]. apply in_app_or in Hx. destruct Hx as [Hx|[<-|[]]].
      * left. exists x. auto.
      * right. exists op. split; [now rewrite E|exact Hop].
Qed.

Lemma forallb_filter_id {A} (f : A -> bool) l : forallb f l = true -> filter f l = l.
Proof.
  induction l as [|x r IH]; simpl; intros H; [reflexivity|]. apply andb_true_iff in H. destruct H as [H1 H2].
  rewrite H1. f_equal. now apply IH.
Qed.

(* ---- clean-submitted *)
Definition clean_inner (p : pool) (ops : list outpoint) : pool :=
  fold_left (fun p (op : outpoint) =>
                match find (fun e => op_eqb (fst e) op) (p_slot p) with
                | Some (_, holder) =>
                    match find (fun x => t_id x =? holder) (p_txs p) with Some x => pool_remove p x | None => p end
                | None => p end) ops p.

Lemma clean_inner_inv ops : forall p, pinv p ->
  pinv (clean_inner p ops) /\ (forall e, In e (p_slot (clean_inner p ops)) -> In e (p_slot p)) /\
  (forall op, In op ops -> forall h, ~ In (op, h) (p_slot (clean_inner p ops))).
Proof.
  induction ops as [|op r IH]; intros p I; simpl.
  - split; [exact I|]. split; [auto|intros op []].
  - set (p1 := match find (fun e => op_eqb (fst e) op) (p_slot p) with
               | Some (_, holder) => match find (fun x => t_id x =? holder) (p_txs p) with Some x => pool_remove p x | None => p end
               | None => p end).
    assert (H1 : pinv p1 /\ (forall e, In e (p_slot p1) -> In e (p_slot p)) /\ forall h, ~ In (op, h) (p_slot p1)).
    { unfold p1. destruct (find (fun e => op_eqb (fst e) op) (p_slot p)) as [[op' holder]|] eqn:F.
      - apply find_some in F. destruct F as [He Eop]. simpl in Eop. apply op_eqb_eq in Eop. subst op'.
        destruct (proj1 (pi_slot _ I op holder) He) as [x [Hx [Ex Hop]]].
        destruct (find_id_some _ _ _ Hx Ex) as [y [Fy [Hy Ey]]]. rewrite Fy.
        destruct (pool_remove_inv p y I) as [R1 [R2 R3]]. split; [exact R1|]. split; [exact R2|].
        intros h. assert (x = y) by (eapply ids_unique; eauto using (pi_ids _ I); congruence). subst y.
        apply (R3 x Hx eq_refl op Hop).
      - split; [exact I|]. split; [auto|]. intros h Hin. apply (find_none _ _ F) in Hin. simpl in Hin.
        assert (op_eqb op op = true) by (now apply op_eqb_eq). congruence. }
    destruct H1 as [I1 [S1 N1]]. destruct (IH p1 I1) as [I2 [S2 N2]]. fold (clean_inner p1 r).
    split; [exact I2|]. split; [auto|]. intros op0 [<-|Hin] h; [|now apply N2]. intros Hc. apply (N1 h). now apply S2.
Qed.

Lemma pool_clean_block_inv b : forall p, pinv p -> pinv (pool_clean_block p b).
Proof.
  unfold pool_clean_block. generalize (b_txs b). intros txs. induction txs as [|bt r IH]; intros p I; simpl; [exact I|].
  apply IH. destruct (t_cb bt); [exact I|]. fold (clean_inner p (t_ins bt)).
  destruct (clean_inner_inv (t_ins bt) p I) as [I1 [_ N1]].
  assert (Eslot : slot_remove_keys (p_slot (clean_inner p (t_ins bt))) (t_ins bt) = p_slot (clean_inner p (t_ins bt))).
  { unfold slot_remove_keys. apply forallb_filter_id. apply forallb_forall. intros [op h] He. simpl.
    apply negb_true_iff. destruct (existsb (op_eqb op) (t_ins bt)) eqn:Ex; [|reflexivity]. exfalso.
    apply existsb_op_in in Ex. exact (N1 op Ex h He). }
  rewrite Eslot. destruct (clean_inner p (t_ins bt)) as [tx0 sl0]. exact I1.
Qed.

Lemma pool_check_all_inv mat cur s p : pinv p -> pinv (pool_check_all mat cur s p).
Proof.
  unfold pool_check_all. generalize (p_txs p) at 1. intros l. revert p. induction l as [|t r IH]; intros p I; simpl; [exact I|].
  apply IH. destruct (tx_context_ok mat cur s t); [exact I|]. apply (pool_remove_inv p t I).
Qed.

Theorem pool_step_inv p o : pinv p -> pinv (pool_step p o).
Proof.
  intros I. destruct o; simpl.
  - now apply pool_append_inv.
  - apply (pool_remove_inv p t I).
  - now apply pool_clean_block_inv.
  - now apply pool_check_all_inv.
Qed.

Theorem mempool_no_shared_outpoint ops : NoDup (pool_inputs (fold_left pool_step ops empty_pool)).
Proof.
  apply pi_inputs. generalize pinv_empty. generalize empty_pool. induction ops as [|o r IH]; intros p I; simpl; [exact I|].
  apply IH. now apply pool_step_inv.
Qed.

(* a transaction (of any type but SideChainPow, which first evicts the pool's
   SideChainPow transactions of its own side chain) that spends an outpoint
   already claimed by a pool member is refused and the pool is unchanged *)
Theorem mempool_rejects_conflict mat cur s p t op :
  pinv p -> (forall g, t_side t <> SPow g) ->
  In op (pool_inputs p) -> In op (t_ins t) -> pool_append mat cur s p t = (p, false).
Proof.
  intros I Hside Hp Ht. unfold pool_append. destruct (existsb (fun x => t_id x =? t_id t) (p_txs p)); [reflexivity|].
  assert (Ep : pool_replace_pow p t = p).
  { unfold pool_replace_pow. destruct (t_side t) eqn:Es; try reflexivity. exfalso. now apply (Hside genesis). }
  rewrite Ep.
  assert (E : existsb (slot_has p) (t_ins t) = true).
  { apply existsb_exists. exists op. split; [exact Ht|]. unfold pool_inputs in Hp. apply in_flat_map in Hp.
    destruct Hp as [x [Hx Hox]]. unfold slot_has. apply existsb_exists. exists (op, t_id x).
    split; [apply (pi_slot _ I); exists x; auto|now apply op_eqb_eq]. }
  rewrite E. simpl. destruct (tx_sanity_ok t && tx_context_ok mat cur s t); reflexivity.
Qed.
