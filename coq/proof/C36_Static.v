(* C36 — static obligations, re-checked against the regenerated table
   (gen/C36_handlers.v) on every run. *)
From Coq Require Import List Bool String NArith PArith.
From ELA Require Import lib.Graph proof.Graph model.C36_Access proof.C36_Access gen.C36_handlers.
Import ListNotations.

Lemma all_privileged_gated :
  forall m n g l, In (m, n, g) C36_handlers.handlers -> lookup m required = Some l ->
    exists g', g = Some g' /\ (g' <= l)%N.
Proof. apply required_gated_sound. vm_compute. reflexivity. Qed.

Lemma sink_reaching_gated :
  forall m n g s l, In (m, n, g) C36_handlers.handlers -> In (s, l) C36_handlers.sinks ->
    reachable C36_handlers.graph n s -> exists g', g = Some g' /\ (g' <= l)%N.
Proof. apply sinks_gated_sound. vm_compute. reflexivity. Qed.

Lemma spec_registered : required_registered_b C36_handlers.handlers = true.
Proof. vm_compute. reflexivity. Qed.

(* non-vacuity: some handler reaches a sink of each class *)
Lemma static_nonvacuous :
  forallb (fun c => existsb (fun h => match h with (_, n, _) =>
      reach_ok C36_handlers.graph [n] (map fst (filter (fun s => N.eqb (snd s) c) C36_handlers.sinks)) end)
      C36_handlers.handlers) [0%N; 1%N; 2%N; 3%N] = true.
Proof. vm_compute. reflexivity. Qed.
