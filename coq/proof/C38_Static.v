(* C38 — the static obligations, re-checked against the regenerated table
   (gen/C38_uses.v) on every run. *)
From Coq Require Import List PArith NArith Bool.
From ELA Require Import lib.Graph proof.Graph gen.C38_uses.
Import ListNotations.

(* direct references of the listed functions *)
Definition no_direct_bad_b (g : ELA.lib.Graph.graph) (fs bad : list positive) : bool :=
  forallb (fun e =>
    if existsb (Pos.eqb (fst e)) fs
    then forallb (fun b => negb (existsb (Pos.eqb b) bad)) (snd e) else true) g.

Lemma existsb_eqb_In x l : existsb (Pos.eqb x) l = true <-> In x l.
Proof.
  rewrite existsb_exists. split.
  - intros [y [Hy He]]. apply Pos.eqb_eq in He. now subst.
  - intros H. exists x. split; [exact H|apply Pos.eqb_refl].
Qed.

Lemma no_direct_bad_sound g fs bad :
  no_direct_bad_b g fs bad = true ->
  forall f b, In f fs -> edge g f b -> ~ In b bad.
Proof.
  unfold no_direct_bad_b. rewrite forallb_forall. intros H f b Hf [l [Hin Hb]] Hbad.
  specialize (H _ Hin). simpl in H.
  assert (E : existsb (Pos.eqb f) fs = true) by (apply existsb_eqb_In, Hf).
  rewrite E in H. rewrite forallb_forall in H. specialize (H _ Hb).
  apply negb_true_iff in H.
  assert (existsb (Pos.eqb b) bad = true) by (apply existsb_eqb_In, Hbad). congruence.
Qed.

Lemma no_weak_random :
  forall s b, In s C38_uses.sources -> In b C38_uses.bad -> ~ reachable C38_uses.graph s b.
Proof. apply reach_false_sound. vm_compute. reflexivity. Qed.

Lemma no_weak_random_direct :
  forall f b, In f C38_uses.direct -> edge C38_uses.graph f b -> ~ In b C38_uses.bad.
Proof. apply no_direct_bad_sound. vm_compute. reflexivity. Qed.

(* the key-generating anchors do draw from crypto/rand *)
Lemma anchors_reach_secure :
  forall a, In a C38_uses.anchors ->
    exists c, In c C38_uses.secure /\ reachable C38_uses.graph (fst a) c.
Proof.
  assert (H : forallb (fun a => reach_ok C38_uses.graph [fst a] C38_uses.secure) C38_uses.anchors = true)
    by (vm_compute; reflexivity).
  rewrite forallb_forall in H. intros a Ha.
  destruct (reach_ok_witness _ _ _ (H a Ha)) as [s [c [Hs [Hc Hr]]]].
  destruct Hs as [<-|[]]. eauto.
Qed.

(* clock rule: no clock / pid reader is reachable from a key-material function
   once the out-edges of the logging packages are cut *)
Lemma no_clock :
  forall s c, In s C38_uses.sources -> In c C38_uses.clock ->
    ~ reachable (cut C38_uses.graph C38_uses.clock_barrier) s c.
Proof. apply reach_false_sound. vm_compute. reflexivity. Qed.

Lemma no_clock_direct :
  forall f c, In f C38_uses.direct -> edge C38_uses.graph f c -> ~ In c C38_uses.clock.
Proof. apply no_direct_bad_sound. vm_compute. reflexivity. Qed.

(* errors of calls that draw from crypto/rand are propagated, or checked with
   an error branch that leaves the normal path (or the call is classified as
   public randomness) *)
Lemma rand_errors_handled :
  forall f k, In (f, k) C38_uses.rand_err_sites -> k = 0%N \/ k = 1%N \/ k = 4%N.
Proof.
  assert (H : forallb (fun s => N.eqb (snd s) 0 || N.eqb (snd s) 1 || N.eqb (snd s) 4) C38_uses.rand_err_sites = true)
    by (vm_compute; reflexivity).
  rewrite forallb_forall in H. intros f k Hin. specialize (H _ Hin). simpl in H.
  apply orb_prop in H. destruct H as [H|H]; [apply orb_prop in H; destruct H as [H|H]|];
    apply N.eqb_eq in H; auto.
Qed.

Lemma static_nonvacuous :
  forallb (fun a => existsb (Pos.eqb (fst a)) C38_uses.sources) C38_uses.anchors = true
  /\ negb (Nat.eqb (length C38_uses.anchors) 0) = true
  /\ negb (Nat.eqb (length C38_uses.bad) 0) = true
  /\ negb (Nat.eqb (length C38_uses.direct) 0) = true
  /\ negb (Nat.eqb (length C38_uses.rand_err_sites) 0) = true.
Proof. vm_compute. repeat split. Qed.
