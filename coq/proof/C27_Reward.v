(* C27 specification-level definitions and lemmas.

   The loops of the model are parametric in the two float sub-expressions
   ibcr (block-confirm reward per arbiter) and share (votes |-> payout).  The
   lemmas here hold for ANY such functions, under the explicit, computable
   side condition [sane_loops]: no panic, ibcr and every share used are
   non-negative, and the exact (unwrapped) sum of everything credited fits an
   int64.  That Go's float expressions satisfy the side condition whenever
   0 <= reward, total votes > 0, 0 <= votes, sum of member votes <= total is
   NOT proved here; it is evaluated by vm_compute on every correspondence case
   (corr/C27_corr.v, [inputs_ok] -> [sane]) and on the sweep below. *)
From Coq Require Import ZArith Bool List Lia.
From ELA Require Import lib.GoFloat model.C27_Reward proof.C11_Issuance.
Import ListNotations.
Local Open Scope Z_scope.

(* ------------------------------------------------------------------ exact amounts *)

Section Spec.
  Variable ibcr : Z.
  Variable share : Z -> Z.
  Variable s : st.

  (* the amount credited for one arbiter, without wrap-around; None = panic *)
  Definition exact_of (v : version) (a : arb) : option (Z * Z * bool) :=
    let voted k := Some (k, ibcr + vshare share s k, false) in
    match v with
    | V0 => if a_in_map a then Some (s_crc_hash s, ibcr, false)
            else Some (a_owner a, ibcr + vshare share s (a_owner a), true)
    | V1 => if a_in_map a then
              Some (if negb (a_crc a) || negb (a_elected a) then s_destroy s else crc_dest s a, ibcr, false)
            else voted (a_owner a)
    | V2 => if a_in_map a then
              Some (if negb (a_crc a) || negb (a_elected a) || a_nodpk a then s_destroy s else crc_dest s a, ibcr, false)
            else voted (a_owner a)
    | V3 => if a_crc a then
              if negb (a_elected a) then Some (s_destroy s, ibcr, false)
              else if a_nodpk a then
                match a_prodhash a with None => None | Some ph => voted ph end
              else Some (crc_dest s a, ibcr, false)
            else voted (a_owner a)
    end.

  (* shares used by an arbiter are non-negative *)
  Definition arb_ok (v : version) (a : arb) : bool :=
    match exact_of v a with
    | None => false
    | Some (_, r, _) => ibcr <=? r          (* i.e. 0 <= share used (r = ibcr or ibcr + share) *)
    end.

  Fixpoint sum_arbs (v : version) (l : list arb) : Z :=
    match l with
    | [] => 0
    | a :: l' => match exact_of v a with Some (_, r, _) => r | None => 0 end + sum_arbs v l'
    end.

  Fixpoint sum_cands (l : list Z) : Z :=
    match l with [] => 0 | c :: l' => vshare share s c + sum_cands l' end.

  (* the exact amount counted as paid by the loops *)
  Definition paid_loops (v : version) : Z := sum_arbs v (s_arbs s) + sum_cands (s_cands s).

  Definition extra_total (v : version) : Z := Z.of_nat (n_extra s v) * ibcr.

  Definition sane_loops (v : version) : bool :=
    (0 <=? ibcr) && forallb (arb_ok v) (s_arbs s) &&
    forallb (fun c => 0 <=? vshare share s c) (s_cands s) &&
    (paid_loops v + extra_total v <=? max_int64).

  Definition is_early (v : version) : bool :=
    match v with
    | V0 | V1 => s_crc_count s =? n_arbs s
    | V2 => (n_arbs s =? 0) || (s_crc_count s =? n_arbs s)
    | V3 => s_pow s || (n_arbs s =? 0) || (s_crc_count s =? n_arbs s)
    end.

  Definition paid (v : version) (reward : Z) : Z := if is_early v then reward else paid_loops v.

  (* everything credited in the round map: paid plus the abnormal-CR credits
     that the code adds to the destroy address without counting them *)
  Definition credited (v : version) (reward : Z) : Z :=
    if is_early v then reward else paid_loops v + extra_total v.

  Definition sane (v : version) (reward : Z) : bool :=
    (0 <=? reward) && (reward <=? max_int64) && (is_early v || sane_loops v).
End Spec.

Fixpoint sum_map (m : list (Z * Z)) : Z :=
  match m with [] => 0 | (_, x) :: m' => x + sum_map m' end.

(* ------------------------------------------------------------------ maps *)

Definition entries_in (m : list (Z * Z)) (lo hi : Z) : Prop := forall k x, In (k, x) m -> lo <= x <= hi.

Lemma add64_exact : forall a b, 0 <= a -> 0 <= b -> a + b <= max_int64 -> add64 a b = a + b.
Proof.
  intros. unfold add64. apply wrap64_small. unfold in_int64, min_int64, max_int64 in *.
  apply andb_true_intro. split; apply Z.leb_le; lia.
Qed.

Lemma entries_weaken : forall m lo hi hi', entries_in m lo hi -> hi <= hi' -> entries_in m lo hi'.
Proof. intros m lo hi hi' H Hle k x Hin. specialize (H k x Hin). lia. Qed.

Lemma madd_entries : forall k x m acc,
  entries_in m 0 acc -> 0 <= acc -> 0 <= x -> acc + x <= max_int64 ->
  entries_in (madd k x m) 0 (acc + x).
Proof.
  intros k x m acc Hm Hacc Hx Hb.
  (* strengthen: work with the bound acc on old entries *)
  unfold madd. induction m as [| [k' v] m IH].
  - intros k0 y [E | []]. inversion E. subst. rewrite add64_exact by lia. lia.
  - cbn [upd]. destruct (k =? k') eqn:E1.
    + intros k0 y [E | Hin].
      * inversion E. subst. assert (0 <= v <= acc) by (apply (Hm k' v); left; reflexivity).
        rewrite add64_exact by lia. lia.
      * assert (0 <= y <= acc) by (apply (Hm k0 y); right; exact Hin). lia.
    + destruct (k <? k') eqn:E2.
      * intros k0 y [E | Hin].
        -- inversion E. subst. rewrite add64_exact by lia. lia.
        -- assert (0 <= y <= acc) by (apply (Hm k0 y); exact Hin). lia.
      * intros k0 y [E | Hin].
        -- inversion E. subst. assert (0 <= y <= acc) by (apply (Hm k0 y); left; reflexivity). lia.
        -- assert (Hm' : entries_in m 0 acc) by (intros k1 y1 H1; apply (Hm k1 y1); right; exact H1).
           exact (IH Hm' k0 y Hin).
Qed.

Lemma mset_entries : forall k x m acc,
  entries_in m 0 acc -> 0 <= acc -> 0 <= x -> entries_in (mset k x m) 0 (acc + x).
Proof.
  intros k x m acc Hm Hacc Hx. unfold mset. induction m as [| [k' v] m IH].
  - intros k0 y [E | []]. inversion E. subst. lia.
  - cbn [upd]. destruct (k =? k') eqn:E1.
    + intros k0 y [E | Hin].
      * inversion E. subst. lia.
      * assert (0 <= y <= acc) by (apply (Hm k0 y); right; exact Hin). lia.
    + destruct (k <? k') eqn:E2.
      * intros k0 y [E | Hin].
        -- inversion E. subst. lia.
        -- assert (0 <= y <= acc) by (apply (Hm k0 y); exact Hin). lia.
      * intros k0 y [E | Hin].
        -- inversion E. subst. assert (0 <= y <= acc) by (apply (Hm k0 y); left; reflexivity). lia.
        -- assert (Hm' : entries_in m 0 acc) by (intros k1 y1 H1; apply (Hm k1 y1); right; exact H1).
           exact (IH Hm' k0 y Hin).
Qed.

(* value found by the traversal of [upd] (0 when the key is absent) *)
Fixpoint getu (k : Z) (m : list (Z * Z)) : Z :=
  match m with
  | [] => 0
  | (k', v) :: m' => if k =? k' then v else if k <? k' then 0 else getu k m'
  end.

Lemma sum_upd : forall f k m, sum_map (upd f k m) = sum_map m - getu k m + f (getu k m).
Proof.
  intros f k m. induction m as [| [k' v] m IH].
  - cbn. lia.
  - cbn [upd getu]. destruct (k =? k'). cbn [sum_map]. lia.
    destruct (k <? k'). cbn [sum_map]. lia.
    cbn [sum_map]. rewrite IH. lia.
Qed.

Lemma getu_bounds : forall k m acc, entries_in m 0 acc -> 0 <= acc -> 0 <= getu k m <= acc.
Proof.
  intros k m acc Hm Hacc. induction m as [| [k' v] m IH]. cbn. lia.
  cbn [getu]. destruct (k =? k'). apply (Hm k' v). left. reflexivity.
  destruct (k <? k'). lia.
  apply IH. intros k1 y1 H1. apply (Hm k1 y1). right. exact H1.
Qed.

Lemma madd_sum : forall k x m acc,
  entries_in m 0 acc -> 0 <= acc -> 0 <= x -> acc + x <= max_int64 ->
  sum_map (madd k x m) = sum_map m + x.
Proof.
  intros k x m acc Hm Hacc Hx Hb. unfold madd. rewrite sum_upd.
  pose proof (getu_bounds k m acc Hm Hacc). rewrite add64_exact by lia. lia.
Qed.

Lemma mset_sum : forall k x m acc,
  entries_in m 0 acc -> 0 <= acc -> sum_map (mset k x m) <= sum_map m + x.
Proof.
  intros k x m acc Hm Hacc. unfold mset. rewrite sum_upd.
  pose proof (getu_bounds k m acc Hm Hacc). lia.
Qed.

(* ------------------------------------------------------------------ loops *)

Section Loops.
  Variable ibcr : Z.
  Variable share : Z -> Z.
  Variable s : st.
  Hypothesis Hibcr : 0 <= ibcr.

  Lemma pay_exact : forall v a k r asg,
    exact_of ibcr share s v a = Some (k, r, asg) -> ibcr <= r -> r <= max_int64 ->
    pay_of ibcr share s v a = PPay k r asg.
  Proof.
    intros v a k r asg H Hr Hmax.
    assert (Hadd : forall x, ibcr <= ibcr + x -> ibcr + x <= max_int64 -> add64 ibcr x = ibcr + x).
    { intros x H1 H2. apply add64_exact; lia. }
    unfold exact_of in H. unfold pay_of.
    destruct v.
    - destruct (a_in_map a); inversion H; subst; [reflexivity |]. rewrite Hadd by lia. reflexivity.
    - destruct (a_in_map a); inversion H; subst; [reflexivity |]. rewrite Hadd by lia. reflexivity.
    - destruct (a_in_map a); inversion H; subst; [reflexivity |]. rewrite Hadd by lia. reflexivity.
    - destruct (a_crc a).
      + destruct (negb (a_elected a)). inversion H; subst; reflexivity.
        destruct (a_nodpk a).
        * destruct (a_prodhash a); [| discriminate]. inversion H; subst. rewrite Hadd by lia. reflexivity.
        * inversion H; subst; reflexivity.
      + inversion H; subst. rewrite Hadd by lia. reflexivity.
  Qed.

  Lemma sum_arbs_nonneg : forall v l, forallb (arb_ok ibcr share s v) l = true -> 0 <= sum_arbs ibcr share s v l.
  Proof.
    intros v l. induction l as [| a l IH]; intros H. cbn. lia.
    cbn [forallb] in H. apply andb_prop in H. destruct H as [Ha Hl].
    cbn [sum_arbs]. unfold arb_ok in Ha. destruct (exact_of ibcr share s v a) as [[[k r] asg] |]; [| discriminate].
    apply Z.leb_le in Ha. specialize (IH Hl). lia.
  Qed.

  Lemma sum_cands_nonneg : forall l, forallb (fun c => 0 <=? vshare share s c) l = true -> 0 <= sum_cands share s l.
  Proof.
    induction l as [| c l IH]; intros H. cbn. lia.
    cbn [forallb] in H. apply andb_prop in H. destruct H as [Hc Hl]. apply Z.leb_le in Hc.
    cbn [sum_cands]. specialize (IH Hl). lia.
  Qed.

  (* arbiters loop: real and every entry stay exact *)
  Lemma run_arbs_inv : forall v l m real,
    forallb (arb_ok ibcr share s v) l = true ->
    0 <= real -> entries_in m 0 real -> sum_map m <= real ->
    real + sum_arbs ibcr share s v l <= max_int64 ->
    exists m', run_arbs ibcr share s v l m real = Some (m', real + sum_arbs ibcr share s v l) /\
               entries_in m' 0 (real + sum_arbs ibcr share s v l) /\
               sum_map m' <= real + sum_arbs ibcr share s v l.
  Proof.
    intros v l. induction l as [| a l IH]; intros m real Hok Hreal Hm Hsum Hb.
    - cbn. exists m. rewrite Z.add_0_r. auto.
    - cbn [forallb] in Hok. apply andb_prop in Hok. destruct Hok as [Ha Hl].
      pose proof (sum_arbs_nonneg v l Hl) as Hnn.
      cbn [sum_arbs] in *. unfold arb_ok in Ha.
      destruct (exact_of ibcr share s v a) as [[[k r] asg] |] eqn:E; [| discriminate].
      apply Z.leb_le in Ha.
      cbn [run_arbs]. rewrite (pay_exact v a k r asg E Ha) by lia.
      assert (Hadd : add64 real r = real + r) by (apply add64_exact; lia).
      rewrite Hadd.
      assert (Hm' : entries_in (if asg then mset k r m else madd k r m) 0 (real + r)).
      { destruct asg. apply mset_entries; (assumption || lia). apply madd_entries; (assumption || lia). }
      assert (Hs' : sum_map (if asg then mset k r m else madd k r m) <= real + r).
      { destruct asg. pose proof (mset_sum k r m real Hm Hreal). lia.
        rewrite (madd_sum k r m real) by (assumption || lia). lia. }
      destruct (IH _ (real + r) Hl ltac:(lia) Hm' Hs' ltac:(lia)) as (m' & Hrun & Hent & Hsm).
      exists m'. rewrite Hrun. split. f_equal. f_equal. lia. split.
      intros k0 x Hin. specialize (Hent k0 x Hin). lia. lia.
  Qed.

  Lemma run_cands_inv : forall l m real,
    forallb (fun c => 0 <=? vshare share s c) l = true ->
    0 <= real -> entries_in m 0 real -> sum_map m <= real ->
    real + sum_cands share s l <= max_int64 ->
    exists m', run_cands share s l m real = (m', real + sum_cands share s l) /\
               entries_in m' 0 (real + sum_cands share s l) /\
               sum_map m' <= real + sum_cands share s l.
  Proof.
    induction l as [| c l IH]; intros m real Hok Hreal Hm Hsum Hb.
    - cbn. exists m. rewrite Z.add_0_r. auto.
    - cbn [forallb] in Hok. apply andb_prop in Hok. destruct Hok as [Hc Hl]. apply Z.leb_le in Hc.
      pose proof (sum_cands_nonneg l Hl) as Hnn.
      cbn [sum_cands] in *. cbn [run_cands].
      assert (Hadd : add64 real (vshare share s c) = real + vshare share s c) by (apply add64_exact; lia).
      rewrite Hadd.
      assert (Hm' : entries_in (mset c (vshare share s c) m) 0 (real + vshare share s c))
        by (apply mset_entries; (assumption || lia)).
      pose proof (mset_sum c (vshare share s c) m real Hm Hreal) as Hs'.
      destruct (IH _ (real + vshare share s c) Hl ltac:(lia) Hm' ltac:(lia) ltac:(lia)) as (m' & Hrun & Hent & Hsm).
      exists m'. rewrite Hrun. split. f_equal. lia. split.
      intros k0 x Hin. specialize (Hent k0 x Hin). lia. lia.
  Qed.

  Lemma run_extra_inv : forall n m acc,
    0 <= acc -> entries_in m 0 acc -> sum_map m <= acc -> acc + Z.of_nat n * ibcr <= max_int64 ->
    entries_in (run_extra ibcr s n m) 0 (acc + Z.of_nat n * ibcr) /\
    sum_map (run_extra ibcr s n m) <= acc + Z.of_nat n * ibcr.
  Proof.
    induction n as [| n IH]; intros m acc Hacc Hm Hsum Hb.
    - cbn [run_extra]. rewrite Z.add_0_r. auto.
    - cbn [run_extra]. rewrite Nat2Z.inj_succ in *.
      assert (0 <= Z.of_nat n * ibcr) by (apply Z.mul_nonneg_nonneg; lia).
      replace (acc + Z.succ (Z.of_nat n) * ibcr) with ((acc + ibcr) + Z.of_nat n * ibcr) in * by lia.
      apply IH. lia. apply madd_entries; (assumption || lia).
      rewrite (madd_sum _ ibcr m acc) by (assumption || lia). lia. lia.
  Qed.

  Lemma loops_inv : forall v m0,
    sane_loops ibcr share s v = true -> (forall k x, In (k, x) m0 -> x = 0) ->
    exists m, loops ibcr share s v m0 = IOk m (paid_loops ibcr share s v) /\
              entries_in m 0 (paid_loops ibcr share s v + extra_total ibcr s v) /\
              sum_map m <= paid_loops ibcr share s v + extra_total ibcr s v /\
              0 <= extra_total ibcr s v /\
              0 <= paid_loops ibcr share s v <= max_int64.
  Proof.
    intros v m0 Hs Hm0. unfold sane_loops in Hs.
    apply andb_prop in Hs. destruct Hs as [Hs Hb]. apply andb_prop in Hs. destruct Hs as [Hs Hc].
    apply andb_prop in Hs. destruct Hs as [_ Ha]. apply Z.leb_le in Hb.
    unfold paid_loops, extra_total in *.
    pose proof (sum_arbs_nonneg v _ Ha) as Hna. pose proof (sum_cands_nonneg _ Hc) as Hnc.
    assert (Hex : 0 <= Z.of_nat (n_extra s v) * ibcr) by (apply Z.mul_nonneg_nonneg; lia).
    assert (Hm0' : entries_in m0 0 0) by (intros k x Hin; rewrite (Hm0 k x Hin); lia).
    assert (Hs0 : sum_map m0 <= 0).
    { clear - Hm0. induction m0 as [| [k x] m0 IH]. cbn. lia.
      cbn [sum_map]. rewrite (Hm0 k x) by (left; reflexivity).
      assert (sum_map m0 <= 0) by (apply IH; intros k1 x1 H1; apply (Hm0 k1 x1); right; exact H1). lia. }
    destruct (run_arbs_inv v (s_arbs s) m0 0 Ha ltac:(lia) Hm0' Hs0 ltac:(lia)) as (m1 & R1 & E1 & S1).
    rewrite Z.add_0_l in *.
    destruct (run_cands_inv (s_cands s) m1 _ Hc Hna E1 S1 ltac:(lia)) as (m2 & R2 & E2 & S2).
    unfold loops. rewrite R1, R2.
    assert (Hacc : 0 <= sum_arbs ibcr share s v (s_arbs s) + sum_cands share s (s_cands s)) by lia.
    destruct (run_extra_inv (n_extra s v) m2 _ Hacc E2 S2 Hb) as (E3 & S3).
    eexists. split. reflexivity.
    set (ex := Z.of_nat (n_extra s v) * ibcr) in *. clearbody ex.
    split; [exact E3 | split; [exact S3 | split; [exact Hex | lia]]].
  Qed.
End Loops.

(* ------------------------------------------------------------------ theorems, any ibcr/share *)

Section Main.
  Variable ibcr : Z.
  Variable share : Z -> Z.
  Variable s : st.

  Lemma early_dist : forall v reward, is_early s v = true -> dist_version ibcr share s v reward <> IErr ->
    exists k, dist_version ibcr share s v reward = IOk [(k, reward)] reward.
  Proof.
    intros v reward He Hne. unfold is_early in He. unfold dist_version in *. destruct v.
    - destruct (n_arbs s =? 0); [congruence |]. rewrite He. eauto.
    - destruct (n_arbs s =? 0); [congruence |]. rewrite He. eauto.
    - rewrite He. eauto.
    - rewrite He. eauto.
  Qed.

  Lemma late_dist : forall v reward, is_early s v = false -> dist_version ibcr share s v reward <> IErr ->
    exists m0, dist_version ibcr share s v reward = loops ibcr share s v m0 /\ (forall k x, In (k, x) m0 -> x = 0).
  Proof.
    intros v reward He Hne. unfold is_early in He. unfold dist_version in *. destruct v.
    - destruct (n_arbs s =? 0); [congruence |]. rewrite He. eexists. split. reflexivity.
      intros k x [E | []]. inversion E. reflexivity.
    - destruct (n_arbs s =? 0); [congruence |]. rewrite He. exists []. split. reflexivity. intros k x [].
    - rewrite He. exists []. split. reflexivity. intros k x [].
    - rewrite He. exists []. split. reflexivity. intros k x [].
  Qed.

  (* distribute = Ok (m, change)  ==>  0 <= change, paid = reward - change (exact
     integers, no wrap), every entry of the map is non-negative and bounded *)
  Lemma guard_ok : forall v reward m change,
    guard reward (dist_version ibcr share s v reward) = ROk m change ->
    sane ibcr share s v reward = true ->
    0 <= change /\
    paid ibcr share s v reward = reward - change /\
    0 <= paid ibcr share s v reward /\
    (forall k x, In (k, x) m -> 0 <= x) /\
    sum_map m <= credited ibcr share s v reward /\
    paid ibcr share s v reward <= credited ibcr share s v reward.
  Proof.
    intros v reward m change Hg Hs. unfold sane in Hs.
    apply andb_prop in Hs. destruct Hs as [Hs Hl]. apply andb_prop in Hs. destruct Hs as [H0 H1].
    apply Z.leb_le in H0. apply Z.leb_le in H1.
    assert (Hne : dist_version ibcr share s v reward <> IErr).
    { intro E. rewrite E in Hg. discriminate. }
    unfold paid, credited. destruct (is_early s v) eqn:He.
    - destruct (early_dist v reward He Hne) as [k E]. rewrite E in Hg. unfold guard in Hg.
      assert (Hc : sub64 reward reward = 0).
      { unfold sub64. rewrite Z.sub_diag. reflexivity. }
      rewrite Hc in Hg. cbn in Hg. inversion Hg. subst.
      repeat split; try lia. intros k0 x [Ein | []]. inversion Ein. lia. cbn [sum_map]. lia.
    - cbn [orb] in Hl.
      destruct (late_dist v reward He Hne) as (m0 & E & Hm0). rewrite E in Hg.
      assert (Hi : 0 <= ibcr).
      { unfold sane_loops in Hl. repeat (apply andb_prop in Hl; destruct Hl as [Hl ?]). apply Z.leb_le in Hl. exact Hl. }
      destruct (loops_inv ibcr share s Hi v m0 Hl Hm0) as (m' & El & Hent & Hsum & Hex & Hp).
      rewrite El in Hg. unfold guard in Hg.
      assert (Hc : sub64 reward (paid_loops ibcr share s v) = reward - paid_loops ibcr share s v).
      { unfold sub64. apply wrap64_small. unfold in_int64, min_int64, max_int64 in *.
        apply andb_true_intro. split; apply Z.leb_le; lia. }
      rewrite Hc in Hg.
      destruct (reward - paid_loops ibcr share s v <? 0) eqn:Elt; [discriminate |].
      apply Z.ltb_ge in Elt. inversion Hg. subst.
      repeat split; try lia. intros k x Hin. specialize (Hent k x Hin). lia.
  Qed.
End Main.

(* ------------------------------------------------------------------ instantiation with Go's floats *)

Definition go_sane (s : st) (v : version) (reward : Z) : bool :=
  sane (go_ibcr reward (count_of s v)) (go_share reward (s_total s)) s v reward.

Definition go_paid (s : st) (v : version) (reward : Z) : Z :=
  paid (go_ibcr reward (count_of s v)) (go_share reward (s_total s)) s v reward.

Lemma paid_le_reward : forall s v reward m change,
  distribute_v s v reward = ROk m change -> go_sane s v reward = true ->
  0 <= change /\ go_paid s v reward = reward - change /\ 0 <= go_paid s v reward.
Proof.
  intros s v reward m change H Hs. unfold distribute_v in H.
  destruct (guard_ok _ _ s v reward m change H Hs) as (A & B & C & _). auto.
Qed.

Lemma no_negative_entry : forall s v reward m change,
  distribute_v s v reward = ROk m change -> go_sane s v reward = true ->
  forall k x, In (k, x) m -> 0 <= x.
Proof.
  intros s v reward m change H Hs. unfold distribute_v in H.
  destruct (guard_ok _ _ s v reward m change H Hs) as (_ & _ & _ & D & _). exact D.
Qed.

Definition go_credited (s : st) (v : version) (reward : Z) : Z :=
  credited (go_ibcr reward (count_of s v)) (go_share reward (s_total s)) s v reward.

(* the round map never holds more than paid + the uncounted abnormal-CR credits *)
Lemma map_sum_relation : forall s v reward m change,
  distribute_v s v reward = ROk m change -> go_sane s v reward = true ->
  sum_map m <= go_credited s v reward /\ go_paid s v reward <= go_credited s v reward /\
  go_credited s v reward - go_paid s v reward =
    (if is_early s v then 0 else Z.of_nat (n_extra s v) * go_ibcr reward (count_of s v)).
Proof.
  intros s v reward m change H Hs. unfold distribute_v in H.
  destruct (guard_ok _ _ s v reward m change H Hs) as (_ & _ & _ & _ & E & F).
  repeat split; try assumption.
  unfold go_credited, go_paid, credited, paid, extra_total. destruct (is_early s v); lia.
Qed.

(* The guard alone (no side condition): a successful distribution never reports
   a negative remainder, and remainder and paid amount add up to the reward
   modulo 2^64. *)
Lemma change_nonneg_always : forall s v reward m change,
  distribute_v s v reward = ROk m change -> 0 <= change.
Proof.
  intros s v reward m change H. unfold distribute_v, guard in H.
  destruct (dist_version _ _ s v reward) as [| | m' real]; try discriminate.
  destruct (sub64 reward real <? 0) eqn:E; [discriminate |].
  apply Z.ltb_ge in E. inversion H. subst. exact E.
Qed.

(* ------------------------------------------------------------------ structural hypotheses *)

(* [sane_loops] from hypotheses on the inputs and three facts about the two
   rounding functions (pure integer / ordering reasoning):
     0 <= ibcr <= B1;  share is non-negative and at most B2 on [0, T];
     every recorded vote lies in [0, T]; no arbiter on a panicking path;
     (arbiters + abnormal seats) * B1 + (arbiters + candidates) * B2 fits int64. *)
Section Structural.
  Variable ibcr : Z.
  Variable share : Z -> Z.
  Variable s : st.
  Variable v : version.
  Variables T B1 B2 : Z.
  Hypothesis HT : 0 <= T.
  Hypothesis Hibcr : 0 <= ibcr <= B1.
  Hypothesis Hshare : forall x, 0 <= x <= T -> 0 <= share x <= B2.
  Hypothesis Hvotes : forall k x, In (k, x) (s_votes s) -> 0 <= x <= T.
  Hypothesis Hnopanic : forall a, In a (s_arbs s) -> exact_of ibcr share s v a <> None.
  Hypothesis Hfits :
    (Z.of_nat (length (s_arbs s)) + Z.of_nat (n_extra s v)) * B1 +
    (Z.of_nat (length (s_arbs s)) + Z.of_nat (length (s_cands s))) * B2 <= max_int64.

  Lemma lookup0_range : forall k, 0 <= lookup0 k (s_votes s) <= T.
  Proof.
    intros k. induction (s_votes s) as [| [k' x] m IH]. cbn. lia.
    cbn [lookup0]. destruct (k =? k').
    - apply (Hvotes k' x). left. reflexivity.
    - apply IH. intros k1 x1 H1. apply (Hvotes k1 x1). right. exact H1.
  Qed.

  Lemma vshare_range : forall k, 0 <= vshare share s k <= B2.
  Proof. intros k. unfold vshare. apply Hshare. apply lookup0_range. Qed.

  Lemma B2_nonneg : 0 <= B2.
  Proof. pose proof (Hshare 0 ltac:(lia)). lia. Qed.

  Lemma exact_range : forall a k r asg,
    exact_of ibcr share s v a = Some (k, r, asg) -> ibcr <= r <= B1 + B2.
  Proof.
    intros a k r asg H. pose proof B2_nonneg as HB.
    assert (Hv : forall h, ibcr <= ibcr + vshare share s h <= B1 + B2)
      by (intros h; pose proof (vshare_range h); lia).
    unfold exact_of in H. destruct v.
    - destruct (a_in_map a); inversion H; subst; [lia | apply Hv].
    - destruct (a_in_map a); inversion H; subst; [lia | apply Hv].
    - destruct (a_in_map a); inversion H; subst; [lia | apply Hv].
    - destruct (a_crc a).
      + destruct (negb (a_elected a)). inversion H; subst; lia.
        destruct (a_nodpk a).
        * destruct (a_prodhash a); [| discriminate]. inversion H; subst. apply Hv.
        * inversion H; subst; lia.
      + inversion H; subst. apply Hv.
  Qed.

  Lemma arbs_ok_all : forall l, (forall a, In a l -> In a (s_arbs s)) ->
    forallb (arb_ok ibcr share s v) l = true /\
    sum_arbs ibcr share s v l <= Z.of_nat (length l) * (B1 + B2).
  Proof.
    induction l as [| a l IH]; intros Hin. cbn. split. reflexivity. lia.
    assert (Ha : In a (s_arbs s)) by (apply Hin; left; reflexivity).
    destruct (IH (fun b Hb => Hin b (or_intror Hb))) as [IH1 IH2].
    cbn [forallb sum_arbs length]. unfold arb_ok.
    destruct (exact_of ibcr share s v a) as [[[k r] asg] |] eqn:E.
    - pose proof (exact_range a k r asg E) as Hr. split.
      + apply andb_true_intro. split. apply Z.leb_le. lia. exact IH1.
      + rewrite Nat2Z.inj_succ. lia.
    - exfalso. exact (Hnopanic a Ha E).
  Qed.

  Lemma cands_ok_all : forall l,
    forallb (fun c => 0 <=? vshare share s c) l = true /\
    sum_cands share s l <= Z.of_nat (length l) * B2.
  Proof.
    induction l as [| c l [IH1 IH2]]. cbn. split. reflexivity. lia.
    pose proof (vshare_range c) as Hc.
    cbn [forallb sum_cands length]. split.
    - apply andb_true_intro. split. apply Z.leb_le. lia. exact IH1.
    - rewrite Nat2Z.inj_succ. lia.
  Qed.

  Lemma structural_sane_loops : sane_loops ibcr share s v = true.
  Proof.
    unfold sane_loops.
    destruct (arbs_ok_all (s_arbs s) (fun a H => H)) as [A1 A2].
    destruct (cands_ok_all (s_cands s)) as [C1 C2].
    pose proof B2_nonneg as HB.
    rewrite A1, C1. rewrite !andb_true_r.
    apply andb_true_intro. split. apply Z.leb_le; lia.
    apply Z.leb_le. unfold paid_loops, extra_total.
    assert (Z.of_nat (n_extra s v) * ibcr <= Z.of_nat (n_extra s v) * B1)
      by (apply Z.mul_le_mono_nonneg_l; lia).
    set (na := Z.of_nat (length (s_arbs s))) in *. set (nc := Z.of_nat (length (s_cands s))) in *.
    set (ne := Z.of_nat (n_extra s v)) in *.
    assert (0 <= na) by (unfold na; lia). assert (0 <= nc) by (unfold nc; lia).
    nia.
  Qed.
End Structural.

(* distribution theorem under structural hypotheses (any rounding functions) *)
Lemma structural_ok : forall (ibcr : Z) (share : Z -> Z) s v reward T B1 B2 m change,
  0 <= reward <= max_int64 -> 0 <= T -> 0 <= ibcr <= B1 ->
  (forall x, 0 <= x <= T -> 0 <= share x <= B2) ->
  (forall k x, In (k, x) (s_votes s) -> 0 <= x <= T) ->
  (forall a, In a (s_arbs s) -> exact_of ibcr share s v a <> None) ->
  (Z.of_nat (length (s_arbs s)) + Z.of_nat (n_extra s v)) * B1 +
  (Z.of_nat (length (s_arbs s)) + Z.of_nat (length (s_cands s))) * B2 <= max_int64 ->
  guard reward (dist_version ibcr share s v reward) = ROk m change ->
  0 <= change /\
  paid ibcr share s v reward = reward - change /\
  0 <= paid ibcr share s v reward /\
  (forall k x, In (k, x) m -> 0 <= x) /\
  sum_map m <= credited ibcr share s v reward.
Proof.
  intros ibcr share s v reward T B1 B2 m change Hr HT Hi Hs Hv Hp Hf Hg.
  assert (Hsane : sane ibcr share s v reward = true).
  { unfold sane. destruct Hr as [Hr0 Hr1].
    apply andb_true_intro. split. apply andb_true_intro. split; apply Z.leb_le; assumption.
    rewrite (structural_sane_loops ibcr share s v T B1 B2 HT Hi Hs Hv Hp Hf). apply orb_true_r. }
  destruct (guard_ok ibcr share s v reward m change Hg Hsane) as (A & B & C & D & E & _).
  repeat split; assumption.
Qed.
